// Belongs in the package root directory (package gomatrixserverlib), e.g. as
// /tmp/au9/fed/finding1_test.go
package gomatrixserverlib

import (
	"context"
	"crypto/ed25519"
	"encoding/json"
	"fmt"
	"testing"
	"time"

	"github.com/matrix-org/gomatrixserverlib/spec"
)

type auditF1Verifier struct {
	keys map[spec.ServerName]ed25519.PublicKey
}

func (v auditF1Verifier) VerifyJSONs(ctx context.Context, requests []VerifyJSONRequest) ([]VerifyJSONResult, error) {
	res := make([]VerifyJSONResult, len(requests))
	for i, r := range requests {
		pk, ok := v.keys[r.ServerName]
		if !ok {
			res[i].Error = fmt.Errorf("unknown server %q", r.ServerName)
			continue
		}
		res[i].Error = VerifyJSON(string(r.ServerName), "ed25519:k", pk, r.Message)
	}
	return res, nil
}

type auditF1RoomQuerier struct{}

func (auditF1RoomQuerier) IsKnownRoom(ctx context.Context, roomID spec.RoomID) (bool, error) {
	return false, nil
}

type auditF1MembershipQuerier struct{}

func (auditF1MembershipQuerier) CurrentMembership(ctx context.Context, roomID spec.RoomID, senderID spec.SenderID) (string, error) {
	return "", nil
}

type auditF1StateQuerier struct{}

func (auditF1StateQuerier) GetAuthEvents(ctx context.Context, event PDU) (AuthEventProvider, error) {
	return nil, nil
}
func (auditF1StateQuerier) GetState(ctx context.Context, roomID spec.RoomID, stateWanted []StateKeyTuple) ([]PDU, error) {
	return nil, nil
}

func auditF1UserID(roomID spec.RoomID, senderID spec.SenderID) (*spec.UserID, error) {
	return spec.NewUserID(string(senderID), true)
}

// HandleInvite puts the inviting server's invite_room_state into the event it
// countersigns and returns. A stripped state event whose content repeats a
// member name (or is not UTF-8) ends up in the returned event, which then is
// text that no event parser of the library accepts any more - neither on this
// server nor on the inviting server that receives it as the answer. (The
// canonical-JSON check added for fractions / exponents does not look for
// either.) HandleInvite has to refuse such a request, or return an event that
// is still an event.
func TestAuditFinding1(t *testing.T) {
	ctx := context.Background()
	pubA, privA, _ := ed25519.GenerateKey(nil)
	pubB, privB, _ := ed25519.GenerateKey(nil)
	verifier := auditF1Verifier{keys: map[spec.ServerName]ed25519.PublicKey{"a.org": pubA, "b.org": pubB}}

	cases := map[string]string{
		"repeated member":        `[{"type":"m.room.name","state_key":"","sender":"@alice:a.org","content":{"name":"x","name":"y"}}]`,
		"repeated nested member": `[{"type":"m.room.name","state_key":"","sender":"@alice:a.org","content":{"a":{"b":1,"b":1}}}]`,
		"invalid UTF-8":          "[{\"type\":\"m.room.name\",\"state_key\":\"\",\"sender\":\"@alice:a.org\",\"content\":{\"name\":\"\xff\"}}]",
	}

	for _, ver := range []RoomVersion{RoomVersionV1, RoomVersionV5, RoomVersionV6, RoomVersionV10, RoomVersionV11} {
		verImpl := MustGetRoomVersion(ver)
		for name, strippedJSON := range cases {
			bob := "@bob:b.org"
			proto := &ProtoEvent{
				SenderID: "@alice:a.org", RoomID: "!room:a.org", Type: spec.MRoomMember, StateKey: &bob,
				Content: spec.RawJSON(`{"membership":"invite"}`), Depth: 5,
			}
			if verImpl.EventFormat() == EventFormatV2 {
				proto.PrevEvents = []string{"$prev"}
				proto.AuthEvents = []string{"$auth"}
			}
			invite, err := verImpl.NewEventBuilderFromProtoEvent(proto).Build(time.Now(), "a.org", "ed25519:k", privA)
			if err != nil {
				t.Fatalf("%s: build: %v", ver, err)
			}
			// the invite as the invited server parses it from the request
			invite, err = verImpl.NewEventFromUntrustedJSON(invite.JSON())
			if err != nil {
				t.Fatalf("%s: parse: %v", ver, err)
			}

			// the invite_room_state as the invited server decodes it from the request
			var stripped []InviteStrippedState
			if err = json.Unmarshal([]byte(strippedJSON), &stripped); err != nil {
				t.Fatalf("%s %s: decoding the stripped state: %v", ver, name, err)
			}

			roomID, _ := spec.NewRoomID("!room:a.org")
			invited, _ := spec.NewUserID(bob, true)
			out, err := HandleInvite(ctx, HandleInviteInput{
				RoomID: *roomID, RoomVersion: ver, InvitedUser: *invited, InvitedSenderID: spec.SenderID(bob),
				InviteEvent: invite, StrippedState: stripped,
				KeyID: "ed25519:k", PrivateKey: privB, Verifier: verifier,
				RoomQuerier: auditF1RoomQuerier{}, MembershipQuerier: auditF1MembershipQuerier{},
				StateQuerier: auditF1StateQuerier{}, UserIDQuerier: auditF1UserID,
			})
			if err != nil {
				continue // refused: fine
			}
			// What HandleInvite returns is sent back to the inviting server and
			// handed to the local room server: it has to be an event.
			reparsed, perr := verImpl.NewEventFromUntrustedJSON(out.JSON())
			if perr != nil {
				t.Errorf("room version %s, stripped state with %s: HandleInvite accepted the request and returned text that is not an event: %v (unsigned: %.120q)",
					ver, name, perr, out.Unsigned())
				continue
			}
			if err = VerifyEventSignatures(ctx, reparsed, verifier, auditF1UserID); err != nil {
				t.Errorf("room version %s, %s: the returned event does not verify: %v", ver, name, err)
			}
		}
	}
}
