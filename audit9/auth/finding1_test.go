// Belongs in the package root directory (package gomatrixserverlib_test), next to eventauth.go.
package gomatrixserverlib_test

import (
	"fmt"
	"testing"

	"github.com/matrix-org/gomatrixserverlib"
	"github.com/matrix-org/gomatrixserverlib/spec"
)

// TestAuditFinding1: a level-50 user gives another user a "users" entry of 100
// (above their own level) while users_default happens to be 100. The entry is
// new and its value is above the sender's level, so the event has to be
// refused (C08: "no user level ... has been set above the sender's current
// level"; auth rule: "for each entry being added to, or changed in, the users
// property: if the new value is greater than the sender's current power
// level, reject"). The library compares effective values only and accepts.
// Once users_default is lowered again (by anybody entitled to), the user
// keeps the 100 that the level-50 sender wrote.
func TestAuditFinding1(t *testing.T) {
	q := func(roomID spec.RoomID, senderID spec.SenderID) (*spec.UserID, error) {
		return spec.NewUserID(string(senderID), true)
	}
	for _, ver := range []gomatrixserverlib.RoomVersion{
		gomatrixserverlib.RoomVersionV1, gomatrixserverlib.RoomVersionV6,
		gomatrixserverlib.RoomVersionV10, gomatrixserverlib.RoomVersionV11,
	} {
		impl := gomatrixserverlib.MustGetRoomVersion(ver)
		n := 0
		mk := func(typ, stateKey, sender, content string) gomatrixserverlib.PDU {
			n++
			prev := `[]`
			js := fmt.Sprintf(`{"type":%q,"state_key":%q,"event_id":"$e%d:x","room_id":"!r:x","sender":%q,"content":%s,"origin_server_ts":%d,"depth":%d,"prev_events":%s,"auth_events":[]}`,
				typ, stateKey, n, sender, content, n, n, prev)
			ev, err := impl.NewEventFromTrustedJSON([]byte(js), false)
			if err != nil {
				t.Fatalf("v%s: %v", ver, err)
			}
			return ev
		}
		create := mk("m.room.create", "", "@c:x", fmt.Sprintf(`{"creator":"@c:x","room_version":%q}`, string(ver)))
		sJoin := mk("m.room.member", "@s:x", "@s:x", `{"membership":"join"}`)
		pl0 := mk("m.room.power_levels", "", "@c:x",
			`{"users":{"@c:x":100,"@s:x":50},"users_default":100,"events":{"m.room.power_levels":50}}`)
		// @s:x (level 50) writes "@z:x": 100
		pl1 := mk("m.room.power_levels", "", "@s:x",
			`{"users":{"@c:x":100,"@s:x":50,"@z:x":100},"users_default":100,"events":{"m.room.power_levels":50}}`)

		auth, err := gomatrixserverlib.NewAuthEvents([]gomatrixserverlib.PDU{create, sJoin, pl0})
		if err != nil {
			t.Fatal(err)
		}
		if err := gomatrixserverlib.Allowed(pl1, auth, q); err == nil {
			t.Errorf("room version %s: a level-50 sender was allowed to add the users entry \"@z:x\": 100", ver)
		}

		// Control: the same entry is refused when users_default is not 100,
		// so the library does know the rule; only the comparison by effective
		// value hides the new entry.
		pl0b := mk("m.room.power_levels", "", "@c:x",
			`{"users":{"@c:x":100,"@s:x":50},"users_default":0,"events":{"m.room.power_levels":50}}`)
		pl1b := mk("m.room.power_levels", "", "@s:x",
			`{"users":{"@c:x":100,"@s:x":50,"@z:x":100},"users_default":0,"events":{"m.room.power_levels":50}}`)
		authB, _ := gomatrixserverlib.NewAuthEvents([]gomatrixserverlib.PDU{create, sJoin, pl0b})
		if err := gomatrixserverlib.Allowed(pl1b, authB, q); err == nil {
			t.Errorf("room version %s: control case unexpectedly allowed", ver)
		}

		// What the accepted event buys: the creator lowers users_default to 0
		// (allowed); @z:x now holds 100 although nobody at or above 100 ever
		// granted it.
		authC, _ := gomatrixserverlib.NewAuthEvents([]gomatrixserverlib.PDU{create, mk("m.room.member", "@c:x", "@c:x", `{"membership":"join"}`), pl1})
		pl2 := mk("m.room.power_levels", "", "@c:x",
			`{"users":{"@c:x":100,"@s:x":50,"@z:x":100},"users_default":0,"events":{"m.room.power_levels":50}}`)
		if err := gomatrixserverlib.Allowed(pl2, authC, q); err != nil {
			t.Fatalf("room version %s: lowering users_default refused: %v", ver, err)
		}
	}
}
