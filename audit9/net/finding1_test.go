package fclient

// Belongs in: fclient/ (package fclient; uses the fake DNS helper setupFakeDNS
// of fclient/resolve_test.go and gock, like the existing resolution tests).

import (
	"context"
	"testing"

	"github.com/matrix-org/gomatrixserverlib/spec"
	"gopkg.in/h2non/gock.v1"
)

// TestAuditFinding1: a well-known reply (status 200, small, well-formed JSON)
// whose m.server is a string that is not a server name. Every other unusable
// reply (error status, oversized, bad JSON, no m.server, m.server of the wrong
// type or empty) is not honoured and the resolution goes on with the SRV
// records and port 8448 of the server name. This one makes the resolution of
// the - valid - server name fail with "Invalid server name": the server cannot
// be reached at all, although its SRV record / port 8448 are there.
func TestAuditFinding1(t *testing.T) {
	for _, mServer := range []string{
		"matrix.example.com/",         // a trailing slash
		"https://matrix.example.com",  // a URL instead of a name
		"matrix.example.com:",         // empty port
		"matrix.example.com:8448:8448", // two ports
		"matrix example com",          // blanks
		"::1",                         // IPv6 literal without brackets
	} {
		for _, withSRV := range []bool{true, false} {
			func() {
				defer gock.Off()
				gock.New("https://example.com").
					Get("/.well-known/matrix/server").
					Reply(200).
					JSON(map[string]string{"m.server": mServer})

				cleanup := setupFakeDNS(withSRV)
				defer cleanup()

				// what a reply without (usable) m.server gives: steps 4 and 5
				wantDest := "example.com:8448"
				if withSRV {
					wantDest = "matrix.otherexample.com:4242"
				}

				res, err := ResolveServer(context.Background(), spec.ServerName("example.com"))
				if err != nil {
					t.Errorf("m.server %q, SRV record %v: ResolveServer(\"example.com\") failed: %v; want the target %s",
						mServer, withSRV, err, wantDest)
					return
				}
				if len(res) != 1 || res[0].Destination != wantDest || res[0].Host != "example.com" || res[0].TLSServerName != "example.com" {
					t.Errorf("m.server %q, SRV record %v: got %+v, want {%s example.com example.com}", mServer, withSRV, res, wantDest)
				}
			}()
		}
	}

	// for comparison, the neighbouring cases behave as expected today:
	for _, body := range []string{`{"m.server":""}`, `{"m.server":5}`, `{}`, `{"m.server":`} {
		func() {
			defer gock.Off()
			gock.New("https://example.com").Get("/.well-known/matrix/server").Reply(200).BodyString(body)
			cleanup := setupFakeDNS(false)
			defer cleanup()
			res, err := ResolveServer(context.Background(), spec.ServerName("example.com"))
			if err != nil || len(res) != 1 || res[0].Destination != "example.com:8448" {
				t.Errorf("body %s: got %+v, %v", body, res, err)
			}
		}()
	}
}
