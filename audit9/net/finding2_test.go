package fclient

// Belongs in: fclient/ (package fclient)

import (
	"context"
	"crypto/tls"
	"fmt"
	"io"
	"net"
	"net/http"
	"net/http/httptest"
	"strconv"
	"sync"
	"testing"
	"time"

	"github.com/matrix-org/gomatrixserverlib/spec"
)

type finding2Resolver struct{}

func (finding2Resolver) LookupIPAddr(context.Context, string) ([]net.IPAddr, error) {
	return []net.IPAddr{{IP: net.IPv4(127, 0, 0, 1)}}, nil
}

// TestAuditFinding2: a server name that is reached through a delegated target
// (here: a cached resolution result, as an SRV record or a well-known file
// gives it) answers a request with a relative redirect. The second request
// belongs to the same server name, so it has to carry the same Host header and
// TLS server name as the first. With a client that has no overall timeout
// (WithTimeout(0)) the round tripper overwrites URL and Host of the very
// request http.Client keeps for following redirects, so the redirect is
// resolved against the connection target: the second request is sent for the
// server name "<target>:<port>", with that as Host header and the target as
// TLS server name.
func TestAuditFinding2(t *testing.T) {
	for _, timeout := range []time.Duration{30 * time.Second, 0} {
		var mu sync.Mutex
		var seen []string
		srv := httptest.NewUnstartedServer(http.HandlerFunc(func(w http.ResponseWriter, r *http.Request) {
			mu.Lock()
			seen = append(seen, fmt.Sprintf("%s Host=%s SNI=%s", r.URL.Path, r.Host, r.TLS.ServerName))
			mu.Unlock()
			if r.URL.Path == "/first" {
				w.Header().Set("Location", "/second")
				w.WriteHeader(http.StatusTemporaryRedirect)
				return
			}
			_, _ = w.Write([]byte("{}"))
		}))
		srv.TLS = &tls.Config{}
		srv.StartTLS()
		_, portStr, _ := net.SplitHostPort(srv.Listener.Addr().String())
		port, _ := strconv.Atoi(portStr)

		cache := NewDNSCache(16, time.Minute, []string{"127.0.0.0/8"}, nil)
		cache.resolver = finding2Resolver{} // every name is 127.0.0.1
		client := NewClient(
			WithSkipVerify(true), WithWellKnownSRVLookups(true), WithDNSCache(cache), WithTimeout(timeout),
		)
		// The resolution of example.com as an SRV record "srv-target.example:<port>" gives it.
		client.client.Transport.(*destinationTripper).resolutionCache.Store(spec.ServerName("example.com"), []ResolutionResult{{
			Destination:   fmt.Sprintf("srv-target.example:%d", port),
			Host:          "example.com",
			TLSServerName: "example.com",
		}})
		// (should the bug send the client to resolve "srv-target.example:<port>", that needs no lookup: step 2)

		req, err := http.NewRequest("GET", "matrix://example.com/first", nil)
		if err != nil {
			t.Fatal(err)
		}
		resp, err := client.DoHTTPRequest(context.Background(), req)
		if err != nil {
			t.Fatalf("timeout %v: %v", timeout, err)
		}
		_, _ = io.ReadAll(resp.Body)
		_ = resp.Body.Close()
		srv.Close()

		want := []string{
			"/first Host=example.com SNI=example.com",
			"/second Host=example.com SNI=example.com",
		}
		if fmt.Sprint(seen) != fmt.Sprint(want) {
			t.Errorf("WithTimeout(%v): the server saw\n  %q\nwant\n  %q", timeout, seen, want)
		}
	}
}
