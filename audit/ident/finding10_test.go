// Belongs in the package root directory (package gomatrixserverlib).
package gomatrixserverlib

import (
	"fmt"
	"testing"
	"time"

	"github.com/matrix-org/gomatrixserverlib/spec"
	"golang.org/x/crypto/ed25519"
)

func auditFinding10Event(t *testing.T, impl IRoomVersion, sender, typ string, stateKey *string, content string, auth []string) PDU {
	t.Helper()
	pe := ProtoEvent{
		SenderID: sender, RoomID: "!room:localhost", Type: typ, StateKey: stateKey, Depth: 1,
		PrevEvents: []string{}, AuthEvents: auth, Content: spec.RawJSON(content),
	}
	built, err := impl.NewEventBuilderFromProtoEvent(&pe).Build(time.Unix(1700000000, 0), "localhost", "ed25519:1", ed25519.NewKeyFromSeed(make([]byte, 32)))
	if err != nil {
		t.Fatalf("building %s: %v", typ, err)
	}
	// take the event through the untrusted parser, as if it came from another server
	ev, err := impl.NewEventFromUntrustedJSON(built.JSON())
	if err != nil {
		t.Fatalf("parsing %s: %v", typ, err)
	}
	return ev
}

// State resolution v1 (room version 1) dereferences the state key of every
// m.room.member and m.room.third_party_invite event among the auth events.
// An event of these types WITHOUT a state key is a perfectly parseable event
// (a message-like event), and any server can reference it from auth_events.
func TestAuditFinding10(t *testing.T) {
	impl := MustGetRoomVersion(RoomVersionV1)
	userIDForSender := func(roomID spec.RoomID, senderID spec.SenderID) (*spec.UserID, error) {
		return spec.NewUserID(string(senderID), true)
	}
	empty, alice := "", "@alice:localhost"
	create := auditFinding10Event(t, impl, alice, spec.MRoomCreate, &empty, `{"creator":"@alice:localhost"}`, []string{})
	join := auditFinding10Event(t, impl, alice, spec.MRoomMember, &alice, `{"membership":"join"}`, []string{create.EventID()})
	topicA := auditFinding10Event(t, impl, alice, "m.room.topic", &empty, `{"topic":"a"}`, []string{create.EventID(), join.EventID()})
	topicB := auditFinding10Event(t, impl, alice, "m.room.topic", &empty, `{"topic":"b"}`, []string{create.EventID(), join.EventID()})

	for _, typ := range []string{spec.MRoomMember, spec.MRoomThirdPartyInvite} {
		// no state key: accepted by the parser
		hostile := auditFinding10Event(t, impl, "@mallory:evil", typ, nil, `{"membership":"join"}`, []string{create.EventID()})
		func() {
			defer func() {
				if r := recover(); r != nil {
					t.Errorf("ResolveConflicts(room version 1) panicked on an auth event of type %s without state key: %v", typ, r)
				}
			}()
			_, err := ResolveConflicts(RoomVersionV1, []PDU{create, join, topicA, topicB}, []PDU{create, join, hostile}, userIDForSender, func(string) bool { return false })
			_ = err
		}()
		func() {
			defer func() {
				if r := recover(); r != nil {
					t.Errorf("ResolveStateConflicts panicked on an auth event of type %s without state key: %v", typ, fmt.Sprint(r))
				}
			}()
			_ = ResolveStateConflicts([]PDU{topicA, topicB}, []PDU{create, join, hostile}, userIDForSender)
		}()
	}
}
