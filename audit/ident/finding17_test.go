// Belongs in the package root directory (package gomatrixserverlib).
package gomatrixserverlib

import (
	"context"
	"encoding/json"
	"errors"
	"testing"

	"github.com/matrix-org/gomatrixserverlib/spec"
	"golang.org/x/crypto/ed25519"
)

type auditFinding17MakeJoin struct {
	RoomVersion RoomVersion `json:"room_version"`
	JoinEvent   ProtoEvent  `json:"event"`
}

func (r *auditFinding17MakeJoin) GetJoinEvent() ProtoEvent    { return r.JoinEvent }
func (r *auditFinding17MakeJoin) GetRoomVersion() RoomVersion { return r.RoomVersion }

type auditFinding17Client struct{ makeJoinBody string }

func (c *auditFinding17Client) MakeJoin(ctx context.Context, origin, s spec.ServerName, roomID, userID string) (MakeJoinResponse, error) {
	// decode the response body exactly as a federation client would
	var res auditFinding17MakeJoin
	if err := json.Unmarshal([]byte(c.makeJoinBody), &res); err != nil {
		return nil, err
	}
	return &res, nil
}

func (c *auditFinding17Client) SendJoin(ctx context.Context, origin, s spec.ServerName, event PDU) (SendJoinResponse, error) {
	return nil, errors.New("send_join: not reached in this test")
}

// A make_join response whose event template has "content": null makes
// PerformJoin write into a nil map.
func TestAuditFinding17(t *testing.T) {
	userID, err := spec.NewUserID("@alice:localhost", true)
	if err != nil {
		t.Fatal(err)
	}
	roomID, err := spec.NewRoomID("!room:remote")
	if err != nil {
		t.Fatal(err)
	}
	_, priv, _ := ed25519.GenerateKey(nil)
	for _, body := range []string{
		`{"room_version":"10","event":{"type":"m.room.member","room_id":"!room:remote","sender":"@alice:localhost","state_key":"@alice:localhost","content":null,"prev_events":[],"auth_events":[],"depth":5}}`,
		`{"room_version":"1","event":{"type":"m.room.member","room_id":"!room:remote","sender":"@alice:localhost","state_key":"@alice:localhost","content":null,"prev_events":[],"auth_events":[],"depth":5}}`,
	} {
		func() {
			defer func() {
				if r := recover(); r != nil {
					t.Errorf("PerformJoin panicked on the make_join response %s: %v", body, r)
				}
			}()
			_, ferr := PerformJoin(context.Background(), &auditFinding17Client{makeJoinBody: body}, PerformJoinInput{
				UserID: userID, RoomID: roomID, ServerName: "remote",
				Content:    map[string]interface{}{"displayname": "Alice"},
				PrivateKey: priv, KeyID: "ed25519:1", KeyRing: &KeyRing{},
				UserIDQuerier: func(roomID spec.RoomID, senderID spec.SenderID) (*spec.UserID, error) {
					return spec.NewUserID(string(senderID), true)
				},
			})
			if ferr == nil {
				t.Errorf("PerformJoin unexpectedly succeeded")
			}
		}()
	}
}
