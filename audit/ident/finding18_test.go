// Belongs in the package root directory (package gomatrixserverlib).
package gomatrixserverlib

import (
	"context"
	"testing"
	"time"

	"github.com/matrix-org/gomatrixserverlib/spec"
	"golang.org/x/crypto/ed25519"
)

type auditFinding18State struct{}

func (auditFinding18State) GetAuthEvents(ctx context.Context, event PDU) (AuthEventProvider, error) {
	return NewAuthEvents(nil)
}
func (auditFinding18State) GetState(ctx context.Context, roomID spec.RoomID, stateWanted []StateKeyTuple) ([]PDU, error) {
	return nil, nil
}

type auditFinding18Membership struct{}

func (auditFinding18Membership) CurrentMembership(ctx context.Context, roomID spec.RoomID, senderID spec.SenderID) (string, error) {
	return spec.Leave, nil
}

// The remote server's answer to PUT /v3/invite, already parsed by the federation
// client with NewEventFromUntrustedJSON.
type auditFinding18Client struct{ answer PDU }

func (c auditFinding18Client) SendInvite(ctx context.Context, event PDU, strippedState []InviteStrippedState) (PDU, error) {
	return c.answer, nil
}
func (c auditFinding18Client) SendInviteV3(ctx context.Context, event ProtoEvent, userID spec.UserID, roomVersion RoomVersion, strippedState []InviteStrippedState) (PDU, error) {
	return c.answer, nil
}

// Pseudo-ID rooms (org.matrix.msc4014): the event that the invited user's server
// returns from /v3/invite is only signature-checked (with the key that the event
// itself names as sender) before PerformInvite dereferences its state key. The
// remote server can answer with any self-signed event that has no state key.
func TestAuditFinding18(t *testing.T) {
	impl := MustGetRoomVersion(RoomVersionPseudoIDs)
	roomID, _ := spec.NewRoomID("!room:localhost")
	inviter, _ := spec.NewUserID("@alice:localhost", true)
	invitee, _ := spec.NewUserID("@bob:remote", true)

	// what the hostile server sends back: a message event signed by a key of its own
	_, evilKey, _ := ed25519.GenerateKey(nil)
	evilSender := spec.SenderIDFromPseudoIDKey(evilKey)
	pe := ProtoEvent{
		SenderID: string(evilSender), RoomID: roomID.String(), Type: "m.room.message", StateKey: nil, Depth: 1,
		PrevEvents: []string{}, AuthEvents: []string{}, Content: spec.RawJSON(`{"body":"boo"}`),
	}
	built, err := impl.NewEventBuilderFromProtoEvent(&pe).Build(time.Now(), spec.ServerName(evilSender), "ed25519:1", evilKey)
	if err != nil {
		t.Fatal(err)
	}
	answer, err := impl.NewEventFromUntrustedJSON(built.JSON())
	if err != nil {
		t.Fatalf("the hostile answer must be a parseable event: %v", err)
	}

	_, localKey, _ := ed25519.GenerateKey(nil)
	localSender := spec.SenderIDFromPseudoIDKey(localKey)
	stateKey := ""
	input := PerformInviteInput{
		RoomID: *roomID, RoomVersion: RoomVersionPseudoIDs, Inviter: *inviter, Invitee: *invitee, IsTargetLocal: false,
		EventTemplate: ProtoEvent{
			SenderID: string(localSender), RoomID: roomID.String(), Type: spec.MRoomMember, StateKey: &stateKey,
			PrevEvents: []string{}, AuthEvents: []string{}, Content: spec.RawJSON(`{"membership":"invite"}`),
		},
		KeyID: "ed25519:1", SigningKey: localKey, EventTime: time.Now(),
		MembershipQuerier: auditFinding18Membership{}, StateQuerier: auditFinding18State{},
		UserIDQuerier: func(roomID spec.RoomID, senderID spec.SenderID) (*spec.UserID, error) {
			return spec.NewUserID("@someone:localhost", true)
		},
		SenderIDQuerier: func(roomID spec.RoomID, userID spec.UserID) (*spec.SenderID, error) { return nil, nil },
		SenderIDCreator: func(ctx context.Context, userID spec.UserID, roomID spec.RoomID, roomVersion string) (spec.SenderID, ed25519.PrivateKey, error) {
			return localSender, localKey, nil
		},
		EventQuerier: func(ctx context.Context, roomID spec.RoomID, eventsNeeded []StateKeyTuple) (LatestEvents, error) {
			return LatestEvents{RoomExists: true, PrevEventIDs: []string{}, Depth: 2}, nil
		},
		StoreSenderIDFromPublicID: func(ctx context.Context, senderID spec.SenderID, userID string, id spec.RoomID) error { return nil },
	}

	defer func() {
		if r := recover(); r != nil {
			t.Fatalf("PerformInvite panicked on the event returned by the invited server: %v", r)
		}
	}()
	_, err = PerformInvite(context.Background(), input, auditFinding18Client{answer: answer})
	if err == nil {
		t.Errorf("PerformInvite accepted a message event as the signed invite")
	}
}
