// Belongs in the package root directory (package gomatrixserverlib).
package gomatrixserverlib

import (
	"bytes"
	"fmt"
	"os"
	"os/exec"
	"strings"
	"testing"
	"time"

	"github.com/matrix-org/gomatrixserverlib/spec"
	"golang.org/x/crypto/ed25519"
)

// State resolution v2.1 (room versions 12 and org.matrix.hydra.11) walks the auth
// chain of every conflicted event WITHOUT the "already walked" short cut
// (calculateFullAuthChainAndConflictedSubgraph re-walks every path when the
// origin is conflicted). The number of paths in an auth DAG grows exponentially
// with its depth: with L layers of two events that each name both events of the
// layer below, there are 2^L paths. 40 layers (84 small, valid events) keep
// ResolveConflictsNew busy for weeks, i.e. it does not return.
// The scenario runs in a child process because the library additionally prints a
// line to stdout for every path it finds.
func TestAuditFinding14(t *testing.T) {
	const layers = 40
	if os.Getenv("AUDIT_FINDING14_CHILD") == "1" {
		impl := MustGetRoomVersion(RoomVersionV12)
		key := ed25519.NewKeyFromSeed(make([]byte, 32))
		alice, empty := "@alice:localhost", ""
		build := func(roomID, typ string, stateKey *string, content string, auth []string) PDU {
			pe := ProtoEvent{
				SenderID: alice, RoomID: roomID, Type: typ, StateKey: stateKey, Depth: 1,
				PrevEvents: []string{}, AuthEvents: auth, Content: spec.RawJSON(content),
			}
			built, err := impl.NewEventBuilderFromProtoEvent(&pe).Build(time.Unix(1700000000, 0), "localhost", "ed25519:1", key)
			if err != nil {
				t.Fatalf("building %s: %v", typ, err)
			}
			ev, err := impl.NewEventFromUntrustedJSON(built.JSON())
			if err != nil {
				t.Fatal(err)
			}
			return ev
		}
		create := build("", spec.MRoomCreate, &empty, `{"room_version":"12"}`, []string{})
		roomID := "!" + strings.TrimPrefix(create.EventID(), "$")
		join := build(roomID, spec.MRoomMember, &alice, `{"membership":"join"}`, []string{})
		authEvents := []PDU{create, join}
		below := []string{join.EventID()}
		for i := 0; i < layers; i++ {
			ka, kb := fmt.Sprintf("a%d", i), fmt.Sprintf("b%d", i)
			a := build(roomID, "m.x", &ka, `{}`, below)
			b := build(roomID, "m.x", &kb, `{}`, below)
			authEvents = append(authEvents, a, b)
			below = []string{a.EventID(), b.EventID()}
		}
		topicA := build(roomID, "m.room.topic", &empty, `{"topic":"a"}`, below)
		topicB := build(roomID, "m.room.topic", &empty, `{"topic":"b"}`, below)
		userIDForSender := func(roomID spec.RoomID, senderID spec.SenderID) (*spec.UserID, error) {
			return spec.NewUserID(string(senderID), true)
		}
		start := time.Now()
		res, err := ResolveConflictsNew(RoomVersionV12, [][]PDU{{create, join, topicA}, {create, join, topicB}}, authEvents, userIDForSender, func(string) bool { return false })
		fmt.Fprintf(os.Stderr, "AUDIT_FINDING14_RETURNED %d events, err=%v, after %v\n", len(res), err, time.Since(start))
		return
	}

	cmd := exec.Command(os.Args[0], "-test.run", "^TestAuditFinding14$")
	cmd.Env = append(os.Environ(), "AUDIT_FINDING14_CHILD=1")
	var stderr bytes.Buffer
	cmd.Stdout = nil // discarded: one line per walked path
	cmd.Stderr = &stderr
	if err := cmd.Start(); err != nil {
		t.Fatal(err)
	}
	done := make(chan error, 1)
	go func() { done <- cmd.Wait() }()
	select {
	case err := <-done:
		if err != nil || !strings.Contains(stderr.String(), "AUDIT_FINDING14_RETURNED") {
			t.Fatalf("child failed: %v\n%s", err, stderr.String())
		}
		t.Log(strings.TrimSpace(stderr.String()))
	case <-time.After(30 * time.Second):
		_ = cmd.Process.Kill()
		t.Fatalf("ResolveConflictsNew (room version 12, %d valid events) did not return within 30 s", 2*layers+4)
	}
}
