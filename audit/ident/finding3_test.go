// Belongs in the package root directory (package gomatrixserverlib).
package gomatrixserverlib

import (
	"strings"
	"testing"
	"time"

	"github.com/matrix-org/gomatrixserverlib/spec"
	"golang.org/x/crypto/ed25519"
)

// In room version org.matrix.msc4014 (pseudo IDs) the sender of an event is not
// length-checked at all: a sender of more than 255 code points is built and
// accepted on receipt.
func TestAuditFinding3(t *testing.T) {
	key := ed25519.NewKeyFromSeed(make([]byte, 32))
	senders := map[string]string{
		"300 ASCII code points":    strings.Repeat("A", 300),
		"256 two-byte code points": strings.Repeat("é", 256),
		"user-ID shaped, 311 code points": "@" + strings.Repeat("a", 300) + ":localhost",
	}
	for ver, impl := range RoomVersions() {
		roomID := "!room:localhost"
		if impl.DomainlessRoomIDs() {
			roomID = "!" + strings.Repeat("A", 43)
		}
		for name, sender := range senders {
			sk := ""
			pe := ProtoEvent{
				SenderID: sender, RoomID: roomID, Type: "m.x", StateKey: &sk,
				PrevEvents: []string{}, AuthEvents: []string{}, Content: spec.RawJSON(`{}`),
			}
			ev, err := impl.NewEventBuilderFromProtoEvent(&pe).Build(time.Unix(1700000000, 0), "localhost", "ed25519:1", key)
			if err == nil {
				t.Errorf("room version %s: Build accepted an event with a sender of %s", ver, name)
			}
			if ev == nil {
				continue
			}
			if _, err = impl.NewEventFromUntrustedJSON(ev.JSON()); err == nil {
				t.Errorf("room version %s: NewEventFromUntrustedJSON accepted an event with a sender of %s", ver, name)
			}
		}
	}
}
