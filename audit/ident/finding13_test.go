// Belongs in the package root directory (package gomatrixserverlib).
package gomatrixserverlib

import (
	"context"
	"strings"
	"testing"
	"time"

	"github.com/matrix-org/gomatrixserverlib/spec"
	"golang.org/x/crypto/ed25519"
)

// VerifyEventAuthChain / checkAllowedByAuthEvents ask the EventProvider (in
// practice: GET /event/{id} or /event_auth on a remote server) for a missing
// auth event and then "retry". If the provider answers with some OTHER event
// (non-empty result that does not contain the requested ID) the retry finds the
// ID still missing and asks again - forever. From room version 3 on the event ID
// is computed from the returned JSON, so the remote server fully controls it.
func TestAuditFinding13(t *testing.T) {
	impl := MustGetRoomVersion(RoomVersionV10)
	key := ed25519.NewKeyFromSeed(make([]byte, 32))
	build := func(typ string, stateKey *string, content string, auth []string) PDU {
		pe := ProtoEvent{
			SenderID: "@alice:localhost", RoomID: "!room:localhost", Type: typ, StateKey: stateKey, Depth: 1,
			PrevEvents: []string{}, AuthEvents: auth, Content: spec.RawJSON(content),
		}
		built, err := impl.NewEventBuilderFromProtoEvent(&pe).Build(time.Unix(1700000000, 0), "localhost", "ed25519:1", key)
		if err != nil {
			t.Fatalf("building %s: %v", typ, err)
		}
		ev, err := impl.NewEventFromUntrustedJSON(built.JSON())
		if err != nil {
			t.Fatal(err)
		}
		return ev
	}
	empty := ""
	create := build(spec.MRoomCreate, &empty, `{"creator":"@alice:localhost","room_version":"10"}`, []string{})
	missingID := "$" + strings.Repeat("A", 43)
	msg := build("m.room.message", nil, `{"body":"hi"}`, []string{create.EventID(), missingID})

	userIDForSender := func(roomID spec.RoomID, senderID spec.SenderID) (*spec.UserID, error) {
		return spec.NewUserID(string(senderID), true)
	}
	calls := 0
	// A remote server that answers every request with the create event.
	provider := func(roomVersion RoomVersion, eventIDs []string) ([]PDU, error) {
		calls++
		return []PDU{create}, nil
	}

	done := make(chan error, 1)
	go func() { done <- VerifyEventAuthChain(context.Background(), msg, provider, userIDForSender) }()
	select {
	case err := <-done:
		t.Logf("returned after %d provider calls: %v", calls, err)
	case <-time.After(5 * time.Second):
		t.Fatalf("VerifyEventAuthChain did not return within 5 s; the event provider was asked for %s again and again", missingID)
	}
}
