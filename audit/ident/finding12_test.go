// Belongs in the package root directory (package gomatrixserverlib).
package gomatrixserverlib

import (
	"crypto/sha256"
	"encoding/base64"
	"encoding/json"
	"fmt"
	"os"
	"os/exec"
	"runtime/debug"
	"strings"
	"testing"
	"time"

	"github.com/matrix-org/gomatrixserverlib/spec"
)

// auditFinding12Event makes a room version 2 event (event format v1: the event
// ID is chosen by the sending server) with a correct content hash and parses it
// with NewEventFromUntrustedJSON, exactly as an event received over federation.
func auditFinding12Event(t *testing.T, id, typ string, stateKey *string, content string, authEventIDs []string) PDU {
	t.Helper()
	refs := []interface{}{}
	for _, a := range authEventIDs {
		refs = append(refs, []interface{}{a, map[string]string{"sha256": "AAAA"}})
	}
	m := map[string]interface{}{
		"event_id": id, "type": typ, "room_id": "!room:localhost", "sender": "@alice:localhost",
		"content": json.RawMessage(content), "depth": 1, "origin": "localhost", "origin_server_ts": 1700000000000,
		"auth_events": refs, "prev_events": []interface{}{},
	}
	if stateKey != nil {
		m["state_key"] = *stateKey
	}
	unhashed, _ := json.Marshal(m)
	canonical, err := CanonicalJSON(unhashed)
	if err != nil {
		t.Fatal(err)
	}
	sum := sha256.Sum256(canonical)
	m["hashes"] = map[string]string{"sha256": base64.RawStdEncoding.EncodeToString(sum[:])}
	m["signatures"] = map[string]interface{}{}
	raw, _ := json.Marshal(m)
	ev, err := MustGetRoomVersion(RoomVersionV2).NewEventFromUntrustedJSON(raw)
	if err != nil {
		t.Fatalf("parsing %s: %v", id, err)
	}
	if ev.EventID() != id || ev.Redacted() {
		t.Fatalf("unexpected event %s redacted=%v", ev.EventID(), ev.Redacted())
	}
	return ev
}

// Two more walks over auth_events in state resolution v2 have no cycle
// protection at all. In room version 2 (sender-chosen event IDs) two
// m.room.power_levels events can name each other as auth events:
//   - scenario "mainline": one of them is the resolved power-level event ->
//     createPowerLevelMainline recurses forever;
//   - scenario "offmainline": a conflicted (non power) event points at such a
//     pair that is NOT on the mainline -> getFirstPowerLevelMainlineEvent
//     recurses forever.
// Both end in "fatal error: stack overflow", which kills the process, so each
// scenario runs in a child process.
func TestAuditFinding12(t *testing.T) {
	if os.Getenv("AUDIT_FINDING12_CHILD") == "1" {
		debug.SetMaxStack(16 << 20) // fail fast instead of eating 1 GB
		userIDForSender := func(roomID spec.RoomID, senderID spec.SenderID) (*spec.UserID, error) {
			return spec.NewUserID(string(senderID), true)
		}
		empty, alice := "", "@alice:localhost"
		create := auditFinding12Event(t, "$create:localhost", spec.MRoomCreate, &empty, `{"creator":"@alice:localhost","room_version":"2"}`, nil)
		join := auditFinding12Event(t, "$join:localhost", spec.MRoomMember, &alice, `{"membership":"join"}`, []string{"$create:localhost"})
		plContent := `{"users":{"@alice:localhost":100}}`
		isRejected := func(string) bool { return false }
		var res []PDU
		var err error
		switch os.Getenv("AUDIT_FINDING12_SCENARIO") {
		case "mainline":
			plA := auditFinding12Event(t, "$plA:evil", spec.MRoomPowerLevels, &empty, plContent, []string{"$create:localhost", "$join:localhost", "$plB:evil"})
			plB := auditFinding12Event(t, "$plB:evil", spec.MRoomPowerLevels, &empty, plContent, []string{"$create:localhost", "$join:localhost", "$plA:evil"})
			t1 := auditFinding12Event(t, "$t1:localhost", "m.room.topic", &empty, `{"topic":"a"}`, []string{"$create:localhost", "$join:localhost", "$plA:evil"})
			t2 := auditFinding12Event(t, "$t2:localhost", "m.room.topic", &empty, `{"topic":"b"}`, []string{"$create:localhost", "$join:localhost", "$plA:evil"})
			// plA is unconflicted current state, the two topics conflict
			res, err = ResolveConflicts(RoomVersionV2, []PDU{create, join, plA, t1, t2}, []PDU{create, join, plA, plB}, userIDForSender, isRejected)
		case "offmainline":
			pl := auditFinding12Event(t, "$pl:localhost", spec.MRoomPowerLevels, &empty, plContent, []string{"$create:localhost", "$join:localhost"})
			plA := auditFinding12Event(t, "$plA:evil", spec.MRoomPowerLevels, &empty, plContent, []string{"$create:localhost", "$join:localhost", "$plB:evil"})
			plB := auditFinding12Event(t, "$plB:evil", spec.MRoomPowerLevels, &empty, plContent, []string{"$create:localhost", "$join:localhost", "$plA:evil"})
			t1 := auditFinding12Event(t, "$t1:evil", "m.room.topic", &empty, `{"topic":"a"}`, []string{"$create:localhost", "$join:localhost", "$plA:evil"})
			t2 := auditFinding12Event(t, "$t2:localhost", "m.room.topic", &empty, `{"topic":"b"}`, []string{"$create:localhost", "$join:localhost", "$pl:localhost"})
			res, err = ResolveConflicts(RoomVersionV2, []PDU{create, join, pl, t1, t2}, []PDU{create, join, pl, plA, plB}, userIDForSender, isRejected)
		}
		fmt.Printf("AUDIT_FINDING12_RETURNED %d %v\n", len(res), err)
		return
	}

	for _, scenario := range []string{"mainline", "offmainline"} {
		cmd := exec.Command(os.Args[0], "-test.run", "^TestAuditFinding12$", "-test.v")
		cmd.Env = append(os.Environ(), "AUDIT_FINDING12_CHILD=1", "AUDIT_FINDING12_SCENARIO="+scenario)
		type result struct {
			out []byte
			err error
		}
		done := make(chan result, 1)
		go func() { out, err := cmd.CombinedOutput(); done <- result{out, err} }()
		select {
		case r := <-done:
			out := string(r.out)
			if r.err != nil || !strings.Contains(out, "AUDIT_FINDING12_RETURNED") {
				if i := strings.Index(out, "runtime stack:"); i > 0 {
					out = out[:i]
				}
				t.Errorf("scenario %s: state resolution over two room version 2 power-level events that reference each other crashed the process: %v\n%s", scenario, r.err, out)
			}
		case <-time.After(180 * time.Second):
			_ = cmd.Process.Kill()
			t.Errorf("scenario %s: state resolution did not return within 180 s (endless recursion)", scenario)
		}
	}
}
