// Belongs in the spec/ directory (package spec).
package spec

import "testing"

// An IPv6 literal is only a valid host when written in square brackets.
// IPv4-mapped IPv6 addresses are accepted without brackets, because
// net.ParseIP(host).To4() is non-nil for them.
func TestAuditFinding6(t *testing.T) {
	// controls
	for _, s := range []string{"1.2.3.4", "1.2.3.4:80", "[::ffff:1.2.3.4]", "[::ffff:1.2.3.4]:80", "[::1]"} {
		if _, _, valid := ParseAndValidateServerName(ServerName(s)); !valid {
			t.Fatalf("control %q refused", s)
		}
	}
	for _, s := range []string{"::1", "2001:db8::1", "::1.2.3.4"} {
		if _, _, valid := ParseAndValidateServerName(ServerName(s)); valid {
			t.Fatalf("control %q accepted", s)
		}
	}
	for _, s := range []string{"::ffff:1.2.3.4", "::ffff:1.2.3.4:8448", "::ffff:102:ff", "0:0:0:0:0:ffff:1.2.3.4", "::FFFF:1.2.3.4"} {
		if host, port, valid := ParseAndValidateServerName(ServerName(s)); valid {
			t.Errorf("ParseAndValidateServerName(%q) = (%q, %d, true): unbracketed IPv6 literal accepted", s, host, port)
		}
	}
	if u, err := NewUserID("@alice:::ffff:1.2.3.4", false); err == nil {
		t.Errorf("NewUserID accepted %q (domain %q)", u.String(), u.Domain())
	}
	if r, err := NewRoomID("!room:::ffff:1.2.3.4"); err == nil {
		t.Errorf("NewRoomID accepted %q (domain %q)", r.String(), r.Domain())
	}
}
