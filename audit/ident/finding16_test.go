// Belongs in the package root directory (package gomatrixserverlib).
package gomatrixserverlib

import (
	"encoding/json"
	"strings"
	"testing"
	"time"

	"github.com/matrix-org/gomatrixserverlib/spec"
	"golang.org/x/crypto/ed25519"
)

// On receipt the top-level keys "unsigned" (all versions), "outlier",
// "destinations", "age_ts" and - for event format v2 - "event_id" are deleted
// BEFORE the event is measured, so an event whose JSON on the wire is far larger
// than 65 536 bytes is accepted as long as the excess sits in one of these keys.
// Build, in contrast, counts "unsigned".
func TestAuditFinding16(t *testing.T) {
	key := ed25519.NewKeyFromSeed(make([]byte, 32))
	big := strings.Repeat("x", 70000)
	for ver, impl := range RoomVersions() {
		roomID := "!room:localhost"
		if impl.DomainlessRoomIDs() {
			roomID = "!" + strings.Repeat("A", 43)
		}
		sk := ""
		pe := ProtoEvent{
			SenderID: "@s:localhost", RoomID: roomID, Type: "m.x", StateKey: &sk,
			PrevEvents: []string{}, AuthEvents: []string{}, Content: spec.RawJSON(`{}`),
		}
		ev, err := impl.NewEventBuilderFromProtoEvent(&pe).Build(time.Unix(1700000000, 0), "localhost", "ed25519:1", key)
		if err != nil {
			t.Fatalf("%s: %v", ver, err)
		}
		// control: Build counts unsigned
		pe.Unsigned = spec.RawJSON(`{"junk":"` + big + `"}`)
		if _, err = impl.NewEventBuilderFromProtoEvent(&pe).Build(time.Unix(1700000000, 0), "localhost", "ed25519:1", key); err == nil {
			t.Fatalf("%s: control failed: Build accepted a 70 KB unsigned", ver)
		}
		for _, k := range []string{"unsigned", "age_ts", "destinations", "outlier"} {
			var m map[string]json.RawMessage
			_ = json.Unmarshal(ev.JSON(), &m)
			m[k] = json.RawMessage(`{"junk":"` + big + `"}`)
			raw, _ := json.Marshal(m)
			if _, err = impl.NewEventFromUntrustedJSON(raw); err == nil {
				t.Errorf("room version %s: an event of %d bytes (70 000 of them under %q) was accepted on receipt", ver, len(raw), k)
			}
		}
	}
}
