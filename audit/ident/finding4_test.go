// Belongs in the package root directory (package gomatrixserverlib).
package gomatrixserverlib

import (
	"strings"
	"testing"
	"time"

	"github.com/matrix-org/gomatrixserverlib/spec"
	"golang.org/x/crypto/ed25519"
)

// "Too large but persistable" may only be reported when nothing but a 255-BYTE
// limit is exceeded. CheckFields returns the persistable byte-limit error for
// the type / state key before it has looked at the sender, so an event whose
// sender exceeds 255 CODE POINTS is reported as persistable if its type (or
// state key) also happens to be 256 bytes long.
func TestAuditFinding4(t *testing.T) {
	key := ed25519.NewKeyFromSeed(make([]byte, 32))
	longSender := "@" + strings.Repeat("a", 300) + ":localhost" // 311 code points: hard limit
	bytesOnly := strings.Repeat("é", 128)                       // 128 code points, 256 bytes: soft limit
	for ver, impl := range RoomVersions() {
		if ver == RoomVersionPseudoIDs {
			continue // no sender check at all there, see finding 3
		}
		roomID := "!room:localhost"
		if impl.DomainlessRoomIDs() {
			roomID = "!" + strings.Repeat("A", 43)
		}
		empty := ""
		cases := map[string]ProtoEvent{
			"type is 256 bytes":      {SenderID: longSender, RoomID: roomID, Type: bytesOnly, StateKey: &empty},
			"state key is 256 bytes": {SenderID: longSender, RoomID: roomID, Type: "m.x", StateKey: &bytesOnly},
		}
		for name, pe := range cases {
			pe.PrevEvents, pe.AuthEvents, pe.Content = []string{}, []string{}, spec.RawJSON(`{}`)
			ev, err := impl.NewEventBuilderFromProtoEvent(&pe).Build(time.Unix(1700000000, 0), "localhost", "ed25519:1", key)
			check := func(where string, err error) {
				e, ok := err.(EventValidationError)
				if !ok {
					t.Errorf("room version %s, %s, %s: want an EventValidationError, got %v", ver, name, where, err)
					return
				}
				if e.Persistable {
					t.Errorf("room version %s, %s, %s: sender has 311 code points but the event is reported as persistable (%s)", ver, name, where, e.Message)
				}
			}
			check("Build", err)
			if ev != nil {
				_, err = impl.NewEventFromUntrustedJSON(ev.JSON())
				check("NewEventFromUntrustedJSON", err)
			}
		}
	}
}
