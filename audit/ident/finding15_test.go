// Belongs in the package root directory (package gomatrixserverlib).
package gomatrixserverlib

import (
	"fmt"
	"os"
	"os/exec"
	"strings"
	"testing"
	"time"
)

// CanonicalJSON validates its input with gjson.Valid, which recurses once per
// nesting level without any depth limit (encoding/json stops at 10 000). A 20 MB
// document consisting of 10 000 000 nested arrays exhausts the 1 GB goroutine
// stack: "fatal error: stack overflow" - not a panic, the process is gone.
// The scenario therefore runs in a child process.
func TestAuditFinding15(t *testing.T) {
	const depth = 10_000_000
	if os.Getenv("AUDIT_FINDING15_CHILD") == "1" {
		doc := strings.Repeat("[", depth) + strings.Repeat("]", depth)
		out, err := CanonicalJSON([]byte(doc))
		fmt.Printf("AUDIT_FINDING15_RETURNED %d bytes, err=%v\n", len(out), err)
		return
	}
	cmd := exec.Command(os.Args[0], "-test.run", "^TestAuditFinding15$", "-test.v")
	cmd.Env = append(os.Environ(), "AUDIT_FINDING15_CHILD=1")
	type result struct {
		out []byte
		err error
	}
	done := make(chan result, 1)
	go func() { out, err := cmd.CombinedOutput(); done <- result{out, err} }()
	select {
	case r := <-done:
		out := string(r.out)
		if r.err != nil || !strings.Contains(out, "AUDIT_FINDING15_RETURNED") {
			if i := strings.Index(out, "runtime stack:"); i > 0 {
				out = out[:i]
			}
			t.Fatalf("CanonicalJSON on %d nested arrays (%d bytes) crashed the process: %v\n%s", depth, 2*depth, r.err, out)
		}
	case <-time.After(300 * time.Second):
		_ = cmd.Process.Kill()
		t.Fatalf("CanonicalJSON on %d nested arrays did not return within 300 s", depth)
	}
}
