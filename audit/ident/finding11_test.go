// Belongs in the package root directory (package gomatrixserverlib).
package gomatrixserverlib

import (
	"crypto/sha256"
	"encoding/base64"
	"encoding/json"
	"fmt"
	"os"
	"os/exec"
	"runtime/debug"
	"strings"
	"testing"
	"time"

	"github.com/matrix-org/gomatrixserverlib/spec"
)

// auditFinding11Event makes a room version 2 event (event format v1: the event
// ID is chosen by the sending server) with a correct content hash and parses it
// with NewEventFromUntrustedJSON, exactly as an event received over federation.
func auditFinding11Event(t *testing.T, id, typ string, stateKey *string, content string, authEventIDs []string) PDU {
	t.Helper()
	refs := []interface{}{}
	for _, a := range authEventIDs {
		refs = append(refs, []interface{}{a, map[string]string{"sha256": "AAAA"}})
	}
	m := map[string]interface{}{
		"event_id": id, "type": typ, "room_id": "!room:localhost", "sender": "@alice:localhost",
		"content": json.RawMessage(content), "depth": 1, "origin": "localhost", "origin_server_ts": 1700000000000,
		"auth_events": refs, "prev_events": []interface{}{},
	}
	if stateKey != nil {
		m["state_key"] = *stateKey
	}
	unhashed, _ := json.Marshal(m)
	canonical, err := CanonicalJSON(unhashed)
	if err != nil {
		t.Fatal(err)
	}
	sum := sha256.Sum256(canonical)
	m["hashes"] = map[string]string{"sha256": base64.RawStdEncoding.EncodeToString(sum[:])}
	m["signatures"] = map[string]interface{}{}
	raw, _ := json.Marshal(m)
	ev, err := MustGetRoomVersion(RoomVersionV2).NewEventFromUntrustedJSON(raw)
	if err != nil {
		t.Fatalf("parsing %s: %v", id, err)
	}
	if ev.EventID() != id || ev.Redacted() {
		t.Fatalf("unexpected event %s redacted=%v", ev.EventID(), ev.Redacted())
	}
	return ev
}

// In room versions 1 and 2 event IDs are arbitrary strings picked by the sender,
// so an event can name itself in auth_events. Room version 2 uses state
// resolution v2, whose fullControlSet closure marks an auth event as visited only
// AFTER recursing into it: a conflicted power-level event that lists itself as
// auth event recurses until the goroutine stack (1 GB) is exhausted. That is a
// fatal error which cannot be recovered, so the scenario runs in a child process.
func TestAuditFinding11(t *testing.T) {
	if os.Getenv("AUDIT_FINDING11_CHILD") == "1" {
		debug.SetMaxStack(64 << 20) // fail fast instead of eating 1 GB
		userIDForSender := func(roomID spec.RoomID, senderID spec.SenderID) (*spec.UserID, error) {
			return spec.NewUserID(string(senderID), true)
		}
		empty, alice := "", "@alice:localhost"
		create := auditFinding11Event(t, "$create:localhost", spec.MRoomCreate, &empty, `{"creator":"@alice:localhost","room_version":"2"}`, nil)
		join := auditFinding11Event(t, "$join:localhost", spec.MRoomMember, &alice, `{"membership":"join"}`, []string{"$create:localhost"})
		// names itself as auth event
		pl1 := auditFinding11Event(t, "$pl1:evil", spec.MRoomPowerLevels, &empty, `{"users":{"@alice:localhost":100}}`, []string{"$create:localhost", "$join:localhost", "$pl1:evil"})
		pl2 := auditFinding11Event(t, "$pl2:localhost", spec.MRoomPowerLevels, &empty, `{"users":{"@alice:localhost":99}}`, []string{"$create:localhost", "$join:localhost"})
		all := []PDU{create, join, pl1, pl2}
		res, err := ResolveConflicts(RoomVersionV2, all, all, userIDForSender, func(string) bool { return false })
		fmt.Printf("AUDIT_FINDING11_RETURNED %d %v\n", len(res), err)
		return
	}

	cmd := exec.Command(os.Args[0], "-test.run", "^TestAuditFinding11$", "-test.v")
	cmd.Env = append(os.Environ(), "AUDIT_FINDING11_CHILD=1")
	type result struct {
		out []byte
		err error
	}
	done := make(chan result, 1)
	go func() { out, err := cmd.CombinedOutput(); done <- result{out, err} }()
	select {
	case r := <-done:
		out := string(r.out)
		if r.err != nil || !strings.Contains(out, "AUDIT_FINDING11_RETURNED") {
			if i := strings.Index(out, "runtime stack:"); i > 0 {
				out = out[:i]
			}
			t.Fatalf("state resolution of a room version 2 power-level event that lists itself in auth_events crashed the process: %v\n%s", r.err, out)
		}
	case <-time.After(120 * time.Second):
		_ = cmd.Process.Kill()
		t.Fatalf("state resolution did not return within 120 s")
	}
}
