// Belongs in the package root directory (package gomatrixserverlib).
package gomatrixserverlib

import (
	"strings"
	"testing"
	"time"

	"github.com/matrix-org/gomatrixserverlib/spec"
	"golang.org/x/crypto/ed25519"
)

func auditFinding8Event(t *testing.T, impl IRoomVersion, roomID, sender, typ string, stateKey *string, content string, prev []string) PDU {
	t.Helper()
	pe := ProtoEvent{
		SenderID: sender, RoomID: roomID, Type: typ, StateKey: stateKey, Depth: 1,
		PrevEvents: prev, AuthEvents: []string{}, Content: spec.RawJSON(content),
	}
	ev, err := impl.NewEventBuilderFromProtoEvent(&pe).Build(time.Unix(1700000000, 0), "localhost", "ed25519:1", ed25519.NewKeyFromSeed(make([]byte, 32)))
	if err != nil {
		t.Fatalf("%s: building %s: %v", impl.Version(), typ, err)
	}
	return ev
}

// The join rule "knock_restricted" exists from room version 10 on
// (and in org.matrix.msc3787). In room versions 7, 8, 9 (and msc3667) it is an
// unknown join rule: knocking requires join_rule == "knock", and the
// restricted-join path requires join_rule == "restricted". The library applies
// the v10 rules to every version that has knocking / restricted joins.
func TestAuditFinding8(t *testing.T) {
	userIDForSender := func(roomID spec.RoomID, senderID spec.SenderID) (*spec.UserID, error) {
		return spec.NewUserID(string(senderID), true)
	}
	// what the specification assigns to each version for join_rule = knock_restricted
	type want struct{ knock, restrictedJoin bool }
	wants := map[RoomVersion]want{
		RoomVersionV7: {false, false}, RoomVersionV8: {false, false}, RoomVersionV9: {false, false},
		"org.matrix.msc3667": {false, false},
		RoomVersionV10:       {true, true}, RoomVersionV11: {true, true}, RoomVersionV12: {true, true},
		"org.matrix.msc3787": {true, true},
	}
	for ver, w := range wants {
		impl := MustGetRoomVersion(ver)
		empty, alice, bob := "", "@alice:localhost", "@bob:localhost"
		roomID := "!room:localhost"
		createRoomID := roomID
		if impl.DomainlessRoomIDs() {
			createRoomID = ""
		}
		create := auditFinding8Event(t, impl, createRoomID, alice, spec.MRoomCreate, &empty, `{"creator":"@alice:localhost","room_version":"`+string(ver)+`"}`, []string{})
		if impl.DomainlessRoomIDs() {
			roomID = "!" + strings.TrimPrefix(create.EventID(), "$")
		}
		aliceJoin := auditFinding8Event(t, impl, roomID, alice, spec.MRoomMember, &alice, `{"membership":"join"}`, []string{create.EventID()})
		pl := auditFinding8Event(t, impl, roomID, alice, spec.MRoomPowerLevels, &empty, `{"invite":0}`, []string{aliceJoin.EventID()})
		rules := auditFinding8Event(t, impl, roomID, alice, spec.MRoomJoinRules, &empty, `{"join_rule":"knock_restricted","allow":[{"type":"m.room_membership","room_id":"!other:localhost"}]}`, []string{pl.EventID()})
		authEvents, err := NewAuthEvents([]PDU{create, aliceJoin, pl, rules})
		if err != nil {
			t.Fatal(err)
		}
		knock := auditFinding8Event(t, impl, roomID, bob, spec.MRoomMember, &bob, `{"membership":"knock"}`, []string{rules.EventID()})
		join := auditFinding8Event(t, impl, roomID, bob, spec.MRoomMember, &bob, `{"membership":"join","join_authorised_via_users_server":"@alice:localhost"}`, []string{rules.EventID()})

		if err = Allowed(knock, authEvents, userIDForSender); (err == nil) != w.knock {
			t.Errorf("room version %s, join_rule knock_restricted: knock allowed=%v, the specification says %v (err: %v)", ver, err == nil, w.knock, err)
		}
		if err = Allowed(join, authEvents, userIDForSender); (err == nil) != w.restrictedJoin {
			t.Errorf("room version %s, join_rule knock_restricted: join authorised via a resident user allowed=%v, the specification says %v (err: %v)", ver, err == nil, w.restrictedJoin, err)
		}
	}
}
