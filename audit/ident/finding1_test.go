// Belongs in the package root directory (package gomatrixserverlib).
package gomatrixserverlib

import (
	"encoding/json"
	"strings"
	"testing"
	"time"

	"github.com/matrix-org/gomatrixserverlib/spec"
	"golang.org/x/crypto/ed25519"
)

// An event whose JSON is larger than 65 536 bytes must be refused on receipt.
// When the content hash of such an event does not match, the parser redacts the
// event first and applies the size check to the (small) redacted copy, so the
// oversized event is accepted.
func TestAuditFinding1(t *testing.T) {
	key := ed25519.NewKeyFromSeed(make([]byte, 32))
	for ver, impl := range RoomVersions() {
		roomID := "!room:localhost"
		if impl.DomainlessRoomIDs() {
			roomID = "!" + strings.Repeat("A", 43)
		}
		sk := ""
		pe := ProtoEvent{
			SenderID: "@s:localhost", RoomID: roomID, Type: "m.x", StateKey: &sk,
			PrevEvents: []string{}, AuthEvents: []string{}, Content: spec.RawJSON(`{}`),
		}
		ev, err := impl.NewEventBuilderFromProtoEvent(&pe).Build(time.Unix(1700000000, 0), "localhost", "ed25519:1", key)
		if err != nil {
			t.Fatalf("%s: building the base event: %v", ver, err)
		}
		// Replace the content by 70 000 bytes without touching "hashes".
		var m map[string]json.RawMessage
		if err = json.Unmarshal(ev.JSON(), &m); err != nil {
			t.Fatal(err)
		}
		m["content"] = json.RawMessage(`{"body":"` + strings.Repeat("x", 70000) + `"}`)
		raw, _ := json.Marshal(m)
		if len(raw) <= 65536 {
			t.Fatalf("test bug: event is only %d bytes", len(raw))
		}
		got, err := impl.NewEventFromUntrustedJSON(raw)
		if err == nil {
			t.Errorf("room version %s: a %d-byte event (content hash mismatch) was accepted on receipt (redacted=%v, stored JSON %d bytes); want an EventValidationError (too large, not persistable)",
				ver, len(raw), got.Redacted(), len(got.JSON()))
			continue
		}
		if e, ok := err.(EventValidationError); ok && e.Persistable {
			t.Errorf("room version %s: oversized event reported as persistable", ver)
		}
	}
}
