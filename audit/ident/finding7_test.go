// Belongs in the package root directory (package gomatrixserverlib).
package gomatrixserverlib

import (
	"testing"
	"time"

	"github.com/matrix-org/gomatrixserverlib/spec"
)

// Room versions >= 5 must only accept a signature if origin_server_ts is not
// later than min(valid_until_ts, now + 7 days) of the signing key. The
// implementation converts the unsigned millisecond timestamps to int64, so
// timestamps >= 2^63 wrap around to dates before 1970:
//   - an event "from" the year 292 million passes the check with a key that
//     expired yesterday (room version 5 accepts such origin_server_ts values,
//     as it does not enforce canonical JSON);
//   - a key whose valid_until_ts is >= 2^63 is never valid.
func TestAuditFinding7(t *testing.T) {
	now := time.Now()
	yesterday := spec.AsTimestamp(now.Add(-24 * time.Hour))
	tomorrow := spec.AsTimestamp(now.Add(24 * time.Hour))
	nowTS := spec.AsTimestamp(now)

	strict := map[RoomVersion]bool{}
	for ver := range RoomVersions() {
		switch ver {
		case RoomVersionV1, RoomVersionV2, RoomVersionV3, RoomVersionV4:
			strict[ver] = false
		default:
			strict[ver] = true
		}
	}
	for ver, impl := range RoomVersions() {
		// controls
		if got := impl.SignatureValidityCheck(nowTS, yesterday); got != !strict[ver] {
			t.Fatalf("control: %s: event now, key valid until yesterday: got %v", ver, got)
		}
		if got := impl.SignatureValidityCheck(nowTS, tomorrow); !got {
			t.Fatalf("control: %s: event now, key valid until tomorrow: got false", ver)
		}
		if !strict[ver] {
			continue
		}
		for _, at := range []spec.Timestamp{1 << 63, 1<<63 + 1000, 1<<64 - 1} {
			if impl.SignatureValidityCheck(at, yesterday) {
				t.Errorf("room version %s: origin_server_ts=%d (far future) accepted with a key that was valid until yesterday (%d)", ver, at, yesterday)
			}
			if impl.SignatureValidityCheck(at, tomorrow) {
				t.Errorf("room version %s: origin_server_ts=%d (far future) accepted with a key that is valid until tomorrow", ver, at)
			}
		}
		for _, until := range []spec.Timestamp{1 << 63, 1<<64 - 1} {
			if !impl.SignatureValidityCheck(nowTS, until) {
				t.Errorf("room version %s: event now refused although the key is valid until %d (> now + 7 days, so the 7-day cap applies)", ver, until)
			}
		}
	}

	// Reachability: room version 5 parses such a timestamp from the wire.
	ev, err := MustGetRoomVersion(RoomVersionV5).NewEventFromUntrustedJSON([]byte(`{"type":"m.x","room_id":"!r:localhost","sender":"@a:localhost","content":{},"depth":1,"origin_server_ts":9223372036854775808,"prev_events":[],"auth_events":[],"hashes":{"sha256":""},"signatures":{}}`))
	if err == nil {
		t.Logf("room version 5 accepted an event with origin_server_ts=%d from the wire", ev.OriginServerTS())
	}
}
