// Belongs in the spec/ directory (package spec).
package spec

import (
	"strings"
	"testing"
)

// Room IDs and server names have no upper length limit at all, user IDs do
// (255 bytes). The identifier grammar limits every identifier to 255 bytes and
// the DNS-name form of a server name to 255 characters.
func TestAuditFinding5(t *testing.T) {
	// control: the user ID limit works
	if _, err := NewUserID("@"+strings.Repeat("a", 242)+":example.com", false); err != nil {
		t.Fatalf("255-byte user ID refused: %v", err)
	}
	if _, err := NewUserID("@"+strings.Repeat("a", 243)+":example.com", false); err == nil {
		t.Fatalf("256-byte user ID accepted")
	}

	// room IDs
	ok255 := "!" + strings.Repeat("a", 242) + ":example.com"
	if _, err := NewRoomID(ok255); err != nil || len(ok255) != 255 {
		t.Fatalf("255-byte room ID refused: %v", err)
	}
	for name, id := range map[string]string{
		"256 bytes (long opaque part)":  "!" + strings.Repeat("a", 243) + ":example.com",
		"100 000 bytes (opaque part)":   "!" + strings.Repeat("a", 100000) + ":example.com",
		"long domain (300-char DNS name)": "!a:" + strings.Repeat("a", 300),
		"256 bytes via multi-byte runes": "!" + strings.Repeat("é", 122) + ":example.com",
	} {
		if r, err := NewRoomID(id); err == nil {
			t.Errorf("NewRoomID accepted a room ID of %s (len %d, opaque part %d bytes)", name, len(id), len(r.OpaqueID()))
		}
	}

	// server names
	if _, _, valid := ParseAndValidateServerName(ServerName(strings.Repeat("a", 255))); !valid {
		t.Fatalf("255-character DNS name refused")
	}
	for _, n := range []int{256, 300, 100000} {
		if _, _, valid := ParseAndValidateServerName(ServerName(strings.Repeat("a", n))); valid {
			t.Errorf("ParseAndValidateServerName accepted a DNS name of %d characters", n)
		}
		if _, _, valid := ParseAndValidateServerName(ServerName(strings.Repeat("a", n) + ":8448")); valid {
			t.Errorf("ParseAndValidateServerName accepted a DNS name of %d characters with a port", n)
		}
	}
}
