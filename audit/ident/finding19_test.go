// Belongs in the package root directory (package gomatrixserverlib).
package gomatrixserverlib

import (
	"context"
	"encoding/json"
	"testing"
	"time"

	"github.com/matrix-org/gomatrixserverlib/spec"
	"golang.org/x/crypto/ed25519"
)

type auditFinding19Requester struct{ pdus []json.RawMessage }

func (b *auditFinding19Requester) StateIDsBeforeEvent(ctx context.Context, event PDU) ([]string, error) {
	return nil, nil
}
func (b *auditFinding19Requester) StateBeforeEvent(ctx context.Context, roomVer RoomVersion, event PDU, eventIDs []string) (map[string]PDU, error) {
	return map[string]PDU{}, nil
}

// the body of the remote server's /backfill response
func (b *auditFinding19Requester) Backfill(ctx context.Context, origin, server spec.ServerName, roomID string, limit int, fromEventIDs []string) (Transaction, error) {
	return Transaction{Origin: server, PDUs: b.pdus}, nil
}
func (b *auditFinding19Requester) ServersAtEvent(ctx context.Context, roomID, eventID string) []spec.ServerName {
	return []spec.ServerName{"remote"}
}
func (b *auditFinding19Requester) ProvideEvents(roomVer RoomVersion, eventIDs []string) ([]PDU, error) {
	return nil, nil
}

type auditFinding19Verifier struct{}

func (auditFinding19Verifier) VerifyJSONs(ctx context.Context, requests []VerifyJSONRequest) ([]VerifyJSONResult, error) {
	return make([]VerifyJSONResult, len(requests)), nil
}

// A /backfill response that contains the same PDU twice. The topological sort in
// EventsLoader.LoadAndVerify drops the duplicate, which leaves a zero-valued
// EventLoadResult (Event == nil, Error == nil) in the result slice;
// RequestBackfill then calls res.Event.EventID() on it.
func TestAuditFinding19(t *testing.T) {
	userIDForSender := func(roomID spec.RoomID, senderID spec.SenderID) (*spec.UserID, error) {
		return spec.NewUserID(string(senderID), true)
	}
	for ver, impl := range RoomVersions() {
		roomID := "!room:localhost"
		if impl.DomainlessRoomIDs() {
			roomID = ""
		}
		empty := ""
		pe := ProtoEvent{
			SenderID: "@alice:localhost", RoomID: roomID, Type: spec.MRoomCreate, StateKey: &empty, Depth: 1,
			PrevEvents: []string{}, AuthEvents: []string{},
			Content: spec.RawJSON(`{"creator":"@alice:localhost","room_version":"` + string(ver) + `"}`),
		}
		ev, err := impl.NewEventBuilderFromProtoEvent(&pe).Build(time.Unix(1700000000, 0), "localhost", "ed25519:1", ed25519.NewKeyFromSeed(make([]byte, 32)))
		if err != nil {
			t.Fatalf("%s: %v", ver, err)
		}
		pdus := []json.RawMessage{ev.JSON(), ev.JSON()}

		func() {
			defer func() {
				if r := recover(); r != nil {
					t.Errorf("room version %s: RequestBackfill panicked on a response with a duplicated PDU: %v", ver, r)
				}
			}()
			_, _ = RequestBackfill(context.Background(), "localhost", &auditFinding19Requester{pdus: pdus}, auditFinding19Verifier{},
				ev.RoomID().String(), ver, []string{"$from"}, 10, userIDForSender)
		}()

		// the root cause, visible through the public loader as well
		loader := NewEventsLoader(ver, auditFinding19Verifier{}, &auditFinding19Requester{}, func(RoomVersion, []string) ([]PDU, error) { return nil, nil }, false)
		results, err := loader.LoadAndVerify(context.Background(), pdus, TopologicalOrderByPrevEvents, userIDForSender)
		if err != nil {
			t.Fatalf("%s: %v", ver, err)
		}
		for i, r := range results {
			if r.Event == nil && r.Error == nil {
				t.Errorf("room version %s: LoadAndVerify result %d of %d has neither an event nor an error", ver, i, len(results))
			}
		}
	}
}
