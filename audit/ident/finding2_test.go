// Belongs in the package root directory (package gomatrixserverlib).
package gomatrixserverlib

import (
	"strings"
	"testing"
	"time"

	"github.com/matrix-org/gomatrixserverlib/spec"
	"golang.org/x/crypto/ed25519"
)

// In the room versions that use the v3 event implementation (12 and
// org.matrix.hydra.11) the room ID of an event is never length-checked: an event
// whose room_id has more than 255 code points is built without error and
// accepted on receipt. All other room versions refuse it.
func TestAuditFinding2(t *testing.T) {
	key := ed25519.NewKeyFromSeed(make([]byte, 32))
	longRooms := map[string]string{
		"300 ASCII code points": "!" + strings.Repeat("a", 300) + ":localhost",
		"256 two-byte code points": "!" + strings.Repeat("é", 256) + ":localhost",
	}
	for ver, impl := range RoomVersions() {
		for name, roomID := range longRooms {
			sk := ""
			pe := ProtoEvent{
				SenderID: "@s:localhost", RoomID: roomID, Type: "m.x", StateKey: &sk,
				PrevEvents: []string{}, AuthEvents: []string{}, Content: spec.RawJSON(`{}`),
			}
			ev, err := impl.NewEventBuilderFromProtoEvent(&pe).Build(time.Unix(1700000000, 0), "localhost", "ed25519:1", key)
			if err == nil {
				t.Errorf("room version %s: Build accepted an event with a room ID of %s", ver, name)
			}
			if ev == nil {
				continue
			}
			if _, err = impl.NewEventFromUntrustedJSON(ev.JSON()); err == nil {
				t.Errorf("room version %s: NewEventFromUntrustedJSON accepted an event with a room ID of %s", ver, name)
			}
		}
	}
}
