// Belongs in the package root directory (package gomatrixserverlib).
package gomatrixserverlib

import (
	"encoding/json"
	"reflect"
	"testing"
)

// Room version 11 (and 12, which inherits its redaction algorithm) keeps
// content.third_party_invite.signed of an m.room.member event when redacting
// (MSC2176). The library removes third_party_invite completely.
func TestAuditFinding9(t *testing.T) {
	event := `{"type":"m.room.member","room_id":"!r:localhost","sender":"@a:localhost","state_key":"@b:localhost",` +
		`"content":{"membership":"invite","displayname":"B","third_party_invite":{"display_name":"b@example.com",` +
		`"signed":{"mxid":"@b:localhost","token":"tok","signatures":{"id.example.com":{"ed25519:0":"c2ln"}}}}},` +
		`"depth":1,"origin_server_ts":1,"prev_events":[],"auth_events":[],"hashes":{"sha256":"x"},"signatures":{}}`
	var signed interface{}
	_ = json.Unmarshal([]byte(`{"mxid":"@b:localhost","token":"tok","signatures":{"id.example.com":{"ed25519:0":"c2ln"}}}`), &signed)

	keepsSigned := map[RoomVersion]bool{RoomVersionV11: true, RoomVersionV12: true, RoomVersionHydra: true}
	for ver, impl := range RoomVersions() {
		out, err := impl.RedactEventJSON([]byte(event))
		if err != nil {
			t.Fatalf("%s: %v", ver, err)
		}
		var red struct {
			Content map[string]interface{} `json:"content"`
		}
		if err = json.Unmarshal(out, &red); err != nil {
			t.Fatal(err)
		}
		if red.Content["membership"] != "invite" {
			t.Fatalf("%s: membership lost: %s", ver, out)
		}
		if _, ok := red.Content["displayname"]; ok {
			t.Fatalf("%s: displayname kept: %s", ver, out)
		}
		tpi, present := red.Content["third_party_invite"]
		if !keepsSigned[ver] {
			if present {
				t.Errorf("room version %s: third_party_invite must be removed, got %s", ver, out)
			}
			continue
		}
		want := map[string]interface{}{"signed": signed}
		if !present || !reflect.DeepEqual(tpi, want) {
			t.Errorf("room version %s: redacted m.room.member content must keep exactly third_party_invite.signed; got content %v", ver, red.Content)
		}
	}
}
