// Package directory: fclient/
//
// C16: the lists given to WithAllowDenyNetworks are silently dropped as soon as
// the client also has a DNS cache: getTransport replaces the transport's
// DialContext by DNSCache.DialContext, whose private dialer only knows the
// lists that were handed to NewDNSCache. A client whose own deny list covers
// 127.0.0.0/8 then connects to 127.0.0.1.
package fclient

import (
	"context"
	"net"
	"net/http"
	"sync/atomic"
	"testing"
	"time"
)

func TestAuditFinding5(t *testing.T) {
	ln, err := net.Listen("tcp", "127.0.0.1:0")
	if err != nil {
		t.Fatal(err)
	}
	defer ln.Close() // nolint: errcheck
	var accepted int32
	go func() {
		for {
			c, err := ln.Accept()
			if err != nil {
				return
			}
			atomic.AddInt32(&accepted, 1)
			_ = c.Close()
		}
	}()

	allowAll := []string{"0.0.0.0/0", "::/0"}
	denyLoopback := []string{"127.0.0.0/8"}

	do := func(name string, opts ...ClientOption) int32 {
		atomic.StoreInt32(&accepted, 0)
		cl := NewClient(append(opts, WithTimeout(2*time.Second))...)
		req, err := http.NewRequest("GET", "matrix://"+ln.Addr().String()+"/_matrix/federation/v1/version", nil)
		if err != nil {
			t.Fatal(err)
		}
		resp, err := cl.DoHTTPRequest(context.Background(), req)
		if err == nil {
			_ = resp.Body.Close()
		}
		time.Sleep(50 * time.Millisecond)
		n := atomic.LoadInt32(&accepted)
		t.Logf("%s: err=%v, connections accepted on %s: %d", name, err, ln.Addr(), n)
		return n
	}

	// Control: without a DNS cache the client's deny list is enforced.
	if n := do("no DNS cache", WithAllowDenyNetworks(allowAll, denyLoopback)); n != 0 {
		t.Fatalf("control: %d connections made to a denied address", n)
	}

	// The same client policy, plus a DNS cache (whose own lists do not deny loopback).
	cache := NewDNSCache(16, time.Minute, allowAll, nil)
	if n := do("with DNS cache", WithAllowDenyNetworks(allowAll, denyLoopback), WithDNSCache(cache)); n != 0 {
		t.Errorf("client configured with deny list %v made %d connection(s) to %s", denyLoopback, n, ln.Addr())
	}
}
