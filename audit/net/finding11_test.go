// Package directory: tokens/
//
// C20: a token stops validating once the number of seconds requested at issue
// has elapsed - not before. GenerateLoginToken computes now+int64(Duration)
// without overflow check; for a Duration close to the int64 maximum ("never
// expires") the expiry wraps to a negative number and the token is refused
// from the very first second.
package tokens

import (
	"math"
	"testing"
)

func TestAuditFinding11(t *testing.T) {
	if math.MaxInt != math.MaxInt64 {
		t.Skip("int is not 64 bit")
	}
	for _, d := range []int{3600, math.MaxInt32, math.MaxInt64 / 2, math.MaxInt64 - 1000, math.MaxInt64} {
		op := TokenOptions{
			ServerPrivateKey: []byte("a secret key"),
			ServerName:       "server.example",
			UserID:           "@alice:server.example",
			Duration:         d,
		}
		token, err := GenerateLoginToken(op)
		if err != nil {
			continue // refusing to issue would be acceptable
		}
		if err := ValidateToken(op, token); err != nil {
			t.Errorf("token issued for %d seconds is refused immediately after issue: %v", d, err)
		}
	}
}
