// Package directory: fclient/
//
// C16: the cache lifetime of a well-known reply must be taken from max-age in
// preference to Expires. LookupWellKnown only looks at the FIRST Cache-Control
// header line (http.Header.Get) and only trims spaces (not HTAB) around the
// directives, so a perfectly ordinary reply whose max-age sits in a second
// Cache-Control line, or after a tab, falls back to Expires.
package fclient

import (
	"context"
	"testing"
	"time"

	"gopkg.in/h2non/gock.v1"
)

func TestAuditFinding3(t *testing.T) {
	defer gock.Off()
	expires := time.Now().Add(24 * time.Hour).UTC().Format("Mon, 02 Jan 2006 15:04:05 GMT")

	check := func(name string, setup func(r *gock.Response)) {
		r := gock.New("https://example.com").Get("/.well-known/matrix/server").Reply(200)
		setup(r)
		r.SetHeader("Expires", expires).BodyString(`{"m.server":"matrix.example.com:443"}`)

		before := time.Now().Unix()
		res, err := LookupWellKnown(context.Background(), "example.com")
		after := time.Now().Unix()
		gock.Off()
		if err != nil {
			t.Errorf("%s: LookupWellKnown: %v", name, err)
			return
		}
		if res.CacheExpiresAt < before+100 || res.CacheExpiresAt > after+100 {
			t.Errorf("%s: CacheExpiresAt = now%+d s, want now+100 s (max-age=100 must win over Expires = now+86400 s)",
				name, res.CacheExpiresAt-before)
		}
	}

	// Control: single header line, works.
	check("single line", func(r *gock.Response) {
		r.SetHeader("Cache-Control", "public, max-age=100")
	})
	// RFC 7230 3.2.2: a list-valued header may be split over several lines.
	check("two Cache-Control lines", func(r *gock.Response) {
		r.AddHeader("Cache-Control", "public").AddHeader("Cache-Control", "max-age=100")
	})
	// RFC 7230 3.2.3: optional whitespace is SP / HTAB.
	check("HTAB after the comma", func(r *gock.Response) {
		r.SetHeader("Cache-Control", "public,\tmax-age=100")
	})
}
