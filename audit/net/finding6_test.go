// Package directory: fclient/
//
// C13: a request whose JSON body differs from the signed one must be refused.
// CompactJSON (used by CanonicalJSON, hence by SignJSON / VerifyJSON) silently
// DROPS a \uXXXX escape of an unpaired UTF-16 surrogate, so the bodies
// {"user":"alice"} and {"user":"\ud800alice"} have the same canonical form and
// the same signature. Every JSON decoder (encoding/json, gjson) reads the
// second one as "\ufffdalice". VerifyHTTPRequest accepts the tampered body and
// hands it to the caller through Content().
package fclient

import (
	"bufio"
	"bytes"
	"context"
	"crypto/rand"
	"encoding/json"
	"net/http"
	"strings"
	"testing"
	"time"

	"github.com/matrix-org/gomatrixserverlib"
	"github.com/matrix-org/gomatrixserverlib/spec"
	"golang.org/x/crypto/ed25519"
)

func TestAuditFinding6(t *testing.T) {
	origin, dest := spec.ServerName("origin.example"), spec.ServerName("dest.example")
	keyID := gomatrixserverlib.KeyID("ed25519:1")
	priv, keys := audit6Setup(t, origin, keyID)

	const signedBody = `{"n":1,"user":"alice"}`
	fr := NewFederationRequest("PUT", origin, dest, "/_matrix/federation/v1/send/1")
	if err := fr.SetContent(json.RawMessage(signedBody)); err != nil {
		t.Fatal(err)
	}
	raw := audit6Wire(t, &fr, origin, keyID, priv)
	if !strings.HasSuffix(raw, "\r\n\r\n"+signedBody) {
		t.Fatalf("unexpected wire form %q", raw)
	}

	// Control: the untouched request is accepted and reports what was signed.
	got := audit6Receive(t, raw, dest, keys)
	if got == nil || string(got.Content()) != signedBody {
		t.Fatalf("control: untouched request not accepted as signed: %v", got)
	}

	for _, tamperedBody := range []string{
		`{"n":1,"user":"\ud800alice"}`, // lone high surrogate in front
		`{"n":1,"user":"alice\udc00"}`, // lone low surrogate behind
		`{"n":1,"user":"al\udbffice"}`, // in the middle
	} {
		tampered := strings.Replace(raw, "\r\n\r\n"+signedBody, "\r\n\r\n"+tamperedBody, 1)
		tampered = strings.Replace(tampered, "Content-Length: "+audit6Itoa(len(signedBody)), "Content-Length: "+audit6Itoa(len(tamperedBody)), 1)

		var signedVal, tamperedVal struct {
			User string `json:"user"`
		}
		if err := json.Unmarshal([]byte(signedBody), &signedVal); err != nil {
			t.Fatal(err)
		}
		if err := json.Unmarshal([]byte(tamperedBody), &tamperedVal); err != nil {
			t.Fatal(err)
		}
		if signedVal.User == tamperedVal.User {
			t.Fatalf("test bug: bodies decode to the same value")
		}

		if got := audit6Receive(t, tampered, dest, keys); got != nil {
			t.Errorf("tampered body accepted: signed %s (user=%q) but VerifyHTTPRequest returned Content() = %s (user=%q)",
				signedBody, signedVal.User, got.Content(), tamperedVal.User)
		}
	}
}

func audit6Itoa(n int) string {
	b, _ := json.Marshal(n)
	return string(b)
}

type audit6DB map[gomatrixserverlib.PublicKeyLookupRequest]gomatrixserverlib.PublicKeyLookupResult

func (d audit6DB) FetcherName() string { return "audit6DB" }
func (d audit6DB) FetchKeys(_ context.Context, reqs map[gomatrixserverlib.PublicKeyLookupRequest]spec.Timestamp) (map[gomatrixserverlib.PublicKeyLookupRequest]gomatrixserverlib.PublicKeyLookupResult, error) {
	out := map[gomatrixserverlib.PublicKeyLookupRequest]gomatrixserverlib.PublicKeyLookupResult{}
	for r := range reqs {
		if v, ok := d[r]; ok {
			out[r] = v
		}
	}
	return out, nil
}
func (d audit6DB) StoreKeys(context.Context, map[gomatrixserverlib.PublicKeyLookupRequest]gomatrixserverlib.PublicKeyLookupResult) error {
	return nil
}

// audit6Setup returns a signing key for origin and a key ring that knows its public half.
func audit6Setup(t *testing.T, origin spec.ServerName, keyID gomatrixserverlib.KeyID) (ed25519.PrivateKey, gomatrixserverlib.JSONVerifier) {
	pub, priv, err := ed25519.GenerateKey(rand.Reader)
	if err != nil {
		t.Fatal(err)
	}
	db := audit6DB{
		{ServerName: origin, KeyID: keyID}: {
			VerifyKey:    gomatrixserverlib.VerifyKey{Key: spec.Base64Bytes(pub)},
			ExpiredTS:    gomatrixserverlib.PublicKeyNotExpired,
			ValidUntilTS: spec.AsTimestamp(time.Now().Add(time.Hour)),
		},
	}
	return priv, &gomatrixserverlib.KeyRing{KeyDatabase: db}
}

// audit6Wire signs the request, runs it through HTTPRequest and returns the
// bytes a Go HTTP client puts on the wire for it.
func audit6Wire(t *testing.T, fr *FederationRequest, origin spec.ServerName, keyID gomatrixserverlib.KeyID, priv ed25519.PrivateKey) string {
	if err := fr.Sign(origin, keyID, priv); err != nil {
		t.Fatal(err)
	}
	hr, err := fr.HTTPRequest()
	if err != nil {
		t.Fatal(err)
	}
	hr.URL.Scheme = "https"
	var buf bytes.Buffer
	if err := hr.Write(&buf); err != nil {
		t.Fatal(err)
	}
	return buf.String()
}

// audit6Receive parses wire bytes the way a Go HTTP server does and verifies them.
func audit6Receive(t *testing.T, raw string, dest spec.ServerName, keys gomatrixserverlib.JSONVerifier) *FederationRequest {
	req, err := http.ReadRequest(bufio.NewReader(strings.NewReader(raw)))
	if err != nil {
		t.Fatalf("the HTTP server would not even parse this request: %v", err)
	}
	res, _ := VerifyHTTPRequest(req, time.Now(), dest, nil, keys)
	return res
}
