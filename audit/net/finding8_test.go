// Package directory: fclient/
//
// C13: a request whose request URI differs from the signed one must be refused,
// and VerifyHTTPRequest must report the URI that was signed. The object that is
// signed / verified is produced with json.Marshal, which replaces every byte
// that is not valid UTF-8 by U+FFFD. Go's HTTP server passes bytes >= 0x80 in
// the query string through unchanged, so all query strings that differ only in
// such bytes have the same signature:
//
//	signed   GET /_matrix/key/v2/query?q=<U+FFFD>     (EF BF BD on the wire)
//	tampered GET /_matrix/key/v2/query?q=<FF>         (or FE, E9, 80, ...)
//
// The tampered request is accepted and RequestURI() reports the tampered URI.
// (The sender side has the mirror-image defect: Sign() silently rewrites a URI
// containing such a byte to the U+FFFD form, so what is signed and sent is not
// what the caller asked for.)
package fclient

import (
	"bufio"
	"bytes"
	"context"
	"crypto/rand"
	"net/http"
	"strings"
	"testing"
	"time"

	"github.com/matrix-org/gomatrixserverlib"
	"github.com/matrix-org/gomatrixserverlib/spec"
	"golang.org/x/crypto/ed25519"
)

func TestAuditFinding8(t *testing.T) {
	origin, dest := spec.ServerName("origin.example"), spec.ServerName("dest.example")
	keyID := gomatrixserverlib.KeyID("ed25519:1")
	priv, keys := audit8Setup(t, origin, keyID)

	const signedURI = "/_matrix/key/v2/query?q=\uFFFD" // valid UTF-8; passes HTTPRequest's round-trip check
	fr := NewFederationRequest("GET", origin, dest, signedURI)
	raw := audit8Wire(t, &fr, origin, keyID, priv)
	if fr.RequestURI() != signedURI || !strings.HasPrefix(raw, "GET "+signedURI+" HTTP/1.1\r\n") {
		t.Fatalf("unexpected wire form %q", raw)
	}

	// Control: the untouched request is accepted and reports the signed URI.
	got := audit8Receive(t, raw, dest, keys)
	if got == nil || got.RequestURI() != signedURI {
		t.Fatalf("control: untouched request not accepted as signed: %v", got)
	}

	for _, b := range []string{"\xff", "\xfe", "\xe9", "\x80"} {
		tamperedURI := strings.Replace(signedURI, "\uFFFD", b, 1)
		tampered := strings.Replace(raw, "GET "+signedURI+" ", "GET "+tamperedURI+" ", 1)
		if got := audit8Receive(t, tampered, dest, keys); got != nil {
			t.Errorf("request line tampered from %q to %q was accepted; VerifyHTTPRequest reports RequestURI() = %q",
				signedURI, tamperedURI, got.RequestURI())
		}
	}

	// Mirror image on the sending side: the URI handed to NewFederationRequest
	// is not the one that ends up signed.
	const asked = "/_matrix/key/v2/query?q=caf\xe9"
	fr2 := NewFederationRequest("GET", origin, dest, asked)
	if err := fr2.Sign(origin, keyID, priv); err != nil {
		return // refusing to sign such a URI is fine
	}
	if fr2.RequestURI() != asked {
		if _, err := fr2.HTTPRequest(); err == nil {
			t.Errorf("Sign() changed the request URI from %q to %q and HTTPRequest() sends it without complaint", asked, fr2.RequestURI())
		}
	}
}

type audit8DB map[gomatrixserverlib.PublicKeyLookupRequest]gomatrixserverlib.PublicKeyLookupResult

func (d audit8DB) FetcherName() string { return "audit8DB" }
func (d audit8DB) FetchKeys(_ context.Context, reqs map[gomatrixserverlib.PublicKeyLookupRequest]spec.Timestamp) (map[gomatrixserverlib.PublicKeyLookupRequest]gomatrixserverlib.PublicKeyLookupResult, error) {
	out := map[gomatrixserverlib.PublicKeyLookupRequest]gomatrixserverlib.PublicKeyLookupResult{}
	for r := range reqs {
		if v, ok := d[r]; ok {
			out[r] = v
		}
	}
	return out, nil
}
func (d audit8DB) StoreKeys(context.Context, map[gomatrixserverlib.PublicKeyLookupRequest]gomatrixserverlib.PublicKeyLookupResult) error {
	return nil
}

// audit8Setup returns a signing key for origin and a key ring that knows its public half.
func audit8Setup(t *testing.T, origin spec.ServerName, keyID gomatrixserverlib.KeyID) (ed25519.PrivateKey, gomatrixserverlib.JSONVerifier) {
	pub, priv, err := ed25519.GenerateKey(rand.Reader)
	if err != nil {
		t.Fatal(err)
	}
	db := audit8DB{
		{ServerName: origin, KeyID: keyID}: {
			VerifyKey:    gomatrixserverlib.VerifyKey{Key: spec.Base64Bytes(pub)},
			ExpiredTS:    gomatrixserverlib.PublicKeyNotExpired,
			ValidUntilTS: spec.AsTimestamp(time.Now().Add(time.Hour)),
		},
	}
	return priv, &gomatrixserverlib.KeyRing{KeyDatabase: db}
}

// audit8Wire signs the request, runs it through HTTPRequest and returns the
// bytes a Go HTTP client puts on the wire for it.
func audit8Wire(t *testing.T, fr *FederationRequest, origin spec.ServerName, keyID gomatrixserverlib.KeyID, priv ed25519.PrivateKey) string {
	if err := fr.Sign(origin, keyID, priv); err != nil {
		t.Fatal(err)
	}
	hr, err := fr.HTTPRequest()
	if err != nil {
		t.Fatal(err)
	}
	hr.URL.Scheme = "https"
	var buf bytes.Buffer
	if err := hr.Write(&buf); err != nil {
		t.Fatal(err)
	}
	return buf.String()
}

// audit8Receive parses wire bytes the way a Go HTTP server does and verifies them.
func audit8Receive(t *testing.T, raw string, dest spec.ServerName, keys gomatrixserverlib.JSONVerifier) *FederationRequest {
	req, err := http.ReadRequest(bufio.NewReader(strings.NewReader(raw)))
	if err != nil {
		t.Fatalf("the HTTP server would not even parse this request: %v", err)
	}
	res, _ := VerifyHTTPRequest(req, time.Now(), dest, nil, keys)
	return res
}
