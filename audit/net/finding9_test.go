// Package directory: tokens/
//
// C20: any token that was altered must be refused. A login token is the
// unpadded URL-safe base64 of a binary macaroon, but deSerializeMacaroon
//   - uses the lax base64 decoder: '\r' and '\n' anywhere in the string are
//     skipped and the unused low bits of the last character are ignored,
//   - ignores whatever bytes follow the macaroon (UnmarshalBinary drops the rest),
//   - accepts the macaroon in the other (V1 packet) binary format as well.
//
// So there are many different strings that are not the issued token, were
// derived from it by byte-level alteration, and still validate.
package tokens

import (
	"encoding/base64"
	"fmt"
	"testing"

	macaroon "gopkg.in/macaroon.v2"
)

func TestAuditFinding9(t *testing.T) {
	op := TokenOptions{
		ServerPrivateKey: []byte("a secret key"),
		ServerName:       "server.example",
		UserID:           "@alice:server.example", // makes the binary length = 2 mod 3
	}
	token, err := GenerateLoginToken(op)
	if err != nil {
		t.Fatal(err)
	}
	if err = ValidateToken(op, token); err != nil {
		t.Fatalf("control: fresh token does not validate: %v", err)
	}
	bin, err := base64.RawURLEncoding.DecodeString(token)
	if err != nil {
		t.Fatal(err)
	}

	altered := map[string]string{}

	// 1. line breaks inside / after the token
	altered["LF inserted in the middle"] = token[:20] + "\n" + token[20:]
	altered["CRLF appended"] = token + "\r\n"

	// 2. last character changed in the bits that carry no data
	const alphabet = "ABCDEFGHIJKLMNOPQRSTUVWXYZabcdefghijklmnopqrstuvwxyz0123456789-_"
	if len(bin)%3 != 0 {
		last := token[len(token)-1]
		for i := 0; i < len(alphabet); i++ {
			if alphabet[i] == last {
				continue
			}
			cand := token[:len(token)-1] + string(alphabet[i])
			if b, err := base64.RawURLEncoding.DecodeString(cand); err == nil && string(b) == string(bin) {
				altered[fmt.Sprintf("last character %q replaced by %q", last, alphabet[i])] = cand
				break
			}
		}
	}

	// 3. bytes appended after the macaroon
	altered["6 junk bytes appended to the binary form"] = base64.RawURLEncoding.EncodeToString(append(append([]byte{}, bin...), "\x00junk!"...))

	// 4. the same macaroon re-encoded in the V1 binary format
	var m macaroon.Macaroon
	if err = m.UnmarshalBinary(bin); err != nil {
		t.Fatal(err)
	}
	packet := func(field string, data []byte) []byte {
		n := 4 + len(field) + 1 + len(data) + 1
		return append(append([]byte(fmt.Sprintf("%04x%s ", n, field)), data...), '\n')
	}
	var v1 []byte
	v1 = append(v1, packet("location", []byte(m.Location()))...)
	v1 = append(v1, packet("identifier", m.Id())...)
	for _, c := range m.Caveats() {
		v1 = append(v1, packet("cid", c.Id)...)
	}
	v1 = append(v1, packet("signature", m.Signature())...)
	altered["re-encoded in macaroon V1 binary format"] = base64.RawURLEncoding.EncodeToString(v1)

	for name, alt := range altered {
		if alt == token {
			t.Fatalf("%s: test bug, token unchanged", name)
		}
		if err := ValidateToken(op, alt); err == nil {
			t.Errorf("%s: altered token validates\n\tissued:  %q\n\taltered: %q", name, token, alt)
		}
	}
}
