// Package directory: fclient/
//
// C16: a well-known reply is honoured only if it names an "m.server". The body
// is decoded with encoding/json into a struct, whose member matching is
// case-insensitive, so a reply that has no "m.server" member at all but, say,
// "M.SERVER" is honoured and delegates the server.
package fclient

import (
	"context"
	"testing"

	"gopkg.in/h2non/gock.v1"
)

func TestAuditFinding4(t *testing.T) {
	defer gock.Off()
	for _, body := range []string{
		`{"M.SERVER":"elsewhere.example.com:443"}`,
		`{"M.Server":"elsewhere.example.com:443"}`,
		// U+212A KELVIN SIGN / U+017F LONG S also fold onto ASCII letters:
		`{"m.` + "ſ" + `erver":"elsewhere.example.com:443"}`,
	} {
		gock.New("https://example.com").
			Get("/.well-known/matrix/server").
			Reply(200).
			BodyString(body)
		res, err := LookupWellKnown(context.Background(), "example.com")
		gock.Off()
		if err == nil {
			t.Errorf("reply %s has no \"m.server\" member but was honoured: delegated to %q", body, res.NewAddress)
		}
	}

	// Control: the real key is honoured.
	gock.New("https://example.com").
		Get("/.well-known/matrix/server").
		Reply(200).
		BodyString(`{"m.server":"matrix.example.com:443"}`)
	res, err := LookupWellKnown(context.Background(), "example.com")
	if err != nil || res.NewAddress != "matrix.example.com:443" {
		t.Fatalf("control failed: %v %v", res, err)
	}
}
