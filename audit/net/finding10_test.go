// Package directory: tokens/
//
// C20: login tokens authenticate the issuing server; any altered token must be
// refused. The server name given at issue is stored as the macaroon *location*,
// which the macaroon signature does not cover, and ValidateToken never looks at
// it. The server name inside a token can therefore be rewritten at will, and
// TokenOptions.ServerName plays no role at validation.
package tokens

import (
	"bytes"
	"encoding/base64"
	"testing"
)

func TestAuditFinding10(t *testing.T) {
	op := TokenOptions{
		ServerPrivateKey: []byte("a secret key"),
		ServerName:       "server.example",
		UserID:           "@alice:hs",
	}
	token, err := GenerateLoginToken(op)
	if err != nil {
		t.Fatal(err)
	}
	if err = ValidateToken(op, token); err != nil {
		t.Fatalf("control: fresh token does not validate: %v", err)
	}

	// (a) rewrite the server name inside the token (same length, so that no
	// length prefix has to be touched).
	bin, err := base64.RawURLEncoding.DecodeString(token)
	if err != nil {
		t.Fatal(err)
	}
	if bytes.Count(bin, []byte("server.example")) != 1 {
		t.Fatalf("test bug: server name not found exactly once in the token")
	}
	altered := base64.RawURLEncoding.EncodeToString(bytes.Replace(bin, []byte("server.example"), []byte("attack.example"), 1))
	if altered == token {
		t.Fatal("test bug: token unchanged")
	}
	if err := ValidateToken(op, altered); err == nil {
		t.Errorf("token whose server name was rewritten from %q to %q validates for server %q", "server.example", "attack.example", op.ServerName)
	}

	// (b) the unaltered token, presented to a validator configured with another server name.
	other := op
	other.ServerName = "other.example"
	if err := ValidateToken(other, token); err == nil {
		t.Errorf("token issued with ServerName %q validates with ServerName %q", op.ServerName, other.ServerName)
	}
}
