// Package directory: fclient/
//
// C13: a request whose X-Matrix Authorization header is malformed must be
// refused. ParseAuthorization splits on "," and "=", then strips ANY number of
// double quotes from both ends of a value and ignores list members that are not
// name=value pairs. Headers with an unterminated quoted-string, with stray
// quote characters or with arbitrary junk between the parameters are therefore
// read exactly like the well-formed header and the request is accepted.
package fclient

import (
	"bufio"
	"bytes"
	"context"
	"crypto/rand"
	"net/http"
	"strings"
	"testing"
	"time"

	"github.com/matrix-org/gomatrixserverlib"
	"github.com/matrix-org/gomatrixserverlib/spec"
	"golang.org/x/crypto/ed25519"
)

func TestAuditFinding7(t *testing.T) {
	origin, dest := spec.ServerName("origin.example"), spec.ServerName("dest.example")
	keyID := gomatrixserverlib.KeyID("ed25519:1")
	priv, keys := audit7Setup(t, origin, keyID)

	fr := NewFederationRequest("GET", origin, dest, "/_matrix/federation/v1/version")
	raw := audit7Wire(t, &fr, origin, keyID, priv)

	// Control: the untouched request is accepted.
	if audit7Receive(t, raw, dest, keys) == nil {
		t.Fatalf("control: untouched request refused")
	}

	start := strings.Index(raw, "Authorization: ") + len("Authorization: ")
	end := start + strings.Index(raw[start:], "\r\n")
	good := raw[start:end] // X-Matrix origin="origin.example",key="ed25519:1",sig="...",destination="dest.example"
	if !strings.HasPrefix(good, `X-Matrix origin="origin.example",key="ed25519:1",sig="`) {
		t.Fatalf("unexpected header %q", good)
	}

	malformed := map[string]string{
		"origin: closing quote missing":      strings.Replace(good, `origin="origin.example"`, `origin="origin.example`, 1),
		"origin: opening quote missing":      strings.Replace(good, `origin="origin.example"`, `origin=origin.example"`, 1),
		"origin: quotes doubled":             strings.Replace(good, `origin="origin.example"`, `origin=""origin.example""`, 1),
		"origin: three opening quotes":       strings.Replace(good, `origin="origin.example"`, `origin="""origin.example`, 1),
		"key: closing quote missing":         strings.Replace(good, `key="ed25519:1"`, `key="ed25519:1`, 1),
		"sig: closing quote missing":         strings.Replace(good, `",destination=`, `,destination=`, 1),
		"destination: closing quote missing": strings.TrimSuffix(good, `"`),
		"junk member without '='":            good + `,!!! not a parameter !!!`,
		"lone quote as a member":             good + `,"`,
	}
	for name, hdr := range malformed {
		if hdr == good {
			t.Fatalf("%s: test bug, header unchanged", name)
		}
		tampered := raw[:start] + hdr + raw[end:]
		if got := audit7Receive(t, tampered, dest, keys); got != nil {
			t.Errorf("%s: request with malformed header accepted\n\tAuthorization: %s", name, hdr)
		}
	}
}

type audit7DB map[gomatrixserverlib.PublicKeyLookupRequest]gomatrixserverlib.PublicKeyLookupResult

func (d audit7DB) FetcherName() string { return "audit7DB" }
func (d audit7DB) FetchKeys(_ context.Context, reqs map[gomatrixserverlib.PublicKeyLookupRequest]spec.Timestamp) (map[gomatrixserverlib.PublicKeyLookupRequest]gomatrixserverlib.PublicKeyLookupResult, error) {
	out := map[gomatrixserverlib.PublicKeyLookupRequest]gomatrixserverlib.PublicKeyLookupResult{}
	for r := range reqs {
		if v, ok := d[r]; ok {
			out[r] = v
		}
	}
	return out, nil
}
func (d audit7DB) StoreKeys(context.Context, map[gomatrixserverlib.PublicKeyLookupRequest]gomatrixserverlib.PublicKeyLookupResult) error {
	return nil
}

// audit7Setup returns a signing key for origin and a key ring that knows its public half.
func audit7Setup(t *testing.T, origin spec.ServerName, keyID gomatrixserverlib.KeyID) (ed25519.PrivateKey, gomatrixserverlib.JSONVerifier) {
	pub, priv, err := ed25519.GenerateKey(rand.Reader)
	if err != nil {
		t.Fatal(err)
	}
	db := audit7DB{
		{ServerName: origin, KeyID: keyID}: {
			VerifyKey:    gomatrixserverlib.VerifyKey{Key: spec.Base64Bytes(pub)},
			ExpiredTS:    gomatrixserverlib.PublicKeyNotExpired,
			ValidUntilTS: spec.AsTimestamp(time.Now().Add(time.Hour)),
		},
	}
	return priv, &gomatrixserverlib.KeyRing{KeyDatabase: db}
}

// audit7Wire signs the request, runs it through HTTPRequest and returns the
// bytes a Go HTTP client puts on the wire for it.
func audit7Wire(t *testing.T, fr *FederationRequest, origin spec.ServerName, keyID gomatrixserverlib.KeyID, priv ed25519.PrivateKey) string {
	if err := fr.Sign(origin, keyID, priv); err != nil {
		t.Fatal(err)
	}
	hr, err := fr.HTTPRequest()
	if err != nil {
		t.Fatal(err)
	}
	hr.URL.Scheme = "https"
	var buf bytes.Buffer
	if err := hr.Write(&buf); err != nil {
		t.Fatal(err)
	}
	return buf.String()
}

// audit7Receive parses wire bytes the way a Go HTTP server does and verifies them.
func audit7Receive(t *testing.T, raw string, dest spec.ServerName, keys gomatrixserverlib.JSONVerifier) *FederationRequest {
	req, err := http.ReadRequest(bufio.NewReader(strings.NewReader(raw)))
	if err != nil {
		t.Fatalf("the HTTP server would not even parse this request: %v", err)
	}
	res, _ := VerifyHTTPRequest(req, time.Now(), dest, nil, keys)
	return res
}
