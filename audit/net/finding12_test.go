// Package directory: fclient/
//
// C16 (lowest severity of the set): invalid server names must be refused by
// ResolveServer. The server name grammar is
//
//	server_name = hostname [ ":" port ]      port = 1*5DIGIT
//	dns-name    = 1*255dns-char
//
// spec.ParseAndValidateServerName parses the port with strconv.ParseUint(.., 10, 16),
// which takes any number of leading zeros, and never looks at the length of the
// host, so names outside the grammar are resolved to connection targets.
package fclient

import (
	"context"
	"strings"
	"testing"

	"github.com/matrix-org/gomatrixserverlib/spec"
)

func TestAuditFinding12(t *testing.T) {
	// All of these carry an explicit port, so no network access is attempted.
	invalid := []spec.ServerName{
		"example.com:000080",                                // 6-digit port
		"example.com:0000000000000000000000008448",          // 28-digit port
		"[::1]:000080",                                      // same with an IPv6 literal
		"1.2.3.4:000080",                                    // same with an IPv4 literal
		spec.ServerName(strings.Repeat("a", 256) + ":8448"), // 256-character dns-name
	}
	for _, name := range invalid {
		res, err := ResolveServer(context.Background(), name)
		if err == nil {
			short := string(name)
			if len(short) > 40 {
				short = short[:20] + "..." + short[len(short)-10:]
			}
			t.Errorf("invalid server name %q (length %d) was not refused; resolved to %d target(s)", short, len(name), len(res))
		}
	}
	// Control: the longest valid forms are accepted.
	for _, name := range []spec.ServerName{"example.com:00080", spec.ServerName(strings.Repeat("a", 255) + ":8448")} {
		if _, err := ResolveServer(context.Background(), name); err != nil {
			t.Fatalf("control: valid server name refused: %v", err)
		}
	}
}
