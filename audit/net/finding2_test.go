// Package directory: fclient/
//
// C16: the cache lifetime of a well-known reply must come from max-age (in
// preference to Expires). WellKnownResult.CacheExpiresAt has no `json:"-"` tag
// and the struct is filled by json.Unmarshal AFTER the headers were evaluated,
// so a "CacheExpiresAt" member in the reply body overrides both headers.
package fclient

import (
	"context"
	"testing"
	"time"

	"gopkg.in/h2non/gock.v1"
)

func TestAuditFinding2(t *testing.T) {
	defer gock.Off()

	gock.New("https://example.com").
		Get("/.well-known/matrix/server").
		Reply(200).
		SetHeader("Cache-Control", "max-age=100").
		BodyString(`{"m.server":"matrix.example.com:443","CacheExpiresAt":99999999999}`)

	before := time.Now().Unix()
	res, err := LookupWellKnown(context.Background(), "example.com")
	after := time.Now().Unix()
	if err != nil {
		t.Fatalf("LookupWellKnown: %v", err)
	}
	if res.NewAddress != "matrix.example.com:443" {
		t.Fatalf("unexpected m.server %q", res.NewAddress)
	}
	if res.CacheExpiresAt < before+100 || res.CacheExpiresAt > after+100 {
		t.Errorf("CacheExpiresAt = %d, want now+max-age = %d..%d (the value was taken from the reply body)",
			res.CacheExpiresAt, before+100, after+100)
	}

	// Same thing through Go's case-insensitive member matching, and with no
	// caching headers at all (lifetime must then be "unknown", i.e. 0).
	gock.New("https://example.com").
		Get("/.well-known/matrix/server").
		Reply(200).
		BodyString(`{"m.server":"matrix.example.com:443","cacheexpiresat":-5}`)
	res, err = LookupWellKnown(context.Background(), "example.com")
	if err != nil {
		t.Fatalf("LookupWellKnown: %v", err)
	}
	if res.CacheExpiresAt != 0 {
		t.Errorf("CacheExpiresAt = %d without any caching header, want 0 (the value was taken from the reply body)", res.CacheExpiresAt)
	}
}
