// Package directory: fclient/
//
// C16: with allow / deny network lists configured, the /.well-known lookup that
// is part of server name resolution is made with a plain http.Client (default
// transport, no dialer control), so a TCP connection is opened to an address in
// a denied range.
package fclient

import (
	"context"
	"net"
	"net/http"
	"sync"
	"sync/atomic"
	"testing"
	"time"
)

func TestAuditFinding1(t *testing.T) {
	// Everything on the loopback interface is denied.
	allow := []string{"0.0.0.0/0", "::/0"}
	deny := []string{"127.0.0.0/8", "::1/128"}

	// (a) If we may bind port 443 on loopback, count real connections.
	var accepted int32
	if ln, err := net.Listen("tcp", "127.0.0.1:443"); err == nil {
		defer ln.Close() // nolint: errcheck
		go func() {
			for {
				c, err := ln.Accept()
				if err != nil {
					return
				}
				atomic.AddInt32(&accepted, 1)
				_ = c.Close()
			}
		}()
	}

	// (b) Independently of (a), record every dial that goes through the
	// process-wide default transport, which knows nothing about the policy.
	var mu sync.Mutex
	var unprotectedDials []string
	oldDefault := http.DefaultTransport
	http.DefaultTransport = &http.Transport{
		DialContext: func(ctx context.Context, network, addr string) (net.Conn, error) {
			mu.Lock()
			unprotectedDials = append(unprotectedDials, network+" "+addr)
			mu.Unlock()
			return (&net.Dialer{Timeout: time.Second}).DialContext(ctx, network, addr)
		},
	}
	defer func() { http.DefaultTransport = oldDefault }()

	// This is what NewFederationClient builds: well-known / SRV lookups on.
	cl := NewClient(
		WithWellKnownSRVLookups(true),
		WithAllowDenyNetworks(allow, deny),
		WithTimeout(3*time.Second),
	)

	// "localhost" has no port, so resolution step 3 (well-known) applies; it
	// resolves to 127.0.0.1 / ::1, both denied.
	req, err := http.NewRequest("GET", "matrix://localhost/_matrix/federation/v1/version", nil)
	if err != nil {
		t.Fatal(err)
	}
	ctx, cancel := context.WithTimeout(context.Background(), 3*time.Second)
	defer cancel()
	resp, err := cl.DoHTTPRequest(ctx, req)
	if err == nil {
		_ = resp.Body.Close()
		t.Errorf("request to a denied address succeeded")
	}
	time.Sleep(50 * time.Millisecond)

	mu.Lock()
	defer mu.Unlock()
	if len(unprotectedDials) != 0 {
		t.Errorf("outbound connection(s) made without the allow/deny dialer control while resolving \"localhost\": %v", unprotectedDials)
	}
	if n := atomic.LoadInt32(&accepted); n != 0 {
		t.Errorf("%d TCP connection(s) were made to 127.0.0.1:443, which lies in the denied range 127.0.0.0/8", n)
	}
}
