// Audit finding 4 -- place this file in the package root directory
// (package gomatrixserverlib, next to authstate.go) and run:
//
//	go test -vet=off -count=1 -run TestAuditFinding4 .
package gomatrixserverlib

import (
	"context"
	"crypto/rand"
	"encoding/json"
	"fmt"
	"testing"

	"github.com/matrix-org/gomatrixserverlib/spec"
	"golang.org/x/crypto/ed25519"
)

// C15: HandleInvite countersigns events that are not invites.
func TestAuditFinding4(t *testing.T) {
	a, local := af4NewSrv("a"), af4NewSrv("local")
	ver := &af4Verifier{srv: map[string]*af4Srv{"a": a, "local": local}}
	invitee, _ := spec.NewUserID("@bob:local", true)
	for _, v := range []RoomVersion{RoomVersionV1, RoomVersionV6, RoomVersionV10, RoomVersionV11} {
		r := af4NewRoom(t, v, a, "invite")
		room, _ := spec.NewRoomID(r.roomID)
		cases := map[string]PDU{
			"m.room.message":                      af4Make(t, v, r.fields("m.room.message", "@alice:a", nil, map[string]interface{}{"body": "not an invite"}, "a"), a),
			"m.room.power_levels":                 af4Make(t, v, r.fields(spec.MRoomPowerLevels, "@alice:a", af4Sp(""), map[string]interface{}{"users": map[string]int{"@alice:a": 100}}, "a"), a),
			"m.room.member with membership ban":   af4Make(t, v, r.fields(spec.MRoomMember, "@alice:a", af4Sp("@bob:local"), map[string]interface{}{"membership": "ban"}, "a"), a),
			"m.room.member with membership join":  af4Make(t, v, r.fields(spec.MRoomMember, "@alice:a", af4Sp("@bob:local"), map[string]interface{}{"membership": "join"}, "a"), a),
			"m.room.topic with membership invite": af4Make(t, v, r.fields("m.room.topic", "@alice:a", af4Sp("@bob:local"), map[string]interface{}{"membership": "invite"}, "a"), a),
		}
		for name, ev := range cases {
			out, err := HandleInvite(context.Background(), HandleInviteInput{
				RoomID: *room, RoomVersion: v, InvitedUser: *invitee, InvitedSenderID: "@bob:local", InviteEvent: ev,
				KeyID: local.keyID, PrivateKey: local.priv, Verifier: ver,
				RoomQuerier: &af4RoomQ{}, MembershipQuerier: &af4MemberQ{}, StateQuerier: &af4StateQ{}, UserIDQuerier: af4UserID,
			})
			if err == nil && out != nil {
				t.Errorf("room version %s: HandleInvite accepted and signed a non-invite (%s): %s", v, name, out.JSON())
			}
		}
	}
}

type af4RoomQ struct{ known bool }

func (q *af4RoomQ) IsKnownRoom(ctx context.Context, roomID spec.RoomID) (bool, error) {
	return q.known, nil
}

type af4MemberQ struct{ membership string }

func (q *af4MemberQ) CurrentMembership(ctx context.Context, roomID spec.RoomID, senderID spec.SenderID) (string, error) {
	return q.membership, nil
}

type af4StateQ struct{}

func (q *af4StateQ) GetAuthEvents(ctx context.Context, event PDU) (AuthEventProvider, error) {
	return NewAuthEvents(nil)
}
func (q *af4StateQ) GetState(ctx context.Context, roomID spec.RoomID, want []StateKeyTuple) ([]PDU, error) {
	return nil, nil
}

// ---- self-contained helpers (prefix af4) ----

type af4Srv struct {
	name  string
	keyID KeyID
	pub   ed25519.PublicKey
	priv  ed25519.PrivateKey
}

func af4NewSrv(name string) *af4Srv {
	pub, priv, _ := ed25519.GenerateKey(rand.Reader)
	return &af4Srv{name: name, keyID: "ed25519:k1", pub: pub, priv: priv}
}

// af4Verifier verifies real ed25519 signatures against a fixed server -> key table.
type af4Verifier struct{ srv map[string]*af4Srv }

func (v *af4Verifier) VerifyJSONs(ctx context.Context, reqs []VerifyJSONRequest) ([]VerifyJSONResult, error) {
	res := make([]VerifyJSONResult, len(reqs))
	for i, r := range reqs {
		s, ok := v.srv[string(r.ServerName)]
		if !ok {
			res[i].Error = fmt.Errorf("unknown server %q", r.ServerName)
			continue
		}
		res[i].Error = VerifyJSON(s.name, s.keyID, s.pub, r.Message)
	}
	return res, nil
}

func af4UserID(roomID spec.RoomID, senderID spec.SenderID) (*spec.UserID, error) {
	return spec.NewUserID(string(senderID), true)
}

// af4Make builds an event from raw fields with a correct content hash, signed by the given signers.
func af4Make(t testing.TB, ver RoomVersion, fields map[string]interface{}, signers ...*af4Srv) PDU {
	b, err := json.Marshal(fields)
	if err != nil {
		t.Fatalf("marshal: %v", err)
	}
	if b, err = addContentHashesToEvent(b); err != nil {
		t.Fatalf("hash: %v", err)
	}
	for _, s := range signers {
		if b, err = signEvent(s.name, s.keyID, s.priv, b, ver); err != nil {
			t.Fatalf("sign: %v", err)
		}
	}
	ev, err := MustGetRoomVersion(ver).NewEventFromUntrustedJSON(b)
	if err != nil {
		t.Fatalf("parse: %v", err)
	}
	return ev
}

type af4Room struct {
	t      testing.TB
	ver    RoomVersion
	roomID string
	n      int
	depth  int64
	last   string
	state  map[StateKeyTuple]PDU
	all    []PDU
}

func (r *af4Room) refs(ids []string) interface{} {
	if MustGetRoomVersion(r.ver).EventFormat() == EventFormatV1 {
		out := []interface{}{}
		for _, id := range ids {
			out = append(out, []interface{}{id, map[string]string{"sha256": "47DEQpj8HBSa+/TImW+5JCeuQeRkm5NMpJWZG3hSuFU"}})
		}
		return out
	}
	if ids == nil {
		return []string{}
	}
	return ids
}

// fields returns the raw fields of a new event on top of the current room state
// (auth_events are selected from the current state the way a real server does).
func (r *af4Room) fields(typ, sender string, stateKey *string, content interface{}, origin string) map[string]interface{} {
	impl := MustGetRoomVersion(r.ver)
	r.n++
	r.depth++
	cb, _ := json.Marshal(content)
	f := map[string]interface{}{
		"type": typ, "sender": sender, "content": json.RawMessage(cb), "depth": r.depth,
		"origin_server_ts": 1000 + r.n, "origin": origin,
	}
	if stateKey != nil {
		f["state_key"] = *stateKey
	}
	if impl.EventIDFormat() == EventIDFormatV1 {
		f["event_id"] = fmt.Sprintf("$ev%d:%s", r.n, origin)
	}
	isCreate := typ == spec.MRoomCreate
	if !(isCreate && impl.DomainlessRoomIDs()) {
		f["room_id"] = r.roomID
	}
	prev := []string{}
	if r.last != "" {
		prev = []string{r.last}
	}
	f["prev_events"] = r.refs(prev)
	auth := []string{}
	if !isCreate {
		pe := ProtoEvent{SenderID: sender, RoomID: r.roomID, Type: typ, StateKey: stateKey, Content: cb}
		needed, err := StateNeededForProtoEvent(&pe)
		if err != nil {
			r.t.Fatalf("state needed: %v", err)
		}
		for _, tup := range needed.Tuples() {
			if tup.EventType == spec.MRoomCreate && impl.DomainlessRoomIDs() {
				continue
			}
			if e, ok := r.state[tup]; ok {
				auth = append(auth, e.EventID())
			}
		}
	}
	f["auth_events"] = r.refs(auth)
	return f
}

func (r *af4Room) add(ev PDU) PDU {
	if ev.Type() == spec.MRoomCreate && MustGetRoomVersion(r.ver).DomainlessRoomIDs() {
		r.roomID = "!" + ev.EventID()[1:]
	}
	if ev.StateKey() != nil {
		r.state[StateKeyTuple{ev.Type(), *ev.StateKey()}] = ev
	}
	r.last = ev.EventID()
	r.all = append(r.all, ev)
	return ev
}

func (r *af4Room) send(typ, sender string, stateKey *string, content interface{}, signers ...*af4Srv) PDU {
	return r.add(af4Make(r.t, r.ver, r.fields(typ, sender, stateKey, content, signers[0].name), signers...))
}

func af4Sp(s string) *string { return &s }

// af4NewRoom: room !room:a created by @alice:a (server a): create, alice's join, power levels, join rules.
func af4NewRoom(t testing.TB, ver RoomVersion, a *af4Srv, joinRule string) *af4Room {
	r := &af4Room{t: t, ver: ver, roomID: "!room:a", state: map[StateKeyTuple]PDU{}}
	impl := MustGetRoomVersion(ver)
	cc := map[string]interface{}{"room_version": string(ver)}
	if !impl.PrivilegedCreators() && ver != RoomVersionV11 {
		cc["creator"] = "@alice:a"
	}
	r.send(spec.MRoomCreate, "@alice:a", af4Sp(""), cc, a)
	r.send(spec.MRoomMember, "@alice:a", af4Sp("@alice:a"), map[string]interface{}{"membership": "join"}, a)
	users := map[string]interface{}{"@alice:a": 100}
	if impl.PrivilegedCreators() {
		users = map[string]interface{}{}
	}
	r.send(spec.MRoomPowerLevels, "@alice:a", af4Sp(""), map[string]interface{}{"users": users, "events_default": 0, "state_default": 50, "users_default": 0, "invite": 50, "ban": 50, "kick": 50, "redact": 50}, a)
	r.send(spec.MRoomJoinRules, "@alice:a", af4Sp(""), map[string]interface{}{"join_rule": joinRule}, a)
	return r
}

func (r *af4Room) stateList() []PDU {
	out := []PDU{}
	for _, e := range r.all {
		if e.StateKey() != nil && r.state[StateKeyTuple{e.Type(), *e.StateKey()}] == e {
			out = append(out, e)
		}
	}
	return out
}

func (r *af4Room) lookup(ids []string) []PDU {
	var out []PDU
	for _, id := range ids {
		for _, e := range r.all {
			if e.EventID() == id {
				out = append(out, e)
				break
			}
		}
	}
	return out
}
