// Audit finding 9 -- place this file in the package root directory
// (package gomatrixserverlib, next to authstate.go) and run:
//
//	go test -vet=off -count=1 -run TestAuditFinding9 .
package gomatrixserverlib

import (
	"context"
	"crypto/rand"
	"encoding/json"
	"fmt"
	"testing"

	"github.com/matrix-org/gomatrixserverlib/spec"
	"golang.org/x/crypto/ed25519"
)

// C15: PerformJoin swaps its own join event for whatever the remote puts in the "event" key of the
// send_join response; the replacement need not be an m.room.member event nor carry any signature.
func TestAuditFinding9(t *testing.T) {
	a, local := af9NewSrv("a"), af9NewSrv("local")
	for _, v := range []RoomVersion{RoomVersionV6, RoomVersionV10} {
		r := af9NewRoom(t, v, a, "public")
		// carol is (according to the remote) already in the room and has PL 50: a re-join
		r.send(spec.MRoomMember, "@carol:local", af9Sp("@carol:local"), map[string]interface{}{"membership": "join"}, local)
		r.send(spec.MRoomPowerLevels, "@alice:a", af9Sp(""), map[string]interface{}{"users": map[string]int{"@alice:a": 100, "@carol:local": 50}, "state_default": 50}, a)
		// invented by the remote, signed by nobody
		fake := af9Make(t, v, r.fields("m.room.topic", "@carol:local", af9Sp("@carol:local"), map[string]interface{}{"membership": "join", "topic": "carol never sent this"}, "local"))
		st := r.stateList()
		var authIDs []string
		for _, tup := range []StateKeyTuple{{spec.MRoomCreate, ""}, {spec.MRoomPowerLevels, ""}, {spec.MRoomJoinRules, ""}, {spec.MRoomMember, "@carol:local"}} {
			authIDs = append(authIDs, r.state[tup].EventID())
		}
		user, _ := spec.NewUserID("@carol:local", true)
		room, _ := spec.NewRoomID(r.roomID)
		c := &af9JoinClient{ver: v,
			proto: ProtoEvent{SenderID: "@carol:local", RoomID: r.roomID, Type: spec.MRoomMember, StateKey: af9Sp("@carol:local"), PrevEvents: []string{r.last}, AuthEvents: authIDs, Depth: 10, Content: spec.RawJSON(`{"membership":"join"}`)},
			send: func(ev PDU) (*af9SendJoinResp, error) {
				return &af9SendJoinResp{auth: NewEventJSONsFromEvents(r.all), state: NewEventJSONsFromEvents(st), event: fake.JSON()}, nil
			}}
		kr := &KeyRing{KeyDatabase: &af9KeyDB{srv: map[string]*af9Srv{"a": a, "local": local}}}
		res, ferr := PerformJoin(context.Background(), c, PerformJoinInput{UserID: user, RoomID: room, ServerName: "a", PrivateKey: local.priv, KeyID: local.keyID, KeyRing: kr, UserIDQuerier: af9UserID})
		if ferr != nil {
			continue // refusing the whole response is fine
		}
		if res.JoinEvent.Type() != spec.MRoomMember {
			t.Errorf("room version %s: PerformJoin returned as JoinEvent an event of type %q that the local server never built or signed: %s", v, res.JoinEvent.Type(), res.JoinEvent.JSON())
		}
	}
}

// af9KeyDB is a KeyDatabase serving the fixed keys of the test servers.
type af9KeyDB struct{ srv map[string]*af9Srv }

func (d *af9KeyDB) FetcherName() string { return "af9KeyDB" }
func (d *af9KeyDB) FetchKeys(ctx context.Context, reqs map[PublicKeyLookupRequest]spec.Timestamp) (map[PublicKeyLookupRequest]PublicKeyLookupResult, error) {
	out := map[PublicKeyLookupRequest]PublicKeyLookupResult{}
	for req := range reqs {
		if s, ok := d.srv[string(req.ServerName)]; ok && req.KeyID == s.keyID {
			out[req] = PublicKeyLookupResult{VerifyKey: VerifyKey{Key: spec.Base64Bytes(s.pub)}, ValidUntilTS: spec.Timestamp(1 << 50), ExpiredTS: PublicKeyNotExpired}
		}
	}
	return out, nil
}
func (d *af9KeyDB) StoreKeys(ctx context.Context, r map[PublicKeyLookupRequest]PublicKeyLookupResult) error {
	return nil
}

type af9MakeJoinResp struct {
	ver   RoomVersion
	proto ProtoEvent
}

func (r *af9MakeJoinResp) GetJoinEvent() ProtoEvent    { return r.proto }
func (r *af9MakeJoinResp) GetRoomVersion() RoomVersion { return r.ver }

type af9SendJoinResp struct {
	auth, state EventJSONs
	event       spec.RawJSON
}

func (r *af9SendJoinResp) GetAuthEvents() EventJSONs  { return r.auth }
func (r *af9SendJoinResp) GetStateEvents() EventJSONs { return r.state }
func (r *af9SendJoinResp) GetOrigin() spec.ServerName { return "a" }
func (r *af9SendJoinResp) GetJoinEvent() spec.RawJSON { return r.event }
func (r *af9SendJoinResp) GetMembersOmitted() bool    { return false }
func (r *af9SendJoinResp) GetServersInRoom() []string { return nil }

// af9JoinClient plays the remote resident server for PerformJoin.
type af9JoinClient struct {
	ver   RoomVersion
	proto ProtoEvent
	send  func(ev PDU) (*af9SendJoinResp, error)
}

func (c *af9JoinClient) MakeJoin(ctx context.Context, origin, s spec.ServerName, roomID, userID string) (MakeJoinResponse, error) {
	return &af9MakeJoinResp{ver: c.ver, proto: c.proto}, nil
}
func (c *af9JoinClient) SendJoin(ctx context.Context, origin, s spec.ServerName, ev PDU) (SendJoinResponse, error) {
	r, err := c.send(ev)
	if err != nil {
		return nil, err
	}
	return r, nil
}

// ---- self-contained helpers (prefix af9) ----

type af9Srv struct {
	name  string
	keyID KeyID
	pub   ed25519.PublicKey
	priv  ed25519.PrivateKey
}

func af9NewSrv(name string) *af9Srv {
	pub, priv, _ := ed25519.GenerateKey(rand.Reader)
	return &af9Srv{name: name, keyID: "ed25519:k1", pub: pub, priv: priv}
}

// af9Verifier verifies real ed25519 signatures against a fixed server -> key table.
type af9Verifier struct{ srv map[string]*af9Srv }

func (v *af9Verifier) VerifyJSONs(ctx context.Context, reqs []VerifyJSONRequest) ([]VerifyJSONResult, error) {
	res := make([]VerifyJSONResult, len(reqs))
	for i, r := range reqs {
		s, ok := v.srv[string(r.ServerName)]
		if !ok {
			res[i].Error = fmt.Errorf("unknown server %q", r.ServerName)
			continue
		}
		res[i].Error = VerifyJSON(s.name, s.keyID, s.pub, r.Message)
	}
	return res, nil
}

func af9UserID(roomID spec.RoomID, senderID spec.SenderID) (*spec.UserID, error) {
	return spec.NewUserID(string(senderID), true)
}

// af9Make builds an event from raw fields with a correct content hash, signed by the given signers.
func af9Make(t testing.TB, ver RoomVersion, fields map[string]interface{}, signers ...*af9Srv) PDU {
	b, err := json.Marshal(fields)
	if err != nil {
		t.Fatalf("marshal: %v", err)
	}
	if b, err = addContentHashesToEvent(b); err != nil {
		t.Fatalf("hash: %v", err)
	}
	for _, s := range signers {
		if b, err = signEvent(s.name, s.keyID, s.priv, b, ver); err != nil {
			t.Fatalf("sign: %v", err)
		}
	}
	ev, err := MustGetRoomVersion(ver).NewEventFromUntrustedJSON(b)
	if err != nil {
		t.Fatalf("parse: %v", err)
	}
	return ev
}

type af9Room struct {
	t      testing.TB
	ver    RoomVersion
	roomID string
	n      int
	depth  int64
	last   string
	state  map[StateKeyTuple]PDU
	all    []PDU
}

func (r *af9Room) refs(ids []string) interface{} {
	if MustGetRoomVersion(r.ver).EventFormat() == EventFormatV1 {
		out := []interface{}{}
		for _, id := range ids {
			out = append(out, []interface{}{id, map[string]string{"sha256": "47DEQpj8HBSa+/TImW+5JCeuQeRkm5NMpJWZG3hSuFU"}})
		}
		return out
	}
	if ids == nil {
		return []string{}
	}
	return ids
}

// fields returns the raw fields of a new event on top of the current room state
// (auth_events are selected from the current state the way a real server does).
func (r *af9Room) fields(typ, sender string, stateKey *string, content interface{}, origin string) map[string]interface{} {
	impl := MustGetRoomVersion(r.ver)
	r.n++
	r.depth++
	cb, _ := json.Marshal(content)
	f := map[string]interface{}{
		"type": typ, "sender": sender, "content": json.RawMessage(cb), "depth": r.depth,
		"origin_server_ts": 1000 + r.n, "origin": origin,
	}
	if stateKey != nil {
		f["state_key"] = *stateKey
	}
	if impl.EventIDFormat() == EventIDFormatV1 {
		f["event_id"] = fmt.Sprintf("$ev%d:%s", r.n, origin)
	}
	isCreate := typ == spec.MRoomCreate
	if !(isCreate && impl.DomainlessRoomIDs()) {
		f["room_id"] = r.roomID
	}
	prev := []string{}
	if r.last != "" {
		prev = []string{r.last}
	}
	f["prev_events"] = r.refs(prev)
	auth := []string{}
	if !isCreate {
		pe := ProtoEvent{SenderID: sender, RoomID: r.roomID, Type: typ, StateKey: stateKey, Content: cb}
		needed, err := StateNeededForProtoEvent(&pe)
		if err != nil {
			r.t.Fatalf("state needed: %v", err)
		}
		for _, tup := range needed.Tuples() {
			if tup.EventType == spec.MRoomCreate && impl.DomainlessRoomIDs() {
				continue
			}
			if e, ok := r.state[tup]; ok {
				auth = append(auth, e.EventID())
			}
		}
	}
	f["auth_events"] = r.refs(auth)
	return f
}

func (r *af9Room) add(ev PDU) PDU {
	if ev.Type() == spec.MRoomCreate && MustGetRoomVersion(r.ver).DomainlessRoomIDs() {
		r.roomID = "!" + ev.EventID()[1:]
	}
	if ev.StateKey() != nil {
		r.state[StateKeyTuple{ev.Type(), *ev.StateKey()}] = ev
	}
	r.last = ev.EventID()
	r.all = append(r.all, ev)
	return ev
}

func (r *af9Room) send(typ, sender string, stateKey *string, content interface{}, signers ...*af9Srv) PDU {
	return r.add(af9Make(r.t, r.ver, r.fields(typ, sender, stateKey, content, signers[0].name), signers...))
}

func af9Sp(s string) *string { return &s }

// af9NewRoom: room !room:a created by @alice:a (server a): create, alice's join, power levels, join rules.
func af9NewRoom(t testing.TB, ver RoomVersion, a *af9Srv, joinRule string) *af9Room {
	r := &af9Room{t: t, ver: ver, roomID: "!room:a", state: map[StateKeyTuple]PDU{}}
	impl := MustGetRoomVersion(ver)
	cc := map[string]interface{}{"room_version": string(ver)}
	if !impl.PrivilegedCreators() && ver != RoomVersionV11 {
		cc["creator"] = "@alice:a"
	}
	r.send(spec.MRoomCreate, "@alice:a", af9Sp(""), cc, a)
	r.send(spec.MRoomMember, "@alice:a", af9Sp("@alice:a"), map[string]interface{}{"membership": "join"}, a)
	users := map[string]interface{}{"@alice:a": 100}
	if impl.PrivilegedCreators() {
		users = map[string]interface{}{}
	}
	r.send(spec.MRoomPowerLevels, "@alice:a", af9Sp(""), map[string]interface{}{"users": users, "events_default": 0, "state_default": 50, "users_default": 0, "invite": 50, "ban": 50, "kick": 50, "redact": 50}, a)
	r.send(spec.MRoomJoinRules, "@alice:a", af9Sp(""), map[string]interface{}{"join_rule": joinRule}, a)
	return r
}

func (r *af9Room) stateList() []PDU {
	out := []PDU{}
	for _, e := range r.all {
		if e.StateKey() != nil && r.state[StateKeyTuple{e.Type(), *e.StateKey()}] == e {
			out = append(out, e)
		}
	}
	return out
}

func (r *af9Room) lookup(ids []string) []PDU {
	var out []PDU
	for _, id := range ids {
		for _, e := range r.all {
			if e.EventID() == id {
				out = append(out, e)
				break
			}
		}
	}
	return out
}
