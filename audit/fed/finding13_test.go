// Audit finding 13 -- place this file in the package root directory
// (package gomatrixserverlib, next to authstate.go) and run:
//
//	go test -vet=off -count=1 -run TestAuditFinding13 .
package gomatrixserverlib

import (
	"context"
	"crypto/rand"
	"encoding/json"
	"fmt"
	"testing"

	"github.com/matrix-org/gomatrixserverlib/spec"
	"golang.org/x/crypto/ed25519"
)

type af13JoinQuerier struct{}

func (q *af13JoinQuerier) CurrentStateEvent(ctx context.Context, roomID spec.RoomID, eventType string, stateKey string) (PDU, error) {
	return nil, nil
}
func (q *af13JoinQuerier) InvitePending(ctx context.Context, roomID spec.RoomID, senderID spec.SenderID) (bool, error) {
	return false, nil
}
func (q *af13JoinQuerier) RestrictedRoomJoinInfo(ctx context.Context, roomID spec.RoomID, senderID spec.SenderID, localServerName spec.ServerName) (*RestrictedRoomJoinInfo, error) {
	return nil, nil
}

// C15 / crash freedom: make_join for a room whose version this library does not know, requested by
// a remote that lists that version in ?ver=.
func TestAuditFinding13(t *testing.T) {
	user, _ := spec.NewUserID("@bob:b", true)
	room, _ := spec.NewRoomID("!room:a")
	defer func() {
		if rec := recover(); rec != nil {
			t.Errorf("HandleMakeJoin panicked instead of returning an error: %v", rec)
		}
	}()
	res, err := HandleMakeJoin(HandleMakeJoinInput{
		Context: context.Background(), UserID: *user, SenderID: "@bob:b", RoomID: *room,
		RoomVersion: "org.example.unknown", RemoteVersions: []RoomVersion{"1", "org.example.unknown"},
		RequestOrigin: "b", LocalServerName: "local", LocalServerInRoom: true,
		RoomQuerier: &af13JoinQuerier{}, UserIDQuerier: af13UserID,
		BuildEventTemplate: func(*ProtoEvent) (PDU, []PDU, error) { return nil, nil, fmt.Errorf("not reached") },
	})
	if err == nil || res != nil {
		t.Errorf("HandleMakeJoin returned res=%v err=%v for an unknown room version", res, err)
	}
}

// ---- self-contained helpers (prefix af13) ----

type af13Srv struct {
	name  string
	keyID KeyID
	pub   ed25519.PublicKey
	priv  ed25519.PrivateKey
}

func af13NewSrv(name string) *af13Srv {
	pub, priv, _ := ed25519.GenerateKey(rand.Reader)
	return &af13Srv{name: name, keyID: "ed25519:k1", pub: pub, priv: priv}
}

// af13Verifier verifies real ed25519 signatures against a fixed server -> key table.
type af13Verifier struct{ srv map[string]*af13Srv }

func (v *af13Verifier) VerifyJSONs(ctx context.Context, reqs []VerifyJSONRequest) ([]VerifyJSONResult, error) {
	res := make([]VerifyJSONResult, len(reqs))
	for i, r := range reqs {
		s, ok := v.srv[string(r.ServerName)]
		if !ok {
			res[i].Error = fmt.Errorf("unknown server %q", r.ServerName)
			continue
		}
		res[i].Error = VerifyJSON(s.name, s.keyID, s.pub, r.Message)
	}
	return res, nil
}

func af13UserID(roomID spec.RoomID, senderID spec.SenderID) (*spec.UserID, error) {
	return spec.NewUserID(string(senderID), true)
}

// af13Make builds an event from raw fields with a correct content hash, signed by the given signers.
func af13Make(t testing.TB, ver RoomVersion, fields map[string]interface{}, signers ...*af13Srv) PDU {
	b, err := json.Marshal(fields)
	if err != nil {
		t.Fatalf("marshal: %v", err)
	}
	if b, err = addContentHashesToEvent(b); err != nil {
		t.Fatalf("hash: %v", err)
	}
	for _, s := range signers {
		if b, err = signEvent(s.name, s.keyID, s.priv, b, ver); err != nil {
			t.Fatalf("sign: %v", err)
		}
	}
	ev, err := MustGetRoomVersion(ver).NewEventFromUntrustedJSON(b)
	if err != nil {
		t.Fatalf("parse: %v", err)
	}
	return ev
}

type af13Room struct {
	t      testing.TB
	ver    RoomVersion
	roomID string
	n      int
	depth  int64
	last   string
	state  map[StateKeyTuple]PDU
	all    []PDU
}

func (r *af13Room) refs(ids []string) interface{} {
	if MustGetRoomVersion(r.ver).EventFormat() == EventFormatV1 {
		out := []interface{}{}
		for _, id := range ids {
			out = append(out, []interface{}{id, map[string]string{"sha256": "47DEQpj8HBSa+/TImW+5JCeuQeRkm5NMpJWZG3hSuFU"}})
		}
		return out
	}
	if ids == nil {
		return []string{}
	}
	return ids
}

// fields returns the raw fields of a new event on top of the current room state
// (auth_events are selected from the current state the way a real server does).
func (r *af13Room) fields(typ, sender string, stateKey *string, content interface{}, origin string) map[string]interface{} {
	impl := MustGetRoomVersion(r.ver)
	r.n++
	r.depth++
	cb, _ := json.Marshal(content)
	f := map[string]interface{}{
		"type": typ, "sender": sender, "content": json.RawMessage(cb), "depth": r.depth,
		"origin_server_ts": 1000 + r.n, "origin": origin,
	}
	if stateKey != nil {
		f["state_key"] = *stateKey
	}
	if impl.EventIDFormat() == EventIDFormatV1 {
		f["event_id"] = fmt.Sprintf("$ev%d:%s", r.n, origin)
	}
	isCreate := typ == spec.MRoomCreate
	if !(isCreate && impl.DomainlessRoomIDs()) {
		f["room_id"] = r.roomID
	}
	prev := []string{}
	if r.last != "" {
		prev = []string{r.last}
	}
	f["prev_events"] = r.refs(prev)
	auth := []string{}
	if !isCreate {
		pe := ProtoEvent{SenderID: sender, RoomID: r.roomID, Type: typ, StateKey: stateKey, Content: cb}
		needed, err := StateNeededForProtoEvent(&pe)
		if err != nil {
			r.t.Fatalf("state needed: %v", err)
		}
		for _, tup := range needed.Tuples() {
			if tup.EventType == spec.MRoomCreate && impl.DomainlessRoomIDs() {
				continue
			}
			if e, ok := r.state[tup]; ok {
				auth = append(auth, e.EventID())
			}
		}
	}
	f["auth_events"] = r.refs(auth)
	return f
}

func (r *af13Room) add(ev PDU) PDU {
	if ev.Type() == spec.MRoomCreate && MustGetRoomVersion(r.ver).DomainlessRoomIDs() {
		r.roomID = "!" + ev.EventID()[1:]
	}
	if ev.StateKey() != nil {
		r.state[StateKeyTuple{ev.Type(), *ev.StateKey()}] = ev
	}
	r.last = ev.EventID()
	r.all = append(r.all, ev)
	return ev
}

func (r *af13Room) send(typ, sender string, stateKey *string, content interface{}, signers ...*af13Srv) PDU {
	return r.add(af13Make(r.t, r.ver, r.fields(typ, sender, stateKey, content, signers[0].name), signers...))
}

func af13Sp(s string) *string { return &s }

// af13NewRoom: room !room:a created by @alice:a (server a): create, alice's join, power levels, join rules.
func af13NewRoom(t testing.TB, ver RoomVersion, a *af13Srv, joinRule string) *af13Room {
	r := &af13Room{t: t, ver: ver, roomID: "!room:a", state: map[StateKeyTuple]PDU{}}
	impl := MustGetRoomVersion(ver)
	cc := map[string]interface{}{"room_version": string(ver)}
	if !impl.PrivilegedCreators() && ver != RoomVersionV11 {
		cc["creator"] = "@alice:a"
	}
	r.send(spec.MRoomCreate, "@alice:a", af13Sp(""), cc, a)
	r.send(spec.MRoomMember, "@alice:a", af13Sp("@alice:a"), map[string]interface{}{"membership": "join"}, a)
	users := map[string]interface{}{"@alice:a": 100}
	if impl.PrivilegedCreators() {
		users = map[string]interface{}{}
	}
	r.send(spec.MRoomPowerLevels, "@alice:a", af13Sp(""), map[string]interface{}{"users": users, "events_default": 0, "state_default": 50, "users_default": 0, "invite": 50, "ban": 50, "kick": 50, "redact": 50}, a)
	r.send(spec.MRoomJoinRules, "@alice:a", af13Sp(""), map[string]interface{}{"join_rule": joinRule}, a)
	return r
}

func (r *af13Room) stateList() []PDU {
	out := []PDU{}
	for _, e := range r.all {
		if e.StateKey() != nil && r.state[StateKeyTuple{e.Type(), *e.StateKey()}] == e {
			out = append(out, e)
		}
	}
	return out
}

func (r *af13Room) lookup(ids []string) []PDU {
	var out []PDU
	for _, id := range ids {
		for _, e := range r.all {
			if e.EventID() == id {
				out = append(out, e)
				break
			}
		}
	}
	return out
}
