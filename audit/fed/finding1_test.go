// Audit finding 1 -- place this file in the package root directory
// (package gomatrixserverlib, next to authstate.go) and run:
//
//	go test -vet=off -count=1 -run TestAuditFinding1 .
package gomatrixserverlib

import (
	"context"
	"crypto/rand"
	"encoding/json"
	"fmt"
	"testing"

	"github.com/matrix-org/gomatrixserverlib/spec"
	"golang.org/x/crypto/ed25519"
)

// C14: a /backfill response that lists the same PDU twice.
func TestAuditFinding1(t *testing.T) {
	a, b := af1NewSrv("a"), af1NewSrv("b")
	ver := &af1Verifier{srv: map[string]*af1Srv{"a": a, "b": b}}
	for _, v := range []RoomVersion{RoomVersionV1, RoomVersionV10, RoomVersionV12} {
		r := af1NewRoom(t, v, a, "public")
		st := []string{}
		for _, e := range r.stateList() {
			st = append(st, e.EventID())
		}
		msg := af1Make(t, v, r.fields("m.room.message", "@alice:a", nil, map[string]interface{}{"body": "hi"}, "a"), a)
		raws := []json.RawMessage{msg.JSON(), msg.JSON()} // the same, perfectly valid, event twice
		bf := &af1Backfill{room: r, pdus: raws, state: map[string][]string{msg.EventID(): st}}

		loader := NewEventsLoader(v, ver, bf, bf.ProvideEvents, false)
		results, err := loader.LoadAndVerify(context.Background(), raws, TopologicalOrderByPrevEvents, af1UserID)
		if err != nil {
			t.Fatalf("room version %s: LoadAndVerify: %v", v, err)
		}
		if len(results) != len(raws) {
			t.Fatalf("room version %s: %d results for %d inputs", v, len(results), len(raws))
		}
		for i, res := range results {
			if res.Event == nil && res.Error == nil {
				t.Errorf("room version %s: result %d classifies nothing: Event == nil and Error == nil", v, i)
			}
		}

		func() {
			defer func() {
				if rec := recover(); rec != nil {
					t.Errorf("room version %s: RequestBackfill panicked on a duplicated PDU: %v", v, rec)
				}
			}()
			got, err := RequestBackfill(context.Background(), "local", bf, ver, r.roomID, v, []string{"$from"}, 10, af1UserID)
			if err != nil {
				t.Errorf("room version %s: RequestBackfill: %v", v, err)
			}
			if len(got) != 1 {
				t.Errorf("room version %s: RequestBackfill returned %d events, want 1", v, len(got))
			}
		}()
	}
}

// af1Backfill is a BackfillRequester answering from a fixed room.
type af1Backfill struct {
	room  *af1Room
	pdus  []json.RawMessage
	state map[string][]string
}

func (b *af1Backfill) StateIDsBeforeEvent(ctx context.Context, ev PDU) ([]string, error) {
	return b.state[ev.EventID()], nil
}
func (b *af1Backfill) StateBeforeEvent(ctx context.Context, rv RoomVersion, ev PDU, ids []string) (map[string]PDU, error) {
	out := map[string]PDU{}
	for _, e := range b.room.lookup(ids) {
		out[e.EventID()] = e
	}
	return out, nil
}
func (b *af1Backfill) ServersAtEvent(ctx context.Context, roomID, eventID string) []spec.ServerName {
	return []spec.ServerName{"b"}
}
func (b *af1Backfill) Backfill(ctx context.Context, origin, server spec.ServerName, roomID string, limit int, from []string) (Transaction, error) {
	return Transaction{Origin: server, OriginServerTS: 1, PDUs: b.pdus}, nil
}
func (b *af1Backfill) ProvideEvents(rv RoomVersion, ids []string) ([]PDU, error) {
	return b.room.lookup(ids), nil
}

// ---- self-contained helpers (prefix af1) ----

type af1Srv struct {
	name  string
	keyID KeyID
	pub   ed25519.PublicKey
	priv  ed25519.PrivateKey
}

func af1NewSrv(name string) *af1Srv {
	pub, priv, _ := ed25519.GenerateKey(rand.Reader)
	return &af1Srv{name: name, keyID: "ed25519:k1", pub: pub, priv: priv}
}

// af1Verifier verifies real ed25519 signatures against a fixed server -> key table.
type af1Verifier struct{ srv map[string]*af1Srv }

func (v *af1Verifier) VerifyJSONs(ctx context.Context, reqs []VerifyJSONRequest) ([]VerifyJSONResult, error) {
	res := make([]VerifyJSONResult, len(reqs))
	for i, r := range reqs {
		s, ok := v.srv[string(r.ServerName)]
		if !ok {
			res[i].Error = fmt.Errorf("unknown server %q", r.ServerName)
			continue
		}
		res[i].Error = VerifyJSON(s.name, s.keyID, s.pub, r.Message)
	}
	return res, nil
}

func af1UserID(roomID spec.RoomID, senderID spec.SenderID) (*spec.UserID, error) {
	return spec.NewUserID(string(senderID), true)
}

// af1Make builds an event from raw fields with a correct content hash, signed by the given signers.
func af1Make(t testing.TB, ver RoomVersion, fields map[string]interface{}, signers ...*af1Srv) PDU {
	b, err := json.Marshal(fields)
	if err != nil {
		t.Fatalf("marshal: %v", err)
	}
	if b, err = addContentHashesToEvent(b); err != nil {
		t.Fatalf("hash: %v", err)
	}
	for _, s := range signers {
		if b, err = signEvent(s.name, s.keyID, s.priv, b, ver); err != nil {
			t.Fatalf("sign: %v", err)
		}
	}
	ev, err := MustGetRoomVersion(ver).NewEventFromUntrustedJSON(b)
	if err != nil {
		t.Fatalf("parse: %v", err)
	}
	return ev
}

type af1Room struct {
	t      testing.TB
	ver    RoomVersion
	roomID string
	n      int
	depth  int64
	last   string
	state  map[StateKeyTuple]PDU
	all    []PDU
}

func (r *af1Room) refs(ids []string) interface{} {
	if MustGetRoomVersion(r.ver).EventFormat() == EventFormatV1 {
		out := []interface{}{}
		for _, id := range ids {
			out = append(out, []interface{}{id, map[string]string{"sha256": "47DEQpj8HBSa+/TImW+5JCeuQeRkm5NMpJWZG3hSuFU"}})
		}
		return out
	}
	if ids == nil {
		return []string{}
	}
	return ids
}

// fields returns the raw fields of a new event on top of the current room state
// (auth_events are selected from the current state the way a real server does).
func (r *af1Room) fields(typ, sender string, stateKey *string, content interface{}, origin string) map[string]interface{} {
	impl := MustGetRoomVersion(r.ver)
	r.n++
	r.depth++
	cb, _ := json.Marshal(content)
	f := map[string]interface{}{
		"type": typ, "sender": sender, "content": json.RawMessage(cb), "depth": r.depth,
		"origin_server_ts": 1000 + r.n, "origin": origin,
	}
	if stateKey != nil {
		f["state_key"] = *stateKey
	}
	if impl.EventIDFormat() == EventIDFormatV1 {
		f["event_id"] = fmt.Sprintf("$ev%d:%s", r.n, origin)
	}
	isCreate := typ == spec.MRoomCreate
	if !(isCreate && impl.DomainlessRoomIDs()) {
		f["room_id"] = r.roomID
	}
	prev := []string{}
	if r.last != "" {
		prev = []string{r.last}
	}
	f["prev_events"] = r.refs(prev)
	auth := []string{}
	if !isCreate {
		pe := ProtoEvent{SenderID: sender, RoomID: r.roomID, Type: typ, StateKey: stateKey, Content: cb}
		needed, err := StateNeededForProtoEvent(&pe)
		if err != nil {
			r.t.Fatalf("state needed: %v", err)
		}
		for _, tup := range needed.Tuples() {
			if tup.EventType == spec.MRoomCreate && impl.DomainlessRoomIDs() {
				continue
			}
			if e, ok := r.state[tup]; ok {
				auth = append(auth, e.EventID())
			}
		}
	}
	f["auth_events"] = r.refs(auth)
	return f
}

func (r *af1Room) add(ev PDU) PDU {
	if ev.Type() == spec.MRoomCreate && MustGetRoomVersion(r.ver).DomainlessRoomIDs() {
		r.roomID = "!" + ev.EventID()[1:]
	}
	if ev.StateKey() != nil {
		r.state[StateKeyTuple{ev.Type(), *ev.StateKey()}] = ev
	}
	r.last = ev.EventID()
	r.all = append(r.all, ev)
	return ev
}

func (r *af1Room) send(typ, sender string, stateKey *string, content interface{}, signers ...*af1Srv) PDU {
	return r.add(af1Make(r.t, r.ver, r.fields(typ, sender, stateKey, content, signers[0].name), signers...))
}

func af1Sp(s string) *string { return &s }

// af1NewRoom: room !room:a created by @alice:a (server a): create, alice's join, power levels, join rules.
func af1NewRoom(t testing.TB, ver RoomVersion, a *af1Srv, joinRule string) *af1Room {
	r := &af1Room{t: t, ver: ver, roomID: "!room:a", state: map[StateKeyTuple]PDU{}}
	impl := MustGetRoomVersion(ver)
	cc := map[string]interface{}{"room_version": string(ver)}
	if !impl.PrivilegedCreators() && ver != RoomVersionV11 {
		cc["creator"] = "@alice:a"
	}
	r.send(spec.MRoomCreate, "@alice:a", af1Sp(""), cc, a)
	r.send(spec.MRoomMember, "@alice:a", af1Sp("@alice:a"), map[string]interface{}{"membership": "join"}, a)
	users := map[string]interface{}{"@alice:a": 100}
	if impl.PrivilegedCreators() {
		users = map[string]interface{}{}
	}
	r.send(spec.MRoomPowerLevels, "@alice:a", af1Sp(""), map[string]interface{}{"users": users, "events_default": 0, "state_default": 50, "users_default": 0, "invite": 50, "ban": 50, "kick": 50, "redact": 50}, a)
	r.send(spec.MRoomJoinRules, "@alice:a", af1Sp(""), map[string]interface{}{"join_rule": joinRule}, a)
	return r
}

func (r *af1Room) stateList() []PDU {
	out := []PDU{}
	for _, e := range r.all {
		if e.StateKey() != nil && r.state[StateKeyTuple{e.Type(), *e.StateKey()}] == e {
			out = append(out, e)
		}
	}
	return out
}

func (r *af1Room) lookup(ids []string) []PDU {
	var out []PDU
	for _, id := range ids {
		for _, e := range r.all {
			if e.EventID() == id {
				out = append(out, e)
				break
			}
		}
	}
	return out
}
