// Audit finding 11 -- place this file in the package root directory
// (package gomatrixserverlib, next to authstate.go) and run:
//
//	go test -vet=off -count=1 -run TestAuditFinding11 .
package gomatrixserverlib

import (
	"context"
	"crypto/rand"
	"encoding/json"
	"fmt"
	"testing"

	"github.com/matrix-org/gomatrixserverlib/spec"
	"golang.org/x/crypto/ed25519"
)

type af11StateProvider struct {
	ids    []string
	events []PDU
}

func (p *af11StateProvider) StateIDsBeforeEvent(ctx context.Context, ev PDU) ([]string, error) {
	return p.ids, nil
}
func (p *af11StateProvider) StateBeforeEvent(ctx context.Context, rv RoomVersion, ev PDU, ids []string) (map[string]PDU, error) {
	out := map[string]PDU{}
	for _, e := range p.events {
		out[e.EventID()] = e
	}
	return out, nil
}

// C14: VerifyAuthRulesAtState(allowValidation=false) accepts an event that the state before it forbids.
func TestAuditFinding11(t *testing.T) {
	a, b := af11NewSrv("a"), af11NewSrv("b")
	for _, v := range []RoomVersion{RoomVersionV1, RoomVersionV6, RoomVersionV10, RoomVersionV12} {
		r := af11NewRoom(t, v, a, "public")
		r.send(spec.MRoomMember, "@bob:b", af11Sp("@bob:b"), map[string]interface{}{"membership": "join"}, b)
		users := map[string]int{"@alice:a": 100}
		if MustGetRoomVersion(v).PrivilegedCreators() {
			users = map[string]int{}
		}
		// messages now need power level 50; bob has 0
		pl := r.send(spec.MRoomPowerLevels, "@alice:a", af11Sp(""), map[string]interface{}{"users": users, "events_default": 50}, a)
		st := r.stateList()
		var ids []string
		for _, e := range st {
			ids = append(ids, e.EventID())
		}
		sp := &af11StateProvider{ids: ids, events: st}

		f := r.fields("m.room.message", "@bob:b", nil, map[string]interface{}{"body": "x"}, "b")
		honest := af11Make(t, v, f, b)
		if err := VerifyAuthRulesAtState(context.Background(), sp, honest, false, af11UserID); err == nil {
			t.Fatalf("test setup: bob's message with complete auth_events must be refused")
		}
		// the same message, but its auth_events simply leave out the power levels event
		var keep []string
		for _, id := range honest.AuthEventIDs() {
			if id != pl.EventID() && !(MustGetRoomVersion(v).DomainlessRoomIDs() && id == r.all[0].EventID()) {
				keep = append(keep, id)
			}
		}
		f["auth_events"] = r.refs(keep)
		sneaky := af11Make(t, v, f, b)

		all, _ := NewAuthEvents(st)
		if err := Allowed(sneaky, all, af11UserID); err == nil {
			t.Fatalf("test setup: the state before the event must forbid it")
		}
		if err := VerifyAuthRulesAtState(context.Background(), sp, sneaky, false, af11UserID); err == nil {
			t.Errorf("room version %s: VerifyAuthRulesAtState accepted an event that is not allowed by the state before it (auth_events omit m.room.power_levels)", v)
		}
	}
}

// ---- self-contained helpers (prefix af11) ----

type af11Srv struct {
	name  string
	keyID KeyID
	pub   ed25519.PublicKey
	priv  ed25519.PrivateKey
}

func af11NewSrv(name string) *af11Srv {
	pub, priv, _ := ed25519.GenerateKey(rand.Reader)
	return &af11Srv{name: name, keyID: "ed25519:k1", pub: pub, priv: priv}
}

// af11Verifier verifies real ed25519 signatures against a fixed server -> key table.
type af11Verifier struct{ srv map[string]*af11Srv }

func (v *af11Verifier) VerifyJSONs(ctx context.Context, reqs []VerifyJSONRequest) ([]VerifyJSONResult, error) {
	res := make([]VerifyJSONResult, len(reqs))
	for i, r := range reqs {
		s, ok := v.srv[string(r.ServerName)]
		if !ok {
			res[i].Error = fmt.Errorf("unknown server %q", r.ServerName)
			continue
		}
		res[i].Error = VerifyJSON(s.name, s.keyID, s.pub, r.Message)
	}
	return res, nil
}

func af11UserID(roomID spec.RoomID, senderID spec.SenderID) (*spec.UserID, error) {
	return spec.NewUserID(string(senderID), true)
}

// af11Make builds an event from raw fields with a correct content hash, signed by the given signers.
func af11Make(t testing.TB, ver RoomVersion, fields map[string]interface{}, signers ...*af11Srv) PDU {
	b, err := json.Marshal(fields)
	if err != nil {
		t.Fatalf("marshal: %v", err)
	}
	if b, err = addContentHashesToEvent(b); err != nil {
		t.Fatalf("hash: %v", err)
	}
	for _, s := range signers {
		if b, err = signEvent(s.name, s.keyID, s.priv, b, ver); err != nil {
			t.Fatalf("sign: %v", err)
		}
	}
	ev, err := MustGetRoomVersion(ver).NewEventFromUntrustedJSON(b)
	if err != nil {
		t.Fatalf("parse: %v", err)
	}
	return ev
}

type af11Room struct {
	t      testing.TB
	ver    RoomVersion
	roomID string
	n      int
	depth  int64
	last   string
	state  map[StateKeyTuple]PDU
	all    []PDU
}

func (r *af11Room) refs(ids []string) interface{} {
	if MustGetRoomVersion(r.ver).EventFormat() == EventFormatV1 {
		out := []interface{}{}
		for _, id := range ids {
			out = append(out, []interface{}{id, map[string]string{"sha256": "47DEQpj8HBSa+/TImW+5JCeuQeRkm5NMpJWZG3hSuFU"}})
		}
		return out
	}
	if ids == nil {
		return []string{}
	}
	return ids
}

// fields returns the raw fields of a new event on top of the current room state
// (auth_events are selected from the current state the way a real server does).
func (r *af11Room) fields(typ, sender string, stateKey *string, content interface{}, origin string) map[string]interface{} {
	impl := MustGetRoomVersion(r.ver)
	r.n++
	r.depth++
	cb, _ := json.Marshal(content)
	f := map[string]interface{}{
		"type": typ, "sender": sender, "content": json.RawMessage(cb), "depth": r.depth,
		"origin_server_ts": 1000 + r.n, "origin": origin,
	}
	if stateKey != nil {
		f["state_key"] = *stateKey
	}
	if impl.EventIDFormat() == EventIDFormatV1 {
		f["event_id"] = fmt.Sprintf("$ev%d:%s", r.n, origin)
	}
	isCreate := typ == spec.MRoomCreate
	if !(isCreate && impl.DomainlessRoomIDs()) {
		f["room_id"] = r.roomID
	}
	prev := []string{}
	if r.last != "" {
		prev = []string{r.last}
	}
	f["prev_events"] = r.refs(prev)
	auth := []string{}
	if !isCreate {
		pe := ProtoEvent{SenderID: sender, RoomID: r.roomID, Type: typ, StateKey: stateKey, Content: cb}
		needed, err := StateNeededForProtoEvent(&pe)
		if err != nil {
			r.t.Fatalf("state needed: %v", err)
		}
		for _, tup := range needed.Tuples() {
			if tup.EventType == spec.MRoomCreate && impl.DomainlessRoomIDs() {
				continue
			}
			if e, ok := r.state[tup]; ok {
				auth = append(auth, e.EventID())
			}
		}
	}
	f["auth_events"] = r.refs(auth)
	return f
}

func (r *af11Room) add(ev PDU) PDU {
	if ev.Type() == spec.MRoomCreate && MustGetRoomVersion(r.ver).DomainlessRoomIDs() {
		r.roomID = "!" + ev.EventID()[1:]
	}
	if ev.StateKey() != nil {
		r.state[StateKeyTuple{ev.Type(), *ev.StateKey()}] = ev
	}
	r.last = ev.EventID()
	r.all = append(r.all, ev)
	return ev
}

func (r *af11Room) send(typ, sender string, stateKey *string, content interface{}, signers ...*af11Srv) PDU {
	return r.add(af11Make(r.t, r.ver, r.fields(typ, sender, stateKey, content, signers[0].name), signers...))
}

func af11Sp(s string) *string { return &s }

// af11NewRoom: room !room:a created by @alice:a (server a): create, alice's join, power levels, join rules.
func af11NewRoom(t testing.TB, ver RoomVersion, a *af11Srv, joinRule string) *af11Room {
	r := &af11Room{t: t, ver: ver, roomID: "!room:a", state: map[StateKeyTuple]PDU{}}
	impl := MustGetRoomVersion(ver)
	cc := map[string]interface{}{"room_version": string(ver)}
	if !impl.PrivilegedCreators() && ver != RoomVersionV11 {
		cc["creator"] = "@alice:a"
	}
	r.send(spec.MRoomCreate, "@alice:a", af11Sp(""), cc, a)
	r.send(spec.MRoomMember, "@alice:a", af11Sp("@alice:a"), map[string]interface{}{"membership": "join"}, a)
	users := map[string]interface{}{"@alice:a": 100}
	if impl.PrivilegedCreators() {
		users = map[string]interface{}{}
	}
	r.send(spec.MRoomPowerLevels, "@alice:a", af11Sp(""), map[string]interface{}{"users": users, "events_default": 0, "state_default": 50, "users_default": 0, "invite": 50, "ban": 50, "kick": 50, "redact": 50}, a)
	r.send(spec.MRoomJoinRules, "@alice:a", af11Sp(""), map[string]interface{}{"join_rule": joinRule}, a)
	return r
}

func (r *af11Room) stateList() []PDU {
	out := []PDU{}
	for _, e := range r.all {
		if e.StateKey() != nil && r.state[StateKeyTuple{e.Type(), *e.StateKey()}] == e {
			out = append(out, e)
		}
	}
	return out
}

func (r *af11Room) lookup(ids []string) []PDU {
	var out []PDU
	for _, id := range ids {
		for _, e := range r.all {
			if e.EventID() == id {
				out = append(out, e)
				break
			}
		}
	}
	return out
}
