// Audit finding 2 -- place this file in the package root directory
// (package gomatrixserverlib, next to authstate.go) and run:
//
//	go test -vet=off -count=1 -run TestAuditFinding2 .
package gomatrixserverlib

import (
	"context"
	"crypto/rand"
	"encoding/json"
	"fmt"
	"testing"

	"github.com/matrix-org/gomatrixserverlib/spec"
	"golang.org/x/crypto/ed25519"
)

// C14: a forged event (wrong signing key AND sender not in the room) leaves RequestBackfill.
func TestAuditFinding2(t *testing.T) {
	a, b := af2NewSrv("a"), af2NewSrv("b")
	notA := af2NewSrv("a") // claims to be server "a" but has a different key
	ver := &af2Verifier{srv: map[string]*af2Srv{"a": a, "b": b}}
	for _, v := range []RoomVersion{RoomVersionV1, RoomVersionV6, RoomVersionV10, RoomVersionV12} {
		r := af2NewRoom(t, v, a, "invite")
		// @mallory:a was never a member of the room and the event is not signed by a's key.
		forged := af2Make(t, v, r.fields("m.room.message", "@mallory:a", nil, map[string]interface{}{"body": "forged"}, "a"), notA)
		if err := VerifyEventSignatures(context.Background(), forged, ver, af2UserID); err == nil {
			t.Fatalf("test setup: forged event unexpectedly has valid signatures")
		}
		if err := VerifyEventAuthChain(context.Background(), forged, func(rv RoomVersion, ids []string) ([]PDU, error) { return r.lookup(ids), nil }, af2UserID); err == nil {
			t.Fatalf("test setup: forged event unexpectedly passes the auth chain check")
		}
		st := []string{}
		for _, e := range r.stateList() {
			st = append(st, e.EventID())
		}
		bf := &af2Backfill{room: r, pdus: []json.RawMessage{forged.JSON()}, state: map[string][]string{forged.EventID(): st}}
		got, _ := RequestBackfill(context.Background(), "local", bf, ver, r.roomID, v, []string{"$from"}, 10, af2UserID)
		for _, e := range got {
			if e.EventID() == forged.EventID() {
				t.Errorf("room version %s: RequestBackfill returned an event that fails the signature check and the auth checks: %s", v, e.JSON())
			}
		}
	}
}

// af2Backfill is a BackfillRequester answering from a fixed room.
type af2Backfill struct {
	room  *af2Room
	pdus  []json.RawMessage
	state map[string][]string
}

func (b *af2Backfill) StateIDsBeforeEvent(ctx context.Context, ev PDU) ([]string, error) {
	return b.state[ev.EventID()], nil
}
func (b *af2Backfill) StateBeforeEvent(ctx context.Context, rv RoomVersion, ev PDU, ids []string) (map[string]PDU, error) {
	out := map[string]PDU{}
	for _, e := range b.room.lookup(ids) {
		out[e.EventID()] = e
	}
	return out, nil
}
func (b *af2Backfill) ServersAtEvent(ctx context.Context, roomID, eventID string) []spec.ServerName {
	return []spec.ServerName{"b"}
}
func (b *af2Backfill) Backfill(ctx context.Context, origin, server spec.ServerName, roomID string, limit int, from []string) (Transaction, error) {
	return Transaction{Origin: server, OriginServerTS: 1, PDUs: b.pdus}, nil
}
func (b *af2Backfill) ProvideEvents(rv RoomVersion, ids []string) ([]PDU, error) {
	return b.room.lookup(ids), nil
}

// ---- self-contained helpers (prefix af2) ----

type af2Srv struct {
	name  string
	keyID KeyID
	pub   ed25519.PublicKey
	priv  ed25519.PrivateKey
}

func af2NewSrv(name string) *af2Srv {
	pub, priv, _ := ed25519.GenerateKey(rand.Reader)
	return &af2Srv{name: name, keyID: "ed25519:k1", pub: pub, priv: priv}
}

// af2Verifier verifies real ed25519 signatures against a fixed server -> key table.
type af2Verifier struct{ srv map[string]*af2Srv }

func (v *af2Verifier) VerifyJSONs(ctx context.Context, reqs []VerifyJSONRequest) ([]VerifyJSONResult, error) {
	res := make([]VerifyJSONResult, len(reqs))
	for i, r := range reqs {
		s, ok := v.srv[string(r.ServerName)]
		if !ok {
			res[i].Error = fmt.Errorf("unknown server %q", r.ServerName)
			continue
		}
		res[i].Error = VerifyJSON(s.name, s.keyID, s.pub, r.Message)
	}
	return res, nil
}

func af2UserID(roomID spec.RoomID, senderID spec.SenderID) (*spec.UserID, error) {
	return spec.NewUserID(string(senderID), true)
}

// af2Make builds an event from raw fields with a correct content hash, signed by the given signers.
func af2Make(t testing.TB, ver RoomVersion, fields map[string]interface{}, signers ...*af2Srv) PDU {
	b, err := json.Marshal(fields)
	if err != nil {
		t.Fatalf("marshal: %v", err)
	}
	if b, err = addContentHashesToEvent(b); err != nil {
		t.Fatalf("hash: %v", err)
	}
	for _, s := range signers {
		if b, err = signEvent(s.name, s.keyID, s.priv, b, ver); err != nil {
			t.Fatalf("sign: %v", err)
		}
	}
	ev, err := MustGetRoomVersion(ver).NewEventFromUntrustedJSON(b)
	if err != nil {
		t.Fatalf("parse: %v", err)
	}
	return ev
}

type af2Room struct {
	t      testing.TB
	ver    RoomVersion
	roomID string
	n      int
	depth  int64
	last   string
	state  map[StateKeyTuple]PDU
	all    []PDU
}

func (r *af2Room) refs(ids []string) interface{} {
	if MustGetRoomVersion(r.ver).EventFormat() == EventFormatV1 {
		out := []interface{}{}
		for _, id := range ids {
			out = append(out, []interface{}{id, map[string]string{"sha256": "47DEQpj8HBSa+/TImW+5JCeuQeRkm5NMpJWZG3hSuFU"}})
		}
		return out
	}
	if ids == nil {
		return []string{}
	}
	return ids
}

// fields returns the raw fields of a new event on top of the current room state
// (auth_events are selected from the current state the way a real server does).
func (r *af2Room) fields(typ, sender string, stateKey *string, content interface{}, origin string) map[string]interface{} {
	impl := MustGetRoomVersion(r.ver)
	r.n++
	r.depth++
	cb, _ := json.Marshal(content)
	f := map[string]interface{}{
		"type": typ, "sender": sender, "content": json.RawMessage(cb), "depth": r.depth,
		"origin_server_ts": 1000 + r.n, "origin": origin,
	}
	if stateKey != nil {
		f["state_key"] = *stateKey
	}
	if impl.EventIDFormat() == EventIDFormatV1 {
		f["event_id"] = fmt.Sprintf("$ev%d:%s", r.n, origin)
	}
	isCreate := typ == spec.MRoomCreate
	if !(isCreate && impl.DomainlessRoomIDs()) {
		f["room_id"] = r.roomID
	}
	prev := []string{}
	if r.last != "" {
		prev = []string{r.last}
	}
	f["prev_events"] = r.refs(prev)
	auth := []string{}
	if !isCreate {
		pe := ProtoEvent{SenderID: sender, RoomID: r.roomID, Type: typ, StateKey: stateKey, Content: cb}
		needed, err := StateNeededForProtoEvent(&pe)
		if err != nil {
			r.t.Fatalf("state needed: %v", err)
		}
		for _, tup := range needed.Tuples() {
			if tup.EventType == spec.MRoomCreate && impl.DomainlessRoomIDs() {
				continue
			}
			if e, ok := r.state[tup]; ok {
				auth = append(auth, e.EventID())
			}
		}
	}
	f["auth_events"] = r.refs(auth)
	return f
}

func (r *af2Room) add(ev PDU) PDU {
	if ev.Type() == spec.MRoomCreate && MustGetRoomVersion(r.ver).DomainlessRoomIDs() {
		r.roomID = "!" + ev.EventID()[1:]
	}
	if ev.StateKey() != nil {
		r.state[StateKeyTuple{ev.Type(), *ev.StateKey()}] = ev
	}
	r.last = ev.EventID()
	r.all = append(r.all, ev)
	return ev
}

func (r *af2Room) send(typ, sender string, stateKey *string, content interface{}, signers ...*af2Srv) PDU {
	return r.add(af2Make(r.t, r.ver, r.fields(typ, sender, stateKey, content, signers[0].name), signers...))
}

func af2Sp(s string) *string { return &s }

// af2NewRoom: room !room:a created by @alice:a (server a): create, alice's join, power levels, join rules.
func af2NewRoom(t testing.TB, ver RoomVersion, a *af2Srv, joinRule string) *af2Room {
	r := &af2Room{t: t, ver: ver, roomID: "!room:a", state: map[StateKeyTuple]PDU{}}
	impl := MustGetRoomVersion(ver)
	cc := map[string]interface{}{"room_version": string(ver)}
	if !impl.PrivilegedCreators() && ver != RoomVersionV11 {
		cc["creator"] = "@alice:a"
	}
	r.send(spec.MRoomCreate, "@alice:a", af2Sp(""), cc, a)
	r.send(spec.MRoomMember, "@alice:a", af2Sp("@alice:a"), map[string]interface{}{"membership": "join"}, a)
	users := map[string]interface{}{"@alice:a": 100}
	if impl.PrivilegedCreators() {
		users = map[string]interface{}{}
	}
	r.send(spec.MRoomPowerLevels, "@alice:a", af2Sp(""), map[string]interface{}{"users": users, "events_default": 0, "state_default": 50, "users_default": 0, "invite": 50, "ban": 50, "kick": 50, "redact": 50}, a)
	r.send(spec.MRoomJoinRules, "@alice:a", af2Sp(""), map[string]interface{}{"join_rule": joinRule}, a)
	return r
}

func (r *af2Room) stateList() []PDU {
	out := []PDU{}
	for _, e := range r.all {
		if e.StateKey() != nil && r.state[StateKeyTuple{e.Type(), *e.StateKey()}] == e {
			out = append(out, e)
		}
	}
	return out
}

func (r *af2Room) lookup(ids []string) []PDU {
	var out []PDU
	for _, id := range ids {
		for _, e := range r.all {
			if e.EventID() == id {
				out = append(out, e)
				break
			}
		}
	}
	return out
}
