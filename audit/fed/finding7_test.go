// Audit finding 7 -- place this file in the package root directory
// (package gomatrixserverlib, next to authstate.go) and run:
//
//	go test -vet=off -count=1 -run TestAuditFinding7 .
package gomatrixserverlib

import (
	"context"
	"crypto/rand"
	"encoding/json"
	"fmt"
	"testing"

	"github.com/matrix-org/gomatrixserverlib/spec"
	"golang.org/x/crypto/ed25519"
)

// C15: keys that only match "membership" / "join_authorised_via_users_server" under Unicode
// case folding (U+017F LATIN SMALL LETTER LONG S folds to "s") override the real keys.
func TestAuditFinding7(t *testing.T) {
	a, b, local := af7NewSrv("a"), af7NewSrv("b"), af7NewSrv("local")
	ver := &af7Verifier{srv: map[string]*af7Srv{"a": a, "b": b, "local": local}}
	for _, v := range []RoomVersion{RoomVersionV5, RoomVersionV10, RoomVersionV12} {
		r := af7NewRoom(t, v, a, "public")
		room, _ := spec.NewRoomID(r.roomID)
		for name, content := range map[string]string{
			// the membership of this event is "leave"
			"membership is leave": `{"membership":"leave","memberſhip":"join"}`,
			// the authorising user of this join is @evil:remote, which is not a user of server "local"
			"authorising user is remote": `{"membership":"join","join_authorised_via_users_server":"@evil:remote","join_authoriſed_via_users_server":"@x:local"}`,
		} {
			var c map[string]interface{}
			if err := json.Unmarshal([]byte(content), &c); err != nil {
				t.Fatal(err)
			}
			ev := af7Make(t, v, r.fields(spec.MRoomMember, "@bob:b", af7Sp("@bob:b"), c, "b"), b)
			res, err := HandleSendJoin(HandleSendJoinInput{
				Context: context.Background(), RoomID: *room, EventID: ev.EventID(), JoinEvent: ev.JSON(), RoomVersion: v,
				RequestOrigin: "b", LocalServerName: "local", KeyID: local.keyID, PrivateKey: local.priv, Verifier: ver,
				MembershipQuerier: &af7MemberQ{}, UserIDQuerier: af7UserID,
				StoreSenderIDFromPublicID: func(ctx context.Context, senderID spec.SenderID, userID string, id spec.RoomID) error { return nil },
			})
			if err == nil && res != nil {
				t.Errorf("room version %s: HandleSendJoin accepted an event although its %s: content %s", v, name, res.JoinEvent.Content())
			}
		}
	}
}

type af7RoomQ struct{ known bool }

func (q *af7RoomQ) IsKnownRoom(ctx context.Context, roomID spec.RoomID) (bool, error) {
	return q.known, nil
}

type af7MemberQ struct{ membership string }

func (q *af7MemberQ) CurrentMembership(ctx context.Context, roomID spec.RoomID, senderID spec.SenderID) (string, error) {
	return q.membership, nil
}

type af7StateQ struct{}

func (q *af7StateQ) GetAuthEvents(ctx context.Context, event PDU) (AuthEventProvider, error) {
	return NewAuthEvents(nil)
}
func (q *af7StateQ) GetState(ctx context.Context, roomID spec.RoomID, want []StateKeyTuple) ([]PDU, error) {
	return nil, nil
}

// ---- self-contained helpers (prefix af7) ----

type af7Srv struct {
	name  string
	keyID KeyID
	pub   ed25519.PublicKey
	priv  ed25519.PrivateKey
}

func af7NewSrv(name string) *af7Srv {
	pub, priv, _ := ed25519.GenerateKey(rand.Reader)
	return &af7Srv{name: name, keyID: "ed25519:k1", pub: pub, priv: priv}
}

// af7Verifier verifies real ed25519 signatures against a fixed server -> key table.
type af7Verifier struct{ srv map[string]*af7Srv }

func (v *af7Verifier) VerifyJSONs(ctx context.Context, reqs []VerifyJSONRequest) ([]VerifyJSONResult, error) {
	res := make([]VerifyJSONResult, len(reqs))
	for i, r := range reqs {
		s, ok := v.srv[string(r.ServerName)]
		if !ok {
			res[i].Error = fmt.Errorf("unknown server %q", r.ServerName)
			continue
		}
		res[i].Error = VerifyJSON(s.name, s.keyID, s.pub, r.Message)
	}
	return res, nil
}

func af7UserID(roomID spec.RoomID, senderID spec.SenderID) (*spec.UserID, error) {
	return spec.NewUserID(string(senderID), true)
}

// af7Make builds an event from raw fields with a correct content hash, signed by the given signers.
func af7Make(t testing.TB, ver RoomVersion, fields map[string]interface{}, signers ...*af7Srv) PDU {
	b, err := json.Marshal(fields)
	if err != nil {
		t.Fatalf("marshal: %v", err)
	}
	if b, err = addContentHashesToEvent(b); err != nil {
		t.Fatalf("hash: %v", err)
	}
	for _, s := range signers {
		if b, err = signEvent(s.name, s.keyID, s.priv, b, ver); err != nil {
			t.Fatalf("sign: %v", err)
		}
	}
	ev, err := MustGetRoomVersion(ver).NewEventFromUntrustedJSON(b)
	if err != nil {
		t.Fatalf("parse: %v", err)
	}
	return ev
}

type af7Room struct {
	t      testing.TB
	ver    RoomVersion
	roomID string
	n      int
	depth  int64
	last   string
	state  map[StateKeyTuple]PDU
	all    []PDU
}

func (r *af7Room) refs(ids []string) interface{} {
	if MustGetRoomVersion(r.ver).EventFormat() == EventFormatV1 {
		out := []interface{}{}
		for _, id := range ids {
			out = append(out, []interface{}{id, map[string]string{"sha256": "47DEQpj8HBSa+/TImW+5JCeuQeRkm5NMpJWZG3hSuFU"}})
		}
		return out
	}
	if ids == nil {
		return []string{}
	}
	return ids
}

// fields returns the raw fields of a new event on top of the current room state
// (auth_events are selected from the current state the way a real server does).
func (r *af7Room) fields(typ, sender string, stateKey *string, content interface{}, origin string) map[string]interface{} {
	impl := MustGetRoomVersion(r.ver)
	r.n++
	r.depth++
	cb, _ := json.Marshal(content)
	f := map[string]interface{}{
		"type": typ, "sender": sender, "content": json.RawMessage(cb), "depth": r.depth,
		"origin_server_ts": 1000 + r.n, "origin": origin,
	}
	if stateKey != nil {
		f["state_key"] = *stateKey
	}
	if impl.EventIDFormat() == EventIDFormatV1 {
		f["event_id"] = fmt.Sprintf("$ev%d:%s", r.n, origin)
	}
	isCreate := typ == spec.MRoomCreate
	if !(isCreate && impl.DomainlessRoomIDs()) {
		f["room_id"] = r.roomID
	}
	prev := []string{}
	if r.last != "" {
		prev = []string{r.last}
	}
	f["prev_events"] = r.refs(prev)
	auth := []string{}
	if !isCreate {
		pe := ProtoEvent{SenderID: sender, RoomID: r.roomID, Type: typ, StateKey: stateKey, Content: cb}
		needed, err := StateNeededForProtoEvent(&pe)
		if err != nil {
			r.t.Fatalf("state needed: %v", err)
		}
		for _, tup := range needed.Tuples() {
			if tup.EventType == spec.MRoomCreate && impl.DomainlessRoomIDs() {
				continue
			}
			if e, ok := r.state[tup]; ok {
				auth = append(auth, e.EventID())
			}
		}
	}
	f["auth_events"] = r.refs(auth)
	return f
}

func (r *af7Room) add(ev PDU) PDU {
	if ev.Type() == spec.MRoomCreate && MustGetRoomVersion(r.ver).DomainlessRoomIDs() {
		r.roomID = "!" + ev.EventID()[1:]
	}
	if ev.StateKey() != nil {
		r.state[StateKeyTuple{ev.Type(), *ev.StateKey()}] = ev
	}
	r.last = ev.EventID()
	r.all = append(r.all, ev)
	return ev
}

func (r *af7Room) send(typ, sender string, stateKey *string, content interface{}, signers ...*af7Srv) PDU {
	return r.add(af7Make(r.t, r.ver, r.fields(typ, sender, stateKey, content, signers[0].name), signers...))
}

func af7Sp(s string) *string { return &s }

// af7NewRoom: room !room:a created by @alice:a (server a): create, alice's join, power levels, join rules.
func af7NewRoom(t testing.TB, ver RoomVersion, a *af7Srv, joinRule string) *af7Room {
	r := &af7Room{t: t, ver: ver, roomID: "!room:a", state: map[StateKeyTuple]PDU{}}
	impl := MustGetRoomVersion(ver)
	cc := map[string]interface{}{"room_version": string(ver)}
	if !impl.PrivilegedCreators() && ver != RoomVersionV11 {
		cc["creator"] = "@alice:a"
	}
	r.send(spec.MRoomCreate, "@alice:a", af7Sp(""), cc, a)
	r.send(spec.MRoomMember, "@alice:a", af7Sp("@alice:a"), map[string]interface{}{"membership": "join"}, a)
	users := map[string]interface{}{"@alice:a": 100}
	if impl.PrivilegedCreators() {
		users = map[string]interface{}{}
	}
	r.send(spec.MRoomPowerLevels, "@alice:a", af7Sp(""), map[string]interface{}{"users": users, "events_default": 0, "state_default": 50, "users_default": 0, "invite": 50, "ban": 50, "kick": 50, "redact": 50}, a)
	r.send(spec.MRoomJoinRules, "@alice:a", af7Sp(""), map[string]interface{}{"join_rule": joinRule}, a)
	return r
}

func (r *af7Room) stateList() []PDU {
	out := []PDU{}
	for _, e := range r.all {
		if e.StateKey() != nil && r.state[StateKeyTuple{e.Type(), *e.StateKey()}] == e {
			out = append(out, e)
		}
	}
	return out
}

func (r *af7Room) lookup(ids []string) []PDU {
	var out []PDU
	for _, id := range ids {
		for _, e := range r.all {
			if e.EventID() == id {
				out = append(out, e)
				break
			}
		}
	}
	return out
}
