// Audit finding 10 -- place this file in the package root directory
// (package gomatrixserverlib, next to authstate.go) and run:
//
//	go test -vet=off -count=1 -run TestAuditFinding10 .
package gomatrixserverlib

import (
	"context"
	"crypto/rand"
	"encoding/json"
	"fmt"
	"testing"

	"github.com/matrix-org/gomatrixserverlib/spec"
	"golang.org/x/crypto/ed25519"
)

// C15: the "create event of a known room version" check of PerformJoin looks at the first
// m.room.create in the *unverified* auth_events of the response, whatever room it belongs to.
func TestAuditFinding10(t *testing.T) {
	a, local := af10NewSrv("a"), af10NewSrv("local")
	notA := af10NewSrv("a") // wrong key for server "a"
	v := RoomVersionV11
	// the room: its (validly signed) create event says room_version "zzz-unknown"
	r := &af10Room{t: t, ver: v, roomID: "!room:a", state: map[StateKeyTuple]PDU{}}
	r.send(spec.MRoomCreate, "@alice:a", af10Sp(""), map[string]interface{}{"room_version": "zzz-unknown"}, a)
	r.send(spec.MRoomMember, "@alice:a", af10Sp("@alice:a"), map[string]interface{}{"membership": "join"}, a)
	r.send(spec.MRoomJoinRules, "@alice:a", af10Sp(""), map[string]interface{}{"join_rule": "public"}, a)
	st := r.stateList()
	// decoy: create event of ANOTHER room, with a bad signature, that names a known version
	other := &af10Room{t: t, ver: v, roomID: "!other:a", state: map[StateKeyTuple]PDU{}}
	decoy := af10Make(t, v, other.fields(spec.MRoomCreate, "@alice:a", af10Sp(""), map[string]interface{}{"room_version": "11"}, "a"), notA)

	user, _ := spec.NewUserID("@carol:local", true)
	room, _ := spec.NewRoomID(r.roomID)
	authIDs := []string{r.state[StateKeyTuple{spec.MRoomCreate, ""}].EventID(), r.state[StateKeyTuple{spec.MRoomJoinRules, ""}].EventID()}
	kr := &KeyRing{KeyDatabase: &af10KeyDB{srv: map[string]*af10Srv{"a": a, "local": local}}}
	run := func(withDecoy bool) (*PerformJoinResponse, *FederationError) {
		c := &af10JoinClient{ver: v,
			proto: ProtoEvent{SenderID: "@carol:local", RoomID: r.roomID, Type: spec.MRoomMember, StateKey: af10Sp("@carol:local"), PrevEvents: []string{r.last}, AuthEvents: authIDs, Depth: 10, Content: spec.RawJSON(`{"membership":"join"}`)},
			send: func(ev PDU) (*af10SendJoinResp, error) {
				auth := NewEventJSONsFromEvents(r.all)
				if withDecoy {
					auth = append(EventJSONs{decoy.JSON()}, auth...)
				}
				return &af10SendJoinResp{auth: auth, state: NewEventJSONsFromEvents(st)}, nil
			}}
		return PerformJoin(context.Background(), c, PerformJoinInput{UserID: user, RoomID: room, ServerName: "a", PrivateKey: local.priv, KeyID: local.keyID, KeyRing: kr, UserIDQuerier: af10UserID})
	}
	if _, ferr := run(false); ferr == nil {
		t.Fatalf("test setup: without the decoy the unknown room version must be refused")
	}
	res, ferr := run(true)
	if ferr == nil {
		for _, e := range res.StateSnapshot.GetStateEvents().UntrustedEvents(v) {
			if e.Type() == spec.MRoomCreate {
				t.Errorf("PerformJoin returned a join although the only verified create event of the room has an unknown room version: %s", e.Content())
			}
		}
	}
}

// af10KeyDB is a KeyDatabase serving the fixed keys of the test servers.
type af10KeyDB struct{ srv map[string]*af10Srv }

func (d *af10KeyDB) FetcherName() string { return "af10KeyDB" }
func (d *af10KeyDB) FetchKeys(ctx context.Context, reqs map[PublicKeyLookupRequest]spec.Timestamp) (map[PublicKeyLookupRequest]PublicKeyLookupResult, error) {
	out := map[PublicKeyLookupRequest]PublicKeyLookupResult{}
	for req := range reqs {
		if s, ok := d.srv[string(req.ServerName)]; ok && req.KeyID == s.keyID {
			out[req] = PublicKeyLookupResult{VerifyKey: VerifyKey{Key: spec.Base64Bytes(s.pub)}, ValidUntilTS: spec.Timestamp(1 << 50), ExpiredTS: PublicKeyNotExpired}
		}
	}
	return out, nil
}
func (d *af10KeyDB) StoreKeys(ctx context.Context, r map[PublicKeyLookupRequest]PublicKeyLookupResult) error {
	return nil
}

type af10MakeJoinResp struct {
	ver   RoomVersion
	proto ProtoEvent
}

func (r *af10MakeJoinResp) GetJoinEvent() ProtoEvent    { return r.proto }
func (r *af10MakeJoinResp) GetRoomVersion() RoomVersion { return r.ver }

type af10SendJoinResp struct {
	auth, state EventJSONs
	event       spec.RawJSON
}

func (r *af10SendJoinResp) GetAuthEvents() EventJSONs  { return r.auth }
func (r *af10SendJoinResp) GetStateEvents() EventJSONs { return r.state }
func (r *af10SendJoinResp) GetOrigin() spec.ServerName { return "a" }
func (r *af10SendJoinResp) GetJoinEvent() spec.RawJSON { return r.event }
func (r *af10SendJoinResp) GetMembersOmitted() bool    { return false }
func (r *af10SendJoinResp) GetServersInRoom() []string { return nil }

// af10JoinClient plays the remote resident server for PerformJoin.
type af10JoinClient struct {
	ver   RoomVersion
	proto ProtoEvent
	send  func(ev PDU) (*af10SendJoinResp, error)
}

func (c *af10JoinClient) MakeJoin(ctx context.Context, origin, s spec.ServerName, roomID, userID string) (MakeJoinResponse, error) {
	return &af10MakeJoinResp{ver: c.ver, proto: c.proto}, nil
}
func (c *af10JoinClient) SendJoin(ctx context.Context, origin, s spec.ServerName, ev PDU) (SendJoinResponse, error) {
	r, err := c.send(ev)
	if err != nil {
		return nil, err
	}
	return r, nil
}

// ---- self-contained helpers (prefix af10) ----

type af10Srv struct {
	name  string
	keyID KeyID
	pub   ed25519.PublicKey
	priv  ed25519.PrivateKey
}

func af10NewSrv(name string) *af10Srv {
	pub, priv, _ := ed25519.GenerateKey(rand.Reader)
	return &af10Srv{name: name, keyID: "ed25519:k1", pub: pub, priv: priv}
}

// af10Verifier verifies real ed25519 signatures against a fixed server -> key table.
type af10Verifier struct{ srv map[string]*af10Srv }

func (v *af10Verifier) VerifyJSONs(ctx context.Context, reqs []VerifyJSONRequest) ([]VerifyJSONResult, error) {
	res := make([]VerifyJSONResult, len(reqs))
	for i, r := range reqs {
		s, ok := v.srv[string(r.ServerName)]
		if !ok {
			res[i].Error = fmt.Errorf("unknown server %q", r.ServerName)
			continue
		}
		res[i].Error = VerifyJSON(s.name, s.keyID, s.pub, r.Message)
	}
	return res, nil
}

func af10UserID(roomID spec.RoomID, senderID spec.SenderID) (*spec.UserID, error) {
	return spec.NewUserID(string(senderID), true)
}

// af10Make builds an event from raw fields with a correct content hash, signed by the given signers.
func af10Make(t testing.TB, ver RoomVersion, fields map[string]interface{}, signers ...*af10Srv) PDU {
	b, err := json.Marshal(fields)
	if err != nil {
		t.Fatalf("marshal: %v", err)
	}
	if b, err = addContentHashesToEvent(b); err != nil {
		t.Fatalf("hash: %v", err)
	}
	for _, s := range signers {
		if b, err = signEvent(s.name, s.keyID, s.priv, b, ver); err != nil {
			t.Fatalf("sign: %v", err)
		}
	}
	ev, err := MustGetRoomVersion(ver).NewEventFromUntrustedJSON(b)
	if err != nil {
		t.Fatalf("parse: %v", err)
	}
	return ev
}

type af10Room struct {
	t      testing.TB
	ver    RoomVersion
	roomID string
	n      int
	depth  int64
	last   string
	state  map[StateKeyTuple]PDU
	all    []PDU
}

func (r *af10Room) refs(ids []string) interface{} {
	if MustGetRoomVersion(r.ver).EventFormat() == EventFormatV1 {
		out := []interface{}{}
		for _, id := range ids {
			out = append(out, []interface{}{id, map[string]string{"sha256": "47DEQpj8HBSa+/TImW+5JCeuQeRkm5NMpJWZG3hSuFU"}})
		}
		return out
	}
	if ids == nil {
		return []string{}
	}
	return ids
}

// fields returns the raw fields of a new event on top of the current room state
// (auth_events are selected from the current state the way a real server does).
func (r *af10Room) fields(typ, sender string, stateKey *string, content interface{}, origin string) map[string]interface{} {
	impl := MustGetRoomVersion(r.ver)
	r.n++
	r.depth++
	cb, _ := json.Marshal(content)
	f := map[string]interface{}{
		"type": typ, "sender": sender, "content": json.RawMessage(cb), "depth": r.depth,
		"origin_server_ts": 1000 + r.n, "origin": origin,
	}
	if stateKey != nil {
		f["state_key"] = *stateKey
	}
	if impl.EventIDFormat() == EventIDFormatV1 {
		f["event_id"] = fmt.Sprintf("$ev%d:%s", r.n, origin)
	}
	isCreate := typ == spec.MRoomCreate
	if !(isCreate && impl.DomainlessRoomIDs()) {
		f["room_id"] = r.roomID
	}
	prev := []string{}
	if r.last != "" {
		prev = []string{r.last}
	}
	f["prev_events"] = r.refs(prev)
	auth := []string{}
	if !isCreate {
		pe := ProtoEvent{SenderID: sender, RoomID: r.roomID, Type: typ, StateKey: stateKey, Content: cb}
		needed, err := StateNeededForProtoEvent(&pe)
		if err != nil {
			r.t.Fatalf("state needed: %v", err)
		}
		for _, tup := range needed.Tuples() {
			if tup.EventType == spec.MRoomCreate && impl.DomainlessRoomIDs() {
				continue
			}
			if e, ok := r.state[tup]; ok {
				auth = append(auth, e.EventID())
			}
		}
	}
	f["auth_events"] = r.refs(auth)
	return f
}

func (r *af10Room) add(ev PDU) PDU {
	if ev.Type() == spec.MRoomCreate && MustGetRoomVersion(r.ver).DomainlessRoomIDs() {
		r.roomID = "!" + ev.EventID()[1:]
	}
	if ev.StateKey() != nil {
		r.state[StateKeyTuple{ev.Type(), *ev.StateKey()}] = ev
	}
	r.last = ev.EventID()
	r.all = append(r.all, ev)
	return ev
}

func (r *af10Room) send(typ, sender string, stateKey *string, content interface{}, signers ...*af10Srv) PDU {
	return r.add(af10Make(r.t, r.ver, r.fields(typ, sender, stateKey, content, signers[0].name), signers...))
}

func af10Sp(s string) *string { return &s }

// af10NewRoom: room !room:a created by @alice:a (server a): create, alice's join, power levels, join rules.
func af10NewRoom(t testing.TB, ver RoomVersion, a *af10Srv, joinRule string) *af10Room {
	r := &af10Room{t: t, ver: ver, roomID: "!room:a", state: map[StateKeyTuple]PDU{}}
	impl := MustGetRoomVersion(ver)
	cc := map[string]interface{}{"room_version": string(ver)}
	if !impl.PrivilegedCreators() && ver != RoomVersionV11 {
		cc["creator"] = "@alice:a"
	}
	r.send(spec.MRoomCreate, "@alice:a", af10Sp(""), cc, a)
	r.send(spec.MRoomMember, "@alice:a", af10Sp("@alice:a"), map[string]interface{}{"membership": "join"}, a)
	users := map[string]interface{}{"@alice:a": 100}
	if impl.PrivilegedCreators() {
		users = map[string]interface{}{}
	}
	r.send(spec.MRoomPowerLevels, "@alice:a", af10Sp(""), map[string]interface{}{"users": users, "events_default": 0, "state_default": 50, "users_default": 0, "invite": 50, "ban": 50, "kick": 50, "redact": 50}, a)
	r.send(spec.MRoomJoinRules, "@alice:a", af10Sp(""), map[string]interface{}{"join_rule": joinRule}, a)
	return r
}

func (r *af10Room) stateList() []PDU {
	out := []PDU{}
	for _, e := range r.all {
		if e.StateKey() != nil && r.state[StateKeyTuple{e.Type(), *e.StateKey()}] == e {
			out = append(out, e)
		}
	}
	return out
}

func (r *af10Room) lookup(ids []string) []PDU {
	var out []PDU
	for _, id := range ids {
		for _, e := range r.all {
			if e.EventID() == id {
				out = append(out, e)
				break
			}
		}
	}
	return out
}
