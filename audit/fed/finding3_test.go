// Audit finding 3 -- place this file in the package root directory
// (package gomatrixserverlib, next to authstate.go) and run:
//
//	go test -vet=off -count=1 -run TestAuditFinding3 .
package gomatrixserverlib

import (
	"context"
	"crypto/rand"
	"encoding/json"
	"fmt"
	"testing"

	"github.com/matrix-org/gomatrixserverlib/spec"
	"golang.org/x/crypto/ed25519"
)

// C14 + C15, room version org.matrix.msc4014 (pseudo IDs): an mxid_mapping that
// nobody signed (or that an unrelated server signed) counts as verified.
func TestAuditFinding3(t *testing.T) {
	good, evil, local := af3NewSrv("good"), af3NewSrv("evil"), af3NewSrv("local")
	ver := &af3Verifier{srv: map[string]*af3Srv{"good": good, "evil": evil, "local": local}}
	v := RoomVersionPseudoIDs

	_, ck, _ := ed25519.GenerateKey(rand.Reader)
	creator := spec.SenderIDFromPseudoIDKey(ck)
	cs := &af3Srv{name: string(creator), keyID: "ed25519:1", priv: ck}
	_, ek, _ := ed25519.GenerateKey(rand.Reader)
	evilID := spec.SenderIDFromPseudoIDKey(ek)
	es := &af3Srv{name: string(evilID), keyID: "ed25519:1", priv: ek}

	for name, sign := range map[string]func(m *MXIDMapping){
		"mapping without any signature":         func(m *MXIDMapping) {},
		"mapping signed by an unrelated server": func(m *MXIDMapping) { _ = m.Sign("evil", evil.keyID, evil.priv) },
	} {
		store := map[spec.SenderID]string{creator: "@alice:good", evilID: "@victim:good"}
		querier := func(roomID spec.RoomID, senderID spec.SenderID) (*spec.UserID, error) {
			if u, ok := store[senderID]; ok {
				return spec.NewUserID(u, true)
			}
			return nil, nil
		}
		r := &af3Room{t: t, ver: v, roomID: "!room:good", state: map[StateKeyTuple]PDU{}}
		r.send(spec.MRoomCreate, string(creator), af3Sp(""), map[string]interface{}{"room_version": string(v), "creator": string(creator)}, cs)
		m := MXIDMapping{UserID: "@alice:good", UserRoomKey: creator}
		_ = m.Sign("good", good.keyID, good.priv)
		r.send(spec.MRoomMember, string(creator), af3Sp(string(creator)), MemberContent{Membership: "join", MXIDMapping: &m}, cs)
		r.send(spec.MRoomJoinRules, string(creator), af3Sp(""), map[string]interface{}{"join_rule": "public"}, cs)
		// The attacker's key joins and claims to be @victim:good; server "good" never signed that.
		fm := MXIDMapping{UserID: "@victim:good", UserRoomKey: evilID}
		sign(&fm)
		forged := r.send(spec.MRoomMember, string(evilID), af3Sp(string(evilID)), MemberContent{Membership: "join", MXIDMapping: &fm}, es)

		if err := VerifyEventSignatures(context.Background(), forged, ver, querier); err == nil {
			t.Errorf("%s: VerifyEventSignatures accepts the join although good never signed mxid_mapping %s", name, forged.Content())
		}
		resp := &stateResponseImpl{authEvents: NewEventJSONsFromEvents(r.all), stateEvents: NewEventJSONsFromEvents(r.stateList())}
		_, stateEvents, err := CheckStateResponse(context.Background(), resp, v, ver, nil, querier)
		if err != nil {
			t.Fatalf("%s: CheckStateResponse: %v", name, err)
		}
		for _, e := range stateEvents {
			if e.EventID() == forged.EventID() {
				t.Errorf("%s: CheckStateResponse returned the forged join as verified", name)
			}
		}
	}

	// C15: HandleSendJoin: the requesting server "evil" never signed anything: the event is signed by
	// the pseudo ID key only and the mxid_mapping carries no signature of "evil".
	store := map[spec.SenderID]string{}
	querier := func(roomID spec.RoomID, senderID spec.SenderID) (*spec.UserID, error) {
		if u, ok := store[senderID]; ok {
			return spec.NewUserID(u, true)
		}
		return nil, fmt.Errorf("unknown sender")
	}
	r := &af3Room{t: t, ver: v, roomID: "!room:good", state: map[StateKeyTuple]PDU{}}
	um := MXIDMapping{UserID: "@mallory:evil", UserRoomKey: evilID}
	join := af3Make(t, v, r.fields(spec.MRoomMember, string(evilID), af3Sp(string(evilID)), MemberContent{Membership: "join", MXIDMapping: &um}, string(evilID)), es)
	room, _ := spec.NewRoomID("!room:good")
	res, herr := HandleSendJoin(HandleSendJoinInput{
		Context: context.Background(), RoomID: *room, EventID: join.EventID(), JoinEvent: join.JSON(), RoomVersion: v,
		RequestOrigin: "evil", LocalServerName: "local", KeyID: local.keyID, PrivateKey: local.priv, Verifier: ver,
		MembershipQuerier: &af3MemberQ{}, UserIDQuerier: querier,
		StoreSenderIDFromPublicID: func(ctx context.Context, senderID spec.SenderID, userID string, id spec.RoomID) error {
			store[senderID] = userID
			return nil
		},
	})
	if herr == nil && res != nil {
		t.Errorf("HandleSendJoin accepted (and countersigned) a pseudo ID join whose mxid_mapping is not signed by the requesting server")
	}
}

type af3RoomQ struct{ known bool }

func (q *af3RoomQ) IsKnownRoom(ctx context.Context, roomID spec.RoomID) (bool, error) {
	return q.known, nil
}

type af3MemberQ struct{ membership string }

func (q *af3MemberQ) CurrentMembership(ctx context.Context, roomID spec.RoomID, senderID spec.SenderID) (string, error) {
	return q.membership, nil
}

type af3StateQ struct{}

func (q *af3StateQ) GetAuthEvents(ctx context.Context, event PDU) (AuthEventProvider, error) {
	return NewAuthEvents(nil)
}
func (q *af3StateQ) GetState(ctx context.Context, roomID spec.RoomID, want []StateKeyTuple) ([]PDU, error) {
	return nil, nil
}

// ---- self-contained helpers (prefix af3) ----

type af3Srv struct {
	name  string
	keyID KeyID
	pub   ed25519.PublicKey
	priv  ed25519.PrivateKey
}

func af3NewSrv(name string) *af3Srv {
	pub, priv, _ := ed25519.GenerateKey(rand.Reader)
	return &af3Srv{name: name, keyID: "ed25519:k1", pub: pub, priv: priv}
}

// af3Verifier verifies real ed25519 signatures against a fixed server -> key table.
type af3Verifier struct{ srv map[string]*af3Srv }

func (v *af3Verifier) VerifyJSONs(ctx context.Context, reqs []VerifyJSONRequest) ([]VerifyJSONResult, error) {
	res := make([]VerifyJSONResult, len(reqs))
	for i, r := range reqs {
		s, ok := v.srv[string(r.ServerName)]
		if !ok {
			res[i].Error = fmt.Errorf("unknown server %q", r.ServerName)
			continue
		}
		res[i].Error = VerifyJSON(s.name, s.keyID, s.pub, r.Message)
	}
	return res, nil
}

func af3UserID(roomID spec.RoomID, senderID spec.SenderID) (*spec.UserID, error) {
	return spec.NewUserID(string(senderID), true)
}

// af3Make builds an event from raw fields with a correct content hash, signed by the given signers.
func af3Make(t testing.TB, ver RoomVersion, fields map[string]interface{}, signers ...*af3Srv) PDU {
	b, err := json.Marshal(fields)
	if err != nil {
		t.Fatalf("marshal: %v", err)
	}
	if b, err = addContentHashesToEvent(b); err != nil {
		t.Fatalf("hash: %v", err)
	}
	for _, s := range signers {
		if b, err = signEvent(s.name, s.keyID, s.priv, b, ver); err != nil {
			t.Fatalf("sign: %v", err)
		}
	}
	ev, err := MustGetRoomVersion(ver).NewEventFromUntrustedJSON(b)
	if err != nil {
		t.Fatalf("parse: %v", err)
	}
	return ev
}

type af3Room struct {
	t      testing.TB
	ver    RoomVersion
	roomID string
	n      int
	depth  int64
	last   string
	state  map[StateKeyTuple]PDU
	all    []PDU
}

func (r *af3Room) refs(ids []string) interface{} {
	if MustGetRoomVersion(r.ver).EventFormat() == EventFormatV1 {
		out := []interface{}{}
		for _, id := range ids {
			out = append(out, []interface{}{id, map[string]string{"sha256": "47DEQpj8HBSa+/TImW+5JCeuQeRkm5NMpJWZG3hSuFU"}})
		}
		return out
	}
	if ids == nil {
		return []string{}
	}
	return ids
}

// fields returns the raw fields of a new event on top of the current room state
// (auth_events are selected from the current state the way a real server does).
func (r *af3Room) fields(typ, sender string, stateKey *string, content interface{}, origin string) map[string]interface{} {
	impl := MustGetRoomVersion(r.ver)
	r.n++
	r.depth++
	cb, _ := json.Marshal(content)
	f := map[string]interface{}{
		"type": typ, "sender": sender, "content": json.RawMessage(cb), "depth": r.depth,
		"origin_server_ts": 1000 + r.n, "origin": origin,
	}
	if stateKey != nil {
		f["state_key"] = *stateKey
	}
	if impl.EventIDFormat() == EventIDFormatV1 {
		f["event_id"] = fmt.Sprintf("$ev%d:%s", r.n, origin)
	}
	isCreate := typ == spec.MRoomCreate
	if !(isCreate && impl.DomainlessRoomIDs()) {
		f["room_id"] = r.roomID
	}
	prev := []string{}
	if r.last != "" {
		prev = []string{r.last}
	}
	f["prev_events"] = r.refs(prev)
	auth := []string{}
	if !isCreate {
		pe := ProtoEvent{SenderID: sender, RoomID: r.roomID, Type: typ, StateKey: stateKey, Content: cb}
		needed, err := StateNeededForProtoEvent(&pe)
		if err != nil {
			r.t.Fatalf("state needed: %v", err)
		}
		for _, tup := range needed.Tuples() {
			if tup.EventType == spec.MRoomCreate && impl.DomainlessRoomIDs() {
				continue
			}
			if e, ok := r.state[tup]; ok {
				auth = append(auth, e.EventID())
			}
		}
	}
	f["auth_events"] = r.refs(auth)
	return f
}

func (r *af3Room) add(ev PDU) PDU {
	if ev.Type() == spec.MRoomCreate && MustGetRoomVersion(r.ver).DomainlessRoomIDs() {
		r.roomID = "!" + ev.EventID()[1:]
	}
	if ev.StateKey() != nil {
		r.state[StateKeyTuple{ev.Type(), *ev.StateKey()}] = ev
	}
	r.last = ev.EventID()
	r.all = append(r.all, ev)
	return ev
}

func (r *af3Room) send(typ, sender string, stateKey *string, content interface{}, signers ...*af3Srv) PDU {
	return r.add(af3Make(r.t, r.ver, r.fields(typ, sender, stateKey, content, signers[0].name), signers...))
}

func af3Sp(s string) *string { return &s }

// af3NewRoom: room !room:a created by @alice:a (server a): create, alice's join, power levels, join rules.
func af3NewRoom(t testing.TB, ver RoomVersion, a *af3Srv, joinRule string) *af3Room {
	r := &af3Room{t: t, ver: ver, roomID: "!room:a", state: map[StateKeyTuple]PDU{}}
	impl := MustGetRoomVersion(ver)
	cc := map[string]interface{}{"room_version": string(ver)}
	if !impl.PrivilegedCreators() && ver != RoomVersionV11 {
		cc["creator"] = "@alice:a"
	}
	r.send(spec.MRoomCreate, "@alice:a", af3Sp(""), cc, a)
	r.send(spec.MRoomMember, "@alice:a", af3Sp("@alice:a"), map[string]interface{}{"membership": "join"}, a)
	users := map[string]interface{}{"@alice:a": 100}
	if impl.PrivilegedCreators() {
		users = map[string]interface{}{}
	}
	r.send(spec.MRoomPowerLevels, "@alice:a", af3Sp(""), map[string]interface{}{"users": users, "events_default": 0, "state_default": 50, "users_default": 0, "invite": 50, "ban": 50, "kick": 50, "redact": 50}, a)
	r.send(spec.MRoomJoinRules, "@alice:a", af3Sp(""), map[string]interface{}{"join_rule": joinRule}, a)
	return r
}

func (r *af3Room) stateList() []PDU {
	out := []PDU{}
	for _, e := range r.all {
		if e.StateKey() != nil && r.state[StateKeyTuple{e.Type(), *e.StateKey()}] == e {
			out = append(out, e)
		}
	}
	return out
}

func (r *af3Room) lookup(ids []string) []PDU {
	var out []PDU
	for _, id := range ids {
		for _, e := range r.all {
			if e.EventID() == id {
				out = append(out, e)
				break
			}
		}
	}
	return out
}
