package gomatrixserverlib

// Audit finding 9 (property C11: "every ordering the library returns for an
// acyclic set of events (by auth events or by prev events ...) is a permutation
// of the distinct input events"; crash on hostile input). Belongs in the package
// root directory (package gomatrixserverlib).
//
// EventsLoader.LoadAndVerify sizes its result by len(rawEvents) and fills it by
// index from the topologically sorted events. The sort returns each DISTINCT
// event once, so when a remote server lists a PDU twice in its response the
// result has an entry with neither an Event nor an Error between the sorted
// events and the load errors. RequestBackfill treats a nil Error as "event is
// fine" and calls res.Event.EventID() on the nil event: a /backfill response
// that merely contains a duplicated PDU crashes the requesting server.

import (
	"context"
	"encoding/json"
	"fmt"
	"testing"
	"time"

	"github.com/matrix-org/gomatrixserverlib/spec"
)

type auditF9Requester struct {
	events [][]byte
}

func (r *auditF9Requester) StateIDsBeforeEvent(ctx context.Context, atEvent PDU) ([]string, error) {
	switch atEvent.EventID() {
	case "$fnwGrQEpiOIUoDU2:baba.is.you":
		return []string{"$WCraVpPZe5TtHAqs:baba.is.you"}, nil
	case "$WCraVpPZe5TtHAqs:baba.is.you":
		return nil, nil
	}
	return []string{"$fnwGrQEpiOIUoDU2:baba.is.you", "$WCraVpPZe5TtHAqs:baba.is.you"}, nil
}
func (r *auditF9Requester) StateBeforeEvent(ctx context.Context, roomVer RoomVersion, event PDU, eventIDs []string) (map[string]PDU, error) {
	return nil, fmt.Errorf("not implemented")
}
func (r *auditF9Requester) ServersAtEvent(ctx context.Context, roomID, eventID string) []spec.ServerName {
	return []spec.ServerName{"baba.is.you"}
}
func (r *auditF9Requester) Backfill(ctx context.Context, origin, server spec.ServerName, roomID string, limit int, fromEventIDs []string) (Transaction, error) {
	// the remote server lists the join event twice
	return Transaction{
		Origin:         origin,
		OriginServerTS: spec.AsTimestamp(time.Now()),
		PDUs:           []json.RawMessage{r.events[1], r.events[0], r.events[1]},
	}, nil
}
func (r *auditF9Requester) ProvideEvents(roomVer RoomVersion, eventIDs []string) (result []PDU, err error) {
	byID := map[string]PDU{}
	for _, b := range r.events {
		ev, err := MustGetRoomVersion(RoomVersionV1).NewEventFromTrustedJSON(b, false)
		if err != nil {
			return nil, err
		}
		byID[ev.EventID()] = ev
	}
	for _, id := range eventIDs {
		if ev, ok := byID[id]; ok {
			result = append(result, ev)
		}
	}
	return
}

type auditF9Verifier struct{}

func (auditF9Verifier) VerifyJSONs(ctx context.Context, requests []VerifyJSONRequest) ([]VerifyJSONResult, error) {
	return make([]VerifyJSONResult, len(requests)), nil
}

func auditF9UserID(_ spec.RoomID, senderID spec.SenderID) (*spec.UserID, error) {
	return spec.NewUserID(string(senderID), true)
}

func TestAuditFinding9(t *testing.T) {
	// (events taken from the library's own backfill tests)
	events := [][]byte{
		[]byte(`{"auth_events":[],"content":{"creator":"@userid:baba.is.you"},"depth":0,"event_id":"$WCraVpPZe5TtHAqs:baba.is.you","hashes":{"sha256":"EehWNbKy+oDOMC0vIvYl1FekdDxMNuabXKUVzV7DG74"},"origin":"baba.is.you","origin_server_ts":0,"prev_events":[],"prev_state":[],"room_id":"!roomid:baba.is.you","sender":"@userid:baba.is.you","signatures":{"baba.is.you":{"ed25519:auto":"08aF4/bYWKrdGPFdXmZCQU6IrOE1ulpevmWBM3kiShJPAbRbZ6Awk7buWkIxlMF6kX3kb4QpbAlZfHLQgncjCw"}},"state_key":"","type":"m.room.create"}`),
		[]byte(`{"auth_events":[["$WCraVpPZe5TtHAqs:baba.is.you",{"sha256":"gBxQI2xzDLMoyIjkrpCJFBXC5NnrSemepc7SninSARI"}]],"content":{"membership":"join"},"depth":1,"event_id":"$fnwGrQEpiOIUoDU2:baba.is.you","hashes":{"sha256":"DqOjdFgvFQ3V/jvQW2j3ygHL4D+t7/LaIPZ/tHTDZtI"},"origin":"baba.is.you","origin_server_ts":0,"prev_events":[["$WCraVpPZe5TtHAqs:baba.is.you",{"sha256":"gBxQI2xzDLMoyIjkrpCJFBXC5NnrSemepc7SninSARI"}]],"prev_state":[],"room_id":"!roomid:baba.is.you","sender":"@userid:baba.is.you","signatures":{"baba.is.you":{"ed25519:auto":"qBWLb42zicQVsbh333YrcKpHfKokcUOM/ytldGlrgSdXqDEDDxvpcFlfadYnyvj3Z/GjA2XZkqKHanNEh575Bw"}},"state_key":"@userid:baba.is.you","type":"m.room.member"}`),
	}
	req := &auditF9Requester{events: events}

	// 1. LoadAndVerify: every result must carry an event or an error
	loader := NewEventsLoader(RoomVersionV1, auditF9Verifier{}, req, req.ProvideEvents, false)
	raw := []json.RawMessage{events[1], events[0], events[1]}
	for _, order := range []TopologicalOrder{TopologicalOrderByPrevEvents, TopologicalOrderByAuthEvents} {
		results, err := loader.LoadAndVerify(context.Background(), raw, order, auditF9UserID)
		if err != nil {
			t.Fatalf("LoadAndVerify: %v", err)
		}
		for i, res := range results {
			if res.Event == nil && res.Error == nil {
				t.Errorf("LoadAndVerify(order %d): result %d of %d has neither an event nor an error", order, i, len(results))
			}
		}
	}

	// 2. RequestBackfill must not crash on such a response
	func() {
		defer func() {
			if r := recover(); r != nil {
				t.Errorf("RequestBackfill panicked on a response that lists a PDU twice: %v", r)
			}
		}()
		got, err := RequestBackfill(context.Background(), "baba.is.you", req, auditF9Verifier{}, "!roomid:baba.is.you",
			RoomVersionV1, []string{"foo"}, 10, auditF9UserID)
		if err != nil {
			t.Fatalf("RequestBackfill: %v", err)
		}
		if len(got) != 2 || got[0].EventID() != "$WCraVpPZe5TtHAqs:baba.is.you" || got[1].EventID() != "$fnwGrQEpiOIUoDU2:baba.is.you" {
			t.Errorf("RequestBackfill returned %d events, want [create, join]", len(got))
		}
	}()
}
