package gomatrixserverlib

// Audit finding 1 (property C10). Belongs in the package root directory
// (package gomatrixserverlib).
//
// A kick/ban whose content carries an oddly typed optional member (for example
// "reason": 5) passes the library's auth checks (NewMemberContentFromEvent
// falls back to a partial parse) but isControlEvent() unmarshals the content
// into the full MemberContent struct, gets a type error and decides that the
// event is NOT a power event. The ban is then ordered by the mainline
// (timestamp) ordering together with the ordinary events instead of being
// applied first by the reverse topological power ordering.

import (
	"encoding/json"
	"fmt"
	"sort"
	"strings"
	"testing"

	"github.com/matrix-org/gomatrixserverlib/spec"
)

func auditF1UserID(_ spec.RoomID, senderID spec.SenderID) (*spec.UserID, error) {
	return spec.NewUserID(string(senderID), true)
}

func auditF1Event(t *testing.T, ver RoomVersion, id, typ, stateKey, sender, content string, auth, prev []string, ts, depth int64) PDU {
	t.Helper()
	if auth == nil {
		auth = []string{}
	}
	if prev == nil {
		prev = []string{}
	}
	m := map[string]interface{}{
		"type": typ, "state_key": stateKey, "sender": sender, "room_id": "!room:example.com",
		"content": json.RawMessage(content), "origin_server_ts": ts, "depth": depth,
		"auth_events": auth, "prev_events": prev,
	}
	b, err := json.Marshal(m)
	if err != nil {
		t.Fatal(err)
	}
	ev, err := MustGetRoomVersion(ver).NewEventFromTrustedJSONWithEventID(id, b, false)
	if err != nil {
		t.Fatal(err)
	}
	return ev
}

func auditF1Describe(evs []PDU) string {
	var out []string
	for _, e := range evs {
		out = append(out, fmt.Sprintf("(%s,%q)=%s", e.Type(), *e.StateKey(), e.EventID()))
	}
	sort.Strings(out)
	return strings.Join(out, " ")
}

func TestAuditFinding1(t *testing.T) {
	const (
		alice = "@alice:example.com"
		bob   = "@bob:example.com"
	)
	for _, ver := range []RoomVersion{RoomVersionV6, RoomVersionV10, RoomVersionV11} {
		mk := func(id, typ, sk, sender, content string, auth, prev []string, ts, depth int64) PDU {
			return auditF1Event(t, ver, id, typ, sk, sender, content, auth, prev, ts, depth)
		}
		create := mk("$create", spec.MRoomCreate, "", alice, fmt.Sprintf(`{"creator":%q,"room_version":%q}`, alice, ver), nil, nil, 1, 1)
		aJoin := mk("$alice-join", spec.MRoomMember, alice, alice, `{"membership":"join"}`, []string{"$create"}, []string{"$create"}, 2, 2)
		pl := mk("$pl", spec.MRoomPowerLevels, "", alice, `{"users":{"@alice:example.com":100},"events":{"m.room.topic":0}}`,
			[]string{"$create", "$alice-join"}, []string{"$alice-join"}, 3, 3)
		jr := mk("$jr", spec.MRoomJoinRules, "", alice, `{"join_rule":"public"}`,
			[]string{"$create", "$alice-join", "$pl"}, []string{"$pl"}, 4, 4)
		bJoin := mk("$bob-join", spec.MRoomMember, bob, bob, `{"membership":"join"}`,
			[]string{"$create", "$pl", "$jr"}, []string{"$jr"}, 5, 5)
		// fork 1: alice bans bob; the optional "reason" is a number
		ban := mk("$ban", spec.MRoomMember, bob, alice, `{"membership":"ban","reason":5}`,
			[]string{"$create", "$pl", "$alice-join", "$bob-join"}, []string{"$bob-join"}, 30, 6)
		// fork 2: bob sets the topic; earlier timestamp than the ban
		topic := mk("$topic", "m.room.topic", "", bob, `{"topic":"bob was here"}`,
			[]string{"$create", "$pl", "$bob-join"}, []string{"$bob-join"}, 20, 6)

		// sanity: every event is allowed by the library's own auth rules against the state it was sent in
		baseState := []PDU{create, aJoin, pl, jr, bJoin}
		for _, e := range []PDU{ban, topic} {
			prov, _ := NewAuthEvents(baseState)
			if err := Allowed(e, prov, auditF1UserID); err != nil {
				t.Fatalf("%s: test event %s is not allowed: %v", ver, e.EventID(), err)
			}
		}

		set1 := []PDU{create, aJoin, pl, jr, ban}
		set2 := []PDU{create, aJoin, pl, jr, bJoin, topic}
		auth := []PDU{create, aJoin, pl, jr, bJoin}

		got, err := ResolveConflictsNew(ver, [][]PDU{set1, set2}, auth, auditF1UserID, func(string) bool { return false })
		if err != nil {
			t.Fatal(err)
		}
		// The ban (member ban, sender != state key) is a power event. It and its conflicted
		// auth ancestor $bob-join are applied first; the topic is then checked against a state
		// in which bob is banned and must be dropped.
		want := []PDU{create, aJoin, pl, jr, ban}
		if g, w := auditF1Describe(got), auditF1Describe(want); g != w {
			t.Errorf("room version %s:\n got  %s\n want %s", ver, g, w)
		}
		// The same history with a string reason resolves as expected, which shows that only the
		// classification of the ban differs.
		ban2 := mk("$ban", spec.MRoomMember, bob, alice, `{"membership":"ban","reason":"5"}`,
			[]string{"$create", "$pl", "$alice-join", "$bob-join"}, []string{"$bob-join"}, 30, 6)
		got2, _ := ResolveConflictsNew(ver, [][]PDU{{create, aJoin, pl, jr, ban2}, set2}, auth, auditF1UserID, func(string) bool { return false })
		if g, w := auditF1Describe(got2), auditF1Describe(want); g != w {
			t.Errorf("room version %s (control, string reason):\n got  %s\n want %s", ver, g, w)
		}
	}
}
