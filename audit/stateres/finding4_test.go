package gomatrixserverlib

// Audit finding 4 (property C10). Belongs in the package root directory
// (package gomatrixserverlib).
//
// ResolveStateConflictsV2New drops from the full conflicted set every event that
// is also part of the unconflicted state ("if unconflictedSet.Contains(p) { continue }").
// The algorithm of room versions 2+ defines the full conflicted set as the
// conflicted state PLUS the auth difference (plus, for v2.1, the conflicted
// subgraph) - without removing anything. An unconflicted power event that is
// in the auth difference must therefore take part in the reverse topological power
// ordering, and it drags its conflicted auth ancestors into the power set with it.

import (
	"encoding/json"
	"fmt"
	"sort"
	"strings"
	"testing"

	"github.com/matrix-org/gomatrixserverlib/spec"
)

func auditF4UserID(_ spec.RoomID, senderID spec.SenderID) (*spec.UserID, error) {
	return spec.NewUserID(string(senderID), true)
}

func auditF4Describe(evs []PDU) string {
	var out []string
	for _, e := range evs {
		out = append(out, fmt.Sprintf("(%s,%q)=%s", e.Type(), *e.StateKey(), e.EventID()))
	}
	sort.Strings(out)
	return strings.Join(out, " ")
}

func TestAuditFinding4(t *testing.T) {
	const (
		alice = "@alice:example.com"
		bob   = "@bob:example.com"
	)
	ver := RoomVersionV10
	impl := MustGetRoomVersion(ver)
	mk := func(id, typ, sk, sender, content string, auth, prev []string, ts, depth int64) PDU {
		t.Helper()
		m := map[string]interface{}{
			"type": typ, "state_key": sk, "sender": sender, "room_id": "!room:example.com",
			"content": json.RawMessage(content), "origin_server_ts": ts, "depth": depth,
			"auth_events": append([]string{}, auth...), "prev_events": append([]string{}, prev...),
		}
		b, err := json.Marshal(m)
		if err != nil {
			t.Fatal(err)
		}
		ev, err := impl.NewEventFromTrustedJSONWithEventID(id, b, false)
		if err != nil {
			t.Fatal(err)
		}
		return ev
	}
	create := mk("$create", spec.MRoomCreate, "", alice, fmt.Sprintf(`{"creator":%q,"room_version":%q}`, alice, ver), nil, nil, 1, 1)
	a1 := mk("$A1", spec.MRoomMember, alice, alice, `{"membership":"join"}`, []string{"$create"}, []string{"$create"}, 2, 2)
	pl := mk("$PL", spec.MRoomPowerLevels, "", alice, `{"users":{"@alice:example.com":100}}`, []string{"$create", "$A1"}, []string{"$A1"}, 3, 3)
	jr0 := mk("$JR0", spec.MRoomJoinRules, "", alice, `{"join_rule":"public"}`, []string{"$create", "$A1", "$PL"}, []string{"$PL"}, 4, 4)
	// branch X: alice changes her display name
	a2 := mk("$A2", spec.MRoomMember, alice, alice, `{"membership":"join","displayname":"x"}`, []string{"$create", "$PL", "$JR0", "$A1"}, []string{"$JR0"}, 10, 5)
	// branch Y (concurrent): alice changes her display name, then re-sends the join rules
	a3 := mk("$A3", spec.MRoomMember, alice, alice, `{"membership":"join","displayname":"y"}`, []string{"$create", "$PL", "$JR0", "$A1"}, []string{"$JR0"}, 20, 5)
	jr1 := mk("$JR1", spec.MRoomJoinRules, "", alice, `{"join_rule":"public"}`, []string{"$create", "$PL", "$A3"}, []string{"$A3"}, 30, 6)
	// X and Y are merged (state: alice=$A2, join_rules=$JR1 - checked below), then bob joins
	b1 := mk("$B1", spec.MRoomMember, bob, bob, `{"membership":"join"}`, []string{"$create", "$PL", "$JR1"}, []string{"$A2", "$JR1"}, 40, 7)

	notRejected := func(string) bool { return false }
	auth := []PDU{create, a1, pl, jr0, jr1, a3}

	// sanity: the state after merging X and Y really is {alice: $A2, join_rules: $JR1}
	merged, err := ResolveConflictsNew(ver, [][]PDU{{create, pl, jr0, a2}, {create, pl, jr1, a3}}, auth, auditF4UserID, notRejected)
	if err != nil {
		t.Fatal(err)
	}
	if g, w := auditF4Describe(merged), auditF4Describe([]PDU{create, pl, jr1, a2}); g != w {
		t.Fatalf("unexpected merge of X and Y:\n got  %s\n want %s", g, w)
	}
	prov, _ := NewAuthEvents(merged)
	if err = Allowed(b1, prov, auditF4UserID); err != nil {
		t.Fatalf("bob's join not allowed: %v", err)
	}

	// Now resolve the state after bob's join against the state at the tip of branch Y.
	set1 := []PDU{create, pl, jr1, a2, b1}
	set2 := []PDU{create, pl, jr1, a3}
	got, err := ResolveConflictsNew(ver, [][]PDU{set1, set2}, auth, auditF4UserID, notRejected)
	if err != nil {
		t.Fatal(err)
	}
	// conflicted state: alice {$A2,$A3}, bob {$B1}; unconflicted: create, $PL, $JR1.
	// full auth chain of set1 = {create,$A1,$PL,$JR0,$A3,$JR1} ($B1 cites $JR1),
	// full auth chain of set2 = {create,$A1,$PL,$JR0,$A3}       (nothing cites $JR1)
	// => auth difference = {$JR1}; full conflicted set = {$A2,$A3,$B1,$JR1}.
	// Power events: $JR1, plus its auth ancestor in the conflicted set $A3 => order [$A3,$JR1].
	// Remaining events by mainline order: [$A2 (ts 10), $B1 (ts 40)].
	// $A3 is applied before $A2, so alice's resolved membership is $A2.
	want := []PDU{create, pl, jr1, a2, b1}
	if g, w := auditF4Describe(got), auditF4Describe(want); g != w {
		t.Errorf("resolved state:\n got  %s\n want %s", g, w)
	}
}
