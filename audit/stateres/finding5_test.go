package gomatrixserverlib

// Audit finding 5 (property C10: "for every collection of state sets and their
// auth chain, the state resolved ... is the one defined by the algorithm" - here
// no state is returned in any feasible time). Belongs in the package root
// directory (package gomatrixserverlib).
//
// For state resolution v2.1 (room version 12 / org.matrix.hydra.11)
// calculateFullAuthChainAndConflictedSubgraph() walks EVERY PATH of the auth DAG
// that starts at a conflicted state event (it deliberately does not stop at
// events it has already visited, and it has no other memoisation). The number of
// paths is exponential in the depth of the auth DAG: a room in which the admin
// alternately changed her display name and the power levels 20 times (44 events
// in total) cannot be resolved any more as soon as ANY state key is conflicted.
//
// Measured on the unmodified code (n = number of profile/power-level rounds):
//   n=8: 0.06s   n=10: 0.4s   n=12: 2.7s   n=14: 22s   (x ~8 per two rounds)

import (
	"encoding/json"
	"fmt"
	"strings"
	"testing"
	"time"

	"github.com/matrix-org/gomatrixserverlib/spec"
)

func auditF5UserID(_ spec.RoomID, senderID spec.SenderID) (*spec.UserID, error) {
	return spec.NewUserID(string(senderID), true)
}

func auditF5ID(name string) string {
	return "$" + name + strings.Repeat("x", 43-len(name))
}

func TestAuditFinding5(t *testing.T) {
	const alice = "@alice:example.com"
	const rounds = 20
	ver := RoomVersionV12
	impl := MustGetRoomVersion(ver)
	roomID := "!" + auditF5ID("create")[1:]
	depth := int64(0)
	mk := func(name, typ, sk, content string, auth []string, ts int64) PDU {
		t.Helper()
		depth++
		ids := []string{}
		for _, n := range auth {
			ids = append(ids, auditF5ID(n))
		}
		m := map[string]interface{}{
			"type": typ, "state_key": sk, "sender": alice,
			"content": json.RawMessage(content), "origin_server_ts": ts, "depth": depth,
			"auth_events": ids, "prev_events": []string{},
		}
		if typ != spec.MRoomCreate {
			m["room_id"] = roomID
		}
		b, err := json.Marshal(m)
		if err != nil {
			t.Fatal(err)
		}
		ev, err := impl.NewEventFromTrustedJSONWithEventID(auditF5ID(name), b, false)
		if err != nil {
			t.Fatal(err)
		}
		return ev
	}
	// every event is built exactly as an honest server builds it: it cites the current
	// power-levels event, join rules (for joins) and the sender's current membership.
	create := mk("create", spec.MRoomCreate, "", fmt.Sprintf(`{"room_version":%q}`, ver), nil, 1)
	member := mk("member0", spec.MRoomMember, alice, `{"membership":"join"}`, nil, 2)
	pl := mk("pl0", spec.MRoomPowerLevels, "", `{"users":{"@carol:example.com":50}}`, []string{"member0"}, 3)
	jr := mk("jr", spec.MRoomJoinRules, "", `{"join_rule":"public"}`, []string{"member0", "pl0"}, 4)
	auth := []PDU{create, member, pl, jr}
	curMember, curPL := "member0", "pl0"
	for i := 1; i <= rounds; i++ {
		name := fmt.Sprintf("member%d", i)
		member = mk(name, spec.MRoomMember, alice, fmt.Sprintf(`{"membership":"join","displayname":"%d"}`, i), []string{curMember, curPL, "jr"}, int64(10+2*i))
		curMember = name
		auth = append(auth, member)
		name = fmt.Sprintf("pl%d", i)
		pl = mk(name, spec.MRoomPowerLevels, "", fmt.Sprintf(`{"users":{"@carol:example.com":%d}}`, i), []string{curMember, curPL}, int64(11+2*i))
		curPL = name
		auth = append(auth, pl)
	}
	// two servers concurrently set the topic
	topic1 := mk("topic1", "m.room.topic", "", `{"topic":"one"}`, []string{curMember, curPL}, 1000)
	topic2 := mk("topic2", "m.room.topic", "", `{"topic":"two"}`, []string{curMember, curPL}, 1001)
	set1 := []PDU{create, member, pl, jr, topic1}
	set2 := []PDU{create, member, pl, jr, topic2}

	type result struct {
		evs []PDU
		err error
	}
	done := make(chan result, 1)
	start := time.Now()
	go func() {
		evs, err := ResolveConflictsNew(ver, [][]PDU{set1, set2}, auth, auditF5UserID, func(string) bool { return false })
		done <- result{evs, err}
	}()
	select {
	case r := <-done:
		if r.err != nil {
			t.Fatal(r.err)
		}
		var topic string
		for _, e := range r.evs {
			if e.Type() == "m.room.topic" {
				topic = e.EventID()
			}
		}
		if len(r.evs) != 5 || topic != auditF5ID("topic2") {
			t.Errorf("unexpected resolution: %d events, topic %s", len(r.evs), topic)
		}
		t.Logf("resolved %d events with %d auth events in %v", len(r.evs), len(auth), time.Since(start))
	case <-time.After(20 * time.Second):
		t.Fatalf("state resolution v2.1 of a %d-event room with a single conflicted key did not finish within 20s "+
			"(the walk enumerates every path of the auth DAG)", len(auth)+2)
	}
}
