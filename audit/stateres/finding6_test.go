package gomatrixserverlib

// Audit finding 6 (property C11, "every ordering the library returns ... is a
// permutation of the distinct input events"). Belongs in the package root
// directory (package gomatrixserverlib).
//
// HeaderedReverseTopologicalOrdering allocates its result with len(input) and
// copies the (de-duplicated) ordering into it. When an event is listed more than
// once in the input the ordering is shorter than the input, and the tail of the
// returned slice is filled with nil PDUs. ReverseTopologicalOrdering, which the
// function is documented to be equivalent to, returns the distinct events only.

import (
	"encoding/json"
	"testing"

	"github.com/matrix-org/gomatrixserverlib/spec"
)

func TestAuditFinding6(t *testing.T) {
	const alice = "@alice:example.com"
	impl := MustGetRoomVersion(RoomVersionV10)
	mk := func(id, typ, sk, content string, refs []string, ts int64) PDU {
		t.Helper()
		m := map[string]interface{}{
			"type": typ, "state_key": sk, "sender": alice, "room_id": "!room:example.com",
			"content": json.RawMessage(content), "origin_server_ts": ts, "depth": ts,
			"auth_events": append([]string{}, refs...), "prev_events": append([]string{}, refs...),
		}
		b, err := json.Marshal(m)
		if err != nil {
			t.Fatal(err)
		}
		ev, err := impl.NewEventFromTrustedJSONWithEventID(id, b, false)
		if err != nil {
			t.Fatal(err)
		}
		return ev
	}
	create := mk("$create", spec.MRoomCreate, "", `{"creator":"@alice:example.com","room_version":"10"}`, nil, 1)
	join := mk("$join", spec.MRoomMember, alice, `{"membership":"join"}`, []string{"$create"}, 2)
	pl := mk("$pl", spec.MRoomPowerLevels, "", `{"users":{"@alice:example.com":100}}`, []string{"$create", "$join"}, 3)

	for _, order := range []TopologicalOrder{TopologicalOrderByAuthEvents, TopologicalOrderByPrevEvents} {
		// $join is listed twice (e.g. once as a state event and once as an auth event)
		input := []PDU{pl, join, create, join}
		ref := ReverseTopologicalOrdering(input, order)
		got := HeaderedReverseTopologicalOrdering(input, order)
		if len(ref) != 3 {
			t.Fatalf("order %d: ReverseTopologicalOrdering returned %d events, want 3", order, len(ref))
		}
		if len(got) != 3 {
			t.Errorf("order %d: HeaderedReverseTopologicalOrdering returned %d entries for 3 distinct events", order, len(got))
		}
		for i, e := range got {
			if e == nil {
				t.Errorf("order %d: entry %d of the returned ordering is a nil PDU", order, i)
				continue
			}
			if i < len(ref) && e.EventID() != ref[i].EventID() {
				t.Errorf("order %d: entry %d is %s, ReverseTopologicalOrdering has %s", order, i, e.EventID(), ref[i].EventID())
			}
		}
	}
}
