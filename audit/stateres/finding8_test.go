package gomatrixserverlib

// Audit finding 8 (property C11: "keeps for every key on which all state sets
// agree exactly that event, and resolving state sets that are all equal returns
// that state", deprecated entry points). Belongs in the package root directory
// (package gomatrixserverlib).
//
// The deprecated v2 resolver (ResolveConflicts -> ResolveStateConflictsV2) looks
// for the create event among the AUTH events only and returns an empty result
// if it is not there. The create event has no auth events and is nobody's auth
// event in a room that consists of the create event only, so for such a room
// (state sets {create}, {create}; auth chain empty) the deprecated entry points
// return no state at all, while the current entry point and the v1 algorithm
// return the create event.

import (
	"encoding/json"
	"fmt"
	"strings"
	"testing"

	"github.com/matrix-org/gomatrixserverlib/spec"
)

func auditF8UserID(_ spec.RoomID, senderID spec.SenderID) (*spec.UserID, error) {
	return spec.NewUserID(string(senderID), true)
}

func TestAuditFinding8(t *testing.T) {
	const alice = "@alice:example.com"
	notRejected := func(string) bool { return false }
	for _, ver := range []RoomVersion{RoomVersionV1, RoomVersionV2, RoomVersionV10, RoomVersionV12} {
		impl := MustGetRoomVersion(ver)
		id := "$create:example.com"
		m := map[string]interface{}{
			"type": spec.MRoomCreate, "state_key": "", "sender": alice,
			"content":          json.RawMessage(fmt.Sprintf(`{"creator":%q,"room_version":%q}`, alice, ver)),
			"origin_server_ts": 1, "depth": 1, "auth_events": []string{}, "prev_events": []string{},
		}
		if impl.DomainlessRoomIDs() {
			id = "$create" + strings.Repeat("x", 43-len("create"))
		} else {
			m["room_id"] = "!room:example.com"
		}
		b, _ := json.Marshal(m)
		create, err := impl.NewEventFromTrustedJSONWithEventID(id, b, false)
		if err != nil {
			t.Fatal(err)
		}

		// current entry point: returns the create event
		got, err := ResolveConflictsNew(ver, [][]PDU{{create}, {create}}, nil, auditF8UserID, notRejected)
		if err != nil || len(got) != 1 || got[0].EventID() != id {
			t.Errorf("room version %s: ResolveConflictsNew returned %d events (err %v), want the create event", ver, len(got), err)
		}
		// deprecated entry point, same input (the events of both state sets, empty auth chain)
		got, err = ResolveConflicts(ver, []PDU{create, create}, nil, auditF8UserID, notRejected)
		if err != nil || len(got) != 1 || got[0].EventID() != id {
			t.Errorf("room version %s: ResolveConflicts returned %d events (err %v), want the create event", ver, len(got), err)
		}
		if impl.StateResAlgorithm() != StateResV1 {
			got = ResolveStateConflictsV2(nil, []PDU{create}, nil, auditF8UserID, notRejected)
			if len(got) != 1 || got[0].EventID() != id {
				t.Errorf("room version %s: ResolveStateConflictsV2 returned %d events, want the create event", ver, len(got))
			}
		}
	}
}
