package gomatrixserverlib

// Audit finding 7 (property C11: "every result ... consists only of supplied
// events, keeps for every key on which all state sets agree exactly that event";
// same result for every presentation of the conflicted / unconflicted lists,
// deprecated entry point). Belongs in the package root directory
// (package gomatrixserverlib).
//
// The deprecated ResolveStateConflictsV2 builds its full conflicted set with
//     fullConflictedSet := append(conflicted, r.calculateAuthDifference()...)
// i.e. it appends to the CALLER's slice. When `conflicted` has spare capacity -
// the natural case being a caller that partitions one slice into
// events[:k] (conflicted) and events[k:] (unconflicted) - the append overwrites
// the caller's unconflicted events before they are applied: the input is
// corrupted, an unconflicted event (here the create event) vanishes from the
// result and a different power-levels event wins.

import (
	"encoding/json"
	"fmt"
	"sort"
	"strings"
	"testing"

	"github.com/matrix-org/gomatrixserverlib/spec"
)

func auditF7UserID(_ spec.RoomID, senderID spec.SenderID) (*spec.UserID, error) {
	return spec.NewUserID(string(senderID), true)
}

func auditF7Describe(evs []PDU) string {
	var out []string
	for _, e := range evs {
		out = append(out, fmt.Sprintf("(%s,%q)=%s", e.Type(), *e.StateKey(), e.EventID()))
	}
	sort.Strings(out)
	return strings.Join(out, " ")
}

func TestAuditFinding7(t *testing.T) {
	const alice = "@alice:example.com"
	ver := RoomVersionV10
	impl := MustGetRoomVersion(ver)
	mk := func(id, typ, sk, content string, auth, prev []string, ts, depth int64) PDU {
		t.Helper()
		m := map[string]interface{}{
			"type": typ, "state_key": sk, "sender": alice, "room_id": "!room:example.com",
			"content": json.RawMessage(content), "origin_server_ts": ts, "depth": depth,
			"auth_events": append([]string{}, auth...), "prev_events": append([]string{}, prev...),
		}
		b, err := json.Marshal(m)
		if err != nil {
			t.Fatal(err)
		}
		ev, err := impl.NewEventFromTrustedJSONWithEventID(id, b, false)
		if err != nil {
			t.Fatal(err)
		}
		return ev
	}
	create := mk("$create", spec.MRoomCreate, "", `{"creator":"@alice:example.com","room_version":"10"}`, nil, nil, 1, 1)
	join := mk("$join", spec.MRoomMember, alice, `{"membership":"join"}`, []string{"$create"}, []string{"$create"}, 2, 2)
	jr := mk("$jr", spec.MRoomJoinRules, "", `{"join_rule":"public"}`, []string{"$create", "$join"}, []string{"$join"}, 3, 3)
	pl1 := mk("$pl1", spec.MRoomPowerLevels, "", `{"users":{"@alice:example.com":100}}`, []string{"$create", "$join"}, []string{"$jr"}, 4, 4)
	pl2 := mk("$pl2", spec.MRoomPowerLevels, "", `{"users":{"@alice:example.com":100,"@bob:example.com":50}}`, []string{"$create", "$join", "$pl1"}, []string{"$pl1"}, 5, 5)

	// the auth events of the events being resolved ($pl1 is an auth event of $pl2)
	auth := []PDU{create, join, pl1}
	notRejected := func(string) bool { return false }

	// reference: separately allocated lists
	want := ResolveStateConflictsV2([]PDU{pl1, pl2}, []PDU{create, join, jr}, auth, auditF7UserID, notRejected)
	if g, w := auditF7Describe(want), auditF7Describe([]PDU{create, join, jr, pl2}); g != w {
		t.Fatalf("unexpected reference resolution %s", g)
	}

	// the same lists as two halves of one slice
	events := []PDU{pl1, pl2, create, join, jr}
	got := ResolveStateConflictsV2(events[:2], events[2:], auth, auditF7UserID, notRejected)
	if g, w := auditF7Describe(got), auditF7Describe(want); g != w {
		t.Errorf("resolution depends on how the caller allocated its slices:\n got  %s\n want %s", g, w)
	}
	for i, w := range []PDU{pl1, pl2, create, join, jr} {
		if events[i] != w {
			t.Errorf("the caller's input was modified: events[%d] is now %s, was %s", i, events[i].EventID(), w.EventID())
		}
	}
}
