package gomatrixserverlib

// Audit finding 3 (property C10). Belongs in the package root directory
// (package gomatrixserverlib).
//
// stateResolverV2.applyEvents() files an m.room.member event whose state_key is
// the empty string under "resolvedOthers" instead of "resolvedMembers". The
// iterative auth checks look memberships up in resolvedMembers only, so a member
// event with an empty state key that has been applied to the partial state is
// invisible to the auth check of the next event with that key; the check falls
// back to the event's own auth events instead of using the partial state.
// (The library's auth rules accept invite/kick/ban of the "user" "" - the
// state key of a member event is not validated anywhere.)

import (
	"encoding/json"
	"fmt"
	"sort"
	"strings"
	"testing"

	"github.com/matrix-org/gomatrixserverlib/spec"
)

func auditF3UserID(_ spec.RoomID, senderID spec.SenderID) (*spec.UserID, error) {
	return spec.NewUserID(string(senderID), true)
}

func auditF3Describe(evs []PDU) string {
	var out []string
	for _, e := range evs {
		out = append(out, fmt.Sprintf("(%s,%q)=%s", e.Type(), *e.StateKey(), e.EventID()))
	}
	sort.Strings(out)
	return strings.Join(out, " ")
}

func TestAuditFinding3(t *testing.T) {
	const alice = "@alice:example.com"
	for _, ver := range []RoomVersion{RoomVersionV2, RoomVersionV10, RoomVersionV11} {
		impl := MustGetRoomVersion(ver)
		mk := func(id, typ, sk, sender, content string, auth, prev []string, ts, depth int64) PDU {
			t.Helper()
			refs := func(l []string) interface{} {
				if impl.EventFormat() == EventFormatV1 {
					out := []interface{}{}
					for _, i := range l {
						out = append(out, []interface{}{i, map[string]string{"sha256": "aGFzaA"}})
					}
					return out
				}
				return append([]string{}, l...)
			}
			m := map[string]interface{}{
				"type": typ, "state_key": sk, "sender": sender, "room_id": "!room:example.com",
				"content": json.RawMessage(content), "origin_server_ts": ts, "depth": depth,
				"auth_events": refs(auth), "prev_events": refs(prev),
			}
			b, err := json.Marshal(m)
			if err != nil {
				t.Fatal(err)
			}
			ev, err := impl.NewEventFromTrustedJSONWithEventID(id, b, false)
			if err != nil {
				t.Fatal(err)
			}
			return ev
		}
		create := mk("$create:example.com", spec.MRoomCreate, "", alice, fmt.Sprintf(`{"creator":%q,"room_version":%q}`, alice, ver), nil, nil, 1, 1)
		aJoin := mk("$alice-join:example.com", spec.MRoomMember, alice, alice, `{"membership":"join"}`,
			[]string{"$create:example.com"}, []string{"$create:example.com"}, 2, 2)
		pl := mk("$pl:example.com", spec.MRoomPowerLevels, "", alice, `{"users":{"@alice:example.com":100}}`,
			[]string{"$create:example.com", "$alice-join:example.com"}, []string{"$alice-join:example.com"}, 3, 3)
		jr := mk("$jr:example.com", spec.MRoomJoinRules, "", alice, `{"join_rule":"public"}`,
			[]string{"$create:example.com", "$alice-join:example.com", "$pl:example.com"}, []string{"$pl:example.com"}, 4, 4)
		// fork 1: alice bans the "user" with the empty ID
		ban := mk("$ban:example.com", spec.MRoomMember, "", alice, `{"membership":"ban"}`,
			[]string{"$create:example.com", "$pl:example.com", "$alice-join:example.com"}, []string{"$jr:example.com"}, 10, 5)
		// fork 2: alice invites the same "user"
		invite := mk("$invite:example.com", spec.MRoomMember, "", alice, `{"membership":"invite"}`,
			[]string{"$create:example.com", "$pl:example.com", "$alice-join:example.com", "$jr:example.com"}, []string{"$jr:example.com"}, 20, 5)

		base := []PDU{create, aJoin, pl, jr}
		for _, e := range []PDU{ban, invite} {
			prov, _ := NewAuthEvents(base)
			if err := Allowed(e, prov, auditF3UserID); err != nil {
				t.Fatalf("%s: test event %s is not allowed: %v", ver, e.EventID(), err)
			}
		}
		// a banned user cannot be invited
		prov, _ := NewAuthEvents(append(append([]PDU{}, base...), ban))
		if err := Allowed(invite, prov, auditF3UserID); err == nil {
			t.Fatalf("%s: inviting a banned user unexpectedly allowed", ver)
		}

		set1 := append(append([]PDU{}, base...), ban)
		set2 := append(append([]PDU{}, base...), invite)
		got, err := ResolveConflictsNew(ver, [][]PDU{set1, set2}, base, auditF3UserID, func(string) bool { return false })
		if err != nil {
			t.Fatal(err)
		}
		// Neither event is a power event (empty state key), both hang off the same power-levels
		// event, so they are applied in timestamp order: the ban (ts 10), then the invite (ts 20),
		// which must be rejected against the partial state (target is banned).
		want := set1
		if g, w := auditF3Describe(got), auditF3Describe(want); g != w {
			t.Errorf("room version %s:\n got  %s\n want %s", ver, g, w)
		}
	}
}
