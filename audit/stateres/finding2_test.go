package gomatrixserverlib

// Audit finding 2 (property C10). Belongs in the package root directory
// (package gomatrixserverlib).
//
// State resolution reuses one allowerContext for all iterative auth checks.
// allowerContext.update() keeps the join rule (and power levels) parsed for the
// PREVIOUS event when the content of the current m.room.join_rules event does
// not unmarshal into JoinRuleContent (e.g. {"join_rule": 5}; such an event passes
// the library's auth checks because join_rules events are only subject to the
// default checks). A join that must be judged against the malformed join rule is
// then judged against whatever join rule the previously checked event had.

import (
	"encoding/json"
	"fmt"
	"sort"
	"strings"
	"testing"

	"github.com/matrix-org/gomatrixserverlib/spec"
)

func auditF2UserID(_ spec.RoomID, senderID spec.SenderID) (*spec.UserID, error) {
	return spec.NewUserID(string(senderID), true)
}

func auditF2ID(name string) string {
	return "$" + name + strings.Repeat("x", 43-len(name))
}

func auditF2Describe(evs []PDU) string {
	var out []string
	for _, e := range evs {
		out = append(out, fmt.Sprintf("(%s,%q)=%s", e.Type(), *e.StateKey(), strings.TrimRight(e.EventID(), "x")))
	}
	sort.Strings(out)
	return strings.Join(out, " ")
}

func TestAuditFinding2(t *testing.T) {
	const (
		alice = "@alice:example.com"
		bob   = "@bob:example.com"
		carol = "@carol:example.com"
	)
	for _, ver := range []RoomVersion{RoomVersionV12, RoomVersionHydra} {
		impl := MustGetRoomVersion(ver)
		roomID := "!" + auditF2ID("create")[1:]
		mk := func(name, typ, sk, sender, content string, auth, prev []string, ts, depth int64) PDU {
			t.Helper()
			ids := func(l []string) []string {
				out := []string{}
				for _, n := range l {
					out = append(out, auditF2ID(n))
				}
				return out
			}
			m := map[string]interface{}{
				"type": typ, "state_key": sk, "sender": sender,
				"content": json.RawMessage(content), "origin_server_ts": ts, "depth": depth,
				"auth_events": ids(auth), "prev_events": ids(prev),
			}
			if typ != spec.MRoomCreate {
				m["room_id"] = roomID
			}
			b, err := json.Marshal(m)
			if err != nil {
				t.Fatal(err)
			}
			ev, err := impl.NewEventFromTrustedJSONWithEventID(auditF2ID(name), b, false)
			if err != nil {
				t.Fatal(err)
			}
			return ev
		}
		// (the create event is implicitly an auth event of every event in these room versions)
		create := mk("create", spec.MRoomCreate, "", alice, fmt.Sprintf(`{"room_version":%q}`, ver), nil, nil, 1, 1)
		a1 := mk("alice-join", spec.MRoomMember, alice, alice, `{"membership":"join"}`, nil, []string{"create"}, 2, 2)
		jrPub := mk("jr-public", spec.MRoomJoinRules, "", alice, `{"join_rule":"public"}`, []string{"alice-join"}, []string{"alice-join"}, 3, 3)
		k1 := mk("carol-join", spec.MRoomMember, carol, carol, `{"membership":"join"}`, []string{"jr-public"}, []string{"jr-public"}, 20, 4)
		b1 := mk("bob-join", spec.MRoomMember, bob, bob, `{"membership":"join"}`, []string{"jr-public"}, []string{"carol-join"}, 6, 5)
		// a join_rules event whose join_rule is not a string: allowed (default checks only)
		jrBad := mk("jr-bad", spec.MRoomJoinRules, "", alice, `{"join_rule":5}`, []string{"alice-join"}, []string{"bob-join"}, 8, 6)
		a2 := mk("alice-join2", spec.MRoomMember, alice, alice, `{"membership":"join","displayname":"A"}`, []string{"alice-join", "jr-bad"}, []string{"jr-bad"}, 9, 7)
		// fork 1: carol and bob leave
		k2 := mk("carol-leave", spec.MRoomMember, carol, carol, `{"membership":"leave"}`, []string{"carol-join"}, []string{"alice-join2"}, 5, 8)
		b3 := mk("bob-leave", spec.MRoomMember, bob, bob, `{"membership":"leave"}`, []string{"bob-join"}, []string{"carol-leave"}, 10, 9)
		// fork 2: bob changes his display name (join -> join, legitimately sent under the malformed join rule)
		b4 := mk("bob-join2", spec.MRoomMember, bob, bob, `{"membership":"join","displayname":"B"}`, []string{"bob-join", "jr-bad"}, []string{"alice-join2"}, 30, 8)

		// sanity: each event is allowed by the library against the state it was sent in
		check := func(e PDU, state ...PDU) {
			t.Helper()
			prov, _ := NewAuthEvents(state)
			if err := Allowed(e, prov, auditF2UserID); err != nil {
				t.Fatalf("%s: test event %s is not allowed: %v", ver, e.EventID(), err)
			}
		}
		check(a1, create)
		check(jrPub, create, a1)
		check(k1, create, a1, jrPub)
		check(b1, create, a1, jrPub, k1)
		check(jrBad, create, a1, jrPub, k1, b1)
		check(a2, create, a1, jrBad, k1, b1)
		check(k2, create, a2, jrBad, k1, b1)
		check(b3, create, a2, jrBad, k2, b1)
		check(b4, create, a2, jrBad, k1, b1)
		// ... and a join after a leave is NOT allowed under the malformed join rule
		prov, _ := NewAuthEvents([]PDU{create, a2, jrBad, b3})
		if err := Allowed(b4, prov, auditF2UserID); err == nil {
			t.Fatalf("%s: leave->join under the malformed join rule unexpectedly allowed", ver)
		}

		set1 := []PDU{create, a2, jrBad, k2, b3}
		set2 := []PDU{create, a2, jrBad, k1, b4}
		auth := []PDU{create, a1, jrPub, jrBad, k1, b1}

		got, err := ResolveConflictsNew(ver, [][]PDU{set1, set2}, auth, auditF2UserID, func(string) bool { return false })
		if err != nil {
			t.Fatal(err)
		}
		// v2.1 starts from the empty state. The conflicted events are ordered by timestamp
		// (there is no power-levels event): carol-leave(5), bob-leave(10), carol-join(20), bob-join2(30).
		//   carol-leave: allowed (own auth event: carol-join)
		//   bob-leave:   allowed (own auth event: bob-join)
		//   carol-join:  leave -> join under her own join rule "public": allowed
		//   bob-join2:   leave -> join under his own join rule {"join_rule":5}: NOT allowed
		want := []PDU{create, a2, jrBad, k1, b3}
		if g, w := auditF2Describe(got), auditF2Describe(want); g != w {
			t.Errorf("room version %s:\n got  %s\n want %s", ver, g, w)
		}
	}
}
