// Belongs in the package root directory (package gomatrixserverlib).
package gomatrixserverlib

import (
	"bytes"
	"os"
	"os/exec"
	"strings"
	"testing"
)

// CanonicalJSON on a 250 kB valid JSON text of 50 000 nested objects kills the
// whole process with "fatal error: stack overflow" (not a recoverable panic):
// sortJSONObject recurses once per nesting level and every frame carries a
// [128]entry array (~14 kB), so ~36 000 levels exceed Go's 1 GB stack limit.
//
// The call is made in a child process so that the crash is reported as an
// ordinary test failure.
func TestAuditFinding4(t *testing.T) {
	const depth = 50000
	doc := strings.Repeat(`{"":`, depth) + "1" + strings.Repeat("}", depth)

	if os.Getenv("AUDIT_FINDING4_CHILD") == "1" {
		out, err := CanonicalJSON([]byte(doc))
		// Either a clean error (e.g. a nesting limit) or the right answer is fine.
		if err == nil && string(out) != doc {
			t.Fatalf("wrong output (len %d)", len(out))
		}
		return
	}

	cmd := exec.Command(os.Args[0], "-test.run=^TestAuditFinding4$", "-test.count=1")
	cmd.Env = append(os.Environ(), "AUDIT_FINDING4_CHILD=1")
	var buf bytes.Buffer
	cmd.Stdout, cmd.Stderr = &buf, &buf
	if err := cmd.Run(); err != nil {
		msg := buf.String()
		if len(msg) > 600 {
			msg = msg[:600] + "..."
		}
		t.Fatalf("CanonicalJSON on %d bytes of valid JSON (%d nested objects) crashed the process: %v\n%s", len(doc), depth, err, msg)
	}
}
