// Belongs in the package root directory (package gomatrixserverlib).
package gomatrixserverlib

import (
	"bytes"
	"crypto/rand"
	"encoding/json"
	"strings"
	"testing"

	"golang.org/x/crypto/ed25519"
)

// CompactJSON (compactUnicodeEscape) silently DROPS an unpaired UTF-16
// surrogate escape (and, if another \u escape follows a high surrogate,
// swallows that one as well). Distinct JSON texts therefore canonicalise to
// identical bytes, and a signed object can be modified without invalidating
// its signature.
func TestAuditFinding2(t *testing.T) {
	pub, priv, err := ed25519.GenerateKey(rand.Reader)
	if err != nil {
		t.Fatal(err)
	}
	bsu := "\\" + "u" // a backslash followed by u

	signed, err := SignJSON("me", "ed25519:k", priv, []byte(`{"sender":"@alice:example.org","content":{"body":"x"}}`))
	if err != nil {
		t.Fatal(err)
	}
	if err := VerifyJSON("me", "ed25519:k", pub, signed); err != nil {
		t.Fatal(err)
	}
	for _, rep := range [][2]string{
		{`"@alice:`, `"@alice` + bsu + `d800:`},     // top-level value edit
		{`"body":"x"`, `"body":"x` + bsu + `dc00"`}, // nested value edit
		{`"body":"x"`, `"body` + bsu + `d83d":"x"`}, // nested key edit
	} {
		if !strings.Contains(string(signed), rep[0]) {
			t.Fatalf("test bug: %q not in %s", rep[0], signed)
		}
		tampered := []byte(strings.Replace(string(signed), rep[0], rep[1], 1))
		if !json.Valid(tampered) {
			t.Fatalf("test bug: tampered text is not JSON: %s", tampered)
		}
		// The tampered text denotes a different value for any JSON decoder
		// (encoding/json included), so the signature must no longer verify.
		var a, b interface{}
		_ = json.Unmarshal(signed, &a)
		_ = json.Unmarshal(tampered, &b)
		ab, _ := json.Marshal(a)
		bb, _ := json.Marshal(b)
		if bytes.Equal(ab, bb) {
			t.Fatalf("test bug: tampering did not change the value")
		}
		if err := VerifyJSON("me", "ed25519:k", pub, tampered); err == nil {
			t.Errorf("signature still verifies after tampering:\n  signed   %s\n  tampered %s", signed, tampered)
		}
	}

	// Completeness side of the same defect: SignJSON's own output does not verify.
	in := `{"a":1,"unsigned` + bsu + `d800":{"x":1}}`
	out, err := SignJSON("me", "ed25519:k", priv, []byte(in))
	if err == nil {
		if err := VerifyJSON("me", "ed25519:k", pub, out); err != nil {
			t.Errorf("SignJSON(%s) = %s does not verify: %v", in, out, err)
		}
	}

	// Root cause at the CanonicalJSON level: two different values, one canonical form.
	c1, err1 := CanonicalJSON([]byte(`"x"`))
	c2, err2 := CanonicalJSON([]byte(`"x` + bsu + `d800"`))
	if err1 == nil && err2 == nil && bytes.Equal(c1, c2) {
		t.Errorf(`CanonicalJSON maps "x" and "x\ud800" to the same bytes %s`, c1)
	}
}
