// Belongs in the package root directory (package gomatrixserverlib).
package gomatrixserverlib

import (
	"crypto/rand"
	"testing"
	"unicode/utf8"

	"golang.org/x/crypto/ed25519"
)

// A byte sequence that is not UTF-8 is not a JSON text (RFC 8259 section 8.1),
// but CanonicalJSON / EnforcedCanonicalJSON accept it and hand the ill-formed
// bytes back as "canonical JSON". SignJSON (which canonicalises the raw bytes)
// and VerifyJSON (which first round-trips the top-level keys through
// encoding/json, turning bad bytes into U+FFFD) then disagree, so SignJSON
// returns an object that does not verify.
func TestAuditFinding6(t *testing.T) {
	for _, in := range []string{"\"\xff\"", "{\"a\":\"\xc3\"}", "{\"k\xed\xa0\x80\":1}", "[\"\xf8\x88\x80\x80\x80\"]"} {
		out, err := CanonicalJSON([]byte(in))
		if err == nil {
			t.Errorf("CanonicalJSON(%q) accepted invalid JSON, returned %q (valid UTF-8: %v)", in, out, utf8.Valid(out))
		}
		if out, err := EnforcedCanonicalJSON([]byte(in), RoomVersionV10); err == nil {
			t.Errorf("EnforcedCanonicalJSON(%q, v10) accepted invalid JSON, returned %q", in, out)
		}
	}

	pub, priv, err := ed25519.GenerateKey(rand.Reader)
	if err != nil {
		t.Fatal(err)
	}
	in := "{\"a\xff\":1}"
	signed, err := SignJSON("me", "ed25519:k", priv, []byte(in))
	if err == nil {
		if err := VerifyJSON("me", "ed25519:k", pub, signed); err != nil {
			t.Errorf("SignJSON(%q) succeeded but its result %q does not verify: %v", in, signed, err)
		}
	}
}
