// Belongs in the package root directory (package gomatrixserverlib).
package gomatrixserverlib

import (
	"crypto/rand"
	"encoding/json"
	"testing"

	"golang.org/x/crypto/ed25519"
)

// SignJSON decodes the message into a struct with `json:"signatures"` and
// `json:"unsigned"` tags. encoding/json matches struct fields
// case-insensitively (with Unicode simple folding), so top-level members such
// as "Unsigned", "UNSIGNED", "Signatures" or "unſigned" are mistaken for
// the real "unsigned"/"signatures" members.
func TestAuditFinding1(t *testing.T) {
	pub, priv, err := ed25519.GenerateKey(rand.Reader)
	if err != nil {
		t.Fatal(err)
	}
	get := func(doc []byte, path ...string) string {
		t.Helper()
		cur := json.RawMessage(doc)
		for _, p := range path {
			var m map[string]json.RawMessage
			if err := json.Unmarshal(cur, &m); err != nil {
				t.Fatalf("cannot decode %s: %v", cur, err)
			}
			cur = m[p]
		}
		return string(cur)
	}

	// (a) the real "unsigned" member is replaced by the value of a different member.
	in := `{"a":1,"unsigned":{"age":1},"Unsigned":4}`
	signed, err := SignJSON("me", "ed25519:k", priv, []byte(in))
	if err != nil {
		t.Errorf("(a) SignJSON(%s) failed: %v", in, err)
	} else {
		if got := get(signed, "unsigned"); got != `{"age":1}` {
			t.Errorf("(a) unsigned not kept intact: input %s, output %s", in, signed)
		}
		if err := VerifyJSON("me", "ed25519:k", pub, signed); err != nil {
			t.Errorf("(a) verify: %v", err)
		}
	}

	// (b) an object without "unsigned" grows one.
	in = `{"a":1,"Unsigned":{"x":1}}`
	signed, err = SignJSON("me", "ed25519:k", priv, []byte(in))
	if err != nil {
		t.Errorf("(b) SignJSON(%s) failed: %v", in, err)
	} else if got := get(signed, "unsigned"); got != "" {
		t.Errorf("(b) output has an \"unsigned\" member the input did not have: input %s, output %s", in, signed)
	}

	// (c) an earlier signature is dropped.
	in = `{"a":1,"signatures":{"other":{"ed25519:1":"c2ln"}},"Signatures":{"other":{}}}`
	signed, err = SignJSON("me", "ed25519:k", priv, []byte(in))
	if err != nil {
		t.Errorf("(c) SignJSON(%s) failed: %v", in, err)
	} else if got := get(signed, "signatures", "other", "ed25519:1"); got != `"c2ln"` {
		t.Errorf("(c) earlier signature lost: input %s, output %s", in, signed)
	}

	// (d) a perfectly valid JSON object cannot be signed at all.
	for _, in := range []string{`{"a":1,"Signatures":"x"}`, `{"a":1,"SIGNATURES":5}`, "{\"a\":1,\"ſignatures\":[]}"} {
		signed, err = SignJSON("me", "ed25519:k", priv, []byte(in))
		if err != nil {
			t.Errorf("(d) SignJSON(%s) failed: %v", in, err)
			continue
		}
		if err := VerifyJSON("me", "ed25519:k", pub, signed); err != nil {
			t.Errorf("(d) verify %s: %v", signed, err)
		}
	}
}
