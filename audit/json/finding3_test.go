// Belongs in the package root directory (package gomatrixserverlib).
package gomatrixserverlib

import (
	"crypto/rand"
	"testing"

	"golang.org/x/crypto/ed25519"
)

// VerifyJSON decodes EVERY entry of "signatures" as unpadded base64 before it
// looks up the one it was asked about, so a single undecodable signature of an
// unrelated entity makes the signer's own, valid signature unverifiable.
// SignJSON, on the other hand, deliberately carries such entries over verbatim.
func TestAuditFinding3(t *testing.T) {
	pub, priv, err := ed25519.GenerateKey(rand.Reader)
	if err != nil {
		t.Fatal(err)
	}
	for _, in := range []string{
		`{"a":1,"signatures":{"other.example":{"ed25519:1":"c2ln=="}}}`, // padded base64
		`{"a":1,"signatures":{"other.example":{"ed25519:1":"not base64!"}}}`,
		`{"a":1,"signatures":{"other.example":{"ed25519:1":123}}}`,
		`{"a":1,"signatures":{"other.example":{"ed25519:1":null,"ed25519:2":{}}}}`,
	} {
		signed, err := SignJSON("me", "ed25519:k", priv, []byte(in))
		if err != nil {
			t.Errorf("SignJSON(%s): %v", in, err)
			continue
		}
		if err := VerifyJSON("me", "ed25519:k", pub, signed); err != nil {
			t.Errorf("object signed by \"me\" does not verify for \"me\": %v\n  input  %s\n  signed %s", err, in, signed)
		}
	}
}
