// Belongs in the package root directory (package gomatrixserverlib).
package gomatrixserverlib

import (
	"testing"
)

// CanonicalJSON copies every number literal that has a fraction or an exponent
// through verbatim. Texts that denote the same value therefore do not
// canonicalise to identical bytes, the output is not in the (integer-only)
// Matrix canonical form, and negative zero keeps its sign unless it is spelled
// exactly "-0".
func TestAuditFinding5(t *testing.T) {
	groups := [][]string{
		{`1`, `1.0`, `1.00`, `1e0`, `1E0`, `1E+0`, `10e-1`, `0.1e1`},
		{`100`, `1e2`, `1E2`, `1e+2`, `1e02`, `100.0`},
		{`0`, `-0`, `-0.0`, `0.0`, `-0e0`, `-0E-0`, `0e5`},
		{`{"a":[5]}`, `{"a":[5.0]}`, `{"a":[0.5e1]}`},
		{`0.5`, `0.50`, `5e-1`, `5E-1`, `5e-01`},
	}
	for _, g := range groups {
		want, err := CanonicalJSON([]byte(g[0]))
		if err != nil {
			t.Fatalf("%s: %v", g[0], err)
		}
		for _, in := range g[1:] {
			got, err := CanonicalJSON([]byte(in))
			if err != nil {
				t.Errorf("CanonicalJSON(%s): %v", in, err)
				continue
			}
			if string(got) != string(want) {
				t.Errorf("same value, different canonical bytes: %s -> %s but %s -> %s", g[0], want, in, got)
			}
		}
	}
}
