package gomatrixserverlib

// Audit finding 2 (properties C05 and C04). Belongs in the package root
// directory (package gomatrixserverlib). Self-contained.

import (
	"bytes"
	"encoding/json"
	"testing"
	"time"

	"github.com/matrix-org/gomatrixserverlib/spec"
	"github.com/tidwall/sjson"
	"golang.org/x/crypto/ed25519"
)

// redactEventJSON selects the top-level keys to keep by unmarshalling into a
// struct. encoding/json matches struct fields case-insensitively (including
// the Unicode folds U+017F "ſ" -> s and U+212A "K" -> k), so an extra top-level
// key such as "Membership", "Prev_State", "Event_id", "State_key" or "ſender",
// none of which is on any room version's keep-list, survives redaction under the
// lower-case name - or even replaces the value of the real key.
func TestAuditFinding2(t *testing.T) {
	key := ed25519.NewKeyFromSeed(bytes.Repeat([]byte{7}, 32))
	pub := key.Public().(ed25519.PublicKey)
	for _, ver := range []RoomVersion{RoomVersionV1, RoomVersionV4, RoomVersionV10, RoomVersionV11, RoomVersionV12} {
		v := MustGetRoomVersion(ver)
		eb := v.NewEventBuilder()
		eb.Type = "m.room.message"
		eb.SenderID = "@alice:origin.example.org"
		eb.RoomID = "!room:origin.example.org"
		eb.Depth = 7
		eb.Content = spec.RawJSON(`{"body":"hello"}`)
		if v.DomainlessRoomIDs() {
			eb.RoomID = "!AAAAAAAAAAAAAAAAAAAAAAAAAAAAAAAAAAAAAAAAAAA"
		}
		if v.EventFormat() == EventFormatV2 {
			eb.PrevEvents = []string{"$p1"}
			eb.AuthEvents = []string{"$a1"}
		}
		orig, err := eb.Build(time.UnixMilli(1700000000123), "origin.example.org", "ed25519:k1", key)
		if err != nil {
			t.Fatalf("room version %s: build: %v", ver, err)
		}
		origRedacted, err := v.RedactEventJSON(orig.JSON())
		if err != nil {
			t.Fatal(err)
		}
		var want map[string]json.RawMessage
		if err = json.Unmarshal(origRedacted, &want); err != nil {
			t.Fatal(err)
		}

		for _, extra := range []struct{ key, value string }{
			{"Membership", `"evil"`},         // keep-list (v1-v10) has "membership" only
			{"Prev_State", `["evil"]`},       // keep-list (v1-v10) has "prev_state" only
			{"State_key", `"evil"`},          // keep-list has "state_key" only; the event is not a state event
			{"Event_ID", `"$evil:evil.com"`}, // keep-list has "event_id" only (absent from v3+ events)
			{"ſender", `"@evil:evil.com"`},   // U+017F: folds to "sender" and sorts after it
			{"state_Key", `"evil"`},          // U+212A: folds to "state_key"
			{"Foo", `"harmless"`},            // control: removed correctly
		} {
			withExtra, err := sjson.SetRawBytes(orig.JSON(), extra.key, []byte(extra.value))
			if err != nil {
				t.Fatal(err)
			}

			// (a) C05: the redaction algorithm itself.
			redacted, err := v.RedactEventJSON(withExtra)
			if err != nil {
				t.Fatalf("room version %s: redact: %v", ver, err)
			}
			var got map[string]json.RawMessage
			if err = json.Unmarshal(redacted, &got); err != nil {
				t.Fatal(err)
			}
			for k, val := range got {
				if w, ok := want[k]; !ok {
					t.Errorf("room version %s: C05: extra top-level key %q=%s survives redaction as %q=%s", ver, extra.key, extra.value, k, val)
				} else if !bytes.Equal(w, val) {
					t.Errorf("room version %s: C05: extra top-level key %q=%s changes kept key %q from %s to %s", ver, extra.key, extra.value, k, w, val)
				}
			}

			// (b) C04: the same text as an untrusted event. The content hash fails (an extra
			// top-level key is hashed), only redactable material was added, so the result must
			// be the redacted original: same event ID, same sender / state key, signature valid.
			ev, err := v.NewEventFromUntrustedJSON(withExtra)
			if err != nil {
				continue // refusing is acceptable
			}
			if !ev.Redacted() {
				t.Errorf("room version %s: C04: extra key %q: event not redacted", ver, extra.key)
			}
			if v.EventFormat() == EventFormatV2 && ev.EventID() != orig.EventID() {
				t.Errorf("room version %s: C04: extra top-level key %q changes the event ID from %s to %s", ver, extra.key, orig.EventID(), ev.EventID())
			}
			if ev.SenderID() != orig.SenderID() {
				t.Errorf("room version %s: C04: extra top-level key %q changes the sender to %s", ver, extra.key, ev.SenderID())
			}
			if ev.StateKey() != nil {
				t.Errorf("room version %s: C04: extra top-level key %q gives the event the state key %q", ver, extra.key, *ev.StateKey())
			}
			if err := VerifyJSON("origin.example.org", "ed25519:k1", pub, ev.JSON()); err != nil {
				t.Errorf("room version %s: C04: extra top-level key %q: the origin's signature no longer verifies on the redacted form: %v", ver, extra.key, err)
			}
		}
	}
}
