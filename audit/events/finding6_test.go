package gomatrixserverlib

// Audit finding 6 (property C05). Belongs in the package root directory
// (package gomatrixserverlib). Self-contained.
//
// NOTE: this one measures the library against the redaction algorithm that the
// Matrix specification defines for room version 11 (and 12), which is what
// "the room version's redaction algorithm" in C05 refers to. If the yardstick is
// the library's own tables, disregard it.

import (
	"bytes"
	"encoding/json"
	"testing"
	"time"

	"github.com/matrix-org/gomatrixserverlib/spec"
	"golang.org/x/crypto/ed25519"
)

// Room version 11 (MSC2176 / MSC3821): "m.room.member allows keys membership,
// join_authorised_via_users_server. Additionally, it allows the signed key of the
// third_party_invite key." The library's table for v11/v12/hydra
// (unredactableContentFieldsV5) lacks third_party_invite.signed, so it is
// stripped. Since the event ID and the signatures are computed on the redacted
// event, every v11+ membership event that carries third_party_invite.signed gets
// an event ID / signature base different from the one other implementations use.
func TestAuditFinding6(t *testing.T) {
	key := ed25519.NewKeyFromSeed(bytes.Repeat([]byte{7}, 32))
	signed := `{"mxid":"@bob:example.org","signatures":{"id.example.org":{"ed25519:0":"c2ln"}},"token":"tok"}`
	for _, ver := range []RoomVersion{RoomVersionV11, RoomVersionV12, RoomVersionHydra} {
		v := MustGetRoomVersion(ver)
		eb := v.NewEventBuilder()
		eb.Type = "m.room.member"
		sk := "@bob:example.org"
		eb.StateKey = &sk
		eb.SenderID = "@alice:origin.example.org"
		eb.RoomID = "!room:origin.example.org"
		if v.DomainlessRoomIDs() {
			eb.RoomID = "!AAAAAAAAAAAAAAAAAAAAAAAAAAAAAAAAAAAAAAAAAAA"
		}
		eb.Depth = 7
		eb.PrevEvents = []string{"$p1"}
		eb.AuthEvents = []string{"$a1"}
		eb.Content = spec.RawJSON(`{"membership":"invite","displayname":"Bob","third_party_invite":{"display_name":"b...@example.org","signed":` + signed + `}}`)
		ev, err := eb.Build(time.UnixMilli(1700000000123), "origin.example.org", "ed25519:k1", key)
		if err != nil {
			t.Fatalf("room version %s: build: %v", ver, err)
		}
		ev.Redact()
		var content struct {
			Membership       string                     `json:"membership"`
			DisplayName      *string                    `json:"displayname"`
			ThirdPartyInvite map[string]json.RawMessage `json:"third_party_invite"`
		}
		if err = json.Unmarshal(ev.Content(), &content); err != nil {
			t.Fatal(err)
		}
		if content.Membership != "invite" || content.DisplayName != nil {
			t.Errorf("room version %s: unexpected redacted content %s", ver, ev.Content())
		}
		if _, ok := content.ThirdPartyInvite["display_name"]; ok {
			t.Errorf("room version %s: third_party_invite.display_name must be removed: %s", ver, ev.Content())
		}
		got, ok := content.ThirdPartyInvite["signed"]
		if !ok {
			t.Errorf("room version %s: redaction removed content.third_party_invite.signed, which the v11 redaction algorithm keeps; redacted content: %s", ver, ev.Content())
		} else if string(got) != signed {
			t.Errorf("room version %s: third_party_invite.signed changed: %s", ver, got)
		}
	}
}
