package gomatrixserverlib

// Audit finding 1 (property C04). Belongs in the package root directory
// (package gomatrixserverlib). Self-contained.

import (
	"bytes"
	"crypto/sha256"
	"encoding/base64"
	"encoding/json"
	"strings"
	"testing"
	"time"

	"github.com/matrix-org/gomatrixserverlib/spec"
	"github.com/tidwall/sjson"
	"golang.org/x/crypto/ed25519"
)

// A tamperer changes the (redactable) content of a signed event and adds a
// SECOND "hashes" member: either an exact duplicate key, or the key "haſhes"
// (U+017F), which encoding/json folds onto the struct field tagged "hashes".
// checkEventContentHash looks at one of the two members (gjson/sjson: first,
// exact match), the redaction / event ID / signature code looks at the other
// one (encoding/json struct decoding: last, case-folded match). Result: the
// tampered content is returned unredacted, under the original event ID and
// with the original signature still valid.
func TestAuditFinding1(t *testing.T) {
	key := ed25519.NewKeyFromSeed(bytes.Repeat([]byte{7}, 32))
	pub := key.Public().(ed25519.PublicKey)
	for _, ver := range []RoomVersion{RoomVersionV1, RoomVersionV3, RoomVersionV4, RoomVersionV6, RoomVersionV10, RoomVersionV11, RoomVersionV12} {
		v := MustGetRoomVersion(ver)
		eb := v.NewEventBuilder()
		eb.Type = "m.room.message"
		eb.SenderID = "@alice:origin.example.org"
		eb.RoomID = "!room:origin.example.org"
		eb.Depth = 7
		eb.Content = spec.RawJSON(`{"body":"pay bob 1 EUR","msgtype":"m.text"}`)
		if v.DomainlessRoomIDs() {
			eb.RoomID = "!AAAAAAAAAAAAAAAAAAAAAAAAAAAAAAAAAAAAAAAAAAA"
		}
		if v.EventFormat() == EventFormatV2 {
			eb.PrevEvents = []string{"$p1"}
			eb.AuthEvents = []string{"$a1"}
		}
		orig, err := eb.Build(time.UnixMilli(1700000000123), "origin.example.org", "ed25519:k1", key)
		if err != nil {
			t.Fatalf("room version %s: build: %v", ver, err)
		}
		var top map[string]json.RawMessage
		if err = json.Unmarshal(orig.JSON(), &top); err != nil {
			t.Fatal(err)
		}
		origHashes := string(top["hashes"])

		// Tamper with redactable material only (content keys outside the keep-list).
		tampered, err := sjson.SetRawBytes(orig.JSON(), "content", []byte(`{"body":"pay mallory 1000 EUR","msgtype":"m.text"}`))
		if err != nil {
			t.Fatal(err)
		}
		// hashOf computes what checkEventContentHash compares hashes.sha256 with, for a text
		// that does not yet contain the attacker's "hashes" member.
		hashOf := func(js []byte) string {
			for _, k := range []string{"signatures", "unsigned"} {
				js, _ = sjson.DeleteBytes(js, k)
			}
			sum := sha256.Sum256(CanonicalJSONAssumeValid(js))
			return `{"sha256":"` + base64.RawStdEncoding.EncodeToString(sum[:]) + `"}`
		}

		inner := string(tampered[1 : len(tampered)-1])
		dup := hashOf(tampered) // the original "hashes" member stays in and is hashed like any other key
		folded := strings.Replace(string(tampered), `"hashes":`+origHashes, `"haſhes":`+origHashes, 1)
		variants := []struct {
			name  string
			input string
		}{
			{"duplicate hashes key (new one first)", `{"hashes":` + dup + `,` + inner + `}`},
			{"duplicate hashes key (new one last)", `{` + inner + `,"hashes":` + dup + `}`},
			{`original hashes moved to key "haſhes"`, `{"hashes":` + hashOf([]byte(folded)) + `,` + folded[1:]},
		}

		for _, variant := range variants {
			ev, err := v.NewEventFromUntrustedJSON([]byte(variant.input))
			if err != nil {
				continue // refusing the event is fine
			}
			leaked := bytes.Contains(ev.Content(), []byte("mallory")) || bytes.Contains(ev.JSON(), []byte("mallory"))
			if !leaked {
				continue // only the redacted form surfaced: fine
			}
			sameID := ev.EventID() == orig.EventID()
			red, err := v.RedactEventJSON(ev.JSON())
			sigOK := err == nil && VerifyJSON("origin.example.org", "ed25519:k1", pub, red) == nil
			if v.EventFormat() == EventFormatV1 {
				sameID = false // the ID of a v1/v2 event is a plain field of the event, it proves nothing
			}
			if !sameID && !sigOK {
				// A different event (other reference hash, not signed by the origin): that is
				// what replacing the hash is supposed to give.
				continue
			}
			t.Errorf("room version %s, %s: tampered content %s is observable (Redacted()=%v); reference-hash event ID equals the original's: %v; original signature verifies: %v",
				ver, variant.name, ev.Content(), ev.Redacted(), sameID, sigOK)
		}
	}
}
