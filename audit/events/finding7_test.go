package gomatrixserverlib

// Audit finding 7 (properties C03/C04, multi-step sequence; low severity).
// Belongs in the package root directory (package gomatrixserverlib). Self-contained.

import (
	"bytes"
	"encoding/json"
	"testing"
	"time"

	"github.com/matrix-org/gomatrixserverlib/spec"
	"golang.org/x/crypto/ed25519"
)

// NewEventFromUntrustedJSON copies the event text (JSON() is a fresh, canonical
// buffer), but Content() keeps pointing into the caller's input slice, because
// spec.RawJSON.UnmarshalJSON stores the decoder's sub-slice without copying
// (json.RawMessage copies for exactly this reason). If the caller re-uses its
// read buffer for the next event, Content() of the already returned, hash-checked
// event changes, while JSON(), EventID() and the signatures do not.
func TestAuditFinding7(t *testing.T) {
	key := ed25519.NewKeyFromSeed(bytes.Repeat([]byte{7}, 32))
	for _, ver := range []RoomVersion{RoomVersionV1, RoomVersionV10, RoomVersionV12} {
		v := MustGetRoomVersion(ver)
		eb := v.NewEventBuilder()
		eb.Type = "m.room.message"
		eb.SenderID = "@alice:origin.example.org"
		eb.RoomID = "!room:origin.example.org"
		eb.Depth = 7
		eb.Content = spec.RawJSON(`{"body":"hello"}`)
		if v.DomainlessRoomIDs() {
			eb.RoomID = "!AAAAAAAAAAAAAAAAAAAAAAAAAAAAAAAAAAAAAAAAAAA"
		}
		if v.EventFormat() == EventFormatV2 {
			eb.PrevEvents = []string{"$p1"}
			eb.AuthEvents = []string{"$a1"}
		}
		built, err := eb.Build(time.UnixMilli(1700000000123), "origin.example.org", "ed25519:k1", key)
		if err != nil {
			t.Fatalf("room version %s: build: %v", ver, err)
		}

		readBuffer := append([]byte{}, built.JSON()...)
		ev, err := v.NewEventFromUntrustedJSON(readBuffer)
		if err != nil {
			t.Fatal(err)
		}
		// the caller receives the next message into the same buffer
		for i := range readBuffer {
			readBuffer[i] = 'X'
		}

		var top map[string]json.RawMessage
		if err = json.Unmarshal(ev.JSON(), &top); err != nil {
			t.Fatal(err)
		}
		if !bytes.Equal(ev.Content(), top["content"]) {
			t.Errorf("room version %s: after the caller re-used its input buffer Content() = %q, but JSON() has content %s", ver, ev.Content(), top["content"])
		}
	}
}
