package gomatrixserverlib

// Audit finding 4 (property C04). Belongs in the package root directory
// (package gomatrixserverlib). Self-contained.

import (
	"bytes"
	"fmt"
	"testing"
	"time"

	"github.com/matrix-org/gomatrixserverlib/spec"
	"golang.org/x/crypto/ed25519"
)

// The untrusted parsers strip "unsigned" (and "age_ts", "outlier",
// "destinations") with sjson.DeleteBytes, which removes the FIRST member with
// that name only. If the sending server supplies two "unsigned" members the
// second one is kept: it is decoded into the event, returned by Unsigned() and
// present in JSON(), while the content hash check (which strips "unsigned" once
// more) still passes. So remote-controlled "unsigned" data (prev_content,
// redacted_because, replaces_state, age, transaction_id ...) enters an event
// that is reported as hash-valid and unredacted.
func TestAuditFinding4(t *testing.T) {
	key := ed25519.NewKeyFromSeed(bytes.Repeat([]byte{7}, 32))
	for _, ver := range []RoomVersion{RoomVersionV1, RoomVersionV4, RoomVersionV10, RoomVersionV12} {
		v := MustGetRoomVersion(ver)
		eb := v.NewEventBuilder()
		eb.Type = "m.room.message"
		eb.SenderID = "@alice:origin.example.org"
		eb.RoomID = "!room:origin.example.org"
		eb.Depth = 7
		eb.Content = spec.RawJSON(`{"body":"hello"}`)
		if v.DomainlessRoomIDs() {
			eb.RoomID = "!AAAAAAAAAAAAAAAAAAAAAAAAAAAAAAAAAAAAAAAAAAA"
		}
		if v.EventFormat() == EventFormatV2 {
			eb.PrevEvents = []string{"$p1"}
			eb.AuthEvents = []string{"$a1"}
		}
		orig, err := eb.Build(time.UnixMilli(1700000000123), "origin.example.org", "ed25519:k1", key)
		if err != nil {
			t.Fatalf("room version %s: build: %v", ver, err)
		}
		inner := string(orig.JSON()[1 : len(orig.JSON())-1])
		evil := `"unsigned":{"redacted_because":{"forged":true},"transaction_id":"forged"}`

		for _, variant := range []struct{ name, input string }{
			{"one unsigned member (control)", `{` + evil + `,` + inner + `}`},
			{"two unsigned members", `{` + evil + `,` + inner + `,` + evil + `}`},
			{"two unsigned members, adjacent", `{"unsigned":{},` + evil + `,` + inner + `}`},
		} {
			label := fmt.Sprintf("room version %s, %s", ver, variant.name)
			ev, err := v.NewEventFromUntrustedJSON([]byte(variant.input))
			if err != nil {
				continue // refusing is acceptable
			}
			if ev.Redacted() || ev.EventID() != orig.EventID() {
				t.Errorf("%s: expected the unredacted original (hash is intact), got Redacted()=%v id=%s", label, ev.Redacted(), ev.EventID())
			}
			if len(ev.Unsigned()) != 0 {
				t.Errorf("%s: Unsigned() returns data supplied by the remote server: %s", label, ev.Unsigned())
			}
			if bytes.Contains(ev.JSON(), []byte("forged")) {
				t.Errorf("%s: JSON() still carries the remote server's unsigned member", label)
			}
			if !bytes.Equal(ev.JSON(), orig.JSON()) {
				t.Errorf("%s: JSON() differs from the untampered event", label)
			}
		}
	}
}
