package gomatrixserverlib

// Audit finding 5 (property C04, "when the hash matches the event is returned
// with every field intact"; also crash freedom). Belongs in the package root
// directory (package gomatrixserverlib). Self-contained.

import (
	"bytes"
	"crypto/sha256"
	"encoding/base64"
	"encoding/json"
	"fmt"
	"strings"
	"testing"
	"time"

	"github.com/matrix-org/gomatrixserverlib/spec"
	"github.com/tidwall/sjson"
	"golang.org/x/crypto/ed25519"
)

// The untrusted parsers json.Unmarshal the received text into the event struct
// BEFORE the text is canonicalised (sorted), and encoding/json binds struct
// fields case-insensitively, the last matching member winning. Hash, signature,
// redaction and event ID are computed on the SORTED text, where the exact
// lower-case key always comes after its upper-case variants and therefore wins.
//
// A sending server can therefore produce a correctly hashed and correctly signed
// event whose accessors (Type(), Content(), Depth(), StateKey(), Redacts(), ...)
// report the values of the members "TYPE", "CONTENT", "DEPTH", ... placed at the
// end of the text, while JSON() - what is stored, re-parsed, redacted, hashed and
// signature-checked - says something else. With "Unsigned" the remote server
// also gets its unsigned data through the stripping of "unsigned".
func TestAuditFinding5(t *testing.T) {
	key := ed25519.NewKeyFromSeed(bytes.Repeat([]byte{7}, 32))
	pub := key.Public().(ed25519.PublicKey)
	for _, ver := range []RoomVersion{RoomVersionV1, RoomVersionV4, RoomVersionV10, RoomVersionV12} {
		v := MustGetRoomVersion(ver)
		eb := v.NewEventBuilder()
		eb.Type = "m.room.message"
		eb.SenderID = "@mallory:origin.example.org"
		eb.RoomID = "!room:origin.example.org"
		eb.Depth = 7
		eb.Content = spec.RawJSON(`{"body":"hello"}`)
		if v.DomainlessRoomIDs() {
			eb.RoomID = "!AAAAAAAAAAAAAAAAAAAAAAAAAAAAAAAAAAAAAAAAAAA"
		}
		if v.EventFormat() == EventFormatV2 {
			eb.PrevEvents = []string{"$p1"}
			eb.AuthEvents = []string{"$a1"}
		}
		built, err := eb.Build(time.UnixMilli(1700000000123), "origin.example.org", "ed25519:k1", key)
		if err != nil {
			t.Fatalf("room version %s: build: %v", ver, err)
		}

		extras := []string{
			`"TYPE":"m.room.power_levels"`,
			`"CONTENT":{"users":{"@mallory:origin.example.org":100}}`,
			`"STATE_KEY":""`,
			`"DEPTH":1`,
			`"Unsigned":{"forged":true}`,
		}
		// The sending server (the attacker) hashes and signs the event the regular way,
		// on the canonical text.
		text := `{` + string(built.JSON()[1:len(built.JSON())-1]) + `,` + strings.Join(extras, ",") + `}`
		canonical, err := CanonicalJSON([]byte(text))
		if err != nil {
			t.Fatal(err)
		}
		hashable := canonical
		for _, k := range []string{"signatures", "unsigned", "hashes"} {
			hashable, _ = sjson.DeleteBytes(hashable, k)
		}
		sum := sha256.Sum256(hashable)
		canonical, _ = sjson.SetBytes(canonical, "hashes.sha256", base64.RawStdEncoding.EncodeToString(sum[:]))
		canonical, _ = sjson.DeleteBytes(canonical, "signatures")
		signed, err := signEvent("origin.example.org", "ed25519:k1", key, canonical, ver)
		if err != nil {
			t.Fatal(err)
		}
		// On the wire the extra members are sent last.
		var m map[string]json.RawMessage
		if err = json.Unmarshal(signed, &m); err != nil {
			t.Fatal(err)
		}
		var parts []string
		for k, val := range m {
			if strings.ToLower(k) == k {
				kb, _ := json.Marshal(k)
				parts = append(parts, string(kb)+":"+string(val))
			}
		}
		wire := `{` + strings.Join(parts, ",") + `,` + strings.Join(extras, ",") + `}`

		label := fmt.Sprintf("room version %s", ver)
		ev, err := v.NewEventFromUntrustedJSON([]byte(wire))
		if err != nil {
			continue // refusing such an event is acceptable
		}
		if ev.Redacted() {
			t.Fatalf("%s: test setup: the content hash was meant to match", label)
		}
		red, err := v.RedactEventJSON(ev.JSON())
		if err != nil || VerifyJSON("origin.example.org", "ed25519:k1", pub, red) != nil {
			t.Fatalf("%s: test setup: the signature was meant to verify", label)
		}

		// What the event text says (exact keys).
		var stored struct {
			Type     string `json:"-"`
			Raw      map[string]json.RawMessage
			Depth    int64
			StateKey *string
		}
		if err = json.Unmarshal(ev.JSON(), &stored.Raw); err != nil {
			t.Fatal(err)
		}
		_ = json.Unmarshal(stored.Raw["type"], &stored.Type)
		_ = json.Unmarshal(stored.Raw["depth"], &stored.Depth)
		if sk, ok := stored.Raw["state_key"]; ok {
			_ = json.Unmarshal(sk, &stored.StateKey)
		}

		if ev.Type() != stored.Type {
			t.Errorf("%s: Type() = %q but JSON() has \"type\":%q", label, ev.Type(), stored.Type)
		}
		if !bytes.Equal(ev.Content(), stored.Raw["content"]) {
			t.Errorf("%s: Content() = %s but JSON() has \"content\":%s", label, ev.Content(), stored.Raw["content"])
		}
		if ev.Depth() != stored.Depth {
			t.Errorf("%s: Depth() = %d but JSON() has \"depth\":%d", label, ev.Depth(), stored.Depth)
		}
		if (ev.StateKey() == nil) != (stored.StateKey == nil) {
			t.Errorf("%s: StateKey() is nil: %v, but JSON() has a \"state_key\" member: %v", label, ev.StateKey() == nil, stored.StateKey != nil)
		}
		if len(ev.Unsigned()) != 0 {
			t.Errorf("%s: Unsigned() = %s although \"unsigned\" is stripped from untrusted events", label, ev.Unsigned())
		}
		// The same event, stored and loaded again, is a different event.
		if again, err := v.NewEventFromTrustedJSON(ev.JSON(), false); err == nil {
			if again.Type() != ev.Type() || !bytes.Equal(again.Content(), ev.Content()) || again.Depth() != ev.Depth() {
				t.Errorf("%s: re-parsing JSON() gives type=%q content=%s depth=%d, the event said type=%q content=%s depth=%d",
					label, again.Type(), again.Content(), again.Depth(), ev.Type(), ev.Content(), ev.Depth())
			}
		}
	}
}
