package gomatrixserverlib

// Audit finding 3 (properties C03 and C04). Belongs in the package root
// directory (package gomatrixserverlib). Self-contained.

import (
	"bytes"
	"crypto/sha256"
	"encoding/base64"
	"encoding/json"
	"fmt"
	"testing"
	"time"

	"github.com/matrix-org/gomatrixserverlib/spec"
	"github.com/tidwall/sjson"
	"golang.org/x/crypto/ed25519"
)

// In room versions 3 and later the event ID must be the reference hash of the
// event. The v3+ event structs embed eventV1, whose field EventIDRaw carries the
// tag json:"event_id". The untrusted parsers delete the key "event_id" with
// sjson (first exact occurrence only) and then json.Unmarshal the text into the
// struct, so a key "Event_ID" (case-insensitive struct matching) or a second
// "event_id" member fills EventIDRaw, and populateEventID()/EventID() then keep
// that value instead of computing the hash. A remote server can pick the event
// ID of the events it sends, e.g. the ID of another, existing event.
func TestAuditFinding3(t *testing.T) {
	key := ed25519.NewKeyFromSeed(bytes.Repeat([]byte{7}, 32))
	for _, ver := range []RoomVersion{RoomVersionV3, RoomVersionV4, RoomVersionV10, RoomVersionV11, RoomVersionV12, RoomVersionPseudoIDs} {
		v := MustGetRoomVersion(ver)
		for _, create := range []bool{false, true} {
			if create && !v.DomainlessRoomIDs() {
				continue
			}
			eb := v.NewEventBuilder()
			eb.Type = "m.room.message"
			eb.SenderID = "@alice:origin.example.org"
			eb.RoomID = "!room:origin.example.org"
			eb.Depth = 7
			eb.Content = spec.RawJSON(`{"body":"hello"}`)
			eb.PrevEvents = []string{"$p1"}
			eb.AuthEvents = []string{"$a1"}
			if v.DomainlessRoomIDs() {
				eb.RoomID = "!AAAAAAAAAAAAAAAAAAAAAAAAAAAAAAAAAAAAAAAAAAA"
			}
			if create {
				empty := ""
				eb.Type, eb.StateKey, eb.RoomID = "m.room.create", &empty, ""
				eb.PrevEvents, eb.AuthEvents = []string{}, []string{}
				eb.Content = spec.RawJSON(`{"room_version":"12"}`)
			}
			orig, err := eb.Build(time.UnixMilli(1700000000123), "origin.example.org", "ed25519:k1", key)
			if err != nil {
				t.Fatalf("room version %s: build: %v", ver, err)
			}
			inner := string(orig.JSON()[1 : len(orig.JSON())-1])

			for _, variant := range []struct{ name, input string }{
				{`extra key "Event_ID"`, `{` + inner + `,"Event_ID":"$spoofed"}`},
				{`two "event_id" members`, `{"event_id":"$x","event_id":"$spoofed",` + inner + `}`},
			} {
				label := fmt.Sprintf("room version %s, create=%v, %s", ver, create, variant.name)
				// The sender of the event is the attacker here: it fills in a matching content hash.
				input := rehashForAuditFinding3(t, []byte(variant.input))
				ev, err := v.NewEventFromUntrustedJSON(input)
				if err != nil {
					continue // refusing is acceptable
				}
				if ev.Redacted() {
					t.Errorf("%s: test setup: content hash was meant to match", label)
				}
				want := referenceIDForAuditFinding3(t, v, ev.JSON())
				if got := ev.EventID(); got != want {
					t.Errorf("%s: EventID() = %q, but the reference hash of the event is %q", label, got, want)
				}
				// The same through the trusted parser and the headered form (C03: the ID is
				// determined solely by the redacted, unsigned-stripped event).
				if tr, err := v.NewEventFromTrustedJSON(ev.JSON(), false); err == nil {
					if got := tr.EventID(); got != want {
						t.Errorf("%s: trusted re-parse: EventID() = %q, reference hash %q", label, got, want)
					}
				}
				if create {
					func() {
						defer func() {
							if r := recover(); r != nil {
								t.Errorf("%s: RoomID() panics: %v", label, r)
							}
						}()
						if got := ev.RoomID().String(); got != "!"+want[1:] {
							t.Errorf("%s: RoomID() = %q, want %q", label, got, "!"+want[1:])
						}
					}()
				}
			}
		}
	}
}

func rehashForAuditFinding3(t *testing.T, js []byte) []byte {
	t.Helper()
	hashable := js
	var err error
	for _, k := range []string{"signatures", "unsigned", "hashes"} {
		if hashable, err = sjson.DeleteBytes(hashable, k); err != nil {
			t.Fatal(err)
		}
	}
	// what the untrusted parser strips before hashing
	for _, k := range []string{"outlier", "destinations", "age_ts", "event_id"} {
		if hashable, err = sjson.DeleteBytes(hashable, k); err != nil {
			t.Fatal(err)
		}
	}
	sum := sha256.Sum256(CanonicalJSONAssumeValid(hashable))
	out, err := sjson.SetBytes(js, "hashes.sha256", base64.RawStdEncoding.EncodeToString(sum[:]))
	if err != nil {
		t.Fatal(err)
	}
	return out
}

// referenceIDForAuditFinding3 computes "$" + base64(sha256(canonical(redacted event without signatures, unsigned))).
func referenceIDForAuditFinding3(t *testing.T, v IRoomVersion, eventJSON []byte) string {
	t.Helper()
	redacted, err := v.RedactEventJSON(eventJSON)
	if err != nil {
		t.Fatal(err)
	}
	var m map[string]json.RawMessage
	if err = json.Unmarshal(redacted, &m); err != nil {
		t.Fatal(err)
	}
	delete(m, "signatures")
	delete(m, "unsigned")
	b, err := json.Marshal(m)
	if err != nil {
		t.Fatal(err)
	}
	if b, err = CanonicalJSON(b); err != nil {
		t.Fatal(err)
	}
	sum := sha256.Sum256(b)
	if v.EventIDFormat() == EventIDFormatV2 {
		return "$" + base64.RawStdEncoding.EncodeToString(sum[:])
	}
	return "$" + base64.RawURLEncoding.EncodeToString(sum[:])
}
