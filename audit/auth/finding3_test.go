// Audit finding 3 -- belongs in the package root directory (package gomatrixserverlib),
// e.g. /tmp/au/auth/finding3_test.go.  Run: go test -vet=off -count=1 -run TestAuditFinding3$ .
package gomatrixserverlib

import (
	"testing"

	"github.com/matrix-org/gomatrixserverlib/spec"
)

func f3Querier(_ spec.RoomID, senderID spec.SenderID) (*spec.UserID, error) {
	return spec.NewUserID(string(senderID), true)
}

// f3Ev parses a (trusted) event; room_id / timestamps / prev / auth are filled in.
func f3Ev(t *testing.T, ver RoomVersion, roomID, typ string, stateKey *string, sender, content string) PDU {
	t.Helper()
	sk := ""
	if stateKey != nil {
		sk = `"state_key":"` + *stateKey + `",`
	}
	js := `{"type":"` + typ + `",` + sk + `"sender":"` + sender + `","room_id":"` + roomID +
		`","origin_server_ts":1,"depth":1,"prev_events":[],"auth_events":[],"content":` + content + `}`
	ev, err := MustGetRoomVersion(ver).NewEventFromTrustedJSON([]byte(js), false)
	if err != nil {
		t.Fatalf("cannot parse %s: %v", js, err)
	}
	return ev
}

func f3S(s string) *string { return &s }

// C07/C09: AuthEvents.Clear() removes the events but not the set of room IDs seen so
// far.  A provider that is cleared and refilled with the auth events of another room
// (all from ONE room) is reported as "events from different rooms" and every event is
// refused; a fresh provider with the same contents accepts.
func TestAuditFinding3(t *testing.T) {
	ver := RoomVersionV10
	mkRoom := func(room string) (state []PDU, msg PDU) {
		create := f3Ev(t, ver, room, "m.room.create", f3S(""), "@c:a", `{"creator":"@c:a","room_version":"10"}`)
		cJoin := f3Ev(t, ver, room, "m.room.member", f3S("@c:a"), "@c:a", `{"membership":"join"}`)
		msg = f3Ev(t, ver, room, "m.room.message", nil, "@c:a", `{"body":"x"}`)
		return []PDU{create, cJoin}, msg
	}
	stateA, msgA := mkRoom("!a:a")
	stateB, msgB := mkRoom("!b:a")

	provider, err := NewAuthEvents(stateA)
	if err != nil {
		t.Fatal(err)
	}
	if err = Allowed(msgA, provider, f3Querier); err != nil {
		t.Fatalf("room A: %v", err)
	}

	provider.Clear()
	for _, e := range stateB {
		if err = provider.AddEvent(e); err != nil {
			t.Fatal(err)
		}
	}
	fresh, _ := NewAuthEvents(stateB)
	errFresh := Allowed(msgB, fresh, f3Querier)
	errReused := Allowed(msgB, provider, f3Querier)
	if errFresh != nil {
		t.Fatalf("fresh provider: %v", errFresh)
	}
	if errReused != nil {
		t.Errorf("cleared+refilled provider (same contents as the fresh one) refuses: %v (Valid()=%v)", errReused, provider.Valid())
	}
}
