// Audit finding 8 -- belongs in the package root directory (package gomatrixserverlib),
// e.g. /tmp/au/auth/finding8_test.go.  Run: go test -vet=off -count=1 -run TestAuditFinding8$ .
package gomatrixserverlib

import (
	"testing"

	"github.com/matrix-org/gomatrixserverlib/spec"
)

func f8Querier(_ spec.RoomID, senderID spec.SenderID) (*spec.UserID, error) {
	return spec.NewUserID(string(senderID), true)
}

// f8Ev parses a (trusted) event; room_id / timestamps / prev / auth are filled in.
func f8Ev(t *testing.T, ver RoomVersion, roomID, typ string, stateKey *string, sender, content string) PDU {
	t.Helper()
	sk := ""
	if stateKey != nil {
		sk = `"state_key":"` + *stateKey + `",`
	}
	js := `{"type":"` + typ + `",` + sk + `"sender":"` + sender + `","room_id":"` + roomID +
		`","origin_server_ts":1,"depth":1,"prev_events":[],"auth_events":[],"content":` + content + `}`
	ev, err := MustGetRoomVersion(ver).NewEventFromTrustedJSON([]byte(js), false)
	if err != nil {
		t.Fatalf("cannot parse %s: %v", js, err)
	}
	return ev
}

func f8S(s string) *string { return &s }

// C07: content.third_party_invite only matters for membership "invite" (auth rule 4.3.1
// / Synapse: `if Membership.INVITE == membership and "third_party_invite" in content`).
// The library loads the referenced m.room.third_party_invite event for EVERY membership
// value and refuses the event when it is not (any longer) in the supplied state.  A user
// can therefore not leave / be kicked / re-join with a member event whose content still
// carries the third_party_invite block.
func TestAuditFinding8(t *testing.T) {
	ver := RoomVersionV10
	room := "!r:a"
	create := f8Ev(t, ver, room, "m.room.create", f8S(""), "@c:a", `{"creator":"@c:a","room_version":"10"}`)
	cJoin := f8Ev(t, ver, room, "m.room.member", f8S("@c:a"), "@c:a", `{"membership":"join"}`)
	uJoin := f8Ev(t, ver, room, "m.room.member", f8S("@u:a"), "@u:a", `{"membership":"join"}`)
	st, _ := NewAuthEvents([]PDU{create, cJoin, uJoin})
	tpi := `"third_party_invite":{"display_name":"x","signed":{"mxid":"@u:a","token":"tok","signatures":{}}}`

	// control: without the block everything is allowed
	for _, tc := range []struct{ name, sender, content string }{
		{"self leave", "@u:a", `{"membership":"leave"}`},
		{"join update", "@u:a", `{"membership":"join"}`},
		{"kick by creator", "@c:a", `{"membership":"leave"}`},
	} {
		plain := f8Ev(t, ver, room, "m.room.member", f8S("@u:a"), tc.sender, tc.content)
		if err := Allowed(plain, st, f8Querier); err != nil {
			t.Fatalf("%s (control): %v", tc.name, err)
		}
		with := f8Ev(t, ver, room, "m.room.member", f8S("@u:a"), tc.sender, tc.content[:len(tc.content)-1]+","+tpi+"}")
		if err := Allowed(with, st, f8Querier); err != nil {
			t.Errorf("%s with a third_party_invite block in content must be judged like the plain event, got: %v", tc.name, err)
		}
	}
}
