// Audit finding 5 -- belongs in the package root directory (package gomatrixserverlib),
// e.g. /tmp/au/auth/finding5_test.go.  Run: go test -vet=off -count=1 -run TestAuditFinding5$ .
package gomatrixserverlib

import (
	"testing"

	"github.com/matrix-org/gomatrixserverlib/spec"
)

func f5Querier(_ spec.RoomID, senderID spec.SenderID) (*spec.UserID, error) {
	return spec.NewUserID(string(senderID), true)
}

// f5Ev parses a (trusted) event; room_id / timestamps / prev / auth are filled in.
func f5Ev(t *testing.T, ver RoomVersion, roomID, typ string, stateKey *string, sender, content string) PDU {
	t.Helper()
	sk := ""
	if stateKey != nil {
		sk = `"state_key":"` + *stateKey + `",`
	}
	js := `{"type":"` + typ + `",` + sk + `"sender":"` + sender + `","room_id":"` + roomID +
		`","origin_server_ts":1,"depth":1,"prev_events":[],"auth_events":[],"content":` + content + `}`
	ev, err := MustGetRoomVersion(ver).NewEventFromTrustedJSON([]byte(js), false)
	if err != nil {
		t.Fatalf("cannot parse %s: %v", js, err)
	}
	return ev
}

func f5S(s string) *string { return &s }

// C07: a join_rules event is authorised by the generic rules only, so
// {"join_rule":"public","allow":"x"} (or any ill-typed / unexpected "allow") is
// legitimate room state.  The auth rules look at join_rule only: public => anybody may
// join.  The library fails to unmarshal the whole content, silently uses join rule ""
// and refuses every join of a not-yet-invited user.
func TestAuditFinding5(t *testing.T) {
	ver := RoomVersionV10
	room := "!r:a"
	create := f5Ev(t, ver, room, "m.room.create", f5S(""), "@c:a", `{"creator":"@c:a","room_version":"10"}`)
	cJoin := f5Ev(t, ver, room, "m.room.member", f5S("@c:a"), "@c:a", `{"membership":"join"}`)
	for _, content := range []string{
		`{"join_rule":"public","allow":"x"}`,
		`{"join_rule":"public","allow":{}}`,
		`{"join_rule":"public","allow":["x"]}`,
		`{"join_rule":"public","allow":[{"type":1}]}`,
	} {
		rules := f5Ev(t, ver, room, "m.room.join_rules", f5S(""), "@c:a", content)
		// the join_rules event itself is accepted
		st, _ := NewAuthEvents([]PDU{create, cJoin})
		if err := Allowed(rules, st, f5Querier); err != nil {
			t.Fatalf("join_rules event %s refused: %v", content, err)
		}
		st, _ = NewAuthEvents([]PDU{create, cJoin, rules})
		join := f5Ev(t, ver, room, "m.room.member", f5S("@u:a"), "@u:a", `{"membership":"join"}`)
		if err := Allowed(join, st, f5Querier); err != nil {
			t.Errorf("join rules %s: join of a new user must be allowed (join_rule is public), got: %v", content, err)
		}
	}
}
