// Audit finding 12 -- belongs in the package root directory (package gomatrixserverlib),
// e.g. /tmp/au/auth/finding12_test.go.  Run: go test -vet=off -count=1 -run TestAuditFinding12$ .
package gomatrixserverlib

import (
	"testing"

	"github.com/matrix-org/gomatrixserverlib/spec"
)

func f12Querier(_ spec.RoomID, senderID spec.SenderID) (*spec.UserID, error) {
	return spec.NewUserID(string(senderID), true)
}

// f12Ev parses a (trusted) event; room_id / timestamps / prev / auth are filled in.
func f12Ev(t *testing.T, ver RoomVersion, roomID, typ string, stateKey *string, sender, content string) PDU {
	t.Helper()
	sk := ""
	if stateKey != nil {
		sk = `"state_key":"` + *stateKey + `",`
	}
	js := `{"type":"` + typ + `",` + sk + `"sender":"` + sender + `","room_id":"` + roomID +
		`","origin_server_ts":1,"depth":1,"prev_events":[],"auth_events":[],"content":` + content + `}`
	ev, err := MustGetRoomVersion(ver).NewEventFromTrustedJSON([]byte(js), false)
	if err != nil {
		t.Fatalf("cannot parse %s: %v", js, err)
	}
	return ev
}

func f12S(s string) *string { return &s }

// Crash-freedom (C07 domain): createEventAllowed dereferences the *spec.UserID returned
// by the UserIDForSender callback without a nil check.  Every other branch of Allowed
// handles the documented "(nil, nil) = sender unknown" answer (aliasEventAllowed,
// commonChecks, membershipAllowed, NewCreateContentFromAuthEvents); a create event panics.
func TestAuditFinding12(t *testing.T) {
	ver := RoomVersionV10
	create := f12Ev(t, ver, "!r:a", "m.room.create", f12S(""), "@c:a", `{"creator":"@c:a","room_version":"10"}`)
	_ = f12Querier
	unknown := func(spec.RoomID, spec.SenderID) (*spec.UserID, error) { return nil, nil }
	empty, _ := NewAuthEvents(nil)
	defer func() {
		if r := recover(); r != nil {
			t.Errorf("Allowed panicked on a create event whose sender the querier does not know: %v", r)
		}
	}()
	if err := Allowed(create, empty, unknown); err == nil {
		t.Errorf("create event of an unknown sender accepted")
	}
}
