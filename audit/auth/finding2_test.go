// Audit finding 2 -- belongs in the package root directory (package gomatrixserverlib),
// e.g. /tmp/au/auth/finding2_test.go.  Run: go test -vet=off -count=1 -run TestAuditFinding2$ .
package gomatrixserverlib

import (
	"testing"

	"github.com/matrix-org/gomatrixserverlib/spec"
)

func f2Querier(_ spec.RoomID, senderID spec.SenderID) (*spec.UserID, error) {
	return spec.NewUserID(string(senderID), true)
}

// f2Ev parses a (trusted) event; room_id / timestamps / prev / auth are filled in.
func f2Ev(t *testing.T, ver RoomVersion, roomID, typ string, stateKey *string, sender, content string) PDU {
	t.Helper()
	sk := ""
	if stateKey != nil {
		sk = `"state_key":"` + *stateKey + `",`
	}
	js := `{"type":"` + typ + `",` + sk + `"sender":"` + sender + `","room_id":"` + roomID +
		`","origin_server_ts":1,"depth":1,"prev_events":[],"auth_events":[],"content":` + content + `}`
	ev, err := MustGetRoomVersion(ver).NewEventFromTrustedJSON([]byte(js), false)
	if err != nil {
		t.Fatalf("cannot parse %s: %v", js, err)
	}
	return ev
}

func f2S(s string) *string { return &s }

// C07: room version 7 (and org.matrix.msc3667, which is based on it) defines only the
// join rule "knock" for knocking; "knock_restricted" exists from version 10 (MSC3787).
// A knock under join rule knock_restricted must be refused in v7, but is accepted.
func TestAuditFinding2(t *testing.T) {
	for _, ver := range []RoomVersion{"7", "org.matrix.msc3667"} {
		room := "!r:a"
		create := f2Ev(t, ver, room, "m.room.create", f2S(""), "@c:a", `{"creator":"@c:a","room_version":"`+string(ver)+`"}`)
		cJoin := f2Ev(t, ver, room, "m.room.member", f2S("@c:a"), "@c:a", `{"membership":"join"}`)
		rules := f2Ev(t, ver, room, "m.room.join_rules", f2S(""), "@c:a", `{"join_rule":"knock_restricted"}`)
		state, err := NewAuthEvents([]PDU{create, cJoin, rules})
		if err != nil {
			t.Fatal(err)
		}
		knock := f2Ev(t, ver, room, "m.room.member", f2S("@u:a"), "@u:a", `{"membership":"knock"}`)
		if err := Allowed(knock, state, f2Querier); err == nil {
			t.Errorf("room version %s: knock under join rule knock_restricted was accepted, but the version only knows join rule \"knock\"", ver)
		}
		// sanity: the plain knock rule works
		rules = f2Ev(t, ver, room, "m.room.join_rules", f2S(""), "@c:a", `{"join_rule":"knock"}`)
		state, _ = NewAuthEvents([]PDU{create, cJoin, rules})
		if err := Allowed(knock, state, f2Querier); err != nil {
			t.Errorf("room version %s: knock under join rule knock refused: %v", ver, err)
		}
	}
}
