// Audit finding 4 -- belongs in the package root directory (package gomatrixserverlib),
// e.g. /tmp/au/auth/finding4_test.go.  Run: go test -vet=off -count=1 -run TestAuditFinding4$ .
package gomatrixserverlib

import (
	"testing"

	"github.com/matrix-org/gomatrixserverlib/spec"
)

func f4Querier(_ spec.RoomID, senderID spec.SenderID) (*spec.UserID, error) {
	return spec.NewUserID(string(senderID), true)
}

// f4Ev parses a (trusted) event; room_id / timestamps / prev / auth are filled in.
func f4Ev(t *testing.T, ver RoomVersion, roomID, typ string, stateKey *string, sender, content string) PDU {
	t.Helper()
	sk := ""
	if stateKey != nil {
		sk = `"state_key":"` + *stateKey + `",`
	}
	js := `{"type":"` + typ + `",` + sk + `"sender":"` + sender + `","room_id":"` + roomID +
		`","origin_server_ts":1,"depth":1,"prev_events":[],"auth_events":[],"content":` + content + `}`
	ev, err := MustGetRoomVersion(ver).NewEventFromTrustedJSON([]byte(js), false)
	if err != nil {
		t.Fatalf("cannot parse %s: %v", js, err)
	}
	return ev
}

func f4S(s string) *string { return &s }

// C09: the reusable checker (allowerContext, driven exactly as state resolution v2
// drives it: one provider that is cleared and refilled, update(), allowed()) keeps the
// join rules / power levels of the PREVIOUS event when the current join-rules /
// power-levels event does not unmarshal.  The verdict then depends on what was checked
// before, and differs from checking the event on its own.
func TestAuditFinding4(t *testing.T) {
	ver := RoomVersionV10
	room := "!r:a"
	create := f4Ev(t, ver, room, "m.room.create", f4S(""), "@c:a", `{"creator":"@c:a","room_version":"10"}`)
	cJoin := f4Ev(t, ver, room, "m.room.member", f4S("@c:a"), "@c:a", `{"membership":"join"}`)
	uJoin := f4Ev(t, ver, room, "m.room.member", f4S("@u:a"), "@u:a", `{"membership":"join"}`)
	vJoin := f4Ev(t, ver, room, "m.room.member", f4S("@v:a"), "@v:a", `{"membership":"join"}`)

	refill := func(p *AuthEvents, evs ...PDU) {
		p.Clear()
		for _, e := range evs {
			if err := p.AddEvent(e); err != nil {
				t.Fatal(err)
			}
		}
	}

	t.Run("join_rules", func(t *testing.T) {
		// rulesPublic: an ordinary public room.
		rulesPublic := f4Ev(t, ver, room, "m.room.join_rules", f4S(""), "@c:a", `{"join_rule":"public"}`)
		// rulesInvite: join rule "invite" plus an ill-typed "allow".  This event passes its
		// own auth check (join_rules content is not validated), so it is legitimate room state.
		rulesInvite := f4Ev(t, ver, room, "m.room.join_rules", f4S(""), "@c:a", `{"join_rule":"invite","allow":"x"}`)
		join := f4Ev(t, ver, room, "m.room.member", f4S("@w:a"), "@w:a", `{"membership":"join"}`)

		provider, _ := NewAuthEvents(nil)
		refill(provider, create, cJoin, rulesPublic)
		checker := newAllowerContext(provider, f4Querier, join.RoomID())
		if err := checker.allowed(join); err != nil {
			t.Fatalf("join under public: %v", err)
		}
		refill(provider, create, cJoin, rulesInvite)
		checker.update(provider)
		errReused := checker.allowed(join)

		fresh, _ := NewAuthEvents([]PDU{create, cJoin, rulesInvite})
		errAlone := Allowed(join, fresh, f4Querier)
		if (errReused == nil) != (errAlone == nil) {
			t.Errorf("uninvited join under %s: alone -> %v, after another event through the reused checker -> %v",
				rulesInvite.Content(), errAlone, errReused)
		}
	})

	t.Run("power_levels", func(t *testing.T) {
		plGood := f4Ev(t, ver, room, "m.room.power_levels", f4S(""), "@c:a", `{"users":{"@c:a":100,"@u:a":100}}`)
		// not parseable in v10 (string level); cited as an auth event by a hostile event
		plBad := f4Ev(t, ver, room, "m.room.power_levels", f4S(""), "@c:a", `{"users":{"@c:a":100},"ban":"50"}`)
		ban := f4Ev(t, ver, room, "m.room.member", f4S("@v:a"), "@u:a", `{"membership":"ban"}`)

		provider, _ := NewAuthEvents(nil)
		refill(provider, create, cJoin, uJoin, vJoin, plGood)
		checker := newAllowerContext(provider, f4Querier, ban.RoomID())
		if err := checker.allowed(ban); err != nil {
			t.Fatalf("ban by level-100 user: %v", err)
		}
		refill(provider, create, cJoin, uJoin, vJoin, plBad)
		checker.update(provider)
		errReused := checker.allowed(ban)

		fresh, _ := NewAuthEvents([]PDU{create, cJoin, uJoin, vJoin, plBad})
		errAlone := Allowed(ban, fresh, f4Querier)
		if (errReused == nil) != (errAlone == nil) {
			t.Errorf("ban with unparseable power levels: alone -> %v, through the reused checker -> %v", errAlone, errReused)
		}
	})
}
