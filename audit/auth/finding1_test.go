// Audit finding 1 -- belongs in the package root directory (package gomatrixserverlib),
// e.g. /tmp/au/auth/finding1_test.go.  Run: go test -vet=off -count=1 -run TestAuditFinding1$ .
package gomatrixserverlib

import (
	"testing"

	"github.com/matrix-org/gomatrixserverlib/spec"
)

func f1Querier(_ spec.RoomID, senderID spec.SenderID) (*spec.UserID, error) {
	return spec.NewUserID(string(senderID), true)
}

// f1Ev parses a (trusted) event; room_id / timestamps / prev / auth are filled in.
func f1Ev(t *testing.T, ver RoomVersion, roomID, typ string, stateKey *string, sender, content string) PDU {
	t.Helper()
	sk := ""
	if stateKey != nil {
		sk = `"state_key":"` + *stateKey + `",`
	}
	js := `{"type":"` + typ + `",` + sk + `"sender":"` + sender + `","room_id":"` + roomID +
		`","origin_server_ts":1,"depth":1,"prev_events":[],"auth_events":[],"content":` + content + `}`
	ev, err := MustGetRoomVersion(ver).NewEventFromTrustedJSON([]byte(js), false)
	if err != nil {
		t.Fatalf("cannot parse %s: %v", js, err)
	}
	return ev
}

func f1S(s string) *string { return &s }

// C07: in room versions with knocking (7+), a user whose current membership is
// "knock" joins a room whose join rule is (now) "public".  The auth rules say
// "If the join_rule is public, allow"; the library refuses.
func TestAuditFinding1(t *testing.T) {
	for _, ver := range []RoomVersion{"7", "8", "9", "10", "11", "org.matrix.msc3787"} {
		room := "!r:a"
		create := f1Ev(t, ver, room, "m.room.create", f1S(""), "@c:a", `{"creator":"@c:a","room_version":"`+string(ver)+`"}`)
		cJoin := f1Ev(t, ver, room, "m.room.member", f1S("@c:a"), "@c:a", `{"membership":"join"}`)
		uKnock := f1Ev(t, ver, room, "m.room.member", f1S("@u:a"), "@u:a", `{"membership":"knock"}`)
		rules := f1Ev(t, ver, room, "m.room.join_rules", f1S(""), "@c:a", `{"join_rule":"public"}`)
		state, err := NewAuthEvents([]PDU{create, cJoin, uKnock, rules})
		if err != nil {
			t.Fatal(err)
		}
		join := f1Ev(t, ver, room, "m.room.member", f1S("@u:a"), "@u:a", `{"membership":"join"}`)
		if err := Allowed(join, state, f1Querier); err != nil {
			t.Errorf("room version %s: knock -> join under join rule public must be allowed, got: %v", ver, err)
		}
	}
}
