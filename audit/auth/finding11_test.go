// Audit finding 11 -- belongs in the package root directory (package gomatrixserverlib),
// e.g. /tmp/au/auth/finding11_test.go.  Run: go test -vet=off -count=1 -run TestAuditFinding11$ .
package gomatrixserverlib

import (
	"testing"

	"github.com/matrix-org/gomatrixserverlib/spec"
)

func f11Querier(_ spec.RoomID, senderID spec.SenderID) (*spec.UserID, error) {
	return spec.NewUserID(string(senderID), true)
}

// f11Ev parses a (trusted) event; room_id / timestamps / prev / auth are filled in.
func f11Ev(t *testing.T, ver RoomVersion, roomID, typ string, stateKey *string, sender, content string) PDU {
	t.Helper()
	sk := ""
	if stateKey != nil {
		sk = `"state_key":"` + *stateKey + `",`
	}
	js := `{"type":"` + typ + `",` + sk + `"sender":"` + sender + `","room_id":"` + roomID +
		`","origin_server_ts":1,"depth":1,"prev_events":[],"auth_events":[],"content":` + content + `}`
	ev, err := MustGetRoomVersion(ver).NewEventFromTrustedJSON([]byte(js), false)
	if err != nil {
		t.Fatalf("cannot parse %s: %v", js, err)
	}
	return ev
}

func f11S(s string) *string { return &s }

// C07: event content is decoded with encoding/json into Go structs, which matches
// object keys case-INSENSITIVELY.  JSON keys are case sensitive: "State_Default",
// "BAN", "Membership", "Join_Rule" are unknown keys that every other implementation
// ignores.  The library treats them as state_default, ban, membership, join_rule, so its
// verdicts differ from the auth rules for such (grammatically valid) events.
func TestAuditFinding11(t *testing.T) {
	ver := RoomVersionV10
	room := "!r:a"
	create := f11Ev(t, ver, room, "m.room.create", f11S(""), "@c:a", `{"creator":"@c:a","room_version":"10"}`)
	cJoin := f11Ev(t, ver, room, "m.room.member", f11S("@c:a"), "@c:a", `{"membership":"join"}`)
	uJoin := f11Ev(t, ver, room, "m.room.member", f11S("@u:a"), "@u:a", `{"membership":"join"}`)

	t.Run("power_levels", func(t *testing.T) {
		// no state_default key => 50.  "State_Default" is some other key.
		pl := f11Ev(t, ver, room, "m.room.power_levels", f11S(""), "@c:a", `{"users":{"@c:a":100},"State_Default":0,"Users_Default":0}`)
		st, _ := NewAuthEvents([]PDU{create, cJoin, uJoin, pl})
		topic := f11Ev(t, ver, room, "m.room.topic", f11S(""), "@u:a", `{"topic":"x"}`)
		if err := Allowed(topic, st, f11Querier); err == nil {
			t.Errorf("level-0 user may send a state event: key \"State_Default\" was taken for \"state_default\"")
		}
	})
	t.Run("join_rules", func(t *testing.T) {
		// no join_rule key => invite.
		jr := f11Ev(t, ver, room, "m.room.join_rules", f11S(""), "@c:a", `{"Join_Rule":"public"}`)
		st, _ := NewAuthEvents([]PDU{create, cJoin, jr})
		join := f11Ev(t, ver, room, "m.room.member", f11S("@w:a"), "@w:a", `{"membership":"join"}`)
		if err := Allowed(join, st, f11Querier); err == nil {
			t.Errorf("uninvited user may join: key \"Join_Rule\" was taken for \"join_rule\"")
		}
	})
	t.Run("membership", func(t *testing.T) {
		// membership is "leave"; "Membership" is some other key.  A kick of @u:a by the creator.
		kick := f11Ev(t, ver, room, "m.room.member", f11S("@u:a"), "@c:a", `{"membership":"leave","Membership":"join"}`)
		st, _ := NewAuthEvents([]PDU{create, cJoin, uJoin})
		if err := Allowed(kick, st, f11Querier); err != nil {
			t.Errorf("kick with an extra \"Membership\" key refused (judged as membership %q): %v", func() string { m, _ := kick.Membership(); return m }(), err)
		}
	})
}
