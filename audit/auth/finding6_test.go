// Audit finding 6 -- belongs in the package root directory (package gomatrixserverlib),
// e.g. /tmp/au/auth/finding6_test.go.  Run: go test -vet=off -count=1 -run TestAuditFinding6$ .
package gomatrixserverlib

import (
	"testing"

	"github.com/matrix-org/gomatrixserverlib/spec"
)

func f6Querier(_ spec.RoomID, senderID spec.SenderID) (*spec.UserID, error) {
	return spec.NewUserID(string(senderID), true)
}

// f6Ev parses a (trusted) event; room_id / timestamps / prev / auth are filled in.
func f6Ev(t *testing.T, ver RoomVersion, roomID, typ string, stateKey *string, sender, content string) PDU {
	t.Helper()
	sk := ""
	if stateKey != nil {
		sk = `"state_key":"` + *stateKey + `",`
	}
	js := `{"type":"` + typ + `",` + sk + `"sender":"` + sender + `","room_id":"` + roomID +
		`","origin_server_ts":1,"depth":1,"prev_events":[],"auth_events":[],"content":` + content + `}`
	ev, err := MustGetRoomVersion(ver).NewEventFromTrustedJSON([]byte(js), false)
	if err != nil {
		t.Fatalf("cannot parse %s: %v", js, err)
	}
	return ev
}

func f6S(s string) *string { return &s }

// C07: a create event whose content carries an ill-typed key that the auth rules never
// look at (predecessor, type, or -- before v12 -- additional_creators) is ACCEPTED by
// Allowed, but from then on NewCreateContentFromAuthEvents fails, the checker behaves
// as if there were no create event and refuses every other event of the room, starting
// with the creator's own first join.
func TestAuditFinding6(t *testing.T) {
	ver := RoomVersionV10
	room := "!r:a"
	for _, extra := range []string{`"predecessor":"x"`, `"type":5`, `"additional_creators":"x"`} {
		create := f6Ev(t, ver, room, "m.room.create", f6S(""), "@c:a", `{"creator":"@c:a","room_version":"10",`+extra+`}`)
		empty, _ := NewAuthEvents(nil)
		if err := Allowed(create, empty, f6Querier); err != nil {
			t.Fatalf("create event with %s refused: %v", extra, err)
		}
		// the creator's first join: only prev event is the create event
		js := `{"type":"m.room.member","state_key":"@c:a","sender":"@c:a","room_id":"` + room +
			`","origin_server_ts":2,"depth":2,"prev_events":["` + create.EventID() + `"],"auth_events":["` + create.EventID() +
			`"],"content":{"membership":"join"}}`
		join, err := MustGetRoomVersion(ver).NewEventFromTrustedJSON([]byte(js), false)
		if err != nil {
			t.Fatal(err)
		}
		st, _ := NewAuthEvents([]PDU{create})
		if err := Allowed(join, st, f6Querier); err != nil {
			t.Errorf("create content with %s: the create event was accepted, but the creator's first join is refused: %v", extra, err)
		}
	}
}
