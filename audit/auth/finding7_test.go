// Audit finding 7 -- belongs in the package root directory (package gomatrixserverlib),
// e.g. /tmp/au/auth/finding7_test.go.  Run: go test -vet=off -count=1 -run TestAuditFinding7$ .
package gomatrixserverlib

import (
	"crypto/ed25519"
	"encoding/base64"
	"encoding/json"
	"testing"

	"github.com/matrix-org/gomatrixserverlib/spec"
)

func f7Querier(_ spec.RoomID, senderID spec.SenderID) (*spec.UserID, error) {
	return spec.NewUserID(string(senderID), true)
}

// f7Ev parses a (trusted) event; room_id / timestamps / prev / auth are filled in.
func f7Ev(t *testing.T, ver RoomVersion, roomID, typ string, stateKey *string, sender, content string) PDU {
	t.Helper()
	sk := ""
	if stateKey != nil {
		sk = `"state_key":"` + *stateKey + `",`
	}
	js := `{"type":"` + typ + `",` + sk + `"sender":"` + sender + `","room_id":"` + roomID +
		`","origin_server_ts":1,"depth":1,"prev_events":[],"auth_events":[],"content":` + content + `}`
	ev, err := MustGetRoomVersion(ver).NewEventFromTrustedJSON([]byte(js), false)
	if err != nil {
		t.Fatalf("cannot parse %s: %v", js, err)
	}
	return ev
}

func f7S(s string) *string { return &s }

// C09: a third-party invite whose signed.token is the empty string.
// StateNeededForAuth gives up on the event ("missing token"): it names NO
// m.room.third_party_invite tuple (and, because it returns early, also drops a
// join_authorised_via_users_server member).  Allowed, however, looks up
// (m.room.third_party_invite, "") in the provider and lets it decide the verdict.
// So the verdict depends on state that StateNeededForAuth does not name: with the
// whole room state the invite is accepted, with exactly the needed state (what state
// resolution and AddAuthEvents/auth_events selection supply) it is refused.
func TestAuditFinding7(t *testing.T) {
	ver := RoomVersionV10
	room := "!r:a"
	seed := make([]byte, ed25519.SeedSize)
	priv := ed25519.NewKeyFromSeed(seed)
	pub := priv.Public().(ed25519.PublicKey)

	signed, err := SignJSON("id.server", "ed25519:0", priv, []byte(`{"mxid":"@u:a","token":""}`))
	if err != nil {
		t.Fatal(err)
	}
	var s struct {
		Signatures json.RawMessage `json:"signatures"`
	}
	if err = json.Unmarshal(signed, &s); err != nil {
		t.Fatal(err)
	}

	create := f7Ev(t, ver, room, "m.room.create", f7S(""), "@c:a", `{"creator":"@c:a","room_version":"10"}`)
	cJoin := f7Ev(t, ver, room, "m.room.member", f7S("@c:a"), "@c:a", `{"membership":"join"}`)
	// a m.room.third_party_invite event with the empty state key (allowed by the generic rules)
	tpi := f7Ev(t, ver, room, "m.room.third_party_invite", f7S(""), "@c:a",
		`{"display_name":"x","public_keys":[{"public_key":"`+base64.RawStdEncoding.EncodeToString(pub)+`"}]}`)
	invite := f7Ev(t, ver, room, "m.room.member", f7S("@u:a"), "@c:a",
		`{"membership":"invite","third_party_invite":{"display_name":"x","signed":{"mxid":"@u:a","token":"","signatures":`+string(s.Signatures)+`}}}`)

	fullState := []PDU{create, cJoin, tpi}
	full, _ := NewAuthEvents(fullState)
	errFull := Allowed(invite, full, f7Querier)

	// keep exactly the state that StateNeededForAuth names
	needed := map[StateKeyTuple]bool{}
	for _, tuple := range StateNeededForAuth([]PDU{invite}).Tuples() {
		needed[tuple] = true
	}
	var neededState []PDU
	for _, e := range fullState {
		if needed[StateKeyTuple{e.Type(), *e.StateKey()}] {
			neededState = append(neededState, e)
		}
	}
	min, _ := NewAuthEvents(neededState)
	errNeeded := Allowed(invite, min, f7Querier)

	if (errFull == nil) != (errNeeded == nil) {
		t.Errorf("verdict depends on un-needed state: full state -> %v; only StateNeededForAuth tuples %v -> %v",
			errFull, StateNeededForAuth([]PDU{invite}).Tuples(), errNeeded)
	}
}
