// Audit finding 9 -- belongs in the package root directory (package gomatrixserverlib),
// e.g. /tmp/au/auth/finding9_test.go.  Run: go test -vet=off -count=1 -run TestAuditFinding9$ .
package gomatrixserverlib

import (
	"testing"

	"github.com/matrix-org/gomatrixserverlib/spec"
)

func f9Querier(_ spec.RoomID, senderID spec.SenderID) (*spec.UserID, error) {
	return spec.NewUserID(string(senderID), true)
}

// f9Ev parses a (trusted) event; room_id / timestamps / prev / auth are filled in.
func f9Ev(t *testing.T, ver RoomVersion, roomID, typ string, stateKey *string, sender, content string) PDU {
	t.Helper()
	sk := ""
	if stateKey != nil {
		sk = `"state_key":"` + *stateKey + `",`
	}
	js := `{"type":"` + typ + `",` + sk + `"sender":"` + sender + `","room_id":"` + roomID +
		`","origin_server_ts":1,"depth":1,"prev_events":[],"auth_events":[],"content":` + content + `}`
	ev, err := MustGetRoomVersion(ver).NewEventFromTrustedJSON([]byte(js), false)
	if err != nil {
		t.Fatalf("cannot parse %s: %v", js, err)
	}
	return ev
}

func f9S(s string) *string { return &s }

// C08: the per-event-type entry events["m.room.third_party_invite"] is not covered by
// the power-level change checks.  checkEventLevels compares EventLevel(type) old vs new,
// and EventLevel special-cases m.room.third_party_invite to return the *invite* level,
// so the entry itself is never compared.  A user with level 50 can set that threshold to
// 100 (above their own level) and can change/remove an existing entry of 100.
func TestAuditFinding9(t *testing.T) {
	for _, ver := range []RoomVersion{"3", "5", "6", "10", "11"} {
		room := "!r:a"
		ev := func(typ string, sk *string, sender, content string) PDU {
			return f9Ev(t, ver, room, typ, sk, sender, content)
		}
		create := ev("m.room.create", f9S(""), "@c:a", `{"creator":"@c:a","room_version":"`+string(ver)+`"}`)
		cJoin := ev("m.room.member", f9S("@c:a"), "@c:a", `{"membership":"join"}`)
		uJoin := ev("m.room.member", f9S("@u:a"), "@u:a", `{"membership":"join"}`)

		// (a) setting the threshold above the sender's level
		cur := ev("m.room.power_levels", f9S(""), "@c:a", `{"users":{"@c:a":100,"@u:a":50}}`)
		st, _ := NewAuthEvents([]PDU{create, cJoin, uJoin, cur})
		control := ev("m.room.power_levels", f9S(""), "@u:a", `{"users":{"@c:a":100,"@u:a":50},"events":{"m.room.topic":100}}`)
		if err := Allowed(control, st, f9Querier); err == nil {
			t.Fatalf("v%s control: level-50 user set events[m.room.topic]=100", ver)
		}
		raise := ev("m.room.power_levels", f9S(""), "@u:a", `{"users":{"@c:a":100,"@u:a":50},"events":{"m.room.third_party_invite":100}}`)
		if err := Allowed(raise, st, f9Querier); err == nil {
			t.Errorf("v%s: level-50 user was allowed to set events[m.room.third_party_invite] = 100 (above own level)", ver)
		}

		// (b) removing / lowering a threshold that is above the sender's level
		cur = ev("m.room.power_levels", f9S(""), "@c:a", `{"users":{"@c:a":100,"@u:a":50},"events":{"m.room.third_party_invite":100}}`)
		st, _ = NewAuthEvents([]PDU{create, cJoin, uJoin, cur})
		remove := ev("m.room.power_levels", f9S(""), "@u:a", `{"users":{"@c:a":100,"@u:a":50}}`)
		if err := Allowed(remove, st, f9Querier); err == nil {
			t.Errorf("v%s: level-50 user was allowed to remove events[m.room.third_party_invite] = 100 (current value above own level)", ver)
		}
		lower := ev("m.room.power_levels", f9S(""), "@u:a", `{"users":{"@c:a":100,"@u:a":50},"events":{"m.room.third_party_invite":0}}`)
		if err := Allowed(lower, st, f9Querier); err == nil {
			t.Errorf("v%s: level-50 user was allowed to change events[m.room.third_party_invite] from 100 to 0", ver)
		}
	}
}
