// Audit finding 10 -- belongs in the package root directory (package gomatrixserverlib),
// e.g. /tmp/au/auth/finding10_test.go.  Run: go test -vet=off -count=1 -run TestAuditFinding10$ .
package gomatrixserverlib

import (
	"strings"
	"testing"

	"github.com/matrix-org/gomatrixserverlib/spec"
)

func f10Querier(_ spec.RoomID, senderID spec.SenderID) (*spec.UserID, error) {
	return spec.NewUserID(string(senderID), true)
}

// f10Ev parses a (trusted) event; room_id / timestamps / prev / auth are filled in.
func f10Ev(t *testing.T, ver RoomVersion, roomID, typ string, stateKey *string, sender, content string) PDU {
	t.Helper()
	sk := ""
	if stateKey != nil {
		sk = `"state_key":"` + *stateKey + `",`
	}
	js := `{"type":"` + typ + `",` + sk + `"sender":"` + sender + `","room_id":"` + roomID +
		`","origin_server_ts":1,"depth":1,"prev_events":[],"auth_events":[],"content":` + content + `}`
	ev, err := MustGetRoomVersion(ver).NewEventFromTrustedJSON([]byte(js), false)
	if err != nil {
		t.Fatalf("cannot parse %s: %v", js, err)
	}
	return ev
}

func f10S(s string) *string { return &s }

// C07/C09: "events whose auth events come from different rooms are refused" is only
// enforced by the package-level Allowed() (provider.Valid()).  The reusable checker that
// state resolution v2 uses (allowerContext.update + allowed) never calls Valid(), and the
// per-event checks only compare the room of the CREATE event.  A power-levels (or member,
// join-rules, third-party-invite) event of ANOTHER room is therefore honoured: the same
// event with the same auth events is refused on its own and accepted through the checker.
func TestAuditFinding10(t *testing.T) {
	t.Run("checker", f10Checker)
	t.Run("ResolveStateConflictsV2", f10StateRes)
}

func f10Checker(t *testing.T) {
	ver := RoomVersionV10
	room := "!r:a"
	create := f10Ev(t, ver, room, "m.room.create", f10S(""), "@c:a", `{"creator":"@c:a","room_version":"10"}`)
	cJoin := f10Ev(t, ver, room, "m.room.member", f10S("@c:a"), "@c:a", `{"membership":"join"}`)
	uJoin := f10Ev(t, ver, room, "m.room.member", f10S("@u:a"), "@u:a", `{"membership":"join"}`)
	// @u:a is admin in a room of their own and cites that room's power levels
	foreignPL := f10Ev(t, ver, "!other:a", "m.room.power_levels", f10S(""), "@u:a", `{"users":{"@u:a":100}}`)
	// with no power levels in !r:a, @u:a has level 0 and state events need 50
	topic := f10Ev(t, ver, room, "m.room.topic", f10S(""), "@u:a", `{"topic":"pwned"}`)

	provider, _ := NewAuthEvents([]PDU{create, cJoin, uJoin, foreignPL})
	errAlone := Allowed(topic, provider, f10Querier)
	if errAlone == nil {
		t.Fatalf("Allowed accepted an event with auth events from two rooms")
	}
	checker := newAllowerContext(provider, f10Querier, topic.RoomID())
	checker.update(provider)
	if errReused := checker.allowed(topic); errReused == nil {
		t.Errorf("reusable checker accepted a level-0 user's state event on the strength of another room's power levels; Allowed says: %v", errAlone)
	}
}

// The same through the public API: in a topic conflict, the level-0 user's topic wins
// because its auth_events cite the power levels of a room in which that user is admin.
func f10StateRes(t *testing.T) {
	ver := RoomVersionV10
	mk := func(room, typ string, sk *string, sender, content, ts string, auth ...string) PDU {
		s := ""
		if sk != nil {
			s = `"state_key":"` + *sk + `",`
		}
		a := "[]"
		if len(auth) > 0 {
			a = `["` + strings.Join(auth, `","`) + `"]`
		}
		js := `{"type":"` + typ + `",` + s + `"sender":"` + sender + `","room_id":"` + room + `","origin_server_ts":` + ts +
			`,"depth":1,"prev_events":[],"auth_events":` + a + `,"content":` + content + `}`
		ev, err := MustGetRoomVersion(ver).NewEventFromTrustedJSON([]byte(js), false)
		if err != nil {
			t.Fatal(err)
		}
		return ev
	}
	c := mk("!r:a", "m.room.create", f10S(""), "@c:a", `{"creator":"@c:a","room_version":"10"}`, "1")
	cj := mk("!r:a", "m.room.member", f10S("@c:a"), "@c:a", `{"membership":"join"}`, "2", c.EventID())
	jr := mk("!r:a", "m.room.join_rules", f10S(""), "@c:a", `{"join_rule":"public"}`, "3", c.EventID(), cj.EventID())
	uj := mk("!r:a", "m.room.member", f10S("@u:a"), "@u:a", `{"membership":"join"}`, "4", c.EventID(), jr.EventID())
	foreignPL := mk("!other:a", "m.room.power_levels", f10S(""), "@u:a", `{"users":{"@u:a":100}}`, "5")
	good := mk("!r:a", "m.room.topic", f10S(""), "@c:a", `{"topic":"good"}`, "6", c.EventID(), cj.EventID())
	evil := mk("!r:a", "m.room.topic", f10S(""), "@u:a", `{"topic":"pwned"}`, "7", c.EventID(), uj.EventID(), foreignPL.EventID())

	resolved := ResolveStateConflictsV2(
		[]PDU{good, evil}, []PDU{c, cj, jr, uj}, []PDU{c, cj, jr, uj, foreignPL},
		f10Querier, func(string) bool { return false },
	)
	for _, ev := range resolved {
		if ev.Type() == "m.room.topic" && ev.EventID() == evil.EventID() {
			t.Errorf("state resolution kept the topic %s of level-0 user %s, authorised by the power levels of room %s",
				ev.Content(), ev.SenderID(), foreignPL.RoomID().String())
		}
	}
}
