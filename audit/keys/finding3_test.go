// Audit finding 3 (properties C06 and C12).
// Belongs in the repository root directory (package gomatrixserverlib).
package gomatrixserverlib

import (
	"context"
	"crypto/sha256"
	"encoding/json"
	"testing"
	"time"

	"github.com/matrix-org/gomatrixserverlib/spec"
	"golang.org/x/crypto/ed25519"
)

type f3DB struct {
	keys map[PublicKeyLookupRequest]PublicKeyLookupResult
}

func (d *f3DB) FetcherName() string { return "f3DB" }
func (d *f3DB) FetchKeys(_ context.Context, reqs map[PublicKeyLookupRequest]spec.Timestamp) (map[PublicKeyLookupRequest]PublicKeyLookupResult, error) {
	res := map[PublicKeyLookupRequest]PublicKeyLookupResult{}
	for r := range reqs {
		if k, ok := d.keys[r]; ok {
			res[r] = k
		}
	}
	return res, nil
}
func (d *f3DB) StoreKeys(_ context.Context, m map[PublicKeyLookupRequest]PublicKeyLookupResult) error {
	for r, k := range m {
		d.keys[r] = k
	}
	return nil
}

func f3Key(seed string) (ed25519.PublicKey, ed25519.PrivateKey) {
	h := sha256.Sum256([]byte(seed))
	priv := ed25519.NewKeyFromSeed(h[:])
	return priv.Public().(ed25519.PublicKey), priv
}

// f3AddSignatures merges extra (server -> keyID -> raw JSON) into the "signatures" object of msg.
func f3AddSignatures(t *testing.T, msg []byte, extra string) []byte {
	var top map[string]json.RawMessage
	if err := json.Unmarshal(msg, &top); err != nil {
		t.Fatal(err)
	}
	sigs := map[string]map[string]json.RawMessage{}
	if err := json.Unmarshal(top["signatures"], &sigs); err != nil {
		t.Fatal(err)
	}
	add := map[string]map[string]json.RawMessage{}
	if err := json.Unmarshal([]byte(extra), &add); err != nil {
		t.Fatal(err)
	}
	for server, m := range add {
		if sigs[server] == nil {
			sigs[server] = map[string]json.RawMessage{}
		}
		for id, v := range m {
			sigs[server][id] = v
		}
	}
	var err error
	if top["signatures"], err = json.Marshal(sigs); err != nil {
		t.Fatal(err)
	}
	out, err := json.Marshal(top)
	if err != nil {
		t.Fatal(err)
	}
	return CanonicalJSONAssumeValid(out)
}

// A message / event carries a perfectly good signature of the required server, plus an
// unrelated entry in "signatures" that is not valid unpadded base64. The unrelated entry
// makes the whole verification fail.
func TestAuditFinding3(t *testing.T) {
	now := spec.AsTimestamp(time.Now())
	pub, priv := f3Key("sender.srv")
	newRing := func() *KeyRing {
		return &KeyRing{KeyDatabase: &f3DB{keys: map[PublicKeyLookupRequest]PublicKeyLookupResult{
			{ServerName: "sender.srv", KeyID: "ed25519:k"}: {VerifyKey: VerifyKey{Key: spec.Base64Bytes(pub)}, ValidUntilTS: now + 3600000},
		}}}
	}
	extras := map[string]string{
		"other server, padded base64":          `{"other.srv":{"ed25519:x":"AAAA=="}}`,
		"other server, not base64":             `{"other.srv":{"ed25519:x":"!!!"}}`,
		"other server, not a string":           `{"other.srv":{"ed25519:x":5}}`,
		"same server, other key id, bad":       `{"sender.srv":{"ed25519:zz":"!!!"}}`,
		"same server, other algorithm, number": `{"sender.srv":{"rsa:zz":5}}`,
	}

	// (a) KeyRing.VerifyJSONs on a plain signed JSON object
	signed, err := SignJSON("sender.srv", "ed25519:k", priv, []byte(`{"a":1}`))
	if err != nil {
		t.Fatal(err)
	}
	for name, extra := range extras {
		msg := f3AddSignatures(t, signed, extra)
		res, err := newRing().VerifyJSONs(context.Background(), []VerifyJSONRequest{{
			ServerName: "sender.srv", AtTS: now, Message: msg, ValidityCheckingFunc: StrictValiditySignatureCheck,
		}})
		if err != nil {
			t.Fatal(err)
		}
		if res[0].Error != nil {
			t.Errorf("VerifyJSONs [%s]: %s carries a valid ed25519:k signature of sender.srv but was refused: %v", name, msg, res[0].Error)
		}
	}

	// (b) VerifyEventSignatures on events received over federation
	userIDForSender := func(_ spec.RoomID, senderID spec.SenderID) (*spec.UserID, error) {
		return spec.NewUserID(string(senderID), true)
	}
	for _, ver := range []RoomVersion{RoomVersionV4, RoomVersionV10} {
		raw := []byte(`{"type":"m.room.message","sender":"@alice:sender.srv","room_id":"!room:room.srv","depth":5,` +
			`"origin_server_ts":1700000000000,"prev_events":[],"auth_events":[],"content":{"body":"x"}}`)
		raw, err = addContentHashesToEvent(raw)
		if err != nil {
			t.Fatal(err)
		}
		raw, err = signEvent("sender.srv", "ed25519:k", priv, raw, ver)
		if err != nil {
			t.Fatal(err)
		}
		for name, extra := range extras {
			ev, err := MustGetRoomVersion(ver).NewEventFromUntrustedJSON(f3AddSignatures(t, raw, extra))
			if err != nil {
				continue // refused at parse time: not this finding
			}
			if err = VerifyEventSignatures(context.Background(), ev, newRing(), userIDForSender); err != nil {
				t.Errorf("VerifyEventSignatures v%s [%s]: sender.srv (the only required server) signed validly, but: %v", ver, name, err)
			}
		}
	}
}
