// Audit finding 6 (property C12).
// Belongs in the repository root directory (package gomatrixserverlib).
package gomatrixserverlib

import (
	"context"
	"crypto/sha256"
	"encoding/json"
	"testing"
	"time"

	"github.com/matrix-org/gomatrixserverlib/spec"
	"golang.org/x/crypto/ed25519"
)

type f6DB struct {
	keys map[PublicKeyLookupRequest]PublicKeyLookupResult
}

func (d *f6DB) FetcherName() string { return "f6DB" }
func (d *f6DB) FetchKeys(_ context.Context, reqs map[PublicKeyLookupRequest]spec.Timestamp) (map[PublicKeyLookupRequest]PublicKeyLookupResult, error) {
	res := map[PublicKeyLookupRequest]PublicKeyLookupResult{}
	for r := range reqs {
		if k, ok := d.keys[r]; ok {
			res[r] = k
		}
	}
	return res, nil
}
func (d *f6DB) StoreKeys(_ context.Context, m map[PublicKeyLookupRequest]PublicKeyLookupResult) error {
	for r, k := range m {
		d.keys[r] = k
	}
	return nil
}

type f6Client struct{ direct ServerKeys }

func (c *f6Client) GetServerKeys(context.Context, spec.ServerName) (ServerKeys, error) {
	return c.direct, nil
}
func (c *f6Client) LookupServerKeys(context.Context, spec.ServerName, map[PublicKeyLookupRequest]spec.Timestamp) ([]ServerKeys, error) {
	return nil, nil
}

func f6Key(seed string) (ed25519.PublicKey, ed25519.PrivateKey) {
	h := sha256.Sum256([]byte(seed))
	priv := ed25519.NewKeyFromSeed(h[:])
	return priv.Public().(ed25519.PublicKey), priv
}

// s1 publishes a retired key under old_verify_keys with "expired_ts": 0 (also what a
// response that omits expired_ts decodes to). No timestamp lies before 0, so the key was
// never valid for signing. The ring treats ExpiredTS==0 as "not expired", i.e. as a current
// key without validity, and under the lenient rule accepts its signatures at any time.
func TestAuditFinding6(t *testing.T) {
	now := spec.AsTimestamp(time.Now())
	curPub, curPriv := f6Key("s1 current")
	oldPub, oldPriv := f6Key("s1 retired")
	for _, oldEntry := range []map[string]interface{}{
		{"key": spec.Base64Bytes(oldPub).Encode(), "expired_ts": 0},
		{"key": spec.Base64Bytes(oldPub).Encode()},
	} {
		b, err := json.Marshal(map[string]interface{}{
			"server_name":     "s1",
			"valid_until_ts":  now + 3600000,
			"verify_keys":     map[string]interface{}{"ed25519:cur": map[string]string{"key": spec.Base64Bytes(curPub).Encode()}},
			"old_verify_keys": map[string]interface{}{"ed25519:old": oldEntry},
		})
		if err != nil {
			t.Fatal(err)
		}
		if b, err = SignJSON("s1", "ed25519:cur", curPriv, b); err != nil {
			t.Fatal(err)
		}
		var sk ServerKeys
		if err = json.Unmarshal(b, &sk); err != nil {
			t.Fatal(err)
		}
		fetcher := &DirectKeyFetcher{Client: &f6Client{direct: sk}, IsLocalServerName: func(spec.ServerName) bool { return false }}

		msg, err := SignJSON("s1", "ed25519:old", oldPriv, []byte(`{"a":1}`))
		if err != nil {
			t.Fatal(err)
		}
		for _, at := range []spec.Timestamp{0, 1, now} {
			kr := &KeyRing{KeyDatabase: &f6DB{keys: map[PublicKeyLookupRequest]PublicKeyLookupResult{}}, KeyFetchers: []KeyFetcher{fetcher}}
			res, err := kr.VerifyJSONs(context.Background(), []VerifyJSONRequest{{
				ServerName: "s1", AtTS: at, Message: msg, ValidityCheckingFunc: NoStrictValidityCheck,
			}})
			if err != nil {
				t.Fatal(err)
			}
			if res[0].Error == nil {
				t.Errorf("old_verify_keys entry %v: signature by the retired key accepted at ts=%d, which is not before expired_ts=0", oldEntry, at)
			}
		}
	}
}
