// Audit finding 7 (property C06, unstable room version org.matrix.msc4014 / pseudo IDs).
// Belongs in the repository root directory (package gomatrixserverlib).
package gomatrixserverlib

import (
	"context"
	"crypto/sha256"
	"fmt"
	"testing"
	"time"

	"github.com/matrix-org/gomatrixserverlib/spec"
	"golang.org/x/crypto/ed25519"
)

type f7DB struct {
	asked int
}

func (d *f7DB) FetcherName() string { return "f7DB" }
func (d *f7DB) FetchKeys(_ context.Context, reqs map[PublicKeyLookupRequest]spec.Timestamp) (map[PublicKeyLookupRequest]PublicKeyLookupResult, error) {
	d.asked += len(reqs)
	return map[PublicKeyLookupRequest]PublicKeyLookupResult{}, nil
}
func (d *f7DB) StoreKeys(context.Context, map[PublicKeyLookupRequest]PublicKeyLookupResult) error {
	return nil
}

// In a pseudo-ID room a join event binds the sender key to a user ID through
// content.mxid_mapping, which the user's homeserver has to sign. VerifyEventSignatures only
// checks the signatures that happen to be listed inside the mapping; a mapping without any
// signature passes, so anybody can claim to be @victim:victim.srv without a single server
// (not even one server key lookup) being involved.
func TestAuditFinding7(t *testing.T) {
	h := sha256.Sum256([]byte("user room key"))
	priv := ed25519.NewKeyFromSeed(h[:])
	pseudoID := spec.SenderIDFromPseudoIDKey(priv)
	ts := spec.AsTimestamp(time.Now()) - 1000

	for _, mapping := range []string{
		`{"user_room_key":"%s","user_id":"@victim:victim.srv"}`,
		`{"user_room_key":"%s","user_id":"@victim:victim.srv","signatures":{}}`,
	} {
		mapping = fmt.Sprintf(mapping, pseudoID)
		raw := []byte(fmt.Sprintf(`{"type":"m.room.member","sender":"%s","state_key":"%s","room_id":"!room:room.srv","depth":5,`+
			`"origin_server_ts":%d,"prev_events":[],"auth_events":[],"content":{"membership":"join","mxid_mapping":%s}}`,
			pseudoID, pseudoID, ts, mapping))
		raw, err := addContentHashesToEvent(raw)
		if err != nil {
			t.Fatal(err)
		}
		// the event itself is signed with the sender (pseudo ID) key, as the room version demands
		raw, err = signEvent(string(pseudoID), "ed25519:1", priv, raw, RoomVersionPseudoIDs)
		if err != nil {
			t.Fatal(err)
		}
		ev, err := MustGetRoomVersion(RoomVersionPseudoIDs).NewEventFromUntrustedJSON(raw)
		if err != nil {
			continue // refused at parse time: fine
		}
		db := &f7DB{}
		userIDForSender := func(spec.RoomID, spec.SenderID) (*spec.UserID, error) {
			return spec.NewUserID("@victim:victim.srv", true)
		}
		err = VerifyEventSignatures(context.Background(), ev, &KeyRing{KeyDatabase: db}, userIDForSender)
		if err == nil {
			t.Errorf("pseudo-ID join with unsigned mxid_mapping %s verified; victim.srv signed nothing (server keys looked up: %d)", mapping, db.asked)
		}
	}
}
