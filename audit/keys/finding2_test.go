// Audit finding 2 (properties C12 and C06).
// Belongs in the repository root directory (package gomatrixserverlib).
package gomatrixserverlib

import (
	"context"
	"crypto/sha256"
	"testing"
	"time"

	"github.com/matrix-org/gomatrixserverlib/spec"
	"golang.org/x/crypto/ed25519"
)

type f2DB struct {
	keys map[PublicKeyLookupRequest]PublicKeyLookupResult
}

func (d *f2DB) FetcherName() string { return "f2DB" }
func (d *f2DB) FetchKeys(_ context.Context, reqs map[PublicKeyLookupRequest]spec.Timestamp) (map[PublicKeyLookupRequest]PublicKeyLookupResult, error) {
	res := map[PublicKeyLookupRequest]PublicKeyLookupResult{}
	for r := range reqs {
		if k, ok := d.keys[r]; ok {
			res[r] = k
		}
	}
	return res, nil
}
func (d *f2DB) StoreKeys(_ context.Context, m map[PublicKeyLookupRequest]PublicKeyLookupResult) error {
	for r, k := range m {
		d.keys[r] = k
	}
	return nil
}

func f2Key(seed string) (ed25519.PublicKey, ed25519.PrivateKey) {
	h := sha256.Sum256([]byte(seed))
	priv := ed25519.NewKeyFromSeed(h[:])
	return priv.Public().(ed25519.PublicKey), priv
}

// Timestamps >= 2^63 ms become negative in Timestamp.Time(), so the strict validity
// rule regards them as lying before every valid_until_ts.
func TestAuditFinding2(t *testing.T) {
	now := spec.AsTimestamp(time.Now())
	validUntil := now + 3600*1000 // the key is valid for one more hour

	// (a) the validity rule itself
	for _, at := range []spec.Timestamp{1 << 63, 1<<63 + 12345, 1<<64 - 1} {
		if StrictValiditySignatureCheck(at, validUntil) {
			t.Errorf("StrictValiditySignatureCheck(atTs=%d, validUntil=%d) = true: timestamp %d is far after valid_until_ts", at, validUntil, at)
		}
	}

	// (b) KeyRing.VerifyJSONs
	pub, priv := f2Key("sender.srv")
	msg, err := SignJSON("sender.srv", "ed25519:k", priv, []byte(`{"a":1}`))
	if err != nil {
		t.Fatal(err)
	}
	newRing := func() *KeyRing {
		return &KeyRing{KeyDatabase: &f2DB{keys: map[PublicKeyLookupRequest]PublicKeyLookupResult{
			{ServerName: "sender.srv", KeyID: "ed25519:k"}: {VerifyKey: VerifyKey{Key: spec.Base64Bytes(pub)}, ValidUntilTS: validUntil},
		}}}
	}
	res, err := newRing().VerifyJSONs(context.Background(), []VerifyJSONRequest{{
		ServerName: "sender.srv", AtTS: 1<<64 - 1, Message: msg, ValidityCheckingFunc: StrictValiditySignatureCheck,
	}})
	if err != nil {
		t.Fatal(err)
	}
	if res[0].Error == nil {
		t.Errorf("KeyRing.VerifyJSONs: strict check at AtTS=2^64-1 succeeded with a key whose valid_until_ts is %d", validUntil)
	}

	// (c) a room version 5 event (strict rule, canonical JSON not yet enforced) received over federation
	raw := []byte(`{"type":"m.room.message","sender":"@alice:sender.srv","room_id":"!room:room.srv","depth":5,` +
		`"origin_server_ts":18446744073709551615,"prev_events":[],"auth_events":[],"content":{"body":"x"}}`)
	raw, err = addContentHashesToEvent(raw)
	if err != nil {
		t.Fatal(err)
	}
	raw, err = signEvent("sender.srv", "ed25519:k", priv, raw, RoomVersionV5)
	if err != nil {
		t.Fatal(err)
	}
	ev, err := MustGetRoomVersion(RoomVersionV5).NewEventFromUntrustedJSON(raw)
	if err != nil {
		return // refusing the event at parse time is a legitimate fix
	}
	userIDForSender := func(_ spec.RoomID, senderID spec.SenderID) (*spec.UserID, error) {
		return spec.NewUserID(string(senderID), true)
	}
	if err = VerifyEventSignatures(context.Background(), ev, newRing(), userIDForSender); err == nil {
		t.Errorf("VerifyEventSignatures (room v5, strict): event with origin_server_ts=%d verified with a key valid only until %d",
			ev.OriginServerTS(), validUntil)
	}
}
