// Audit finding 4 (property C12).
// Belongs in the repository root directory (package gomatrixserverlib).
package gomatrixserverlib

import (
	"bytes"
	"context"
	"crypto/sha256"
	"testing"
	"time"

	"github.com/matrix-org/gomatrixserverlib/spec"
	"golang.org/x/crypto/ed25519"
)

type f4DB struct {
	keys map[PublicKeyLookupRequest]PublicKeyLookupResult
}

func (d *f4DB) FetcherName() string { return "f4DB" }
func (d *f4DB) FetchKeys(_ context.Context, reqs map[PublicKeyLookupRequest]spec.Timestamp) (map[PublicKeyLookupRequest]PublicKeyLookupResult, error) {
	res := map[PublicKeyLookupRequest]PublicKeyLookupResult{}
	for r := range reqs {
		if k, ok := d.keys[r]; ok {
			res[r] = k
		}
	}
	return res, nil
}
func (d *f4DB) StoreKeys(_ context.Context, m map[PublicKeyLookupRequest]PublicKeyLookupResult) error {
	for r, k := range m {
		d.keys[r] = k
	}
	return nil
}

type f4Fetcher struct {
	asked  []map[PublicKeyLookupRequest]spec.Timestamp
	answer map[PublicKeyLookupRequest]PublicKeyLookupResult
}

func (f *f4Fetcher) FetcherName() string { return "f4Fetcher" }
func (f *f4Fetcher) FetchKeys(_ context.Context, reqs map[PublicKeyLookupRequest]spec.Timestamp) (map[PublicKeyLookupRequest]PublicKeyLookupResult, error) {
	cp := map[PublicKeyLookupRequest]spec.Timestamp{}
	for k, v := range reqs {
		cp[k] = v
	}
	f.asked = append(f.asked, cp)
	return f.answer, nil
}

func f4Key(seed string) (ed25519.PublicKey, ed25519.PrivateKey) {
	h := sha256.Sum256([]byte(seed))
	priv := ed25519.NewKeyFromSeed(h[:])
	return priv.Public().(ed25519.PublicKey), priv
}

// Two requests. The database holds a current, correct key for s1 and nothing for s2, so the
// fetcher is (rightly) asked for s2 only. Its answer also contains an unsolicited, wrong
// entry for (s1, ed25519:k) - the KeyFetcher contract explicitly allows extra entries.
// The unsolicited entry replaces the good database key: request 1 fails and the wrong key
// is written over the good one in the database.
func TestAuditFinding4(t *testing.T) {
	now := spec.AsTimestamp(time.Now())
	pub1, priv1 := f4Key("s1")
	pub2, priv2 := f4Key("s2")
	bogus, _ := f4Key("somebody else")
	m1, err := SignJSON("s1", "ed25519:k", priv1, []byte(`{"n":1}`))
	if err != nil {
		t.Fatal(err)
	}
	m2, err := SignJSON("s2", "ed25519:k", priv2, []byte(`{"n":2}`))
	if err != nil {
		t.Fatal(err)
	}
	s1k := PublicKeyLookupRequest{ServerName: "s1", KeyID: "ed25519:k"}
	s2k := PublicKeyLookupRequest{ServerName: "s2", KeyID: "ed25519:k"}
	db := &f4DB{keys: map[PublicKeyLookupRequest]PublicKeyLookupResult{
		s1k: {VerifyKey: VerifyKey{Key: spec.Base64Bytes(pub1)}, ValidUntilTS: now + 3600000}, // current and correct
	}}
	fetcher := &f4Fetcher{answer: map[PublicKeyLookupRequest]PublicKeyLookupResult{
		s2k: {VerifyKey: VerifyKey{Key: spec.Base64Bytes(pub2)}, ValidUntilTS: now + 3600000},
		s1k: {VerifyKey: VerifyKey{Key: spec.Base64Bytes(bogus)}, ValidUntilTS: now + 3600000}, // not asked for
	}}
	kr := &KeyRing{KeyDatabase: db, KeyFetchers: []KeyFetcher{fetcher}}
	res, err := kr.VerifyJSONs(context.Background(), []VerifyJSONRequest{
		{ServerName: "s1", AtTS: now, Message: m1, ValidityCheckingFunc: StrictValiditySignatureCheck},
		{ServerName: "s2", AtTS: now, Message: m2, ValidityCheckingFunc: StrictValiditySignatureCheck},
	})
	if err != nil {
		t.Fatal(err)
	}
	for _, asked := range fetcher.asked {
		if _, ok := asked[s1k]; ok {
			t.Errorf("the fetcher was consulted for %v although the database holds a current key", s1k)
		}
	}
	if res[1].Error != nil {
		t.Errorf("request for s2: %v", res[1].Error)
	}
	if res[0].Error != nil {
		t.Errorf("request for s1 failed although the database supplies a current key under which the signature verifies: %v", res[0].Error)
	}
	if !bytes.Equal(db.keys[s1k].Key, pub1) {
		t.Errorf("the good database key for %v was overwritten with a key the ring never asked a fetcher for", s1k)
	}
}
