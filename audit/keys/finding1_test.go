// Audit finding 1 (property C06).
// Belongs in the repository root directory (package gomatrixserverlib).
package gomatrixserverlib

import (
	"context"
	"crypto/sha256"
	"testing"
	"time"

	"github.com/matrix-org/gomatrixserverlib/spec"
	"golang.org/x/crypto/ed25519"
)

type f1DB struct {
	keys map[PublicKeyLookupRequest]PublicKeyLookupResult
}

func (d *f1DB) FetcherName() string { return "f1DB" }
func (d *f1DB) FetchKeys(_ context.Context, reqs map[PublicKeyLookupRequest]spec.Timestamp) (map[PublicKeyLookupRequest]PublicKeyLookupResult, error) {
	res := map[PublicKeyLookupRequest]PublicKeyLookupResult{}
	for r := range reqs {
		if k, ok := d.keys[r]; ok {
			res[r] = k
		}
	}
	return res, nil
}
func (d *f1DB) StoreKeys(_ context.Context, m map[PublicKeyLookupRequest]PublicKeyLookupResult) error {
	for r, k := range m {
		d.keys[r] = k
	}
	return nil
}

func f1Key(seed string) (ed25519.PublicKey, ed25519.PrivateKey) {
	h := sha256.Sum256([]byte(seed))
	priv := ed25519.NewKeyFromSeed(h[:])
	return priv.Public().(ed25519.PublicKey), priv
}

// A restricted join whose content carries the key join_authorised_via_users_server twice.
// encoding/json (MemberContent, the auth rules, redaction) uses the LAST value,
// VerifyEventSignatures (gjson) uses the FIRST value, so the server of the user that
// really authorises the join (victim.srv) does not have to sign the event.
func TestAuditFinding1(t *testing.T) {
	now := spec.AsTimestamp(time.Now())
	userIDForSender := func(_ spec.RoomID, senderID spec.SenderID) (*spec.UserID, error) {
		return spec.NewUserID(string(senderID), true)
	}
	for _, ver := range []RoomVersion{RoomVersionV8, RoomVersionV9, RoomVersionV10, RoomVersionV11, "org.matrix.msc3787"} {
		verImpl := MustGetRoomVersion(ver)
		for _, content := range []string{
			// the key twice: gjson reads the first value, encoding/json the last one
			`{"membership":"join","join_authorised_via_users_server":"@mallory:sender.srv","join_authorised_via_users_server":"@admin:victim.srv"}`,
			// the key in another case: encoding/json matches it, gjson does not
			`{"membership":"join","JOIN_AUTHORISED_VIA_USERS_SERVER":"@admin:victim.srv"}`,
		} {
			raw := []byte(`{"type":"m.room.member","sender":"@mallory:sender.srv","state_key":"@mallory:sender.srv",` +
				`"room_id":"!room:room.srv","depth":5,"origin_server_ts":1700000000000,"prev_events":[],"auth_events":[],` +
				`"content":` + content + `}`)
			raw = CanonicalJSONAssumeValid(raw)
			raw, err := addContentHashesToEvent(raw)
			if err != nil {
				t.Fatal(err)
			}
			_, senderPriv := f1Key("sender.srv")
			// the ONLY signature on the event is the one of the sender's own server
			raw, err = signEvent("sender.srv", "ed25519:k", senderPriv, raw, ver)
			if err != nil {
				t.Fatal(err)
			}
			raw = CanonicalJSONAssumeValid(raw)

			ev, err := verImpl.NewEventFromUntrustedJSON(raw)
			if err != nil {
				// refusing such an event at parse time is a legitimate fix
				continue
			}
			if ev.Redacted() {
				t.Fatalf("%s: test event unexpectedly failed its content hash", ver)
			}
			mc, err := NewMemberContentFromEvent(ev)
			if err != nil {
				continue
			}
			if mc.AuthorisedVia == "" {
				continue
			}
			_, authServer, err := SplitID('@', mc.AuthorisedVia)
			if err != nil {
				continue
			}

			senderPub, _ := f1Key("sender.srv")
			victimPub, _ := f1Key("victim.srv")
			db := &f1DB{keys: map[PublicKeyLookupRequest]PublicKeyLookupResult{
				{ServerName: "sender.srv", KeyID: "ed25519:k"}: {VerifyKey: VerifyKey{Key: spec.Base64Bytes(senderPub)}, ValidUntilTS: now + 3600000},
				{ServerName: "victim.srv", KeyID: "ed25519:k"}: {VerifyKey: VerifyKey{Key: spec.Base64Bytes(victimPub)}, ValidUntilTS: now + 3600000},
			}}
			err = VerifyEventSignatures(context.Background(), ev, &KeyRing{KeyDatabase: db}, userIDForSender)
			if err == nil && authServer != "sender.srv" {
				t.Errorf("room version %s: the library reads join_authorised_via_users_server=%q from content %s, "+
					"but VerifyEventSignatures accepted the event although %q never signed it (signatures only from sender.srv)",
					ver, mc.AuthorisedVia, ev.Content(), authServer)
			}
		}
	}
}
