// Audit finding 8 (property C06, low severity).
// Belongs in the repository root directory (package gomatrixserverlib).
package gomatrixserverlib

import (
	"context"
	"crypto/sha256"
	"testing"
	"time"

	"github.com/matrix-org/gomatrixserverlib/spec"
	"golang.org/x/crypto/ed25519"
)

type f8DB struct {
	keys map[PublicKeyLookupRequest]PublicKeyLookupResult
}

func (d *f8DB) FetcherName() string { return "f8DB" }
func (d *f8DB) FetchKeys(_ context.Context, reqs map[PublicKeyLookupRequest]spec.Timestamp) (map[PublicKeyLookupRequest]PublicKeyLookupResult, error) {
	res := map[PublicKeyLookupRequest]PublicKeyLookupResult{}
	for r := range reqs {
		if k, ok := d.keys[r]; ok {
			res[r] = k
		}
	}
	return res, nil
}
func (d *f8DB) StoreKeys(_ context.Context, m map[PublicKeyLookupRequest]PublicKeyLookupResult) error {
	return nil
}

// An event of type m.room.member WITHOUT a state_key is not a state event and names no
// invited user; the only protocol-required signer is the sender's server. It carries a
// valid signature of that server, yet VerifyEventSignatures always reports an error.
func TestAuditFinding8(t *testing.T) {
	now := spec.AsTimestamp(time.Now())
	h := sha256.Sum256([]byte("sender.srv"))
	priv := ed25519.NewKeyFromSeed(h[:])
	pub := priv.Public().(ed25519.PublicKey)
	userIDForSender := func(_ spec.RoomID, senderID spec.SenderID) (*spec.UserID, error) {
		return spec.NewUserID(string(senderID), true)
	}
	for _, ver := range []RoomVersion{RoomVersionV4, RoomVersionV10} {
		for _, content := range []string{`{"membership":"join"}`, `{"membership":"leave"}`, `{}`} {
			raw := []byte(`{"type":"m.room.member","sender":"@alice:sender.srv","room_id":"!room:room.srv","depth":5,` +
				`"origin_server_ts":1700000000000,"prev_events":[],"auth_events":[],"content":` + content + `}`)
			raw, err := addContentHashesToEvent(raw)
			if err != nil {
				t.Fatal(err)
			}
			if raw, err = signEvent("sender.srv", "ed25519:k", priv, raw, ver); err != nil {
				t.Fatal(err)
			}
			ev, err := MustGetRoomVersion(ver).NewEventFromUntrustedJSON(raw)
			if err != nil {
				continue
			}
			kr := &KeyRing{KeyDatabase: &f8DB{keys: map[PublicKeyLookupRequest]PublicKeyLookupResult{
				{ServerName: "sender.srv", KeyID: "ed25519:k"}: {VerifyKey: VerifyKey{Key: spec.Base64Bytes(pub)}, ValidUntilTS: now + 3600000},
			}}}
			if err = VerifyEventSignatures(context.Background(), ev, kr, userIDForSender); err != nil {
				t.Errorf("v%s content %s: validly signed by the sender's server (the only required one) but: %v", ver, content, err)
			}
		}
	}
}
