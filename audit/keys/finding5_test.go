// Audit finding 5 (property C12).
// Belongs in the repository root directory (package gomatrixserverlib).
package gomatrixserverlib

import (
	"context"
	"crypto/sha256"
	"encoding/json"
	"testing"
	"time"

	"github.com/matrix-org/gomatrixserverlib/spec"
	"golang.org/x/crypto/ed25519"
)

type f5DB struct {
	keys map[PublicKeyLookupRequest]PublicKeyLookupResult
}

func (d *f5DB) FetcherName() string { return "f5DB" }
func (d *f5DB) FetchKeys(_ context.Context, reqs map[PublicKeyLookupRequest]spec.Timestamp) (map[PublicKeyLookupRequest]PublicKeyLookupResult, error) {
	res := map[PublicKeyLookupRequest]PublicKeyLookupResult{}
	for r := range reqs {
		if k, ok := d.keys[r]; ok {
			res[r] = k
		}
	}
	return res, nil
}
func (d *f5DB) StoreKeys(_ context.Context, m map[PublicKeyLookupRequest]PublicKeyLookupResult) error {
	for r, k := range m {
		d.keys[r] = k
	}
	return nil
}

type f5Client struct {
	direct ServerKeys
	notary []ServerKeys
}

func (c *f5Client) GetServerKeys(context.Context, spec.ServerName) (ServerKeys, error) {
	return c.direct, nil
}
func (c *f5Client) LookupServerKeys(context.Context, spec.ServerName, map[PublicKeyLookupRequest]spec.Timestamp) ([]ServerKeys, error) {
	return c.notary, nil
}

func f5Key(seed string) (ed25519.PublicKey, ed25519.PrivateKey) {
	h := sha256.Sum256([]byte(seed))
	priv := ed25519.NewKeyFromSeed(h[:])
	return priv.Public().(ed25519.PublicKey), priv
}

// f5Response builds a /key/v2/server response of "s1" with the given valid_until_ts,
// self-signed, and additionally signed by every extra signer.
func f5Response(t *testing.T, validUntil spec.Timestamp, extraSigners ...string) ServerKeys {
	pub, priv := f5Key("s1")
	b, err := json.Marshal(map[string]interface{}{
		"server_name":     "s1",
		"valid_until_ts":  validUntil,
		"verify_keys":     map[string]interface{}{"ed25519:k": map[string]string{"key": spec.Base64Bytes(pub).Encode()}},
		"old_verify_keys": map[string]interface{}{},
	})
	if err != nil {
		t.Fatal(err)
	}
	if b, err = SignJSON("s1", "ed25519:k", priv, b); err != nil {
		t.Fatal(err)
	}
	for _, s := range extraSigners {
		_, p := f5Key(s)
		if b, err = SignJSON(s, "ed25519:n", p, b); err != nil {
			t.Fatal(err)
		}
	}
	var sk ServerKeys
	if err = json.Unmarshal(b, &sk); err != nil {
		t.Fatal(err)
	}
	return sk
}

// A key response whose valid_until_ts lies a year in the past is accepted by both
// fetchers, handed to the key ring, used (lenient rule) and stored.
func TestAuditFinding5(t *testing.T) {
	now := spec.AsTimestamp(time.Now())
	yearAgo := now - 365*24*3600*1000
	want := PublicKeyLookupRequest{ServerName: "s1", KeyID: "ed25519:k"}
	reqs := map[PublicKeyLookupRequest]spec.Timestamp{want: now}

	direct := &DirectKeyFetcher{
		Client:            &f5Client{direct: f5Response(t, yearAgo)},
		IsLocalServerName: func(spec.ServerName) bool { return false },
	}
	got, _ := direct.FetchKeys(context.Background(), reqs)
	if _, ok := got[want]; ok {
		t.Errorf("DirectKeyFetcher accepted a key response whose valid_until_ts (%d) is a year in the past (now %d)", yearAgo, now)
	}

	notaryPub, _ := f5Key("notary")
	perspective := &PerspectiveKeyFetcher{
		PerspectiveServerName: "notary",
		PerspectiveServerKeys: map[KeyID]ed25519.PublicKey{"ed25519:n": notaryPub},
		Client:                &f5Client{notary: []ServerKeys{f5Response(t, yearAgo, "notary")}},
	}
	got, _ = perspective.FetchKeys(context.Background(), reqs)
	if _, ok := got[want]; ok {
		t.Errorf("PerspectiveKeyFetcher accepted a key response whose valid_until_ts (%d) is a year in the past (now %d)", yearAgo, now)
	}

	// end to end: under the lenient rule (room versions 1-4) the stale response is enough to verify
	_, priv := f5Key("s1")
	msg, err := SignJSON("s1", "ed25519:k", priv, []byte(`{"a":1}`))
	if err != nil {
		t.Fatal(err)
	}
	db := &f5DB{keys: map[PublicKeyLookupRequest]PublicKeyLookupResult{}}
	kr := &KeyRing{KeyDatabase: db, KeyFetchers: []KeyFetcher{direct}}
	res, err := kr.VerifyJSONs(context.Background(), []VerifyJSONRequest{{
		ServerName: "s1", AtTS: now, Message: msg, ValidityCheckingFunc: NoStrictValidityCheck,
	}})
	if err != nil {
		t.Fatal(err)
	}
	if res[0].Error == nil {
		t.Errorf("KeyRing.VerifyJSONs succeeded on the strength of a key response that expired a year ago")
	}
	if _, ok := db.keys[want]; ok {
		t.Errorf("the key from the expired response was stored in the key database")
	}
}
