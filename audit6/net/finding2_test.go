package fclient

// Audit finding 2 (property C13). Belongs in the package directory fclient/.
//
// ParseAuthorization checks that a parameter *name* is an RFC 7230 token, but
// an unquoted parameter *value* is taken as it comes: it may be empty, contain
// blanks in the middle, or bytes outside ASCII. An X-Matrix header that is not
// a list of name=token / name="quoted-string" pairs is therefore read like the
// well-formed header and the request is accepted instead of being refused as
// carrying a malformed X-Matrix header.

import (
	"bufio"
	"context"
	"crypto/ed25519"
	"fmt"
	"net/http"
	"strings"
	"testing"
	"time"

	"github.com/matrix-org/gomatrixserverlib"
	"github.com/matrix-org/gomatrixserverlib/spec"
)

type finding2Keys struct{ pub ed25519.PublicKey }

func (f finding2Keys) FetcherName() string { return "finding2Keys" }
func (f finding2Keys) FetchKeys(
	_ context.Context, reqs map[gomatrixserverlib.PublicKeyLookupRequest]spec.Timestamp,
) (map[gomatrixserverlib.PublicKeyLookupRequest]gomatrixserverlib.PublicKeyLookupResult, error) {
	res := map[gomatrixserverlib.PublicKeyLookupRequest]gomatrixserverlib.PublicKeyLookupResult{}
	for r := range reqs {
		res[r] = gomatrixserverlib.PublicKeyLookupResult{
			VerifyKey:    gomatrixserverlib.VerifyKey{Key: spec.Base64Bytes(f.pub)},
			ValidUntilTS: spec.AsTimestamp(time.Now().Add(time.Hour)),
		}
	}
	return res, nil
}
func (f finding2Keys) StoreKeys(context.Context, map[gomatrixserverlib.PublicKeyLookupRequest]gomatrixserverlib.PublicKeyLookupResult) error {
	return nil
}

func TestAuditFinding2(t *testing.T) {
	pub, priv, err := ed25519.GenerateKey(nil)
	if err != nil {
		t.Fatal(err)
	}
	keys := gomatrixserverlib.KeyRing{KeyDatabase: finding2Keys{pub}}

	fr := NewFederationRequest("PUT", "origin.example", "dest.example", "/_matrix/federation/v1/send/1?x=y")
	if err = fr.SetContent(map[string]interface{}{"a": "b"}); err != nil {
		t.Fatal(err)
	}
	if err = fr.Sign("origin.example", "ed25519:k1", priv); err != nil {
		t.Fatal(err)
	}
	hr, err := fr.HTTPRequest()
	if err != nil {
		t.Fatal(err)
	}
	genuine := hr.Header.Get("Authorization")
	body := string(fr.Content())

	verify := func(authorization string) int {
		raw := fmt.Sprintf("PUT /_matrix/federation/v1/send/1?x=y HTTP/1.1\r\nHost: dest.example\r\n"+
			"Authorization: %s\r\nContent-Type: application/json\r\nContent-Length: %d\r\n\r\n%s",
			authorization, len(body), body)
		req, err := http.ReadRequest(bufio.NewReader(strings.NewReader(raw)))
		if err != nil {
			t.Fatalf("%q: %v", authorization, err)
		}
		_, res := VerifyHTTPRequest(req, time.Now(), "dest.example", nil, keys)
		return res.Code
	}

	// the request as HTTPRequest sends it is accepted ...
	if code := verify(genuine); code != 200 {
		t.Fatalf("genuine request refused with %d", code)
	}
	// ... also with an additional, well-formed parameter (token or quoted-string)
	for _, extra := range []string{`,x=abc`, `,x="a b c"`, `, x = "a,b"`} {
		if code := verify(genuine + extra); code != 200 {
			t.Fatalf("well-formed header %q refused with %d", genuine+extra, code)
		}
	}

	// Headers that are not a list of name=token / name="quoted-string" pairs.
	noDestination := strings.Replace(genuine, `,destination="dest.example"`, "", 1)
	for _, malformed := range []string{
		genuine + `,x=a b c`,            // blanks inside an unquoted value
		genuine + `,x=a` + "\t" + `b`,   // HTAB inside an unquoted value
		genuine + `,x=`,                 // no value at all
		noDestination + `,destination=`, // no value at all, for a parameter the library reads
		noDestination + `,destination= ,x=1`,
		genuine + `,x=` + "é", // bytes outside ASCII in an unquoted value
	} {
		if code := verify(malformed); code == 200 {
			t.Errorf("request with the malformed header %q was accepted", malformed)
		}
	}
}
