package fclient

// Audit finding 1 (property C16). Belongs in the package directory fclient/.
//
// A Client that was not given WithWellKnownSRVLookups(true) - which is what
// NewClient() returns by default - does not apply the rules of the resolution
// algorithm that need no lookup at all:
//   - for a server name with an explicit port ("localhost:PORT",
//     "127.0.0.1:PORT") the TLS server name is the whole server name, port
//     included, instead of the host name / IP literal alone;
//   - for a server name without a port the connection goes to port 443 (the
//     default of the https scheme) instead of port 8448.

import (
	"context"
	"crypto/tls"
	"net"
	"net/http"
	"net/http/httptest"
	"sync"
	"testing"
	"time"

	"github.com/matrix-org/gomatrixserverlib/spec"
)

func TestAuditFinding1(t *testing.T) {
	var mu sync.Mutex
	var sni, host string
	handler := http.HandlerFunc(func(w http.ResponseWriter, r *http.Request) {
		mu.Lock()
		host = r.Host
		mu.Unlock()
		_, _ = w.Write([]byte(`{"server":{"name":"x","version":"1"}}`))
	})
	tlsConfig := func() *tls.Config {
		return &tls.Config{GetConfigForClient: func(chi *tls.ClientHelloInfo) (*tls.Config, error) {
			mu.Lock()
			sni = chi.ServerName
			mu.Unlock()
			return nil, nil
		}}
	}
	srv := httptest.NewUnstartedServer(handler)
	srv.TLS = tlsConfig()
	srv.StartTLS()
	defer srv.Close()
	_, port, _ := net.SplitHostPort(srv.Listener.Addr().String())

	// The same expectations hold with and without well-known / SRV lookups:
	// steps 1 and 2 of the algorithm never look anything up.
	for _, lookups := range []bool{true, false} {
		for _, tc := range []struct {
			name    spec.ServerName
			wantSNI string // what the TLS server name shows up as in the ClientHello
		}{
			// step 1: IP literal with port: certificate for the IP address (an
			// IP address is never sent as SNI, so the ClientHello carries none)
			{spec.ServerName("127.0.0.1:" + port), ""},
			// step 2: host name with port: certificate for the host name
			{spec.ServerName("localhost:" + port), "localhost"},
		} {
			mu.Lock()
			sni, host = "<no handshake>", "<no request>"
			mu.Unlock()
			client := NewClient(WithSkipVerify(true), WithWellKnownSRVLookups(lookups), WithTimeout(5*time.Second))
			if _, err := client.GetVersion(context.Background(), tc.name); err != nil {
				if tc.wantSNI != "" {
					t.Logf("skipping %q: %v", tc.name, err) // no "localhost" on this machine
					continue
				}
				t.Errorf("lookups=%v: GetVersion(%q): %v", lookups, tc.name, err)
				continue
			}
			mu.Lock()
			gotSNI, gotHost := sni, host
			mu.Unlock()
			if gotSNI != tc.wantSNI {
				t.Errorf("lookups=%v server name %q: TLS server name in the ClientHello is %q, want %q (the host without the port)",
					lookups, tc.name, gotSNI, tc.wantSNI)
			}
			if gotHost != string(tc.name) {
				t.Errorf("lookups=%v server name %q: Host header %q, want %q", lookups, tc.name, gotHost, tc.name)
			}
		}
	}

	// A server name without port is reached on port 8448.
	ln, err := net.Listen("tcp", "127.0.0.1:8448")
	if err != nil {
		t.Logf("cannot listen on 127.0.0.1:8448 (%v): port part of the finding not exercised", err)
		return
	}
	srv8448 := httptest.NewUnstartedServer(handler)
	_ = srv8448.Listener.Close()
	srv8448.Listener = ln
	srv8448.TLS = tlsConfig()
	srv8448.StartTLS()
	defer srv8448.Close()
	for _, lookups := range []bool{true, false} {
		client := NewClient(WithSkipVerify(true), WithWellKnownSRVLookups(lookups), WithTimeout(5*time.Second))
		if _, err := client.GetVersion(context.Background(), "127.0.0.1"); err != nil {
			t.Errorf("lookups=%v: server name \"127.0.0.1\" was not reached on 127.0.0.1:8448: %v", lookups, err)
		}
	}
}
