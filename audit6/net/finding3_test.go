package fclient

// Audit finding 3 (property C16). Belongs in the package directory fclient/.
//
// A DNS cache created without allow / deny network lists refuses every
// connection. newDestinationTripperDialer installs the allow / deny control
// function only when a list is configured ("By default, all networks are
// allowed"), NewDNSCache installs it always - and with an empty allow list
// isAllowed is false for every address. A client given such a cache cannot
// reach any server, although no network policy forbids anything.

import (
	"context"
	"net"
	"net/http"
	"net/http/httptest"
	"testing"
	"time"

	"github.com/matrix-org/gomatrixserverlib/spec"
)

func TestAuditFinding3(t *testing.T) {
	srv := httptest.NewTLSServer(http.HandlerFunc(func(w http.ResponseWriter, r *http.Request) {
		_, _ = w.Write([]byte(`{"server":{"name":"x","version":"1"}}`))
	}))
	defer srv.Close()
	_, port, _ := net.SplitHostPort(srv.Listener.Addr().String())
	serverName := spec.ServerName("127.0.0.1:" + port) // step 1 of the resolution: no lookups

	get := func(options ...ClientOption) error {
		options = append(options, WithSkipVerify(true), WithWellKnownSRVLookups(true), WithTimeout(5*time.Second))
		_, err := NewClient(options...).GetVersion(context.Background(), serverName)
		return err
	}

	// controls: no lists and no cache; a cache with lists that allow the address
	if err := get(); err != nil {
		t.Fatalf("client without lists and without DNS cache: %v", err)
	}
	if err := get(WithDNSCache(NewDNSCache(16, time.Minute, []string{"127.0.0.0/8"}, nil))); err != nil {
		t.Fatalf("client with a DNS cache that allows 127.0.0.0/8: %v", err)
	}

	// no lists configured anywhere: nothing is forbidden
	for name, cache := range map[string]*DNSCache{
		"nil lists":   NewDNSCache(16, time.Minute, nil, nil),
		"empty lists": NewDNSCache(16, time.Minute, []string{}, []string{}),
	} {
		if err := get(WithDNSCache(cache)); err != nil {
			t.Errorf("client with a DNS cache created with %s cannot connect to %s: %v", name, serverName, err)
		}
	}
}
