// Audit round 6, federation, finding 2.
//
// Belongs in the package root directory of gomatrixserverlib (package
// gomatrixserverlib, next to backfill.go). Self-contained: every helper it
// needs is defined here under the prefix auditF2.
package gomatrixserverlib

import (
	"context"
	"crypto/ed25519"
	"encoding/json"
	"fmt"
	"testing"
	"time"

	"github.com/matrix-org/gomatrixserverlib/spec"
)

type auditF2Verifier struct {
	keys map[spec.ServerName]ed25519.PublicKey
}

func (v *auditF2Verifier) VerifyJSONs(ctx context.Context, requests []VerifyJSONRequest) ([]VerifyJSONResult, error) {
	res := make([]VerifyJSONResult, len(requests))
	for i, r := range requests {
		pk, ok := v.keys[r.ServerName]
		if !ok {
			res[i].Error = fmt.Errorf("no key for %q", r.ServerName)
			continue
		}
		res[i].Error = VerifyJSON(string(r.ServerName), "ed25519:k", pk, r.Message)
	}
	return res, nil
}

func auditF2UserIDForSender(roomID spec.RoomID, senderID spec.SenderID) (*spec.UserID, error) {
	return spec.NewUserID(string(senderID), true)
}

// auditF2Requester is a BackfillRequester over a fixed room: the local server
// knows create, the admin's join, the power levels and the join rules (they are
// the state before every backfilled event, and what ProvideEvents can return);
// the remote server answers /backfill with the given PDUs.
type auditF2Requester struct {
	known map[string]PDU
	pdus  []json.RawMessage
}

func (b *auditF2Requester) StateIDsBeforeEvent(ctx context.Context, event PDU) ([]string, error) {
	ids := []string{}
	for id := range b.known {
		ids = append(ids, id)
	}
	return ids, nil
}
func (b *auditF2Requester) StateBeforeEvent(ctx context.Context, roomVer RoomVersion, event PDU, eventIDs []string) (map[string]PDU, error) {
	return b.known, nil
}
func (b *auditF2Requester) ServersAtEvent(ctx context.Context, roomID, eventID string) []spec.ServerName {
	return []spec.ServerName{"remote"}
}
func (b *auditF2Requester) Backfill(ctx context.Context, origin, server spec.ServerName, roomID string, limit int, fromEventIDs []string) (Transaction, error) {
	return Transaction{PDUs: b.pdus}, nil
}
func (b *auditF2Requester) ProvideEvents(roomVer RoomVersion, eventIDs []string) ([]PDU, error) {
	var out []PDU
	for _, id := range eventIDs {
		if e, ok := b.known[id]; ok {
			out = append(out, e)
		}
	}
	return out, nil
}

type auditF2Room struct {
	t     *testing.T
	ver   RoomVersion
	privs map[spec.ServerName]ed25519.PrivateKey
	depth int64
	last  string
}

func (r *auditF2Room) event(sender, typ string, stateKey *string, content string, auth []PDU) PDU {
	r.t.Helper()
	r.depth++
	prev := []string{}
	if r.last != "" {
		prev = []string{r.last}
	}
	authIDs := []string{}
	for _, a := range auth {
		authIDs = append(authIDs, a.EventID())
	}
	_, domain, err := SplitID('@', sender)
	if err != nil {
		r.t.Fatal(err)
	}
	eb := MustGetRoomVersion(r.ver).NewEventBuilderFromProtoEvent(&ProtoEvent{
		SenderID: sender, RoomID: "!room:remote", Type: typ, StateKey: stateKey,
		PrevEvents: prev, AuthEvents: authIDs, Depth: r.depth, Content: spec.RawJSON(content),
	})
	ev, err := eb.Build(time.UnixMilli(1700000000000+r.depth), domain, "ed25519:k", r.privs[domain])
	if err != nil {
		r.t.Fatalf("building %s: %v", typ, err)
	}
	r.last = ev.EventID()
	return ev
}

// auditF2DamageSignature flips one character of every signature of the event.
func auditF2DamageSignature(t *testing.T, e PDU) json.RawMessage {
	var m map[string]json.RawMessage
	if err := json.Unmarshal(e.JSON(), &m); err != nil {
		t.Fatal(err)
	}
	var sigs map[string]map[string]string
	if err := json.Unmarshal(m["signatures"], &sigs); err != nil {
		t.Fatal(err)
	}
	for s, ks := range sigs {
		for k, v := range ks {
			b := []byte(v)
			if b[3] == 'A' {
				b[3] = 'B'
			} else {
				b[3] = 'A'
			}
			sigs[s][k] = string(b)
		}
	}
	m["signatures"], _ = json.Marshal(sigs)
	out, err := json.Marshal(m)
	if err != nil {
		t.Fatal(err)
	}
	if out, err = CanonicalJSON(out); err != nil {
		t.Fatal(err)
	}
	return out
}

// TestAuditFinding2: RequestBackfill keeps an event whose signature does not
// verify (deliberately: the key may have been rotated since). But it keeps such
// an event without ever running the auth checks on it, because LoadAndVerify
// stops at the first failing check: an event that the auth rules forbid is
// dropped when its signature is good, and handed out as "safe to be inserted
// into a database" when its signature has been damaged as well.
func TestAuditFinding2(t *testing.T) {
	empty := ""
	for _, ver := range []RoomVersion{RoomVersionV1, RoomVersionV6, RoomVersionV10, RoomVersionV11} {
		r := &auditF2Room{t: t, ver: ver, privs: map[spec.ServerName]ed25519.PrivateKey{}}
		verifier := &auditF2Verifier{keys: map[spec.ServerName]ed25519.PublicKey{}}
		for i, s := range []spec.ServerName{"remote", "evil"} {
			seed := make([]byte, ed25519.SeedSize)
			seed[0] = byte(i + 1)
			r.privs[s] = ed25519.NewKeyFromSeed(seed)
			verifier.keys[s] = r.privs[s].Public().(ed25519.PublicKey)
		}
		admin := "@admin:remote"
		create := r.event(admin, "m.room.create", &empty, `{"creator":"@admin:remote","room_version":"`+string(ver)+`"}`, nil)
		adminJoin := r.event(admin, "m.room.member", &admin, `{"membership":"join"}`, []PDU{create})
		pl := r.event(admin, "m.room.power_levels", &empty, `{"users":{"@admin:remote":100}}`, []PDU{create, adminJoin})
		jr := r.event(admin, "m.room.join_rules", &empty, `{"join_rule":"invite"}`, []PDU{create, adminJoin, pl})
		// Forbidden by the auth rules: @e:evil is not a member of the (invite-only)
		// room and makes itself its only administrator.
		forbidden := r.event("@e:evil", "m.room.power_levels", &empty, `{"users":{"@e:evil":100}}`, []PDU{create, adminJoin, pl})
		// An ordinary, allowed event, so that the response is not empty.
		message := r.event(admin, "m.room.message", nil, `{"body":"hello"}`, []PDU{create, adminJoin, pl})

		known := map[string]PDU{}
		for _, e := range []PDU{create, adminJoin, pl, jr} {
			known[e.EventID()] = e
		}
		contains := func(evs []PDU, id string) bool {
			for _, e := range evs {
				if e.EventID() == id {
					return true
				}
			}
			return false
		}

		// Control: with its signature intact the forbidden event is dropped.
		b := &auditF2Requester{known: known, pdus: []json.RawMessage{json.RawMessage(forbidden.JSON()), json.RawMessage(message.JSON())}}
		out, err := RequestBackfill(context.Background(), "local", b, verifier, "!room:remote", ver, []string{message.EventID()}, 10, auditF2UserIDForSender)
		if err != nil {
			t.Fatalf("room version %s: %v", ver, err)
		}
		if !contains(out, message.EventID()) || contains(out, forbidden.EventID()) {
			t.Fatalf("room version %s: control failed: the allowed message must be kept and the forbidden power-levels event dropped", ver)
		}

		// The same response, but the forbidden event now also has a damaged signature.
		b = &auditF2Requester{known: known, pdus: []json.RawMessage{auditF2DamageSignature(t, forbidden), json.RawMessage(message.JSON())}}
		out, err = RequestBackfill(context.Background(), "local", b, verifier, "!room:remote", ver, []string{message.EventID()}, 10, auditF2UserIDForSender)
		if err != nil {
			t.Fatalf("room version %s: %v", ver, err)
		}
		if contains(out, forbidden.EventID()) {
			t.Errorf("room version %s: RequestBackfill returned a power-levels event of a non-member that the auth rules forbid "+
				"(and that it drops when the signature is good), because its signature is damaged too", ver)
		}
	}
}
