// Audit round 6, federation, finding 1.
//
// Belongs in the package root directory of gomatrixserverlib (package
// gomatrixserverlib, next to authstate.go). Self-contained: every helper it
// needs is defined here under the prefix auditF1.
package gomatrixserverlib

import (
	"context"
	"crypto/ed25519"
	"encoding/json"
	"fmt"
	"testing"
	"time"

	"github.com/matrix-org/gomatrixserverlib/spec"
)

// auditF1Verifier checks signatures against a fixed set of server keys.
type auditF1Verifier struct {
	keys map[spec.ServerName]ed25519.PublicKey
}

func (v *auditF1Verifier) VerifyJSONs(ctx context.Context, requests []VerifyJSONRequest) ([]VerifyJSONResult, error) {
	res := make([]VerifyJSONResult, len(requests))
	for i, r := range requests {
		pk, ok := v.keys[r.ServerName]
		if !ok {
			res[i].Error = fmt.Errorf("no key for %q", r.ServerName)
			continue
		}
		res[i].Error = VerifyJSON(string(r.ServerName), "ed25519:k", pk, r.Message)
	}
	return res, nil
}

func auditF1UserIDForSender(roomID spec.RoomID, senderID spec.SenderID) (*spec.UserID, error) {
	return spec.NewUserID(string(senderID), true)
}

type auditF1StateResp struct{ auth, state EventJSONs }

func (s *auditF1StateResp) GetAuthEvents() EventJSONs  { return s.auth }
func (s *auditF1StateResp) GetStateEvents() EventJSONs { return s.state }

type auditF1Room struct {
	t     *testing.T
	ver   RoomVersion
	privs map[spec.ServerName]ed25519.PrivateKey
	depth int64
	last  string
}

func (r *auditF1Room) event(sender, typ, stateKey, content string, auth []PDU, extraSigners ...spec.ServerName) PDU {
	r.t.Helper()
	r.depth++
	prev := []string{}
	if r.last != "" {
		prev = []string{r.last}
	}
	authIDs := []string{}
	for _, a := range auth {
		authIDs = append(authIDs, a.EventID())
	}
	_, domain, err := SplitID('@', sender)
	if err != nil {
		r.t.Fatal(err)
	}
	eb := MustGetRoomVersion(r.ver).NewEventBuilderFromProtoEvent(&ProtoEvent{
		SenderID: sender, RoomID: "!room:remote", Type: typ, StateKey: &stateKey,
		PrevEvents: prev, AuthEvents: authIDs, Depth: r.depth, Content: spec.RawJSON(content),
	})
	ev, err := eb.Build(time.UnixMilli(1700000000000+r.depth), domain, "ed25519:k", r.privs[domain])
	if err != nil {
		r.t.Fatalf("building %s: %v", typ, err)
	}
	for _, s := range extraSigners {
		ev = ev.Sign(string(s), "ed25519:k", r.privs[s])
	}
	r.last = ev.EventID()
	return ev
}

func auditF1JSONs(evs ...PDU) EventJSONs {
	out := EventJSONs{}
	for _, e := range evs {
		out = append(out, e.JSON())
	}
	return out
}

// TestAuditFinding1: CheckSendJoinResponse must let the intact copy of an auth
// event stand for it wherever the second (hash-broken, hence redacted) copy is
// listed. It does so when the broken copy is listed among the state events
// (fix 5006eb5), but not when the auth chain itself lists the intact copy
// first and the broken copy after it: the later copy replaces the earlier one
// in the lookup table, and a restricted join that the real power levels forbid
// (invite: 50, authorising user at level 0) is accepted, because the redacted
// power-levels event of room versions 1-10 has lost "invite".
func TestAuditFinding1(t *testing.T) {
	const plContent = `{"ban":50,"events_default":0,"invite":50,"kick":50,"redact":50,"state_default":50,"users":{"@admin:remote":100},"users_default":0}`
	// Same as plContent except "invite", which redaction (v1-v10) does not keep:
	// the signatures stay valid, the content hash does not match any more.
	const plTampered = `{"ban":50,"events_default":0,"invite":0,"kick":50,"redact":50,"state_default":50,"users":{"@admin:remote":100},"users_default":0}`

	for _, ver := range []RoomVersion{RoomVersionV8, RoomVersionV9, RoomVersionV10} {
		r := &auditF1Room{t: t, ver: ver, privs: map[spec.ServerName]ed25519.PrivateKey{}}
		verifier := &auditF1Verifier{keys: map[spec.ServerName]ed25519.PublicKey{}}
		for i, s := range []spec.ServerName{"remote", "local"} {
			seed := make([]byte, ed25519.SeedSize)
			seed[0] = byte(i + 1)
			r.privs[s] = ed25519.NewKeyFromSeed(seed)
			verifier.keys[s] = r.privs[s].Public().(ed25519.PublicKey)
		}

		create := r.event("@admin:remote", "m.room.create", "", `{"creator":"@admin:remote","room_version":"`+string(ver)+`"}`, nil)
		adminJoin := r.event("@admin:remote", "m.room.member", "@admin:remote", `{"membership":"join"}`, []PDU{create})
		pl := r.event("@admin:remote", "m.room.power_levels", "", plContent, []PDU{create, adminJoin})
		jr := r.event("@admin:remote", "m.room.join_rules", "", `{"join_rule":"restricted","allow":[{"type":"m.room_membership","room_id":"!other:remote"}]}`, []PDU{create, adminJoin, pl})
		resInvite := r.event("@admin:remote", "m.room.member", "@res:remote", `{"membership":"invite"}`, []PDU{create, adminJoin, pl, jr})
		resJoin := r.event("@res:remote", "m.room.member", "@res:remote", `{"membership":"join"}`, []PDU{create, pl, jr, resInvite})
		// The join to be checked: authorised by @res:remote, who has level 0 < invite 50.
		join := r.event("@joiner:local", "m.room.member", "@joiner:local",
			`{"membership":"join","join_authorised_via_users_server":"@res:remote"}`,
			[]PDU{create, pl, jr, resJoin}, "remote")

		// The copy of the power-levels event with a content that does not match its hash.
		var plMap map[string]json.RawMessage
		if err := json.Unmarshal(pl.JSON(), &plMap); err != nil {
			t.Fatal(err)
		}
		plMap["content"] = json.RawMessage(plTampered)
		plBroken, err := json.Marshal(plMap)
		if err != nil {
			t.Fatal(err)
		}
		if plBroken, err = CanonicalJSON(plBroken); err != nil {
			t.Fatal(err)
		}
		// sanity: it parses as the redacted form of the same event
		parsed, err := MustGetRoomVersion(ver).NewEventFromUntrustedJSON(plBroken)
		if err != nil || !parsed.Redacted() || parsed.EventID() != pl.EventID() {
			t.Fatalf("v%s: broken copy does not parse as the redacted power-levels event: %v", ver, err)
		}

		state := append(auditF1JSONs(create, adminJoin), plBroken)
		state = append(state, auditF1JSONs(jr, resJoin)...)

		cases := map[string]EventJSONs{
			// handled since fix 5006eb5
			"intact copy only in auth chain":            auditF1JSONs(create, adminJoin, pl, jr, resInvite, resJoin),
			"auth chain lists broken copy, then intact": append(append(auditF1JSONs(create, adminJoin), plBroken), auditF1JSONs(pl, jr, resInvite, resJoin)...),
			// the failing input
			"auth chain lists intact copy, then broken": append(append(auditF1JSONs(create, adminJoin, pl), plBroken), auditF1JSONs(jr, resInvite, resJoin)...),
		}
		for name, auth := range cases {
			resp := &auditF1StateResp{auth: auth, state: state}
			_, err := CheckSendJoinResponse(context.Background(), ver, resp, verifier, join, nil, auditF1UserIDForSender)
			if err == nil {
				t.Errorf("room version %s, %s: the join was accepted although the intact power-levels event, "+
					"which arrived with verified signatures, forbids it (authorising user 0 < invite 50)", ver, name)
			}
		}
	}
}
