// Audit round 6, federation, finding 3.
//
// Belongs in the package root directory of gomatrixserverlib (package
// gomatrixserverlib, next to authstate.go). Self-contained: every helper it
// needs is defined here under the prefix auditF3.
package gomatrixserverlib

import (
	"context"
	"crypto/ed25519"
	"testing"
	"time"

	"github.com/matrix-org/gomatrixserverlib/spec"
)

func auditF3UserIDForSender(roomID spec.RoomID, senderID spec.SenderID) (*spec.UserID, error) {
	return spec.NewUserID(string(senderID), true)
}

type auditF3StateResp struct{ auth, state EventJSONs }

func (s *auditF3StateResp) GetAuthEvents() EventJSONs  { return s.auth }
func (s *auditF3StateResp) GetStateEvents() EventJSONs { return s.state }

type auditF3StateIDs struct{ ids []string }

func (s auditF3StateIDs) GetStateEventIDs() []string { return s.ids }
func (s auditF3StateIDs) GetAuthEventIDs() []string  { return nil }

// auditF3Client plays the remote server behind FederatedStateProvider.
type auditF3Client struct {
	state EventJSONs
	ids   []string
}

func (c *auditF3Client) LookupState(ctx context.Context, origin, s spec.ServerName, roomID, eventID string, roomVersion RoomVersion) (StateResponse, error) {
	return &auditF3StateResp{state: c.state}, nil
}
func (c *auditF3Client) LookupStateIDs(ctx context.Context, origin, s spec.ServerName, roomID, eventID string) (StateIDResponse, error) {
	return auditF3StateIDs{c.ids}, nil
}

type auditF3Room struct {
	t     *testing.T
	priv  ed25519.PrivateKey
	depth int64
	last  string
}

func (r *auditF3Room) event(sender, typ string, stateKey *string, content string, auth ...PDU) PDU {
	r.t.Helper()
	r.depth++
	prev := []string{}
	if r.last != "" {
		prev = []string{r.last}
	}
	authIDs := []string{}
	for _, a := range auth {
		authIDs = append(authIDs, a.EventID())
	}
	eb := MustGetRoomVersion(RoomVersionV10).NewEventBuilderFromProtoEvent(&ProtoEvent{
		SenderID: sender, RoomID: "!room:remote", Type: typ, StateKey: stateKey,
		PrevEvents: prev, AuthEvents: authIDs, Depth: r.depth, Content: spec.RawJSON(content),
	})
	ev, err := eb.Build(time.UnixMilli(1700000000000+r.depth), "remote", "ed25519:k", r.priv)
	if err != nil {
		r.t.Fatalf("building %s: %v", typ, err)
	}
	r.last = ev.EventID()
	return ev
}

// TestAuditFinding3: the verdict of VerifyAuthRulesAtState has to be a function
// of its input. With a /state answer that lists two events for one state key
// (here: the old and the current power levels) it is not: the state comes back
// from the StateProvider as a map, and whichever of the two events the map
// iteration yields last is the one the event is judged against.
func TestAuditFinding3(t *testing.T) {
	empty, admin, user := "", "@admin:remote", "@u:remote"
	r := &auditF3Room{t: t, priv: ed25519.NewKeyFromSeed(make([]byte, ed25519.SeedSize))}
	create := r.event(admin, "m.room.create", &empty, `{"creator":"@admin:remote","room_version":"10"}`)
	adminJoin := r.event(admin, "m.room.member", &admin, `{"membership":"join"}`, create)
	plOld := r.event(admin, "m.room.power_levels", &empty, `{"users":{"@admin:remote":100},"events_default":0}`, create, adminJoin)
	invite := r.event(admin, "m.room.member", &user, `{"membership":"invite"}`, create, adminJoin, plOld)
	userJoin := r.event(user, "m.room.member", &user, `{"membership":"join"}`, create, plOld, invite)
	// the current power levels: ordinary users may not send messages any more
	plNew := r.event(admin, "m.room.power_levels", &empty, `{"users":{"@admin:remote":100},"events_default":50}`, create, adminJoin, plOld)
	// @u:remote's message cites the old power levels; the state before it holds the new ones
	message := r.event(user, "m.room.message", nil, `{"body":"hello"}`, create, plOld, userJoin)

	jsons := func(evs ...PDU) EventJSONs {
		out := EventJSONs{}
		for _, e := range evs {
			out = append(out, e.JSON())
		}
		return out
	}

	// Control: a well-formed state (the new power levels only) refuses the message.
	sp := &FederatedStateProvider{Origin: "local", Server: "remote", FedClient: &auditF3Client{
		state: jsons(create, adminJoin, plNew, userJoin),
		ids:   []string{create.EventID(), adminJoin.EventID(), plNew.EventID(), userJoin.EventID()},
	}}
	if err := VerifyAuthRulesAtState(context.Background(), sp, message, true, auditF3UserIDForSender); err == nil {
		t.Fatalf("control failed: the message is allowed although the state before it sets events_default to 50")
	}

	// The remote's /state_ids answer is the same, its /state answer additionally
	// lists the old power-levels event: two events for (m.room.power_levels, "").
	accepted, refused := 0, 0
	for i := 0; i < 300; i++ {
		sp := &FederatedStateProvider{Origin: "local", Server: "remote", FedClient: &auditF3Client{
			state: jsons(create, adminJoin, plOld, plNew, userJoin),
			ids:   []string{create.EventID(), adminJoin.EventID(), plNew.EventID(), userJoin.EventID()},
		}}
		if err := VerifyAuthRulesAtState(context.Background(), sp, message, true, auditF3UserIDForSender); err == nil {
			accepted++
		} else {
			refused++
		}
	}
	if accepted != 0 {
		t.Errorf("the same call gave two different verdicts: accepted %d times, refused %d times "+
			"(expected: refused every time - the state named by /state_ids forbids the event, and a state that "+
			"lists two events for one state key is not a room state)", accepted, refused)
	}
}
