package gomatrixserverlib

import (
	"encoding/json"
	"fmt"
	"sort"
	"testing"

	"github.com/matrix-org/gomatrixserverlib/spec"
)

// Belongs in the package root directory (package gomatrixserverlib).
//
// A state set is handed to ResolveConflictsNew as a list. When an event is
// listed twice in one of the lists, splitConflictedUnconflicted counts the
// listings instead of the state sets that hold the event:
//
//   - an event held by EVERY state set is classed as conflicted (count 3 != 2
//     state sets), is put through the iterative auth checks and can be dropped
//     from the result, although all state sets agree on it;
//   - an event held by only ONE of two state sets, listed twice there, is
//     classed as unconflicted (count 2 == 2 state sets) and is taken into the
//     result without any auth check.
func TestAuditFinding1(t *testing.T) {
	const (
		alice = "@alice:a.example"
		bob   = "@bob:a.example"
		room  = "!room:a.example"
	)
	userIDForSender := func(roomID spec.RoomID, senderID spec.SenderID) (*spec.UserID, error) {
		return spec.NewUserID(string(senderID), true)
	}
	notRejected := func(string) bool { return false }
	verImpl := MustGetRoomVersion(RoomVersionV10)
	mk := func(typ, stateKey, sender string, ts int, content string, auth []PDU, prev []PDU) PDU {
		ids := func(evs []PDU) []string {
			out := []string{}
			for _, e := range evs {
				out = append(out, e.EventID())
			}
			return out
		}
		b, err := json.Marshal(map[string]interface{}{
			"type": typ, "state_key": stateKey, "sender": sender, "room_id": room,
			"origin_server_ts": ts, "depth": ts, "content": json.RawMessage(content),
			"auth_events": ids(auth), "prev_events": ids(prev),
			"hashes": map[string]string{"sha256": "aaaa"}, "signatures": map[string]interface{}{},
		})
		if err != nil {
			t.Fatal(err)
		}
		ev, err := verImpl.NewEventFromTrustedJSON(b, false)
		if err != nil {
			t.Fatal(err)
		}
		return ev
	}
	create := mk(spec.MRoomCreate, "", alice, 1, `{"creator":"`+alice+`","room_version":"10"}`, nil, nil)
	aJoin := mk(spec.MRoomMember, alice, alice, 2, `{"membership":"join"}`, []PDU{create}, []PDU{create})
	pl1 := mk(spec.MRoomPowerLevels, "", alice, 3, `{"users":{"`+alice+`":100,"`+bob+`":50}}`, []PDU{create, aJoin}, []PDU{aJoin})
	jr := mk(spec.MRoomJoinRules, "", alice, 4, `{"join_rule":"public"}`, []PDU{create, aJoin, pl1}, []PDU{pl1})
	bJoin := mk(spec.MRoomMember, bob, bob, 5, `{"membership":"join"}`, []PDU{create, pl1, jr}, []PDU{jr})
	// Bob (level 50) sets the topic ...
	topic := mk("m.room.topic", "", bob, 6, `{"topic":"bob's topic"}`, []PDU{create, pl1, bJoin}, []PDU{bJoin})
	// ... and Alice then takes Bob's level away. The topic stays the room's topic.
	pl2 := mk(spec.MRoomPowerLevels, "", alice, 7, `{"users":{"`+alice+`":100}}`, []PDU{create, aJoin, pl1}, []PDU{topic})

	state := []PDU{create, aJoin, pl2, jr, bJoin, topic}
	authChain := []PDU{create, aJoin, pl1, jr, bJoin}
	idsOf := func(evs []PDU) string {
		var out []string
		for _, e := range evs {
			out = append(out, e.Type()+"|"+*e.StateKey()+"="+e.EventID())
		}
		sort.Strings(out)
		return fmt.Sprint(out)
	}

	// sanity: without a repeated entry equal state sets resolve to themselves
	res, err := ResolveConflictsNew(RoomVersionV10, [][]PDU{state, state}, authChain, userIDForSender, notRejected)
	if err != nil {
		t.Fatal(err)
	}
	if idsOf(res) != idsOf(state) {
		t.Fatalf("sanity check failed: equal state sets resolve to\n%s\nwant\n%s", idsOf(res), idsOf(state))
	}

	// (a) both servers hold exactly the same state; one list names the topic twice
	withDup := append(append([]PDU{}, state...), topic)
	for i, sets := range [][][]PDU{{withDup, state}, {state, withDup}, {withDup, withDup}} {
		res, err = ResolveConflictsNew(RoomVersionV10, sets, authChain, userIDForSender, notRejected)
		if err != nil {
			t.Fatal(err)
		}
		if idsOf(res) != idsOf(state) {
			t.Errorf("(a.%d) state sets that all hold the same state do not resolve to that state when one list names an event twice:\n got %s\nwant %s", i, idsOf(res), idsOf(state))
		}
	}

	// (b) only one of the two state sets holds an m.room.name event, sent by Bob
	// after he lost his level (it fails the auth rules against either state). Named
	// once it is conflicted and is refused; named twice it is "unconflicted".
	name := mk("m.room.name", "", bob, 8, `{"name":"bob's room"}`, []PDU{create, pl2, bJoin}, []PDU{pl2})
	authChain2 := []PDU{create, aJoin, pl1, pl2, jr, bJoin}
	once := append(append([]PDU{}, state...), name)
	twice := append(append([]PDU{}, once...), name)
	resOnce, err := ResolveConflictsNew(RoomVersionV10, [][]PDU{once, state}, authChain2, userIDForSender, notRejected)
	if err != nil {
		t.Fatal(err)
	}
	resTwice, err := ResolveConflictsNew(RoomVersionV10, [][]PDU{twice, state}, authChain2, userIDForSender, notRejected)
	if err != nil {
		t.Fatal(err)
	}
	if idsOf(resOnce) != idsOf(resTwice) {
		t.Errorf("(b) naming an event of one state set twice changes the resolved state:\n once  %s\n twice %s", idsOf(resOnce), idsOf(resTwice))
	}
}
