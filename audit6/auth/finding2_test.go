package gomatrixserverlib

// Audit finding 2 (C07). Belongs in the package root directory
// (package gomatrixserverlib, next to eventauth.go).
//
// "If the join_rule is public, allow" (after the sender = state_key and ban
// checks). The library allows a join under the public rule only when the
// previous membership is "leave" or "knock"; a previous member event whose
// membership is anything else that is not "ban" / "invite" / "join" (an
// unknown value, or no membership member at all) gets the join refused.

import (
	"encoding/json"
	"fmt"
	"testing"

	"github.com/matrix-org/gomatrixserverlib/spec"
)

var auditF2Seq int

func auditF2Event(t *testing.T, ver RoomVersion, roomID, typ, sender string, stateKey *string, content string) PDU {
	t.Helper()
	auditF2Seq++
	m := map[string]interface{}{
		"sender":           sender,
		"type":             typ,
		"content":          json.RawMessage(content),
		"origin_server_ts": 1000 + auditF2Seq,
		"depth":            auditF2Seq,
		"hashes":           map[string]string{"sha256": "x"},
		"signatures":       map[string]interface{}{},
	}
	if roomID != "" {
		m["room_id"] = roomID
	}
	if stateKey != nil {
		m["state_key"] = *stateKey
	}
	if ver == RoomVersionV1 || ver == RoomVersionV2 {
		m["event_id"] = fmt.Sprintf("$f2-%d:a.example", auditF2Seq)
		m["prev_events"] = [][]interface{}{{"$prev:a.example", map[string]string{}}}
		m["auth_events"] = [][]interface{}{}
	} else {
		m["prev_events"] = []string{"$prev"}
		m["auth_events"] = []string{}
	}
	b, err := json.Marshal(m)
	if err != nil {
		t.Fatal(err)
	}
	ev, err := MustGetRoomVersion(ver).NewEventFromTrustedJSON(b, false)
	if err != nil {
		t.Fatalf("cannot build event: %v", err)
	}
	return ev
}

func auditF2UserID(_ spec.RoomID, senderID spec.SenderID) (*spec.UserID, error) {
	return spec.NewUserID(string(senderID), true)
}

func TestAuditFinding2(t *testing.T) {
	empty := ""
	user := "@user:a.example"
	versions := []RoomVersion{
		RoomVersionV1, RoomVersionV2, RoomVersionV3, RoomVersionV4, RoomVersionV5, RoomVersionV6,
		RoomVersionV7, RoomVersionV8, RoomVersionV9, RoomVersionV10, RoomVersionV11, RoomVersionV12,
	}
	for _, ver := range versions {
		createRoomID := "!room:a.example"
		if ver == RoomVersionV12 {
			createRoomID = ""
		}
		create := auditF2Event(t, ver, createRoomID, spec.MRoomCreate, "@creator:a.example", &empty,
			fmt.Sprintf(`{"creator":"@creator:a.example","room_version":%q}`, ver))
		roomID := create.RoomID().String()
		joinRules := auditF2Event(t, ver, roomID, spec.MRoomJoinRules, "@creator:a.example", &empty, `{"join_rule":"public"}`)
		join := auditF2Event(t, ver, roomID, spec.MRoomMember, user, &user, `{"membership":"join"}`)

		for _, previous := range []string{
			`{"membership":"leave"}`, // control: allowed today
			`{"membership":"somethingelse"}`,
			`{"membership":""}`,
			`{}`,
		} {
			old := auditF2Event(t, ver, roomID, spec.MRoomMember, user, &user, previous)
			provider, err := NewAuthEvents([]PDU{create, joinRules, old})
			if err != nil {
				t.Fatal(err)
			}
			if err = Allowed(join, provider, auditF2UserID); err != nil {
				t.Errorf("room version %s: join under join_rule public with previous member content %s refused: %v", ver, previous, err)
			}
		}
	}
}
