package gomatrixserverlib

// Audit finding 1 (C08 / C07). Belongs in the package root directory
// (package gomatrixserverlib, next to eventauth.go).
//
// A notifications entry other than "room" has no default in Matrix; the library
// compares it as if an absent entry were 50. A sender below 50 can therefore
// set notifications.<key> to 50 (above their own level) and can remove an entry
// of 50, while adding an entry at or below their own level is refused.

import (
	"encoding/json"
	"fmt"
	"testing"

	"github.com/matrix-org/gomatrixserverlib/spec"
)

var auditF1Seq int

func auditF1Event(t *testing.T, ver RoomVersion, roomID, typ, sender string, stateKey *string, content string) PDU {
	t.Helper()
	auditF1Seq++
	m := map[string]interface{}{
		"sender":           sender,
		"type":             typ,
		"content":          json.RawMessage(content),
		"origin_server_ts": 1000 + auditF1Seq,
		"depth":            auditF1Seq,
		"hashes":           map[string]string{"sha256": "x"},
		"signatures":       map[string]interface{}{},
		"prev_events":      []string{"$prev"},
		"auth_events":      []string{},
	}
	if roomID != "" {
		m["room_id"] = roomID
	}
	if stateKey != nil {
		m["state_key"] = *stateKey
	}
	b, err := json.Marshal(m)
	if err != nil {
		t.Fatal(err)
	}
	ev, err := MustGetRoomVersion(ver).NewEventFromTrustedJSON(b, false)
	if err != nil {
		t.Fatalf("cannot build event: %v", err)
	}
	return ev
}

func auditF1UserID(_ spec.RoomID, senderID spec.SenderID) (*spec.UserID, error) {
	return spec.NewUserID(string(senderID), true)
}

func TestAuditFinding1(t *testing.T) {
	empty := ""
	mod := "@mod:a.example"
	for _, ver := range []RoomVersion{RoomVersionV6, RoomVersionV9, RoomVersionV10, RoomVersionV11, RoomVersionV12} {
		createRoomID := "!room:a.example"
		if ver == RoomVersionV12 {
			createRoomID = "" // derived from the create event
		}
		create := auditF1Event(t, ver, createRoomID, spec.MRoomCreate, "@creator:a.example", &empty,
			fmt.Sprintf(`{"creator":"@creator:a.example","room_version":%q}`, ver))
		roomID := create.RoomID().String()
		member := auditF1Event(t, ver, roomID, spec.MRoomMember, mod, &mod, `{"membership":"join"}`)

		check := func(name, oldContent, newContent string, wantAllowed bool) {
			t.Helper()
			oldPL := auditF1Event(t, ver, roomID, spec.MRoomPowerLevels, "@creator:a.example", &empty, oldContent)
			newPL := auditF1Event(t, ver, roomID, spec.MRoomPowerLevels, mod, &empty, newContent)
			provider, err := NewAuthEvents([]PDU{create, member, oldPL})
			if err != nil {
				t.Fatal(err)
			}
			err = Allowed(newPL, provider, auditF1UserID)
			if wantAllowed && err != nil {
				t.Errorf("room version %s, %s: refused, want allowed: %v", ver, name, err)
			}
			if !wantAllowed && err == nil {
				t.Errorf("room version %s, %s: allowed, want refused (old %s, new %s, sender level 40)", ver, name, oldContent, newContent)
			}
		}

		base := `"users":{"@mod:a.example":40},"events":{"m.room.power_levels":40}`

		// (a) C08: a level-40 sender sets a notification level to 50.
		check("add notifications.foo=50 as level 40",
			`{`+base+`}`,
			`{`+base+`,"notifications":{"foo":50}}`, false)

		// (b) C08: a level-40 sender removes a notification level of 50.
		check("remove notifications.foo=50 as level 40",
			`{`+base+`,"notifications":{"foo":50}}`,
			`{`+base+`}`, false)
		check("remove notifications.foo=50 (empty object) as level 40",
			`{`+base+`,"notifications":{"foo":50}}`,
			`{`+base+`,"notifications":{}}`, false)

		// (c) C07: nothing above the sender's level is touched and the new value
		// is below the sender's level: the rules allow this.
		check("add notifications.foo=10 as level 40",
			`{`+base+`}`,
			`{`+base+`,"notifications":{"foo":10}}`, true)

		// Control: "room" does have a default of 50, spelling it out changes nothing.
		check("spell out notifications.room=50 as level 40",
			`{`+base+`}`,
			`{`+base+`,"notifications":{"room":50}}`, true)
	}
}
