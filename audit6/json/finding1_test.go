// Package directory: the module root (/tmp/au6/json, package gomatrixserverlib).
package gomatrixserverlib

import (
	"bytes"
	"testing"

	"github.com/tidwall/gjson"
	"golang.org/x/crypto/ed25519"
)

// C02: VerifyJSON decodes the top-level member names with encoding/json, which
// silently replaces every byte that is not valid UTF-8 by U+FFFD, and signs /
// compares the re-encoded names; SignJSON and the duplicate-member check work
// on the raw bytes. So a member name that holds U+FFFD and a name that holds an
// arbitrary invalid byte in its place are one name to VerifyJSON and two names
// to everything else (gjson, sjson, SignJSON, checkNoDuplicateKeys).
func TestAuditFinding1(t *testing.T) {
	seed := bytes.Repeat([]byte{0x42}, ed25519.SeedSize)
	priv := ed25519.NewKeyFromSeed(seed)
	pub := priv.Public().(ed25519.PublicKey)

	// A perfectly valid JSON object (U+FFFD is an ordinary, well-formed character).
	original := []byte("{\"amount\uFFFD\":1}")
	signed, err := SignJSON("origin.example", "ed25519:1", priv, original)
	if err != nil {
		t.Fatalf("SignJSON: %v", err)
	}
	if err = VerifyJSON("origin.example", "ed25519:1", pub, signed); err != nil {
		t.Fatalf("VerifyJSON of the untouched object: %v", err)
	}

	// (a) Soundness, single member insertion: a new member is put in front of
	// the signed one. Its name differs from every name in the object (the byte
	// 0xFF instead of the three bytes EF BF BD), so the duplicate check does not
	// fire, and gjson readers see a brand-new member "amount\xff": 1000000.
	inserted := append([]byte("{\"amount\xff\":1000000,"), signed[1:]...)
	if !gjson.GetBytes(inserted, "amount\xff").Exists() {
		t.Fatalf("test setup: inserted member not visible")
	}
	if err = VerifyJSON("origin.example", "ed25519:1", pub, inserted); err == nil {
		t.Errorf("VerifyJSON accepts the object after a member was inserted:\n  signed:   %q\n  tampered: %q", signed, inserted)
	}

	// (b) Soundness, member renamed (deleted and re-inserted under another name).
	renamed := bytes.Replace(signed, []byte("amount\uFFFD"), []byte("amount\xff"), 1)
	if bytes.Equal(renamed, signed) {
		t.Fatalf("test setup: nothing replaced")
	}
	if err = VerifyJSON("origin.example", "ed25519:1", pub, renamed); err == nil {
		t.Errorf("VerifyJSON accepts the object after a member was renamed:\n  signed:   %q\n  tampered: %q", signed, renamed)
	}

	// (c) Completeness / self-consistency: whatever SignJSON agrees to sign,
	// VerifyJSON has to accept (or SignJSON has to refuse it, as it does for
	// null, for non-objects and for repeated member names).
	odd := []byte("{\"amount\xff\":1}")
	if signedOdd, err := SignJSON("origin.example", "ed25519:1", priv, odd); err == nil {
		if err = VerifyJSON("origin.example", "ed25519:1", pub, signedOdd); err != nil {
			t.Errorf("SignJSON signed %q as %q, which its own VerifyJSON refuses: %v", odd, signedOdd, err)
		}
	}
}
