#!/bin/bash
# Builds the harness (plain and race-detector builds) from files on disk only,
# which also warms the Go build cache for the checks.
set -e
ROOT=$(cd "$(dirname "$0")" && pwd)
export GOFLAGS=-mod=mod GOPROXY=off GOSUMDB=off GOTOOLCHAIN=local
mkdir -p "$ROOT/.bin" "$ROOT/.work" "$ROOT/evidence"
cd "$ROOT/harness"
go build -tags verif -o "$ROOT/.bin/vcheck" ./cmd/vcheck
go build -tags verif -race -o "$ROOT/.bin/vcheck-race" ./cmd/vcheck
echo "setup ok"
