#!/bin/bash
# tools/triage11.sh <PROP> [check props...] — eighth seeding round: removes the agent's worktree and tries P and Q.
P=$1; shift; CH=${@:-$P}
git -C /repo worktree remove --force /tmp/sb11/$P 2>/dev/null
for X in P Q; do echo "== $P-$X"; jq -r '.summary | .[0:300]' /tmp/sb11/$P.out/$X.notes.json; /verif/tools/try_seed.sh /tmp/sb11/$P.out $X quick $CH; done
