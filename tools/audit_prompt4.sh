#!/bin/bash
# tools/audit_prompt4.sh <group> <PROP>...  — fourth audit round: like audit_prompt.sh, working in /tmp/au4/<group>,
# told what was already found (git log of the worktree) and what is deliberately left undecided (DESIGN.md 5.3).
G=$1
/verif/tools/audit_prompt.sh "$@" | sed -e "s#/tmp/au/#/tmp/au4/#g"
cat <<EOT

FOURTH ROUND. Three earlier audits of this library already found and repaired many defects: run 'git log --oneline | grep "fix:"' in your worktree (about 105 commits; read the full messages of those in your area with 'git log') to see what is already known - do NOT report those again, and do not report inputs that the repaired code now handles. Look for NEW defects: other clauses of the properties, other entry points, other room versions, interactions between the repaired pieces, and mistakes the repairs themselves may have introduced (regressions). The most recent repairs (the top ~16 commits) have had the least scrutiny: per-copy judgement of repeated events in CheckStateResponse and LoadAndVerify; the stricter X-Matrix header parser (quoted commas, repeated parameters, token names, one destination per request); JSON null refused in v10+ power levels, in create room_version / additional_creators and for event type / content; the size limit on the event as received; valid SRV records used despite a malformed one; Expires in three date forms; VerifyEventSignatures failing on an unknown sender; Build applying the untrusted shape check. Earlier themes worth re-probing from a new angle: unmarshalExact (exactjson.go) and every place it is or is NOT used; checkNoDuplicateKeys (escaped spellings, nested objects, arrays); the token canonical-form check; the well-known lookup with a custom dialer; cycle guards in state resolution; the reused auth checker's caches; key-ring source order and validity arithmetic at the integer boundaries.

The following regions are deliberately left undecided by the owners of the properties (specification and upstream implementation disagree without the statement deciding, unstable MSC room versions, caller-side contracts, running time). Do not report findings that fall into them:
$(sed -n '/^### 5.3 Abstention regions/,/^---------/p' /verif/DESIGN.md | sed '1d;$d' | sed 's/^/  /')
EOT
