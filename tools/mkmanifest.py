#!/usr/bin/env python3
"""Regenerates MANIFEST.json from the table below (one entry per claimed property)
and lists every other property of properties.jsonl under not_applicable."""
import json, os, subprocess
ROOT = os.path.dirname(os.path.dirname(os.path.abspath(__file__)))
props = [json.loads(l) for l in open(os.path.join(ROOT, "properties.jsonl")) if l.strip()]

TB = "Go toolchain and runtime; crypto/ed25519, crypto/sha256, encoding/base64, math/big; the reference models in harness/ref; "
CLAIMS = {
 "C01": dict(level="exploration", design="§4 C01",
   technique="runtime monitoring: reference-model oracle (independent RFC 8259 parser + Matrix canonical encoder) observing every CanonicalJSON / EnforcedCanonicalJSON call over bounded-exhaustive and seeded-random values x scrambled presentations",
   text="Every call to CanonicalJSON / CanonicalJSONAssumeValid / EnforcedCanonicalJSON made by the workload is observed by a monitor that re-parses the output with an independent strict parser and compares value, canonical form, idempotence, presentation-independence and (per registered room version) the enforced integer rule. The space is sampled: all values of depth<=1 over a 14-atom/6-key alphabet and depth<=2 over a reduced one are enumerated, deeper values and invalid texts are seeded-random. It says 'held on the executions observed', which is the right level for a for-all-texts statement about a pure function.",
   note=TB + "abstains on ill-formed Unicode, duplicate keys, the spelling of non-integer numbers and nesting beyond encoding/json's limit."),
 "C02": dict(level="exploration", design="§4 C02",
   technique="runtime monitoring: every SignJSON/VerifyJSON/ListKeyIDs call observed against the statement plus an independent ed25519 check over the reference canonical projection; seeded objects x signer sequences x tree mutations x re-serialisations",
   text="Each generated object is signed by 1-3 successive signers through the real SignJSON; monitors assert completeness (fresh output, 3 re-serialisations, unsigned edits, after further signers), preservation of earlier signatures and unsigned, ListKeyIDs, and soundness against ~14 value-changing tree mutations and 8 identity/signature alterations, with an independent ed25519 verification as cross-check in both directions. Sampled, not exhaustive.",
   note=TB + "other entities' undecodable signature entries, lookalike member names and inserted duplicate members are part of the workload; abstains on ill-formed Unicode."),
 "C05": dict(level="exploration", design="§4 C05",
   technique="runtime monitoring: reference redaction tables (per room-version algorithm) compared with RedactEventJSON / PDU.Redact output on generated events of every protected type x every registered version; idempotence, identity fields, event ID and signature validity monitored",
   text="For every registered room version and every protected / ordinary event type, raw-assembled events carrying every keep-list key of every version plus random extras are redacted by the real code and compared (as JSON values) with a table-driven reference; built events are redacted through PDU.Redact and monitored for unchanged type/sender/room/state key/event ID (re-parsed, v3+), idempotence and surviving signatures (independent ed25519 check). Sampled per (version,type) cell; every cell is visited.",
   note=TB + "content numbers limited to float64-exact values; abstains on v11+ member third_party_invite.signed."),
 "C03": dict(level="exploration", design="§4 C03",
   technique="runtime monitoring: accessor-tuple comparison across untrusted/trusted/headered re-parses of EventBuilder.Build output, reference event-ID oracle (sha256 over reference redaction), metamorphic ID invariance under unsigned/signature edits and ID sensitivity on single-field proto variants, all registered versions",
   text="Every generated proto-event is built by the real builder for each registered room version; monitors compare the accessor tuple after each of the three re-parses and after Sign/SetUnsigned, run CheckFields, compare the event ID with an independent reference hash in the version's alphabet, assert ID invariance under 8 unsigned/signature edits and redaction (always re-parsing so a cached ID cannot mask a change), ID sensitivity on 9 single-field variants, and the v12 room-ID / first-auth-event rules. Sampled protos; every version visited on every proto.",
   note=TB + "integer-only contents."),
 "C04": dict(level="exploration", design="§4 C04",
   technique="runtime monitoring: 16 tamperings of built events parsed with NewEventFromUntrustedJSON; reference content-hash classifies each case, reference redaction bounds what any accessor / JSON / headered JSON may expose; ID and signature validity compared with the original",
   text="For each built event and registered version, 16 tamperings (redactable content changed/added/removed, extra top-level key, redacts/origin changed, protected keys changed, hash replaced/removed/mistyped/truncated, receipt-stripped keys added or changed, none) are parsed by the real untrusted parser; an independent content hash decides which side of the property applies, and the monitors compare JSON(), Content(), Unsigned(), Redacts(), ToHeaderedJSON() with the reference redaction, the redacted flag, and (for redactable-only tampering) event ID and signature validity with the original.",
   note=TB + "integer-only contents."),
 "C06": dict(level="exploration", design="§4 C06",
   technique="runtime monitoring: VerifyEventSignatures driven over enumerated (version, event kind, role assignment, per-signer fault) cases with a recording verifier around a real KeyRing; monitors compare the set of servers asked, the timestamp asked and the verdict with an independent conjunction over required signers",
   text="All 15 non-pseudo-ID versions x 10 event kinds x role assignments (sender / event-ID server / invitee / authoriser drawn from 4 servers, coincidences included) x all-good, every single fault on a required signer (9 signer states) and random multi-fault vectors x 0-2 unrelated signatures. The recording verifier shows which servers the library asked about and at which timestamp; the verdict is compared with the conjunction computed from the fault vector, itself cross-checked by an independent ed25519 verification.",
   note=TB + "KeyRing with database only (fetcher interplay is C12); pseudo-ID version (mxid_mapping self-signatures) not driven. Every event is also verified in its redacted form and in batches next to an event of another room version."),
 "C13": dict(level="exploration", design="§4 C13",
   technique="runtime monitoring: signed federation requests carried through real HTTP/1.1 framing into VerifyHTTPRequest; monitors compare the reported method/URI/origin/destination/body with what was signed and assert refusal under ~35 single-field tamperings, key-validity faults and foreign receivers, acceptance under legal header/body re-spellings",
   text="Each generated request (methods x escaped paths/queries x bodies x DNS/IPv4/IPv6 names with and without ports x key IDs x single- or multi-name receivers) is signed with the real API, written with http.Request.Write and re-read with http.ReadRequest; the untampered request must verify and report exactly what was signed, re-spelled headers/bodies must still verify, and every tampering class (request line, each Authorization parameter, duplicated/conflicting/garbage headers, body value/absence/UTF-8/JSON validity, content type, key expired / past valid_until / wrong / unknown, receiver not owning the destination) must be refused.",
   note=TB + "net/http; key validity offsets of +-1 h around the wall clock (one-sided); abstains on a missing destination parameter and on auth-scheme case."),
 "C17": dict(level="exploration", design="§4 C17",
   technique="runtime monitoring: reference identifier grammars vs NewUserID/NewRoomID/ParseAndValidateServerName on grammar-generated, single-edit and random strings; encoding/base64 as oracle for Base64Bytes; boundary-value enumeration of the event size limits on build and on receipt per version; exhaustive comparison of the room-version trait table (public getters + behavioural probes) with the specification table",
   text="Identifier parsers are observed on ~20k strings (valid by construction, one edit away from valid, arbitrary bytes) against independent grammars, including re-concatenation of the reported parts; base64 on every length 0-70 in both alphabets; each size limit at 254/255/256 units in bytes and code points with 1-4 byte runes and JSON at 65535-65537 bytes, on Build and on NewEventFromUntrustedJSON, for every registered version; and every cell of the 16x17 room-version table (exhaustive_subspace in the evidence). The table part is complete; the rest is sampled.",
   note=TB + "abstains on '+' in localparts, the stand-alone length limit of server names, unusual port spellings, pseudo-ID senders, the v11 room_version clause of the create rules."),
 "C20": dict(level="exploration", design="§4 C20",
   technique="runtime monitoring: GenerateLoginToken/ValidateToken/GetUserFromToken observed on seeded issue tuples under cross-validation, ~45 byte-level and caveat-level alterations built with macaroon.v2 (holder-side appended caveats, re-minted tokens with chosen expiry / missing / duplicated / unknown caveats, other key), plus a real-time expiry monitor with one-sided regions",
   text="Every issued token must validate for its own secret and user and reveal that user; every cross-validation and alteration must be refused. Expiry is decided two ways: tokens re-minted with a chosen absolute expiry (10 s ago, 1970, now, +1 h) when the genuine expiry caveat is in Unix seconds, and black-box polling of live tokens (1-3 s in quick; the 120 s default, 61 s and a 2 s token every 5 s for 130 s in thorough, so issue instants cover every second of the minute). If the expiry caveat is not absolute Unix seconds the quick tier extends its polling to 66 s.",
   note=TB + "gopkg.in/macaroon.v2; wall clock used only in one-sided comparisons; every alteration of the token string counts, also those that decode to the same macaroon."),
 "C07": dict(level="exploration", design="§4 C07, §5.1, appendix B",
   technique="runtime monitoring: reference-model oracle (rule-by-rule transcription of the Matrix authorization rules with the library's documented departures) compared with Allowed on composed (version, create variant, auth state, event) cases built from pools of real events; per-rule coverage histogram with floors",
   text="For each of the 15 non-pseudo-ID room versions and 4 create-event variants, pools of real power-levels / join-rules / member / third-party-invite events are built; tens of thousands of cases per run combine a random auth state with one of 16 event kinds by 5 users on 3 servers and compare the library's verdict with the reference model's, which also names the deciding rule (85 rule outcomes, all counted in the evidence; key ones have floors). Sampled, with explicit abstention regions (DESIGN.md 5.3).",
   note=TB + "events are built by the real EventBuilder; pseudo-ID room version not driven; abstention regions of DESIGN.md 5.3."),
 "C08": dict(level="exploration", design="§4 C08",
   technique="runtime monitoring: invariant monitor over ACCEPTED power-levels events only (no-escalation on effective values, creators never named in v12, integer levels in v10+), fed by enumerated single-key changes, random multi-key proposals and histories of successive proposals applied to a room",
   text="Independent of the C07 model: the monitor never predicts the verdict, it inspects what the real Allowed accepted. Single-key changes are enumerated over 13 keys x {absent,<,=,>} old x {absent,<,=,>} new x 4 sender kinds x 15 versions; thousands of random proposals and hundreds of 10-30 step histories add multi-key and sequential behaviour, with history invariants (no self-promotion, no level above the initial maximum). Floors make sure every key was actually changed by an accepted event.",
   note=TB + "effective-value reading (weakest); abstains on null levels and notification levels equal to the sender's."),
 "C09": dict(level="exploration", design="§4 C09",
   technique="runtime monitoring: metamorphic comparison of Allowed verdicts (repeat, insertion order, needed-state-only, unrelated additions, AddAuthEvents sufficiency) and of a reused checker (hook VerifAllower, driven like state resolution) against fresh evaluations over generated sequences",
   text="Each C07-style case is re-evaluated under five verdict-preserving transformations, and sequences of 2-40 evaluations share one checker whose every verdict must equal the fresh one. The hook adds no logic: it forwards to newAllowerContext / update / allowed. Sampled sequences; restricted joins and provider changes are forced to occur (non-triviality rule).",
   note=TB + "Allowed on a fresh provider as reference point (decided by C07); undecodable power-levels / join-rules state, mixed-room states and cleared-and-refilled providers are part of the reuse sequences."),
 "C10": dict(level="exploration", design="§4 C10, §5.2, appendix C",
   technique="runtime monitoring: reference-model oracle (independent v1 / v2 / v2.1 resolvers, set-based, uncached, authorising through the public Allowed on fresh providers) compared with ResolveConflictsNew on simulated room histories with forks; trace counters show which algorithm stages were exercised",
   text="Room histories are produced by a simulator that builds every event with the real EventBuilder (auth events via AddAuthEvents, kept only if allowed in place), forks the room into 2-5 branches (nested forks included, presented in random order) and hands the branch states plus the full auth list to the resolver; the resulting event-ID set must equal the reference's. Evidence counts resolutions with conflicted power events, auth difference, conflicted subgraph (v2.1), fallback use and events failing iterative auth. Quick: versions 1, 2, 6, 10, 11, 12; thorough: every non-pseudo-ID version, longer branches (160k histories).",
   note=TB + "the library's Allowed and StateNeededForAuth as auth primitives (C07, C09 decide them); v1 driven with one auth event per key as its resolver documents."),
 "C11": dict(level="exploration", design="§4 C11",
   technique="runtime monitoring: metamorphic comparison of resolution results under 13 presentations per input (repeats, permuted / rotated / reversed state sets, shuffled sets and auth lists, duplicated auth events), deprecated entry points under permutation, cross-process agreement on shared inputs, structural well-formedness monitors, and topological-order monitors for all ordering functions",
   text="Each simulated history is resolved 14 times through ResolveConflictsNew and 11 more times through the deprecated entry points; any difference in the sorted event-ID set is a violation. Inputs of v3+ rooms generated from a shard-independent PRNG stream are resolved in all 8 child processes and the driver compares the results across processes. Results are checked for one-event-per-key, supplied-events-only, agreed keys kept and equal-sets-returned. ReverseTopologicalOrdering (by auth and by prev events), its headered variant and LineariseStateResponse are checked to return a permutation of the distinct inputs with every event after its referenced ancestors present.",
   note=TB + "no reference model needed; v1 resolver driven as documented."),
 "C12": dict(level="fault_enumeration", design="§4 C12",
   technique="runtime monitoring with fault enumeration: instrumented key database and fetcher stubs record every request while a sequential key-ring model (written from the statement) predicts each result; the single-request product of database states x fetcher behaviours x timestamps x validity rule x message shapes is enumerated completely, batches are sampled; CheckKeys, DirectKeyFetcher and PerspectiveKeyFetcher are driven over scripted key clients",
   text="Every (database state, fetcher-1 behaviour, fetcher-2 behaviour, timestamp boundary, strict/lenient, message shape) combination for one request is executed against the real KeyRing (exhaustive_subspace), plus thousands of batches with independent per-key source states. Monitors: result vector length and order, each result vs the model, a model-independent soundness check (success needs a consulted source holding a verifying key valid at that time), fetchers asked only about keys the database lacks or holds past validity, fetched records handed to StoreKeys unchanged. Key responses: CheckKeys with a controlled now and one fault each; the direct / notary-fallback / perspective fetch paths with signed, unsigned, mis-named, wrongly-notarised objects.",
   note=TB + "validity boundaries >= 1 h from the wall clock; abstains on the wall-clock freshness of key responses inside the fetchers (they pass the epoch as now). Key documents also travel as JSON text through the library's own client (look-alike members, a name spelt otherwise, retired keys, key IDs that need escapes)."),
 "C18": dict(level="exploration", design="§4 C18",
   technique="runtime monitoring: panic monitors around every public entry point reachable with remote data, each input logged before execution in a child process per shard (process-fatal errors attributed by the driver); inputs from systematic hostile-value field enumeration (plain and re-hashed / re-signed as a protocol-literate attacker would), seeded byte mutation and random bytes",
   text="~45 hostile JSON values x 18 top-level fields and the members of every special content x 10 event shapes x 16 room versions, each also with the content hash recomputed and valid signatures attached so that the event passes the hash gate, then ~30k byte-mutated inputs per run for events and for every other network decoder. Whatever NewEventFromUntrustedJSON accepts is driven through every accessor, Redact, SetUnsigned(Field), Sign, headered JSON, signature verification, StateNeededForAuth, Allowed (as event and as auth state), all resolvers and orderings; other bytes go through the JSON, signing, key, HTTP-auth, identifier, token and fclient decoders, CheckStateResponse / CheckSendJoinResponse / LoadAndVerify. Evidence counts entry-point calls and inputs accepted by a parser. Absence of panics is only ever 'none in N executions'.",
   note=TB + "events from the trusted parsers (caller's own store) are parsed but not exercised further; deliberate programmer-error panics are not driven. The federation client's own calls run against a scripted transport (404-then-200 fallbacks, short arrays, mutated bodies); join events are built from the templates it gets."),
 "C16": dict(level="exploration", design="§4 C16",
   technique="runtime monitoring: ResolveServer / LookupWellKnown run against a scripted default HTTP transport and an in-process DNS server and are compared with a reference decision table; the allow / deny decision function (hook) is compared with the policy on CIDR edge addresses; real TCP dials through the client dialer and the DNS-cache dialer are observed in the accept logs of loopback listeners",
   text="19 server-name shapes x 16 well-known outcomes x 8 SRV outcomes (2432 resolutions) are compared target-by-target (destination, Host header, TLS name) with the specification's steps, including that the delegated name is resolved without a second well-known lookup; well-known guards (status, 50 KiB with and without Content-Length, m.server) and cache-lifetime precedence are driven directly; 40+ random allow/deny configurations incl. unparsable entries x all range-edge addresses go through the decision and control functions; 72 real dials to 127.0.0.1 / 127.0.0.2 / 127.0.1.1 / ::1 check that a connection arrives at a listener iff the policy permits it.",
   note=TB + "process-global http.DefaultTransport / net.DefaultResolver replaced inside the child process; SRV priority/weight not asserted; a well-known reply delegating to an invalid name and SERVFAIL handling follow the library. Requests also go through clients without an overall timeout and across a redirect; the request target the server sees is compared with the one written."),
 "C14": dict(level="fault_enumeration", design="§4 C14",
   technique="runtime monitoring with fault enumeration: federation responses assembled from simulated, really signed room histories receive every single-position fault (bad signature, event not allowed by its auth events, auth event removed, event of another room) and sampled multi-fault sets under three event-provider behaviours; the monitor compares what CheckStateResponse / CheckSendJoinResponse / VerifyEventAuthChain / VerifyAuthRulesAtState / LoadAndVerify return with the ground truth of the injected faults and the recursive definitions",
   text="For each simulated room the fault-free /state-shaped response, every position x fault kind (rooms up to 24 events; sampled above), multi-fault subsets of 2-5 and whole-response faults (non-state event, duplicate key, malformed element, empty) are checked: exactly the events with a bad signature (judged per event ID) or failing the auth check against their available auth events must be missing from the result. send_join: joins built against the resident's state and against a stale view, so that 'allowed by own auth events' and 'allowed by returned state' vary independently. Auth chain: a removed or disallowed link at any depth, provider errors. Auth at state: partial knowledge of the auth events with and without the validation shortcut. LoadAndVerify: one result per input, classified by the first failing check.",
   note=TB + "the library's Allowed on fresh providers as primitive (C07); simulator events carry every protocol-required signature; abstains on providers returning another event than asked."),
 "C19": dict(level="exploration", design="§4 C19",
   technique="runtime monitoring under the Go race detector: recorded DNS-cache lookup histories checked offline for per-host linearizability with porcupine and online for expiry / host identity / size bound (hook reads under the cache mutex); concurrent KeyRing batches and DirectKeyFetcher pools over scripted key clients compared with the sequential expectation; concurrent round trips through one transport cache to identifying TLS listeners; simultaneous first-time accessor calls on a shared event",
   text="Every workload runs in a -race build with GORACE logging; any report in a library frame is a violation (deduplicated by function pair). DNS cache: hundreds of short histories (<= 200 lookups, 2-32 goroutines, 3-6 hosts, size 1-4, lifetimes 20-80 ms) with a resolver that returns a unique address per call after a random delay or fails, so that a cached answer identifies the miss that installed it; evidence counts histories with overlapping misses on one host, with eviction pressure and spanning an expiry. Key ring: overlapping batches from up to 16 goroutines against servers that are reachable, notary-only or down; FetchKeys with 1-300 servers. Transport cache: up to 32 goroutines x 2-6 httptest TLS listeners. 'Never deadlocks' is observed as bounded progress only.",
   note=TB + "Go race detector; porcupine v1.3.0 (timeout = inconclusive); wall clock only in the one-sided stale-entry check; interleavings are sampled by the Go scheduler plus injected latencies."),
 "C15": dict(level="exploration", design="§4 C15",
   technique="runtime monitoring: every handler (HandleMakeJoin, HandleMakeLeave, HandleSendJoin, HandleInvite, PerformJoin) is called on simulated rooms with each guard of the statement true / false (all-true, all singles, all pairs, random subsets), queriers and the remote server being scripted stubs backed by the simulator's ground truth; success must coincide with the conjunction of guards, returned events are checked for a valid local signature over the unmodified event by an independent ed25519 check",
   text="Guard vectors are enumerated per handler: make_join (4 guards + 4+ restricted-room situations incl. pending invite, non-resident allowed room, authoriser with / without invite power, v12 creators), make_leave (3), send_join (8), invite (3 x known room x stripped state supplied), PerformJoin (5, with a scripted make_join / send_join remote, including a complete valid v11 room whose create event names an unknown room version). The evidence counts calls, successes and refusals per handler.",
   note=TB + "handlers are driven through their public input structs; HandleInvite offers no request-origin parameter; pseudo-ID variants (HandleInviteV3, send_join with room keys) are driven for their guards only, not for mxid_mapping signatures."),
}
NOT_YET = "check not built yet (work in progress; see DESIGN.md §4 for the planned monitor)"

# dimensions added in the third seeding / audit round (appended to the notes)
ROUND3 = {
 "C02": "Inserted duplicate members are also spelled with \\u escapes.",
 "C03": "Also: headered form without _event_id and the trusted parser given an empty ID; proto-events that bring a signatures member of their own.",
 "C04": "Also: events whose type or content is null or missing (correctly hashed and signed): refused, or returned and redacted with those members as received.",
 "C05": "Also: Redact() on events loaded with their ID supplied and a stale event_id member in the JSON.",
 "C06": "Also: signer state 'expired before ts with a valid_until still recorded'; a sender lookup that answers nil must not remove the sender's server from the required set.",
 "C07": "Also: third-party-invite tokens that start with '@'; JSON null as level / level map / room_version / additional_creators.",
 "C08": "Every proposal is also judged through ONE reused checker per room (cleared and refilled provider), and an acceptance there is monitored like any other; null levels in v10+ count as non-integer.",
 "C09": "Also: an event of another room supplied for a slot the state already fills (both orders); creator-then-admin power-level pairs against one power-levels event through the reused checker.",
 "C13": "Also: requests signed with two keys of which the receiver knows one (both line orders); key IDs containing commas; odd white space around parameter names, repeated parameters, a second X-Matrix line naming another destination.",
 "C14": "Also: forged events citing no auth events; send_join responses with a needed event moved from state to auth events; a hash-broken (redacted) copy of a state event among the auth events; repeated inputs of LoadAndVerify classified copy by copy.",
 "C15": "Also: a second creator on another server in v12 rooms; a joined member with a malformed user ID; incoming events with a made-up entry under the local server's own name and key ID.",
 "C16": "Also: sequences of requests for names sharing a host through one resolving client against loopback TLS servers; Expires in the rfc850 and asctime forms; an SRV answer with one malformed target.",
 "C17": "Also: oversize events whose bulk is in unsigned / destinations / age_ts; v12 create events carrying a room_id member; identifiers whose domain is a lone bracket.",
 "C18": "Also: identifiers whose domain is '[' or '[:port' as hostile field values.",
 "C19": "Answers that are not from the cache are checked too (expiry after the call, address never handed out before); a FetchKeys call that does not return is judged on goroutine states (all fetcher goroutines parked on channel operations, none in the key client = deadlock = violation), otherwise inconclusive.",
}
ROUND4 = {
 "C02": "SignJSON on texts that are no JSON object (null, arrays, scalars): an error, or an output that verifies.",
 "C04": "Texts that are not JSON (a member name without a value in front of a dropped or read member) must be refused.",
 "C07": "Also: invites with \"third_party_invite\": null; third-party invites and restricted joins with the empty token (oracle abstains on the verdict, C09 checks it is one verdict).",
 "C08": "Per-event-type entries are compared for both fallbacks (events_default as message event, state_default as state event).",
 "C09": "Also: states holding a third-party-invite event under the empty state key together with member events naming the empty token.",
 "C12": "Also: valid_until_ts in the upper half of the unsigned 64-bit range through CheckKeys.",
 "C13": "Also: two X-Matrix lines for one key ID with different signatures (both orders).",
 "C16": "Also: invalid server names with a userinfo part through the federation client APIs against a live loopback server; quoted Cache-Control arguments.",
 "C18": "Also: request bodies whose event member is a JSON string holding hostile text (60 000 levels of nesting); a process-fatal crash of a shard's child is reported as fatal:<frame>.",
 "C20": "Also: the server name carried in the token rewritten or removed and the token presented under the new name (same secret); the harness probes which root-key construction the library uses before re-minting."
}
for _k, _v in ROUND4.items():
    ROUND3[_k] = (ROUND3.get(_k, "") + " " + _v).strip()
ROUND5 = {
 "C02": "One re-serialisation escapes only '/' (as '\\/'); objects may arrive with \"signatures\": null.",
 "C03": "One proto-event is built for every room version in turn in one process; proto-events whose unsigned repeats a member name.",
 "C04": "A forged hashes member whose name is spelled with an escape.",
 "C06": "Entries under signatures that are no ed25519 signatures (of an unrelated server, and under another key ID of a required one).",
 "C07": "Third-party invites with an ill-typed profile member next to them; event types spelt like named thresholds in the events map.",
 "C08": "Removal of a peer's or superior's users entry is a violation even where users_default makes up for it; event types spelt like named thresholds.",
 "C09": "AddAuthEvents also from a provider that does not hold the create event (versions that never list it).",
 "C10": "State sets that are not fork tips: one set takes over another's event for a key, its own stays in the auth difference.",
 "C11": "Directed scenarios resolved repeatedly: v1 with the pre-fork member events (or one of the candidates) as auth events, 120 calls; v2 / v2.1 with a chain of four power-level changes in the auth difference, 60 calls; mixed (non-tip) state sets in the permutation scenarios.",
 "C12": "Messages with a non-map entry of another entity under signatures.",
 "C13": "Tamperings: method in another letter case, repeated parameters whose first occurrence is empty, a second line with the origin in another letter case.",
 "C14": "Whole-response faults 'same state event twice' and 'state event and its hash-broken copy'; send_join with the redacted copy of a power-levels event in the state and the intact one among the auth events; load batches with intact / redacted pairs the rules judge differently.",
 "C15": "The authoriser guard of send_join is driven in every room version; invites of another event type that carry the invitee as state key and membership invite.",
 "C16": "Allow / deny ranges in IPv4-mapped IPv6 notation; invalid names (userinfo, trailing colon, path, query, fragment) through the plain client's own request builders; escaped quotes inside quoted Cache-Control arguments.",
 "C17": "A sender over the byte limit only next to a type / state key over the code-point limit.",
 "C18": "Every mutated Authorization header is also sent twice, the second time with the origin in the other letter case.",
 "C20": "Durations of 2^34 and 2^62 seconds; negative durations from -1 to -2^63+1 (never valid)."
}
for _k, _v in ROUND5.items():
    ROUND3[_k] = (ROUND3.get(_k, "") + " " + _v).strip()
ROUND7 = {
 'C02': 'Names of the signing entity and key IDs that are not UTF-8: an error, or an output that verifies under that name.',
 'C03': 'Proto-events whose content / type / state key is not UTF-8: Build refuses, or the built event loads.',
 'C06': 'Restricted joins whose join_authorised_via_users_server is null or an empty string ask for no further signer.',
 'C07': 'Power-levels events with "users": null in room versions 1-9 as well.',
 'C13': 'Request URIs with a raw blank in path or query: refused by the builder, or signed so that the request reads back.'
}
for _k, _v in ROUND7.items():
    ROUND3[_k] = (ROUND3.get(_k, "") + " " + _v).strip()
ROUND8 = {
 'C02': 'Entries of other entities under signatures that are no maps (string, number, array, boolean, null).',
 'C03': 'Proto-events whose content is null, an array or a scalar, with no signatures of their own.',
 'C05': "Generated strings contain '<', '>', '&' and texts that look like JSON escapes (backslash-u0026 and the like, as characters).",
 'C08': 'Proposals that drop one notifications entry and add another in the same event.',
 'C10': 'Directed version-1 resolutions (a kick against renames) with auth events for keys that are in conflict, 24 calls each, compared with the reference.',
 'C11': 'The three lists of the deprecated ResolveStateConflictsV2 handed over as windows of one array, in all six layouts.',
 'C12': "One-call batches for 70-300 servers most of which cannot be reached; the fetchers over the library's own HTTP client (scripted transport) with key documents that carry look-alike members of server_name / valid_until_ts.",
 'C13': 'Tampering: a line naming a foreign destination next to a line without destination parameter, both orders.',
 'C14': 'States before the event in which an event of another room stands for the power levels / join rules / a membership.',
 'C15': "The signature guard is also made false by the right key in the wrong state: expired before the event (every version), valid_until_ts before the event (versions that check validity strictly). PerformJoin echoes that carry the sent event ID without the joining server's signature.",
 'C16': "Clients that have a DNS cache with lists and lists of their own, against loopback listeners on 443 / 8448: both lists hold. SRV outcome 'deprecated service name, one malformed target'.",
 'C17': "43-character room IDs with CR / LF / '=' / NUL in or behind them, and ones outside the canonical encoding of 32 bytes.",
 'C18': 'Well-known replies (directed and byte-mutated Cache-Control / Expires lines, bodies, statuses) through LookupWellKnown.',
 'C19': 'Shared events on which the holder called Redact() before sharing them.'
}
for _k, _v in ROUND8.items():
    ROUND3[_k] = (ROUND3.get(_k, "") + " " + _v).strip()
ROUND9 = {
 'C01': 'Directed key sets (pairs of a 27-key pool, random larger sets) in which the orders by code point, by UTF-16 code unit, by case and by length disagree.',
 'C02': 'Unpaired surrogate escapes put into values and member names of a signed object (must not verify), and in objects given to SignJSON; signer name / key ID pairs that are valid UTF-8 only when read together.',
 'C03': 'Proto-events with unpaired surrogate escapes in content / unsigned.',
 'C04': 'Unpaired surrogate escapes put into content values and member names of a signed event (refused, or redacted).',
 'C06': 'VerifyAllEventSignatures on batches holding copies of one event that differ in their signatures, in both orders.',
 'C08': "Directed events that name a creator in users (with the level creators have anyway, and others), as the room's first power-levels event and as a later one.",
 'C11': 'Rooms whose power levels lie further apart than an int64 difference can express (100, -1, -2^63), three concurrent power-levels events, all six orders of the state sets, 10 repetitions.',
 'C12': 'Directed batches in which the second fetcher, asked for one key, volunteers a worse record for a key the first fetcher supplied.',
 'C13': 'Request URIs whose percent-escapes decode to bytes that are no UTF-8.',
 'C14': 'Responses whose state lists the hash-broken (redacted) copy of an event whose intact copy stands among the auth events - random victims, those whose redacted form is refused, and directed restricted-join rooms.',
 'C15': "Inviters on the invited user's own server; a correctly signed decoy create event at the head of the auth chain.",
 'C16': 'Two clients with different lists behind one DNS cache, each dialling first in turn.',
 'C17': 'One base64 destination decoded into again and again (Decode, Scan, UnmarshalJSON), the empty text included.'
}
for _k, _v in ROUND9.items():
    ROUND3[_k] = (ROUND3.get(_k, "") + " " + _v).strip()
for _k, _v in ROUND3.items():
    CLAIMS[_k]["note"] = CLAIMS[_k]["note"] + " " + _v

checks = []
for p in props:
    pid = p["id"]
    if pid not in CLAIMS:
        continue
    c = CLAIMS[pid]
    checks.append({
        "property_id": pid,
        "quick_cmd": f"./check {pid} quick",
        "thorough_cmd": f"./check {pid} thorough",
        "evidence_file": f"/verif/evidence/{pid}.json",
        "replay_cmd_template": f"./check {pid} --replay {{path}}",
        "engine": "vcheck",
        "level_claimed": {"category": c["level"], "text": c["text"], "design_ref": c["design"]},
        "level_note": c["note"],
        "technique": c["technique"],
    })
na = [{"property_id": p["id"], "reason": NOT_YET} for p in props if p["id"] not in CLAIMS]
hooks_commits = []
hp = os.path.join(ROOT, "MANIFEST.hooks")
if os.path.exists(hp):
    hooks_commits = [l.split()[0] for l in open(hp) if l.strip() and not l.startswith("#")]
m = {
 "version": 1,
 "setup_cmd": "./setup.sh",
 "hooks": {
   "guard": "verif",
   "enable": "go build -tags verif (harness/go.mod replaces github.com/matrix-org/gomatrixserverlib with /repo, so every check rebuilds the library from /repo's working tree with the hook files compiled in)",
   "baseline_off_cmd": "cd /repo && GOFLAGS=-mod=mod GOPROXY=off GOSUMDB=off GOTOOLCHAIN=local go test -json -vet=off -count=1 -timeout 25m ./...",
   "source_commits": hooks_commits,
   "add_only": True,
 },
 "engines": [{"name": "vcheck", "path": "harness/cmd/vcheck", "serves_properties": [c["property_id"] for c in checks],
              "kind_free_text": "Go workload driver + runtime monitors (reference models, metamorphic comparers, history checkers, race detector); one child process per shard"}],
 "checks": checks,
 "not_applicable": na,
 "notes": "All checks: ./check <ID> quick|thorough; VERIF_SEED selects the PRNG seed. Known findings: KNOWN_FINDINGS.json. Seeded breaks: seeded/.",
}
json.dump(m, open(os.path.join(ROOT, "MANIFEST.json"), "w"), indent=1)
print("claimed:", [c["property_id"] for c in checks], "not_applicable:", len(na))
