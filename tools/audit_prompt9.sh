#!/bin/bash
# tools/audit_prompt9.sh <group> <PROP>...  — ninth audit round: like audit_prompt8.sh, working in /tmp/au9/<group>.
# Emphasis: exported entry points no repair has touched, differential testing against an own small reference,
# error paths and partial failures, the newest room versions' columns.
G=$1
/verif/tools/audit_prompt.sh "$@" | sed -e "s#/tmp/au/#/tmp/au9/#g"
cat <<EOT

NINTH ROUND. Eight earlier audits of this library already found and repaired many defects: run 'git log --oneline | grep "fix:"' in your worktree (about 143 commits; read the full messages of those in your area with 'git log') to see what is already known - do NOT report those again, and do not report inputs that the repaired code now handles. Look for NEW defects. Method for this round:
  (1) INVENTORY FIRST. List every exported function, method and type of the files your properties concern (go doc -all . | grep '^func'; same for ./spec ./fclient ./tokens where relevant). For each, note from 'git log -p --follow' whether any "fix:" commit touched it. Start with the ones NO repair has touched, and with the rarely used variants (deprecated, batch, Must..., ...ForRoomVersion, ...WithEventID, Trusted..., accessors, String / MarshalJSON / UnmarshalJSON methods).
  (2) WRITE A SMALL REFERENCE of your own for each clause (20-50 lines, from the statement, not from the code) and run it differentially against the library on generated inputs: hundreds of thousands of cases, structured generators (valid inputs with one mutation; every room version; boundary values), fixed seeds. Report only mismatches where the statement clearly decides who is right.
  (3) ERROR PATHS AND PARTIAL FAILURES: what does each function return / leave behind when a step in the middle fails (an error of a callback, a cancelled context, element 3 of 5 malformed)? Is a partial result returned together with a nil error? Is a result of a failed step used anyway?
  (4) the columns of the newest room versions (11, 12, org.matrix.hydra.11, org.matrix.msc3757.*) in every per-version table, and code paths that exist only for them.
  (5) the most recent repairs (top ~10 commits of the log): gaps of a repair, the same mistake at a sibling site, a regression it introduced.
Recurring families that kept producing findings - probe them wherever they have not been probed yet: JSON null where "absent" is assumed; text handled by gjson / sjson before anything validated it; values extracted with gjson .String() instead of .Raw; hand-written header parsers; int64 conversion of unsigned timestamps; per-ID instead of per-copy bookkeeping when an event is listed twice; caches keyed by less than what determines the value; one malformed element discarding its well-formed neighbours; checks that run on a canonicalised / redacted / re-marshalled copy instead of the text that was received; a failed lookup taken for an absent value; caller-owned slices / maps kept or appended to.

The following regions are deliberately left undecided by the owners of the properties (specification and upstream implementation disagree without the statement deciding, unstable MSC room versions, caller-side contracts, running time). Do not report findings that fall into them:
$(sed -n '/^### 5.3 Abstention regions/,/^---------/p' /verif/DESIGN.md | sed '1d;$d' | sed 's/^/  /')
EOT
