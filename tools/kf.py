#!/usr/bin/env python3
"""tools/kf.py <property> <signature> <fixed|known> <commit|-> <what...>  — adds an entry to KNOWN_FINDINGS.json (development-time only)."""
import json, sys
p='/verif/KNOWN_FINDINGS.json'
d=json.load(open(p))
prop,sig,status,commit=sys.argv[1:5]; what=' '.join(sys.argv[5:])
e={"property":prop,"signature":sig,"status":status,"what":(f"fixed: property={prop} {commit} " if status=="fixed" else "")+what}
if commit!='-': e["commit"]=commit
assert not any(f["property"]==prop and f["signature"]==sig for f in d["findings"]), "signature already recorded: add a #suffix"
d["findings"].append(e)
s=json.dumps(d,indent=1,ensure_ascii=False)
open(p,'w').write(s+"\n")
print("findings:",len(d["findings"]))
