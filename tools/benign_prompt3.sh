#!/bin/bash
# tools/benign_prompt3.sh <group> "<area>" - third benign round: like benign_prompt.sh in /tmp/bn3/<group>, and asked
# in particular for the CORRECT versions of the optimisations the seeded changes got wrong (pools, memos, buffer reuse,
# lazy initialisation), so that the monitors added for those (retained results, canaries behind buffers, concurrent
# replay, fault injection) are tried on code that does it right.
/verif/tools/benign_prompt.sh "$@" | sed -e "s#/tmp/bn/#/tmp/bn3/#g"
cat <<EOT

In addition to the moves listed above, this round wants PERFORMANCE-STYLE refactorings done CORRECTLY - at least six of them, spread over your area:
  - temporary buffers taken from a sync.Pool (or reused across loop iterations) where every result that leaves the function is copied out first and the pooled object is reset on every path, error paths included;
  - memoisation / caches keyed by EVERYTHING the value depends on (and holding private copies of any caller-owned slices), safe for concurrent use;
  - lazily computed tables behind sync.Once (published only when complete);
  - in-place filtering / compaction, but only ever on slices the function allocated itself (never on a caller's slice or on a slice an accessor handed out), and appends only onto private slices;
  - early exits and reordered independent checks that give the same result and the same error for every input;
  - replacing per-call allocations (closures, small maps) by equivalent code without shared mutable state.
Errors returned by callbacks / providers / fetchers / the context must be propagated exactly as before. The behaviour under concurrent use must stay the same (no new data races; run your differential tests under -race as well).
EOT
