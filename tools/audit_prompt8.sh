#!/bin/bash
# tools/audit_prompt8.sh <group> <PROP>...  — eighth audit round: like audit_prompt.sh, working in /tmp/au8/<group>,
# told what was already found (git log of the worktree) and what is deliberately left undecided (DESIGN.md 5.3).
# Emphasis of this round: histories and state left behind, aliasing of caller data, interactions of two features.
G=$1
/verif/tools/audit_prompt.sh "$@" | sed -e "s#/tmp/au/#/tmp/au8/#g"
cat <<EOT

EIGHTH ROUND. Seven earlier audits of this library already found and repaired many defects: run 'git log --oneline | grep "fix:"' in your worktree (about 134 commits; read the full messages of those in your area with 'git log') to see what is already known - do NOT report those again, and do not report inputs that the repaired code now handles. Look for NEW defects. What the earlier rounds looked at least, and what you should look at first:
  (1) HISTORIES: anything a call leaves behind that a later call reads - package-level variables, sync.Pool / sync.Map / caches / memo tables, fields of a reused object (the auth checker reused across events inside state resolution, the key ring's database, the client's resolution and transport caches, the DNS cache), lazily computed and then cached accessors of an event. For every such piece of state ask: is it keyed by everything the cached value depends on? is it reset on every path, error paths included? can an earlier call with OTHER arguments change the answer to a later question?
  (2) ALIASING: slices and maps that the library keeps from, or hands back into, the caller's data (a []byte it was given and later reads again or writes into; a slice field of an event returned by an accessor and then sorted / filtered / appended to in place; a map returned from a registry). Call, mutate what you passed or what you got back, call again.
  (3) INTERACTIONS of two features or two inputs that are each handled correctly alone: two room-version traits, two optional members, an error of kind A together with an input of kind B (a size limit exceeded AND a failing hash; a missing auth event AND a rejected one; two X-Matrix lines AND two fetchers), an option of the caller combined with a particular input.
  (4) the most recent repairs (top ~8 commits of the log) and entry points no "fix:" commit has touched yet - list for yourself which exported functions of your area those are, and probe them first.
Everything the earlier rounds repaired is fair game again from a new angle. Recurring families that kept producing findings - probe them wherever they have not been probed yet: JSON null where "absent" is assumed; text handled by gjson / sjson before anything validated it; values extracted with gjson .String() instead of .Raw; hand-written header parsers; int64 conversion of unsigned timestamps; per-ID instead of per-copy bookkeeping when an event is listed twice; caches keyed by less than what determines the value; one malformed element discarding its well-formed neighbours; checks that run on a canonicalised / redacted / re-marshalled copy instead of the text that was received.

The following regions are deliberately left undecided by the owners of the properties (specification and upstream implementation disagree without the statement deciding, unstable MSC room versions, caller-side contracts, running time). Do not report findings that fall into them:
$(sed -n '/^### 5.3 Abstention regions/,/^---------/p' /verif/DESIGN.md | sed '1d;$d' | sed 's/^/  /')
EOT
