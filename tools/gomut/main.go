// gomut lists and applies mechanical source mutations of one Go file.
//
//	gomut list  <file.go>            one line per mutant: <index>\t<line>\t<operator>\t<description>
//	gomut apply <file.go> <index>    writes the mutated source to stdout
//
// Operators (each a realistic slip): relational boundary (< <= > >=), equality
// flipped, && / || swapped, condition of an if forced true / false, branch
// statement swapped (break / continue), integer literal off by one, boolean
// literal flipped, + / - swapped, a statement that is a bare call or an
// assignment removed, an early "return" inside an if-body removed (guard lost),
// else-branch dropped.
package main

import (
	"fmt"
	"go/ast"
	"go/parser"
	"go/token"
	"os"
	"sort"
	"strconv"
)

type mutant struct {
	start, end int // byte offsets in the source
	repl       string
	op, desc   string
	line       int
}

func main() {
	if len(os.Args) < 3 {
		fmt.Fprintln(os.Stderr, "usage: gomut list|apply file [index]")
		os.Exit(2)
	}
	src, err := os.ReadFile(os.Args[2])
	if err != nil {
		panic(err)
	}
	fset := token.NewFileSet()
	f, err := parser.ParseFile(fset, os.Args[2], src, parser.ParseComments)
	if err != nil {
		panic(err)
	}
	var ms []mutant
	off := func(p token.Pos) int { return fset.Position(p).Offset }
	add := func(s, e token.Pos, repl, op, desc string) {
		ms = append(ms, mutant{off(s), off(e), repl, op, desc, fset.Position(s).Line})
	}
	text := func(n ast.Node) string { return string(src[off(n.Pos()):off(n.End())]) }
	swap := map[token.Token][]string{
		token.LSS: {"<="}, token.LEQ: {"<"}, token.GTR: {">="}, token.GEQ: {">"},
		token.EQL: {"!="}, token.NEQ: {"=="}, token.LAND: {"||"}, token.LOR: {"&&"},
		token.ADD: {"-"}, token.SUB: {"+"},
	}
	ast.Inspect(f, func(n ast.Node) bool {
		switch x := n.(type) {
		case *ast.BinaryExpr:
			if reps, ok := swap[x.Op]; ok {
				if x.Op == token.ADD {
					// string concatenation cannot become a subtraction: the compiler sorts it out
				}
				for _, r := range reps {
					add(x.OpPos, x.OpPos+token.Pos(len(x.Op.String())), r, "binop", fmt.Sprintf("%s -> %s in %q", x.Op, r, clip(text(x))))
				}
			}
		case *ast.IfStmt:
			c := text(x.Cond)
			add(x.Cond.Pos(), x.Cond.End(), "true || ("+c+")", "if-true", "condition forced true: "+clip(c))
			add(x.Cond.Pos(), x.Cond.End(), "false && ("+c+")", "if-false", "condition forced false: "+clip(c))
			if x.Else != nil {
				if _, isBlock := x.Else.(*ast.BlockStmt); isBlock {
					add(x.Body.End(), x.Else.End(), "", "else-dropped", "else branch dropped after: "+clip(c))
				}
			}
		case *ast.BranchStmt:
			if x.Label == nil {
				switch x.Tok {
				case token.BREAK:
					add(x.Pos(), x.End(), "continue", "branch", "break -> continue")
				case token.CONTINUE:
					add(x.Pos(), x.End(), "break", "branch", "continue -> break")
				}
			}
		case *ast.BasicLit:
			if x.Kind == token.INT {
				if v, err := strconv.ParseInt(x.Value, 0, 64); err == nil {
					add(x.Pos(), x.End(), strconv.FormatInt(v+1, 10), "int+1", fmt.Sprintf("%s -> %d", x.Value, v+1))
					if v > 0 {
						add(x.Pos(), x.End(), strconv.FormatInt(v-1, 10), "int-1", fmt.Sprintf("%s -> %d", x.Value, v-1))
					}
				}
			}
		case *ast.Ident:
			if x.Name == "true" {
				add(x.Pos(), x.End(), "false", "bool", "true -> false")
			} else if x.Name == "false" {
				add(x.Pos(), x.End(), "true", "bool", "false -> true")
			}
		case *ast.BlockStmt:
			for _, st := range x.List {
				switch s := st.(type) {
				case *ast.ExprStmt:
					if _, ok := s.X.(*ast.CallExpr); ok {
						add(s.Pos(), s.End(), "", "call-removed", "statement removed: "+clip(text(s)))
					}
				case *ast.AssignStmt:
					if s.Tok == token.ASSIGN || s.Tok == token.ADD_ASSIGN {
						add(s.Pos(), s.End(), "", "assign-removed", "statement removed: "+clip(text(s)))
					}
				case *ast.IncDecStmt:
					add(s.Pos(), s.End(), "", "incdec-removed", "statement removed: "+clip(text(s)))
				}
			}
		case *ast.CaseClause:
			// a case of a switch loses one of its values
			if len(x.List) > 1 {
				for i, e := range x.List {
					var s, en token.Pos
					if i == 0 {
						s, en = e.Pos(), x.List[1].Pos()
					} else {
						s, en = x.List[i-1].End(), e.End()
					}
					add(s, en, "", "case-value-dropped", "case value dropped: "+clip(text(e)))
				}
			}
		case *ast.UnaryExpr:
			if x.Op == token.NOT {
				add(x.OpPos, x.OpPos+1, "", "not-dropped", "negation dropped: "+clip(text(x)))
			}
		}
		return true
	})
	sort.SliceStable(ms, func(i, j int) bool { return ms[i].start < ms[j].start })
	switch os.Args[1] {
	case "list":
		for i, m := range ms {
			fmt.Printf("%d\t%d\t%s\t%s\n", i, m.line, m.op, m.desc)
		}
	case "apply":
		i, _ := strconv.Atoi(os.Args[3])
		m := ms[i]
		os.Stdout.Write(src[:m.start])
		os.Stdout.WriteString(m.repl)
		os.Stdout.Write(src[m.end:])
	}
}

func clip(s string) string {
	b := []byte(s)
	for i, c := range b {
		if c == '\n' || c == '\t' {
			b[i] = ' '
		}
	}
	if len(b) > 90 {
		b = append(b[:90], "..."...)
	}
	return string(b)
}
