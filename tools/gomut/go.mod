module gomut

go 1.21
