#!/bin/bash
# Prints the prompt for a seeded-break sub-agent for property $1 working in /tmp/sb/$1.
P=$1
STMT=$(jq -r "select(.id==\"$P\") | .statement" /verif/properties.jsonl)
QUANT=$(jq -r "select(.id==\"$P\") | .quantifier.text" /verif/properties.jsonl)
TITLE=$(jq -r "select(.id==\"$P\") | .title" /verif/properties.jsonl)
cat <<EOT
You are helping to evaluate a verification framework by producing realistic *seeded bugs* for a Go library.

Your working copy: a private git worktree of the Go library matrix-org/gomatrixserverlib at /tmp/sb/$P (package root there; sub-packages fclient/, spec/, tokens/). Work ONLY inside /tmp/sb/$P and /tmp/sb/$P.out. Do NOT read, list or touch /verif or /repo or any other /tmp/sb/* directory — your work must be independent of them.

Every shell command needs this environment first (there is no network):
  export GOFLAGS=-mod=mod GOPROXY=off GOSUMDB=off GOTOOLCHAIN=local
The existing test suite is: cd /tmp/sb/$P && go test -vet=off -count=1 ./...   (it passes on the untouched worktree, ~5 s).

The semantic property of the library you are to break ("$TITLE"):

  $STMT

  It is quantified over: $QUANT

Your task: produce TWO independent source changes (call them A and B, of clearly different nature and touching different mechanisms) to the library's non-test .go files, each of which
  1. still compiles (go build ./... and go vet are not required, but go test must compile),
  2. still passes the complete existing test suite unchanged (do not edit or add *_test.go files as part of the change),
  3. makes the property above FALSE for some inputs / schedules / histories, and
  4. needs something specific to manifest — a particular unusual input, a particular room version, a multi-step sequence of operations, a particular interleaving or fault, or two cooperating sites that each look fine alone — rather than something ordinary use would expose at once. Think of plausible programmer mistakes (off-by-one, wrong version column, a missed case in a switch, a condition slightly too weak, a cache not invalidated, a lost check on one path), not sabotage like 'return nil' at the top of a function. Small diffs (1-15 lines) are best.
  Do not change exported function signatures or remove exported identifiers.

For each change X in {A, B} deliver in /tmp/sb/$P.out/:
  - X.patch.diff : output of 'git diff' for that change alone (relative to the untouched worktree; must apply with 'git apply' on a clean checkout),
  - X_demo_test.go : a self-contained Go test file (package gomatrixserverlib, or the sub-package it belongs in — say which directory it must be copied to in the notes) containing one test function named TestSeeded${P}X that FAILS with the change applied and PASSES on the untouched code. It may only use what is available in the repository's existing dependencies.
  - X.notes.json : {"property":"$P","summary":"what the change does","needs":"what specific input/sequence/version/interleaving it needs to manifest","demo_dir":"directory (relative to repo root) the demo test file goes in","demo_cmd":"go test -run TestSeeded${P}X ./<dir>"}

Verify yourself, for each change: (i) untouched worktree + demo test => demo passes; (ii) change applied => full existing suite passes AND demo fails. Between experiments restore with 'git -C /tmp/sb/$P checkout -- . && git -C /tmp/sb/$P clean -fdq'. Leave the worktree clean (no applied change, no demo files) when you finish. In your final message, state for each change in 3 lines what it is and what you verified. Do not write anything outside /tmp/sb/$P and /tmp/sb/$P.out.
EOT
