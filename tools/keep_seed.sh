#!/bin/bash
# tools/keep_seed.sh <outdir> <X> <id> "<caught_by text>"   — files a confirmed seeded change under seeded/<id>/
OUT=$1; X=$2; ID=$3; CAUGHT=$4
D=/verif/seeded/$ID; mkdir -p $D
cp $OUT/$X.patch.diff $D/patch.diff
cp $OUT/${X}_demo_test.go $D/demo_test.go
jq --arg caught "$CAUGHT" --arg ran "tools/try_seed.sh in a scratch worktree of /repo HEAD: demo passes on the clean tree; with the patch the full existing suite (go test -vet=off -count=1 ./...) passes and the demo fails; then ./check <PROP> quick with VERIF_REPO pointing at the patched worktree" \
  '. + {breaks: .property, needs_to_manifest: .needs, what_i_ran: $ran, caught_by: $caught}' $OUT/$X.notes.json > $D/meta.json
echo kept $D
