#!/bin/bash
# Fifth seeding round: like break_prompt4.sh, working in /tmp/sb8/$1, change names J and K. J is free; K is a partial
# regression of one of the later repairs (the 75 most recent "fix:" commits), other than those already regressed.
P=$1
DONE=$(for m in /verif/seeded/$P-*/meta.json; do jq -r 'select(.regresses != null) | "   - " + (.regresses | .[0:120])' $m; done)
/verif/tools/break_prompt2.sh $P | sed -e "s#/tmp/sb2/#/tmp/sb8/#g" -e "s/call them D and E/call them J and K/" -e "s/X in {D, E}/X in {J, K}/"
cat <<EOT

One more constraint: change J is free. Change K must be a REGRESSION of recent work: run 'git log --oneline | grep "fix:" | head -75' in your worktree, read the full messages of the repairs that concern this property (git show <hash>), pick one, and make a change that quietly undoes or weakens PART of that repair (not a plain revert of the commit: a plausible later edit - a refactoring, an optimisation, a "simplification", a merge gone slightly wrong - that loses the guarantee again for SOME of the inputs the repair was about, or for a neighbouring input), such that the existing suite still passes and your demonstration fails. Say in K.notes.json (member "regresses") which commit it regresses. Repairs already regressed by earlier changes (pick another):
$DONE
If no repair among those 75 concerns this property, take an older one (git log --oneline | grep "fix:").
EOT
