#!/usr/bin/env python3
"""tools/mutsweep.py [--workers N] [--per-file K] [--seed S] [--out FILE] [--files f1,f2,...]

Mechanical mutation sweep (a self-test of the checks, never a registered command): for sampled one-token
mutants of the library's source files (tools/gomut), in scratch worktrees of /repo HEAD under /tmp/mutw/:
  1. the mutant has to compile and pass the repository's own suite (otherwise it is of no interest),
  2. the quick checks of the properties that concern the file are run against it (VERIF_REPO=<worktree>).
Every mutant gets one line in the output file: status nocompile / killed-by-suite / caught (by which check,
first signature) / survived. Survivors are what to read: equivalent mutants, behaviour no property speaks
about, or a gap in a check."""
import argparse, json, os, random, subprocess, sys, hashlib, shutil, time
from concurrent.futures import ThreadPoolExecutor

ENV = dict(os.environ, GOFLAGS="-mod=mod", GOPROXY="off", GOSUMDB="off", GOTOOLCHAIN="local")
GOMUT = "/verif/.bin/gomut"
FILEMAP = {
    "json.go": "C01 C02 C04 C13", "signing.go": "C02 C06 C12", "exactjson.go": "C02 C04 C05 C07 C12",
    "event.go": "C03 C04 C05", "eventV1.go": "C03 C04 C05", "eventV2.go": "C03 C04 C05 C17", "eventV3.go": "C03 C04 C05",
    "event_builder.go": "C03 C17", "eventcrypto.go": "C03 C04 C06", "pdu.go": "C03", "redactevent.go": "C05 C04 C03",
    "eventversion.go": "C17 C01 C03 C05 C06", "eventauth.go": "C07 C08 C09 C10 C14", "eventcontent.go": "C07 C08 C09 C06 C15",
    "authstate.go": "C14 C15", "authchain.go": "C14", "stateresolution.go": "C10 C11", "stateresolutionv2.go": "C10 C11",
    "stateresolutionv2heaps.go": "C10 C11", "keyring.go": "C12 C06", "keys.go": "C12", "load.go": "C14 C11", "backfill.go": "C11 C14",
    "fclient/federationtypes.go": "C14 C15", "handlejoin.go": "C15", "handleleave.go": "C15", "handleinvite.go": "C15",
    "invite.go": "C15", "join.go": "C15", "performjoin.go": "C15", "fclient/request.go": "C13",
    "fclient/resolve.go": "C16", "fclient/well_known.go": "C16", "fclient/client.go": "C16 C19", "fclient/dnscache.go": "C16 C19",
    "spec/servername.go": "C17 C13", "spec/userid.go": "C17", "spec/roomid.go": "C17", "spec/base64.go": "C17 C02", "spec/senderid.go": "C17",
    "tokens/tokens.go": "C20", "tokens/tokens_handlers.go": "C20",
}
# operators in the order of how much they look like a slip somebody makes
WEIGHT = {"binop": 3, "if-true": 2, "if-false": 3, "not-dropped": 3, "branch": 3, "else-dropped": 2, "case-value-dropped": 3,
          "call-removed": 2, "assign-removed": 2, "incdec-removed": 1, "int+1": 1, "int-1": 1, "bool": 2}


def sh(cmd, cwd=None, timeout=1500):
    try:
        p = subprocess.run(cmd, cwd=cwd, env=ENV, stdout=subprocess.PIPE, stderr=subprocess.STDOUT, timeout=timeout, text=True, shell=isinstance(cmd, str))
        return p.returncode, p.stdout
    except subprocess.TimeoutExpired:
        return 124, "timeout"


SRC = "/tmp/mutw/src"  # a pristine worktree of the commit the sweep runs at: mutants are listed and applied from it


def list_mutants(f):
    rc, out = sh([GOMUT, "list", SRC + "/" + f])
    ms = []
    for line in out.splitlines():
        parts = line.split("\t")
        if len(parts) == 4:
            ms.append(dict(file=f, idx=int(parts[0]), line=int(parts[1]), op=parts[2], desc=parts[3]))
    return ms


def run_one(wt, m, tier):
    f = m["file"]
    sh(["git", "checkout", "-q", "--", "."], cwd=wt)
    rc, src = sh([GOMUT, "apply", SRC + "/" + f, str(m["idx"])])
    if rc != 0:
        return dict(m, status="gomut-error")
    with open(os.path.join(wt, f), "w") as fh:
        fh.write(src)
    pkg = "./" + os.path.dirname(f) if "/" in f else "."
    rc, out = sh(["go", "build", "./..."], cwd=wt)
    if rc != 0:
        return dict(m, status="nocompile")
    rc, out = sh(["go", "vet", "-tags", "verif", pkg], cwd=wt)  # unused variables / imports only show here or in the test build
    rc, out = sh(["go", "test", "-vet=off", "-count=1", "./..."], cwd=wt, timeout=900)
    if rc != 0:
        return dict(m, status="killed-by-suite")
    caught = []
    for prop in FILEMAP[f].split():
        rc, out = sh(["/verif/check", prop, tier], cwd="/verif", timeout=1500)
        env_note = ""
        if "BUILD-ERROR" in out:
            return dict(m, status="nocompile-with-hooks")
        if rc == 1 or "VIOLATION" in out:
            sig = [l.strip() for l in out.splitlines() if l.strip().startswith("signature:")]
            caught.append(prop + ": " + (sig[0][:140] if sig else "violation"))
            break
        if rc not in (0, 1):
            caught.append(prop + ": rc=%d %s" % (rc, out.strip().splitlines()[-1][:120] if out.strip() else ""))
            break
    if caught:
        return dict(m, status="caught", by=caught[0])
    return dict(m, status="survived", checks=FILEMAP[f])


def worker(args):
    wid, queue, tier, outpath = args
    wt = "/tmp/mutw/w%d" % wid
    global ENV
    res = []
    env = dict(ENV, VERIF_REPO=wt)
    for m in queue:
        t0 = time.time()
        # per-worker environment: the checks build against this worktree
        old = ENV
        ENV = env
        try:
            r = run_one(wt, m, tier)
        finally:
            ENV = old
        r["secs"] = round(time.time() - t0, 1)
        with open(outpath, "a") as fh:
            fh.write(json.dumps(r) + "\n")
        res.append(r)
    return res


def main():
    ap = argparse.ArgumentParser()
    ap.add_argument("--workers", type=int, default=5)
    ap.add_argument("--per-file", type=int, default=30)
    ap.add_argument("--seed", type=int, default=1)
    ap.add_argument("--out", default="/verif/.work/mutsweep.jsonl")
    ap.add_argument("--files", default="")
    ap.add_argument("--tier", default="quick")
    a = ap.parse_args()
    files = a.files.split(",") if a.files else list(FILEMAP)
    rnd = random.Random(a.seed)
    os.makedirs("/tmp/mutw", exist_ok=True)
    if not os.path.isdir(SRC):
        sh(["git", "-C", "/repo", "worktree", "add", "-q", "--detach", SRC, "HEAD"])
    done = set()
    if os.path.exists(a.out):
        for l in open(a.out):
            try:
                d = json.loads(l)
                done.add((d["file"], d["idx"]))
            except Exception:
                pass
    todo = []
    for f in files:
        ms = [m for m in list_mutants(f) if (m["file"], m["idx"]) not in done]
        weights = [WEIGHT.get(m["op"], 1) for m in ms]
        k = min(a.per_file, len(ms))
        chosen = set()
        while len(chosen) < k:
            chosen.add(rnd.choices(range(len(ms)), weights)[0])
        todo += [ms[i] for i in sorted(chosen)]
    rnd.shuffle(todo)
    print("mutants to try:", len(todo), "already done:", len(done), flush=True)
    os.makedirs("/tmp/mutw", exist_ok=True)
    for w in range(a.workers):
        wt = "/tmp/mutw/w%d" % w
        if not os.path.isdir(wt):
            sh(["git", "-C", "/repo", "worktree", "add", "-q", "--detach", wt, "HEAD"])
        else:
            sh(["git", "checkout", "-q", "--detach", subprocess.check_output(["git", "-C", "/repo", "rev-parse", "HEAD"], text=True).strip()], cwd=wt)
    # the worker processes are separate interpreters (ENV is per process)
    import multiprocessing as mp
    queues = [todo[i::a.workers] for i in range(a.workers)]
    with mp.Pool(a.workers) as pool:
        pool.map(worker, [(i, queues[i], a.tier, a.out) for i in range(a.workers)])
    sh(["git", "-C", "/repo", "worktree", "remove", "--force", SRC])
    for w in range(a.workers):
        wt = "/tmp/mutw/w%d" % w
        sh(["git", "-C", "/repo", "worktree", "remove", "--force", wt])
        tag = hashlib.md5((wt + "\n").encode()).hexdigest()[:10]
        shutil.rmtree("/verif/.bin/alt-" + tag, ignore_errors=True)
        shutil.rmtree("/verif/.work/alt-" + tag, ignore_errors=True)
    stats = {}
    for l in open(a.out):
        d = json.loads(l)
        stats[d["status"]] = stats.get(d["status"], 0) + 1
    print(stats)


if __name__ == "__main__":
    main()
