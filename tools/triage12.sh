#!/bin/bash
# tools/triage12.sh <PROP> [check props...] — ninth seeding round: removes the agent's worktree and tries R and S.
P=$1; shift; CH=${@:-$P}
git -C /repo worktree remove --force /tmp/sb12/$P 2>/dev/null
for X in R S; do echo "== $P-$X"; jq -r '.summary | .[0:300]' /tmp/sb12/$P.out/$X.notes.json; /verif/tools/try_seed.sh /tmp/sb12/$P.out $X quick $CH; done
