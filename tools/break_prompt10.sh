#!/bin/bash
# Seventh seeding round: like break_prompt4.sh, working in /tmp/sb10/$1, change names N and O.
# N has to need a history, an interleaving, a fault or two cooperating sites (not merely an unusual input);
# O is a partial regression of a repair ("fix:" commit) no earlier change regressed, or touches an entry point no earlier change touched.
P=$1
DONE=$(for m in /verif/seeded/$P-*/meta.json; do jq -r 'select(.regresses != null) | "   - " + (.regresses | .[0:120])' $m; done)
/verif/tools/break_prompt2.sh $P | sed -e "s#/tmp/sb2/#/tmp/sb10/#g" -e "s/call them D and E/call them N and O/" -e "s/X in {D, E}/X in {N, O}/"
cat <<EOT

Two more constraints for this round.
Change N must need MORE than one unusual input to manifest. Pick (in this order of preference, whichever the property and the code allow): (a) a multi-step history inside one process - something computed, cached, memoised, pooled or reused by an earlier call changes what a later call returns; (b) two cooperating sites, each of which looks correct alone (e.g. a check moved to a caller that one other caller lacks; a table column and the code that reads it; a normalisation applied on one path and not on its sibling); (c) a particular interleaving of goroutines or a fault (error, timeout, cancelled context, short read) at a particular point; (d) an interaction between two features (two room-version traits, two optional members, an option of the caller combined with a particular input). Before choosing, list the clauses of the property statement and the public entry points they concern, and prefer a clause or entry point none of the earlier changes listed above touches.
Change O must be a REGRESSION of earlier repair work or an untouched entry point: run 'git log --oneline | grep "fix:"' in your worktree (about 133 commits), read the full messages of the repairs that concern this property (git show <hash>), pick one that is not listed below, and make a change that quietly undoes or weakens PART of that repair (not a plain revert: a plausible later edit - a refactoring, an optimisation, a "simplification", a merge gone slightly wrong - that loses the guarantee again for SOME of the inputs the repair was about, or for a neighbouring input), such that the existing suite still passes and your demonstration fails. Say in O.notes.json (member "regresses") which commit it regresses. Repairs already regressed by earlier changes (pick another):
$DONE
If every repair that concerns this property is listed, choose instead an exported function or method that the property covers and that none of the earlier changes touches, and break the property through it.
EOT
