#!/bin/bash
# tools/benign_prompt4.sh <group> "<area>" - fourth benign round: like benign_prompt3.sh in /tmp/bn4/<group>, on the
# code the monitors of the ninth seeding / audit round look at (batch signature verification and redaction before it,
# the key fetchers and the decoding of key documents, the federation client's calls and its transport, the invite and
# send_join handlers, the power-level checks).
/verif/tools/benign_prompt3.sh "$@" | sed -e "s#/tmp/bn3/#/tmp/bn4/#g"
cat <<EOT

This round, restructure in particular (where they are in your area): the batch entry points and their single-item siblings (share one implementation between VerifyAllEventSignatures and VerifyEventSignatures; between the key ring's batch verifier and VerifyJSON) without changing which room version / key / rule each item is judged by; the decoding of key documents (ServerKeys, VerifyKey, OldVerifyKey: custom UnmarshalJSON / MarshalJSON written out by hand, fields decoded in another order) keeping every field; the fetchers' worker loops; the federation client's request builders and the fallbacks to older endpoints (one helper for the "[200, body]" form of send_join / send_leave v1 that still refuses every other shape); the transport's RoundTrip (working on a clone of the request, resolution results handled by a helper); HandleInvite / HandleSendJoin split into validation steps in the same order; the power-level comparison loops (one generic helper for thresholds, events, notifications, users) giving the same verdict and the same error text for every pair of contents. The copy-on-write discipline of events (Redact, Sign, SetUnsigned, cached event ID) may be reorganised as long as every accessor answers the same after every sequence of calls.
EOT
