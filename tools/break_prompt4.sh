#!/bin/bash
# Fourth seeding round: like break_prompt2.sh, working in /tmp/sb4/$1, change names H and I; one of the two is to be a
# (partial) regression of one of the repairs found in the worktree's own git log.
P=$1
/verif/tools/break_prompt2.sh $P | sed -e "s#/tmp/sb2/#/tmp/sb4/#g" -e "s/call them D and E/call them H and I/" -e "s/X in {D, E}/X in {H, I}/"
cat <<EOT

One more constraint: change H is free. Change I must be a REGRESSION of recent work: run 'git log --oneline | grep "fix:" | head -60' in your worktree, read the full messages of the repairs that concern this property (git show <hash>), pick one, and make a change that quietly undoes or weakens PART of that repair (not a plain revert of the commit: a plausible later edit - a refactoring, an optimisation, a "simplification" - that loses the guarantee again for some inputs), such that the existing suite still passes and your demonstration fails. Say in I.notes.json which commit it regresses.
EOT
