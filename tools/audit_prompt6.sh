#!/bin/bash
# tools/audit_prompt6.sh <group> <PROP>...  — fifth audit round: like audit_prompt.sh, working in /tmp/au6/<group>,
# told what was already found (git log of the worktree) and what is deliberately left undecided (DESIGN.md 5.3).
G=$1
/verif/tools/audit_prompt.sh "$@" | sed -e "s#/tmp/au/#/tmp/au6/#g"
cat <<EOT

SIXTH ROUND. Five earlier audits of this library already found and repaired many defects: run 'git log --oneline | grep "fix:"' in your worktree (about 120 commits; read the full messages of those in your area with 'git log') to see what is already known - do NOT report those again, and do not report inputs that the repaired code now handles. Look for NEW defects: other clauses of the properties, other entry points, other room versions, interactions between the repaired pieces, and mistakes the repairs themselves may have introduced (regressions). The most recent repairs (the top ~6 commits) have had the least scrutiny: removal of a peer's users entry refused in checkUserLevels; CheckSendJoinResponse preferring the intact copy of an auth event; checkServerName in the plain client's request builders; the backslash handling of the Cache-Control splitter; resolveAuthBlock restoring the caller's auth event in state resolution v1. Everything the earlier rounds repaired is fair game again from a new angle. Recurring families that keep producing findings - probe them wherever they have not been probed yet: JSON null where "absent" is assumed (pointer / slice / map fields decoded by encoding/json); text handled by gjson / sjson before anything validated it; values extracted with gjson .String() instead of .Raw; comma / quote handling in hand-written header parsers; int64 conversion of unsigned timestamps; per-ID instead of per-copy bookkeeping when an event is listed twice; caches keyed by less than what determines the value; one malformed element discarding its well-formed neighbours.

The following regions are deliberately left undecided by the owners of the properties (specification and upstream implementation disagree without the statement deciding, unstable MSC room versions, caller-side contracts, running time). Do not report findings that fall into them:
$(sed -n '/^### 5.3 Abstention regions/,/^---------/p' /verif/DESIGN.md | sed '1d;$d' | sed 's/^/  /')
EOT
