#!/usr/bin/env python3
"""Validates MANIFEST.json and evidence/*.json against the schemas in /root/.vp."""
import json, sys, glob, os
import jsonschema
ROOT = os.path.dirname(os.path.dirname(os.path.abspath(__file__)))
ok = True
def check(path, schema):
    global ok
    try:
        jsonschema.validate(json.load(open(path)), json.load(open(schema)))
        print("ok  ", path)
    except Exception as e:
        ok = False
        print("FAIL", path, str(e)[:300])
check(os.path.join(ROOT, "MANIFEST.json"), "/root/.vp/MANIFEST.schema.json")
for f in sorted(glob.glob(os.path.join(ROOT, "evidence", "*.json"))):
    check(f, "/root/.vp/EVIDENCE.schema.json")
sys.exit(0 if ok else 1)
