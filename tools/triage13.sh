#!/bin/bash
# tools/triage12.sh <PROP> [check props...] — tenth seeding round: removes the agent's worktree and tries T and U.
P=$1; shift; CH=${@:-$P}
git -C /repo worktree remove --force /tmp/sb13/$P 2>/dev/null
for X in T U; do echo "== $P-$X"; jq -r '.summary | .[0:300]' /tmp/sb13/$P.out/$X.notes.json; /verif/tools/try_seed.sh /tmp/sb13/$P.out $X quick $CH; done
