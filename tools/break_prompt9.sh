#!/bin/bash
# Sixth seeding round: like break_prompt4.sh, working in /tmp/sb9/$1, change names L and M. L is free; M is a partial
# regression of one of the later repairs (the 75 most recent "fix:" commits), other than those already regressed.
P=$1
DONE=$(for m in /verif/seeded/$P-*/meta.json; do jq -r 'select(.regresses != null) | "   - " + (.regresses | .[0:120])' $m; done)
/verif/tools/break_prompt2.sh $P | sed -e "s#/tmp/sb2/#/tmp/sb9/#g" -e "s/call them D and E/call them L and M/" -e "s/X in {D, E}/X in {L, M}/"
cat <<EOT

One more constraint: change L is free (before you choose it, list the clauses of the property statement and the public entry points they concern, and prefer a clause or entry point none of the earlier changes listed above touches). Change M must be a REGRESSION of recent work: run 'git log --oneline | grep "fix:" | head -75' in your worktree, read the full messages of the repairs that concern this property (git show <hash>), pick one, and make a change that quietly undoes or weakens PART of that repair (not a plain revert of the commit: a plausible later edit - a refactoring, an optimisation, a "simplification", a merge gone slightly wrong - that loses the guarantee again for SOME of the inputs the repair was about, or for a neighbouring input), such that the existing suite still passes and your demonstration fails. Say in M.notes.json (member "regresses") which commit it regresses. Repairs already regressed by earlier changes (pick another):
$DONE
If no repair among those 75 concerns this property, take an older one (git log --oneline | grep "fix:").
EOT
