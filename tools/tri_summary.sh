#!/bin/bash
# tools/tri_summary.sh <log>... — one line per seed of a triage log: validity and which checks fired with which signatures
for f in "$@"; do
awk '
/^== /{ if (id!="") print id, valid, fired; id=$2; valid=""; fired=""; chk="" }
/demo on clean tree: PASS/{valid=valid "c"} /suite with change: PASS/{valid=valid "s"} /demo with change: FAIL/{valid=valid "d"}
/^--- .\/check /{chk=$3}
/signature:/{ if (index(fired, chk":")==0) fired=fired " " chk ":" $2 }
/BUILD-ERROR/{fired=fired " " chk ":BUILD-ERROR"}
END{ if (id!="") print id, valid, fired }' $f
done
