#!/bin/bash
# Confirms a seeded change (patch + demo test) in a scratch worktree and runs checks against it.
#   tools/try_seed.sh <outdir> <X> <tier> <PROP> [PROP...]
# <outdir> holds X.patch.diff, X_demo_test.go, X.notes.json (as delivered by a break agent)
# or patch.diff / demo_test.go / meta.json (as kept under seeded/<id>/; then X = "-").
export GOFLAGS=-mod=mod GOPROXY=off GOSUMDB=off GOTOOLCHAIN=local
OUT=$1; X=$2; TIER=$3; shift 3
if [ "$X" = "-" ]; then PATCH=$OUT/patch.diff; DEMO=$(ls $OUT/*_test.go | head -1); NOTES=$OUT/meta.json
else PATCH=$OUT/$X.patch.diff; DEMO=$OUT/${X}_demo_test.go; NOTES=$OUT/$X.notes.json; fi
DIR=$(jq -r '.demo_dir // "."' $NOTES); [ "$DIR" = "" ] && DIR=.
WT=/tmp/seedtry-$$-$RANDOM
git -C /repo worktree add -q --detach $WT HEAD || exit 2
trap 'git -C /repo worktree remove --force $WT; rm -rf /verif/.bin/alt-$(echo "$WT" | md5sum | cut -c1-10) /verif/.work/alt-$(echo "$WT" | md5sum | cut -c1-10)' EXIT
TESTNAME=$(grep -o 'func Test[A-Za-z0-9_]*' $DEMO | head -1 | sed 's/func //')
cp $DEMO $WT/$DIR/zz_seed_demo_test.go
if (cd $WT && go test -vet=off -count=1 -run "^$TESTNAME\$" ./$DIR > /tmp/seedtry-$$.log 2>&1); then echo "demo on clean tree: PASS (ok)"; else echo "demo on clean tree: FAIL (bad seed)"; tail -5 /tmp/seedtry-$$.log; fi
rm $WT/$DIR/zz_seed_demo_test.go
if ! git -C $WT apply $PATCH; then echo "patch does not apply"; exit 2; fi
if (cd $WT && go test -vet=off -count=1 ./... > /tmp/seedtry-$$.log 2>&1); then echo "suite with change: PASS (ok)"; else echo "suite with change: FAIL (bad seed)"; tail -5 /tmp/seedtry-$$.log; fi
cp $DEMO $WT/$DIR/zz_seed_demo_test.go
if (cd $WT && go test -vet=off -count=1 -run "^$TESTNAME\$" ./$DIR > /tmp/seedtry-$$.log 2>&1); then echo "demo with change: PASS (bad seed)"; else echo "demo with change: FAIL (ok)"; fi
rm $WT/$DIR/zz_seed_demo_test.go /tmp/seedtry-$$.log
for P in "$@"; do
  echo "--- ./check $P $TIER against the change"
  VERIF_REPO=$WT /verif/check $P $TIER 2>&1 | grep -E 'VIOLATION|signature:|KNOWN|INCONCLUSIVE|held|violated|BUILD' | cut -c1-220 | head -12
done
