#!/bin/bash
# Tenth seeding round: like break_prompt2.sh, working in /tmp/sb13/$1, change names T and U.
# T is a partial regression of one of the repairs already in the tree (dressed as a simplification); U is a change in a
# shared helper or a sub-package that is not specific to the property and breaks it indirectly.
P=$1
/verif/tools/break_prompt2.sh $P | sed -e "s#/tmp/sb2/#/tmp/sb13/#g" -e "s/call them D and E/call them T and U/" -e "s/X in {D, E}/X in {T, U}/"
cat <<EOT

Two more constraints for this round.
Change T must be a PARTIAL REGRESSION OF A REPAIR that is already in the tree. Run 'git log --oneline | grep "fix:"' in your worktree (about 146 commits) and read, with 'git show', the ones that concern the code behind this property. Pick one whose defect, if it came back, would make the property false, and bring the defect back for SOME of the inputs the repair covers - the way it happens in practice: a later "simplification" / "tidy-up" / "performance" edit by somebody who did not know why the code is the way it is (a guard folded into a neighbouring condition that is slightly weaker, a helper introduced by the repair replaced by a standard-library call that is almost equivalent, a second call site of the repaired function reverted to the old idiom, the order of two checks swapped back). Do not simply revert the commit, and do not pick a repair that one of the earlier changes listed above already regresses. Say in the notes which commit you regress and for which sub-case. The existing suite must still pass (the repairs came without tests of their own, so it will).
Change U must be made in a SHARED HELPER or a SUB-PACKAGE that is not specific to this property - json.go / exactjson.go helpers, event.go helpers, the spec/ package (identifiers, base64, timestamps, raw JSON, errors), util functions, fclient/request.go or the client plumbing, the room-version table - and break THIS property indirectly, through a caller, for inputs that need something specific. The edit itself must look reasonable at its own site.
For both: small, plausible diffs; no sabotage; list the clauses of the statement first and prefer one the earlier changes touch least.
EOT
