#!/bin/bash
# tools/runall.sh [tier] [seed] — runs every claimed check, prints one line each
TIER=${1:-quick}; export VERIF_SEED=${2:-1}
cd /verif
for p in $(jq -r '.checks[].property_id' MANIFEST.json); do
  out=$(./check $p $TIER 2>&1); rc=$?
  echo "rc=$rc $(echo "$out" | tail -1 | cut -c1-150)"
  if [ $rc -ne 0 ]; then echo "$out" | grep -E 'VIOLATION|signature|INCONCL|HARNESS|BUILD' | head -8 | cut -c1-200; fi
done
