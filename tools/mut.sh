#!/bin/bash
# Self-test helper: tools/mut.sh "<PROP> [PROP..]" <file> '<python re.sub pattern>' '<replacement>' [tier]
# Applies one source edit to a scratch worktree of /repo HEAD, confirms the existing suite still passes, runs the checks.
export GOFLAGS=-mod=mod GOPROXY=off GOSUMDB=off GOTOOLCHAIN=local
PROPS=$1; FILE=$2; PAT=$3; REP=$4; TIER=${5:-quick}
WT=/tmp/mut-$$-$RANDOM
git -C /repo worktree add -q --detach $WT HEAD || exit 2
TAG=$(echo "$WT" | md5sum | cut -c1-10)
trap 'git -C /repo worktree remove --force $WT; rm -rf /verif/.bin/alt-$TAG /verif/.work/alt-$TAG' EXIT
python3 - "$WT/$FILE" "$PAT" "$REP" <<'PY'
import re,sys
p,pat,rep=sys.argv[1:4]
s=open(p).read()
n,k=re.subn(pat,rep,s,count=1,flags=re.S)
if k!=1: print("PATTERN NOT FOUND"); sys.exit(3)
open(p,'w').write(n)
PY
[ $? -eq 0 ] || exit 3
git -C $WT diff | grep '^[+-]' | grep -v '^+++\|^---' | head -8
if (cd $WT && go test -vet=off -count=1 ./... > /tmp/mut-$$.log 2>&1); then echo "suite: PASS"; else echo "suite: FAIL (mutant killed by existing tests)"; grep -E '^(--- FAIL|FAIL|ok)' /tmp/mut-$$.log | head -5; fi
rm -f /tmp/mut-$$.log
for P in $PROPS; do
  VERIF_REPO=$WT /verif/check $P $TIER 2>&1 | grep -E 'VIOLATION|signature:|INCONCLUSIVE|held|violated|BUILD' | cut -c1-200 | head -8
done
