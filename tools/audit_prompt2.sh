#!/bin/bash
# tools/audit_prompt2.sh <group> <PROP>...  — second audit round: like audit_prompt.sh, working in /tmp/au2/<group>,
# told what was already found (git log of the worktree) and what is deliberately left undecided (DESIGN.md 5.3).
G=$1
/verif/tools/audit_prompt.sh "$@" | sed -e "s#/tmp/au/#/tmp/au2/#g"
cat <<EOT

SECOND ROUND. An earlier audit of this library already found and repaired many defects: run 'git log --oneline | grep "fix:"' in your worktree (about 70 commits, read the full messages of those in your area with 'git log') to see what is already known - do NOT report those again, and do not report inputs that the repaired code now handles. Look for NEW defects: other clauses of the properties, other entry points, other room versions, interactions between the repaired pieces, and mistakes the repairs themselves may have introduced (regressions). In particular consider: the helper unmarshalExact (exactjson.go) and every place it is or is NOT used; checkNoDuplicateKeys; the stricter ParseAuthorization; the token canonical-form check; the reordered size checks in CheckFields; the well-known lookup with a custom dialer; LoadAndVerify result slots; the cycle guards in state resolution.

The following regions are deliberately left undecided by the owners of the properties (specification and upstream implementation disagree without the statement deciding, unstable MSC room versions, caller-side contracts, running time). Do not report findings that fall into them:
$(sed -n '/^### 5.3 Abstention regions/,/^---------/p' /verif/DESIGN.md | sed '1d;$d' | sed 's/^/  /')
EOT
