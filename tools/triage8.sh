#!/bin/bash
# tools/triage8.sh <PROP> [check props...] — fifth seeding round: removes the agent's worktree and tries J and K.
P=$1; shift; CH=${@:-$P}
git -C /repo worktree remove --force /tmp/sb8/$P 2>/dev/null
for X in J K; do echo "== $P-$X"; jq -r '.summary | .[0:300]' /tmp/sb8/$P.out/$X.notes.json; /verif/tools/try_seed.sh /tmp/sb8/$P.out $X quick $CH; done
