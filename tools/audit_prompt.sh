#!/bin/bash
# tools/audit_prompt.sh <group-name> <PROP> [PROP...]  — prompt for an auditing sub-agent working in /tmp/au/<group>
G=$1; shift
cat <<EOT
You are auditing a Go library for real, currently present bugs.

Your working copy: a private git worktree of matrix-org/gomatrixserverlib at /tmp/au/$G (package root there; sub-packages fclient/, spec/, tokens/). Work ONLY inside /tmp/au/$G and /tmp/au/$G.out. Do NOT read, list or touch /verif or /repo or any other /tmp directory.

Every shell command needs this environment first (there is no network):
  export GOFLAGS=-mod=mod GOPROXY=off GOSUMDB=off GOTOOLCHAIN=local
The existing test suite is: cd /tmp/au/$G && go test -vet=off -count=1 ./...   (passes, ~5 s).

The library is supposed to satisfy the following semantic properties for ALL inputs in the stated range:
EOT
for P in "$@"; do
  echo
  echo "[$P] $(jq -r "select(.id==\"$P\") | .title" /verif/properties.jsonl)"
  echo "  $(jq -r "select(.id==\"$P\") | .statement" /verif/properties.jsonl)"
  echo "  Quantified over: $(jq -r "select(.id==\"$P\") | .quantifier.text" /verif/properties.jsonl)"
  if [ "$P" = C07 ]; then echo; echo "  The 'deliberate, documented departures' that count as part of the rules for C07 (do not report these):"; sed -n '/^### 5.1 C07/,/^### 5.2/p' /verif/DESIGN.md | sed '1d;$d' | sed 's/^/    /'; echo "    Also out of scope (known spec/upstream disagreements): create events whose content room_version is unrecognised; create content creator != sender; third-party invites with banned target / top-level public_key only / other sender; previous membership knock in versions < 7; knock_restricted in v8-9; a notification level equal to the sender's level; power levels beyond 2^53; float or huge-exponent levels in v1-9; JSON null as a level in v1-9; redacts without colon in v1/v2."; fi
  if [ "$P" = C10 ]; then echo; echo "  The refinements that are part of the definition for C10 (do not report these):"; sed -n '/^### 5.2 C10/,/^### 5.3/p' /verif/DESIGN.md | sed '1d;$d' | sed 's/^/    /'; fi
done
cat <<EOT

Your task: by reading the code carefully and by writing and running your own exploratory tests (unit tests, table tests, small random/differential tests — whatever finds bugs), find concrete inputs / call sequences / schedules for which the UNMODIFIED library violates one of these properties. Hunt in the corners: unusual but valid inputs, every room version column (1..12 and the unstable ones), boundary values, rarely used entry points and code paths, inputs that are valid by the grammar but that a programmer would not think of, multi-step sequences, state left behind by earlier calls. Panics on hostile input count (for the crash-freedom property). Spend real effort: read every function in the relevant files, and for each clause of each property ask "which input would make this false?".

Rules:
  - Do not modify any non-test .go file. You may add *_test.go files while exploring, but leave the worktree clean at the end (git status clean).
  - Only report violations you have actually reproduced with a test that FAILS on the unmodified code. No speculation.
  - Do not report mere deviations from the Matrix specification that the property statement does not talk about; the property statements above are the yardstick.
  - For each finding N (1, 2, ...) deliver in /tmp/au/$G.out/: findingN_test.go (self-contained Go test file, say which package directory it belongs in, containing one test TestAuditFindingN that fails on the unmodified code and would pass once the bug is fixed) and findingN.md (which property, the exact failing input/sequence, observed vs expected behaviour, the responsible code location, and a suggested minimal fix).
  - If after thorough effort you find nothing for a property, say so and list what you tried.
In your final message list each finding in 3-4 lines (property, input, observed vs expected, code location).
EOT
