#!/bin/bash
# Ninth seeding round: like break_prompt2.sh, working in /tmp/sb12/$1, change names R and S.
# R has to be two cooperating sites that each look fine (and are harmless) alone; S has to sit on a clause or an entry
# point that none of the earlier changes touches, and need a multi-step sequence or a particular version / option.
P=$1
/verif/tools/break_prompt2.sh $P | sed -e "s#/tmp/sb2/#/tmp/sb12/#g" -e "s/call them D and E/call them R and S/" -e "s/X in {D, E}/X in {R, S}/"
cat <<EOT

Two more constraints for this round (the earlier changes listed above already cover single-site slips, faults at callbacks, histories and aliasing thoroughly).
Change R must consist of TWO COOPERATING SITES: two hunks in two different functions (better: two different files), each of which is a plausible, reviewable edit that is HARMLESS ON ITS OWN - with only hunk 1 applied, or only hunk 2 applied, the property still holds and your demonstration still passes - and only both together make the property false (one site starts to rely on an invariant / a normalisation / a check that the other site stops establishing; a helper's contract is changed and one of its callers is not updated; a default moved from one layer to another and lost on one path). Verify all three states (hunk 1 alone: demo passes; hunk 2 alone: demo passes; both: demo fails, suite passes) and say so in the notes. Deliver the two hunks together as R.patch.diff.
Change S must sit on a CLAUSE of the property statement or a PUBLIC ENTRY POINT that none of the earlier changes listed above touches. First list for yourself every clause of the statement and every exported function / method through which it can be observed (grep the package for exported identifiers; include the rarely used ones: the deprecated variants, the batch variants, the ...ForRoomVersion / ...WithEventID / Must... / ...Untrusted... / ...Trusted... variants, accessors, String / MarshalJSON / UnmarshalJSON methods, the sub-packages spec/, fclient/, tokens/), mark which ones the summaries above mention, and pick an unmarked one. S must need a multi-step sequence of calls, or a particular room version together with a particular option or member, to manifest.
For both: small, plausible diffs; no sabotage.
EOT
