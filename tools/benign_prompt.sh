#!/bin/bash
# tools/benign_prompt.sh <group> "<files / area description>"  — prompt for a sub-agent that produces behaviour-preserving
# refactorings in its own worktree /tmp/bn/<group>; the registered checks must stay silent on the result.
G=$1; AREA=$2
cat <<EOT
You are refactoring a Go library WITHOUT changing its behaviour.

Your working copy: a private git worktree of matrix-org/gomatrixserverlib at /tmp/bn/$G (package root there; sub-packages fclient/, spec/, tokens/). Work ONLY inside /tmp/bn/$G and /tmp/bn/$G.out. Do NOT read, list or touch /verif or /repo or any other /tmp directory.

Every shell command needs this environment first (there is no network):
  export GOFLAGS=-mod=mod GOPROXY=off GOSUMDB=off GOTOOLCHAIN=local
The existing test suite is: cd /tmp/bn/$G && go test -vet=off -count=1 ./...   (passes, ~5 s). Files with the build tag "verif" (verif_hooks*.go) must keep compiling too: go build -tags verif ./...

Your area: $AREA

Task: restructure the code in your area as invasively as you can while keeping the observable behaviour of every exported function, method and type EXACTLY the same for every input: same results, same errors (type and message text), same panics or absence of panics, same JSON tags, same exported signatures, same concurrency behaviour (same critical sections, no new shared state). Typical moves: extract / inline helpers, rename unexported identifiers, convert switch <-> if chains, loops <-> recursion, goto -> loops, early returns, replace hand-written code by equivalent standard-library calls, pre-size slices and maps, reorder independent statements, merge duplicated code of the three event formats, replace containers by equivalent ones. Touch many functions. Do NOT fix bugs, do NOT change validation strictness, do NOT change what is accepted or refused, do NOT change iteration order where results or error messages could depend on it, do NOT change the unexported functions that the verif hook files call (keep their names and signatures).

Verify yourself: write differential tests that run the old and the new code on many generated inputs (keep a copy of the original files under another package name or compare against recorded outputs of the untouched tree) and make sure nothing differs; run the existing suite and 'go vet ./...' is not needed. Leave the refactoring APPLIED in the worktree (uncommitted changes are fine) but remove your own test files at the end. Write /tmp/bn/$G.out/summary.md listing each refactoring (file, function, what changed) and how you verified equivalence.
EOT
