#!/bin/bash
# Eighth seeding round: like break_prompt10.sh, working in /tmp/sb11/$1, change names P and Q.
# P has to need a fault or an interleaving at a particular point (error return of a callback / provider / database /
# fetcher / resolver, cancelled or expired context, short or oversized reply, concurrent callers), or - where the code
# the property covers has no such point - an interaction of two features. Q has to be a history or an aliasing of
# caller data through another mechanism than the earlier changes used.
P=$1
/verif/tools/break_prompt2.sh $P | sed -e "s#/tmp/sb2/#/tmp/sb11/#g" -e "s/call them D and E/call them P and Q/" -e "s/X in {D, E}/X in {P, Q}/"
cat <<EOT

Two more constraints for this round (the earlier changes listed above already cover the plain "unusual input" kind thoroughly, so neither P nor Q may be of that kind).
Change P must need a FAULT or an INTERLEAVING at a particular point to manifest: an error (or a nil, an empty or a partial answer) returned by something the library calls back into or out to - an event provider, a state provider, a key database, a key fetcher or key client, a membership / user-ID querier, a resolver, the HTTP transport - at one particular call; a context that is cancelled or expires between two steps; a reply that is cut short or oversized; two goroutines calling into the same object at once. The mistake must be in how the library carries on after that point (a result of the failed step used anyway, a partial result taken for a complete one, an error swallowed, a retry that repeats a side effect, a lock or a slot not released, state half-updated). If - and only if - nothing the property covers ever calls out or runs concurrently, make P instead an interaction of two features that are each handled correctly alone (two optional members, two room-version traits, an option of the caller combined with a particular input).
Change Q must be a HISTORY or an ALIASING bug through a mechanism none of the earlier changes used: something an earlier call leaves behind (package-level variable, cache, memo, pool, reused struct field, lazily computed field) that changes a later call's answer; or a slice / map / byte buffer shared between the library and its caller (an accessor that returns internal storage which the library later sorts, filters or appends to in place; an input buffer written into; a result that shares its backing array with another result). Before choosing, read the summaries above and pick a mechanism and a place that none of them touches.
For both: list the clauses of the property statement and the public entry points they concern first, and prefer a clause or entry point none of the earlier changes touches.
EOT
