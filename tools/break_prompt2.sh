#!/bin/bash
# Second-round prompt: like break_prompt.sh but working in /tmp/sb2/$1, change names D and E, and told which
# mechanisms earlier seeded changes already touched (summaries only; nothing about the checks).
P=$1
PREV=$(for m in /verif/seeded/$P-*/meta.json; do jq -r '"   - " + (.summary | .[0:260])' $m; done)
/verif/tools/break_prompt.sh $P | sed -e "s#/tmp/sb/#/tmp/sb2/#g" -e "s/call them A and B/call them D and E/" -e "s/X in {A, B}/X in {D, E}/" 
cat <<EOT

Additional constraint for this round: earlier rounds already produced the following changes for this property. Yours must touch DIFFERENT mechanisms / code paths / clauses of the property than these (re-read the property statement and pick clauses not yet covered; prefer mechanisms in less obvious files or paths):
$PREV
EOT
