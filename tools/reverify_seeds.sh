#!/bin/bash
# tools/reverify_seeds.sh [-j N] [id...]  — re-runs every kept seed against /repo HEAD: patch applies, suite passes, demo
# fails, and the check(s) its meta.json names under caught_by ("Cxx quick") report a violation. N seeds at a time.
cd /verif
J=1; if [ "$1" = "-j" ]; then J=$2; shift 2; fi
OUT=/verif/.work/reverify; mkdir -p $OUT
IDS="$@"; [ -z "$IDS" ] && IDS=$(ls seeded)
one() {
  id=$1; OUT=/verif/.work/reverify
  P=$(jq -r .breaks seeded/$id/meta.json)
  # the checks that the record says catch it (the first one named is tried first; any one firing counts)
  PROPS=$(jq -r '.caught_by // ""' seeded/$id/meta.json | grep -o 'C[0-9][0-9] quick' | cut -c1-3 | awk '!s[$0]++' | tr '\n' ' ')
  [ -z "$PROPS" ] && PROPS=$P
  tools/try_seed.sh /verif/seeded/$id - quick $PROPS > $OUT/$id.log 2>&1
  applies=$(grep -c "patch does not apply" $OUT/$id.log)
  clean=$(grep -c "demo on clean tree: PASS" $OUT/$id.log)
  suite=$(grep -c "suite with change: PASS" $OUT/$id.log)
  demo=$(grep -c "demo with change: FAIL" $OUT/$id.log)
  fired=$(grep -c "VIOLATION\|violated" $OUT/$id.log)
  echo "$id applies=$((1-applies)) clean_demo_pass=$clean suite_pass=$suite demo_fails=$demo check_fires=$fired checks=[$PROPS]"
}
export -f one
printf '%s\n' $IDS | xargs -P $J -I{} bash -c 'one {}'
