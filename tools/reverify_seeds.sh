#!/bin/bash
# tools/reverify_seeds.sh [id...]  — re-runs every kept seed against /repo HEAD: patch applies, suite passes, demo fails, check fires.
cd /verif
OUT=/verif/.work/reverify; mkdir -p $OUT
IDS="$@"; [ -z "$IDS" ] && IDS=$(ls seeded)
for id in $IDS; do
  P=$(jq -r .breaks seeded/$id/meta.json)
  PROPS=$P
  # seeds documented as caught by another property's check
  case $id in C06-B) PROPS="C12";; C05-H|C05-I) PROPS="C04";; C18-I) PROPS="C15";; C15-E) PROPS="C15 C14";; C18-D) PROPS="C18";; C09-K) PROPS="C10";; C06-J) PROPS="C12";; C05-K) PROPS="C04";; C07-J) PROPS="C09";; C19-M) PROPS="C12";; C05-M) PROPS="C04 C02";; esac
  tools/try_seed.sh /verif/seeded/$id - quick $PROPS > $OUT/$id.log 2>&1
  applies=$(grep -c "patch does not apply" $OUT/$id.log)
  clean=$(grep -c "demo on clean tree: PASS" $OUT/$id.log)
  suite=$(grep -c "suite with change: PASS" $OUT/$id.log)
  demo=$(grep -c "demo with change: FAIL" $OUT/$id.log)
  fired=$(grep -c "VIOLATION\|violated" $OUT/$id.log)
  echo "$id applies=$((1-applies)) clean_demo_pass=$clean suite_pass=$suite demo_fails=$demo check_fires=$fired"
done
