#!/usr/bin/env python3
"""Regenerates the generated tables of DESIGN.md (between BEGIN/END markers) from
KNOWN_FINDINGS.json and seeded/*/meta.json."""
import json, glob, os, re
ROOT = os.path.dirname(os.path.dirname(os.path.abspath(__file__)))
def esc(s): return str(s).replace("|", "\\|").replace("\n", " ")
kf = json.load(open(os.path.join(ROOT, "KNOWN_FINDINGS.json")))["findings"]
rows = ["| prop | status | commit | signature the check reports | what failed |", "|---|---|---|---|---|"]
for f in sorted(kf, key=lambda f: (f["property"], f["signature"])):
    what = re.sub(r"^fixed: property=\S+ \S+ ", "", f["what"])
    rows.append(f"| {f['property']} | {f['status']} | {f.get('commit','')} | `{esc(f['signature'])}` | {esc(what)} |")
findings = "\n".join(rows)
rows = ["| id | breaks | what the change does | what it needs to manifest | caught by |", "|---|---|---|---|---|"]
for d in sorted(glob.glob(os.path.join(ROOT, "seeded", "*"))):
    m = json.load(open(os.path.join(d, "meta.json")))
    rows.append(f"| {os.path.basename(d)} | {m.get('breaks', m.get('property'))} | {esc(m.get('summary',''))[:420]} | {esc(m.get('needs_to_manifest', m.get('needs','')))[:300]} | {esc(m.get('caught_by',''))} |")
seeded = "\n".join(rows)
p = os.path.join(ROOT, "DESIGN.md")
s = open(p).read()
for name, body in [("findings", findings), ("seeded", seeded)]:
    s = re.sub(rf"(<!-- BEGIN:{name} -->\n).*?(<!-- END:{name} -->)", lambda m: m.group(1) + body + "\n" + m.group(2), s, flags=re.S)
open(p, "w").write(s)
print("findings:", len(kf), "seeded:", len(glob.glob(os.path.join(ROOT, 'seeded', '*'))))
