#!/bin/bash
# tools/triage10.sh <PROP> [check props...] — seventh seeding round: removes the agent's worktree and tries N and O.
P=$1; shift; CH=${@:-$P}
git -C /repo worktree remove --force /tmp/sb10/$P 2>/dev/null
for X in N O; do echo "== $P-$X"; jq -r '.summary | .[0:300]' /tmp/sb10/$P.out/$X.notes.json; /verif/tools/try_seed.sh /tmp/sb10/$P.out $X quick $CH; done
