#!/bin/bash
# tools/triage8.sh <PROP> [check props...] — sixth seeding round: removes the agent's worktree and tries L and M.
P=$1; shift; CH=${@:-$P}
git -C /repo worktree remove --force /tmp/sb9/$P 2>/dev/null
for X in L M; do echo "== $P-$X"; jq -r '.summary | .[0:300]' /tmp/sb9/$P.out/$X.notes.json; /verif/tools/try_seed.sh /tmp/sb9/$P.out $X quick $CH; done
