// Audit finding 1 (property C15, with a C14 twin).
// Place this file in the package root directory (package gomatrixserverlib).
package gomatrixserverlib

import (
	"context"
	"crypto/ed25519"
	"crypto/sha256"
	"fmt"
	"testing"
	"time"

	"github.com/matrix-org/gomatrixserverlib/spec"
)

type auditF1Keys map[spec.ServerName]ed25519.PrivateKey

const auditF1KeyID = KeyID("ed25519:1")

func auditF1NewKeys(servers ...spec.ServerName) auditF1Keys {
	k := auditF1Keys{}
	for _, s := range servers {
		seed := sha256.Sum256([]byte(s))
		k[s] = ed25519.NewKeyFromSeed(seed[:])
	}
	return k
}

// VerifyJSONs implements JSONVerifier with one fixed key per server.
func (k auditF1Keys) VerifyJSONs(ctx context.Context, requests []VerifyJSONRequest) ([]VerifyJSONResult, error) {
	res := make([]VerifyJSONResult, len(requests))
	for i, r := range requests {
		sk, ok := k[r.ServerName]
		if !ok {
			res[i].Error = fmt.Errorf("no key for %q", r.ServerName)
			continue
		}
		res[i].Error = VerifyJSON(string(r.ServerName), auditF1KeyID, sk.Public().(ed25519.PublicKey), r.Message)
	}
	return res, nil
}

func auditF1UserIDForSender(roomID spec.RoomID, senderID spec.SenderID) (*spec.UserID, error) {
	return spec.NewUserID(string(senderID), true)
}

type auditF1Membership struct{}

func (auditF1Membership) CurrentMembership(ctx context.Context, roomID spec.RoomID, senderID spec.SenderID) (string, error) {
	return spec.Leave, nil
}

func auditF1Build(t *testing.T, ver RoomVersion, keys auditF1Keys, sender, typ, stateKey, content string, depth int64, prev []string, auth []string) PDU {
	t.Helper()
	u, err := spec.NewUserID(sender, true)
	if err != nil {
		t.Fatal(err)
	}
	eb := MustGetRoomVersion(ver).NewEventBuilderFromProtoEvent(&ProtoEvent{
		SenderID:   sender,
		RoomID:     "!room:a.example",
		Type:       typ,
		StateKey:   &stateKey,
		PrevEvents: prev,
		AuthEvents: auth,
		Depth:      depth,
		Content:    spec.RawJSON(content),
	})
	ev, err := eb.Build(time.UnixMilli(1700000000000+depth), u.Domain(), auditF1KeyID, keys[u.Domain()])
	if err != nil {
		t.Fatalf("building %s: %v", typ, err)
	}
	return ev
}

// A join of a room version that knows restricted joins (8 and later) whose
// content says "join_authorised_via_users_server": null (or "") names no user of
// the local server. HandleSendJoin reads the member as absent, accepts the
// join and countersigns it; VerifyEventSignatures - the check every other
// path of the library applies to that very event - reads the member as
// present and refuses the event ("failed to split authorised server").
// Whatever HandleSendJoin accepts and signs has to be an event that the
// library itself takes for correctly signed afterwards.
func TestAuditFinding1(t *testing.T) {
	for _, ver := range []RoomVersion{RoomVersionV8, RoomVersionV9, RoomVersionV10, RoomVersionV11} {
		for _, content := range []string{
			`{"join_authorised_via_users_server":null,"membership":"join"}`,
			`{"join_authorised_via_users_server":"","membership":"join"}`,
		} {
			t.Run(string(ver)+"/"+content, func(t *testing.T) {
				keys := auditF1NewKeys("a.example", "b.example")
				createContent := `{"creator":"@alice:a.example","room_version":"` + string(ver) + `"}`
				if ver == RoomVersionV11 {
					createContent = `{"room_version":"11"}`
				}
				create := auditF1Build(t, ver, keys, "@alice:a.example", spec.MRoomCreate, "", createContent, 1, []string{}, []string{})
				aliceJoin := auditF1Build(t, ver, keys, "@alice:a.example", spec.MRoomMember, "@alice:a.example", `{"membership":"join"}`, 2,
					[]string{create.EventID()}, []string{create.EventID()})
				joinRules := auditF1Build(t, ver, keys, "@alice:a.example", spec.MRoomJoinRules, "", `{"join_rule":"public"}`, 3,
					[]string{aliceJoin.EventID()}, []string{create.EventID(), aliceJoin.EventID()})
				bobJoin := auditF1Build(t, ver, keys, "@bob:b.example", spec.MRoomMember, "@bob:b.example", content, 4,
					[]string{joinRules.EventID()}, []string{create.EventID(), joinRules.EventID()})

				roomID, _ := spec.NewRoomID("!room:a.example")
				res, err := HandleSendJoin(HandleSendJoinInput{
					Context:           context.Background(),
					RoomID:            *roomID,
					EventID:           bobJoin.EventID(),
					JoinEvent:         bobJoin.JSON(),
					RoomVersion:       ver,
					RequestOrigin:     "b.example",
					LocalServerName:   "a.example",
					KeyID:             auditF1KeyID,
					PrivateKey:        keys["a.example"],
					Verifier:          keys,
					MembershipQuerier: auditF1Membership{},
					UserIDQuerier:     auditF1UserIDForSender,
					StoreSenderIDFromPublicID: func(ctx context.Context, senderID spec.SenderID, userID string, id spec.RoomID) error {
						return nil
					},
				})
				if err != nil {
					// refusing the join (it names no authorising user of this server) is fine
					return
				}
				// The join was accepted and countersigned: sender's server and local
				// server have both signed it, so the library must accept its signatures.
				if verr := VerifyEventSignatures(context.Background(), res.JoinEvent, keys, auditF1UserIDForSender); verr != nil {
					t.Errorf("HandleSendJoin accepted and countersigned a join with content %s, "+
						"but VerifyEventSignatures refuses that same event: %v", content, verr)
				}
				// ... and CheckStateResponse must not drop it from a state that holds it.
				state := []PDU{create, aliceJoin, joinRules, res.JoinEvent}
				resp := &stateResponseImpl{
					authEvents:  NewEventJSONsFromEvents([]PDU{create, aliceJoin, joinRules}),
					stateEvents: NewEventJSONsFromEvents(state),
				}
				_, kept, cerr := CheckStateResponse(context.Background(), resp, ver, keys, nil, auditF1UserIDForSender)
				if cerr != nil {
					t.Fatalf("CheckStateResponse: %v", cerr)
				}
				if len(kept) != len(state) {
					t.Errorf("CheckStateResponse dropped the join that HandleSendJoin accepted and signed: kept %d of %d state events", len(kept), len(state))
				}
			})
		}
	}
}
