// Audit finding 2 (property C14).
// Place this file in the package root directory (package gomatrixserverlib).
package gomatrixserverlib

import (
	"context"
	"crypto/ed25519"
	"crypto/sha256"
	"encoding/json"
	"fmt"
	"testing"
	"time"

	"github.com/matrix-org/gomatrixserverlib/spec"
)

type auditF2Keys map[spec.ServerName]ed25519.PrivateKey

const auditF2KeyID = KeyID("ed25519:1")

func auditF2NewKeys(servers ...spec.ServerName) auditF2Keys {
	k := auditF2Keys{}
	for _, s := range servers {
		seed := sha256.Sum256([]byte(s))
		k[s] = ed25519.NewKeyFromSeed(seed[:])
	}
	return k
}

func (k auditF2Keys) VerifyJSONs(ctx context.Context, requests []VerifyJSONRequest) ([]VerifyJSONResult, error) {
	res := make([]VerifyJSONResult, len(requests))
	for i, r := range requests {
		sk, ok := k[r.ServerName]
		if !ok {
			res[i].Error = fmt.Errorf("no key for %q", r.ServerName)
			continue
		}
		res[i].Error = VerifyJSON(string(r.ServerName), auditF2KeyID, sk.Public().(ed25519.PublicKey), r.Message)
	}
	return res, nil
}

func auditF2UserIDForSender(roomID spec.RoomID, senderID spec.SenderID) (*spec.UserID, error) {
	return spec.NewUserID(string(senderID), true)
}

type auditF2Room struct {
	t     *testing.T
	ver   RoomVersion
	keys  auditF2Keys
	depth int64
	last  []string
}

func (r *auditF2Room) build(sender, typ, stateKey, content string, auth []PDU, extraSigners ...spec.ServerName) PDU {
	r.t.Helper()
	u, err := spec.NewUserID(sender, true)
	if err != nil {
		r.t.Fatal(err)
	}
	authIDs := []string{}
	for _, a := range auth {
		authIDs = append(authIDs, a.EventID())
	}
	prev := r.last
	if prev == nil {
		prev = []string{}
	}
	r.depth++
	eb := MustGetRoomVersion(r.ver).NewEventBuilderFromProtoEvent(&ProtoEvent{
		SenderID:   sender,
		RoomID:     "!room:a.example",
		Type:       typ,
		StateKey:   &stateKey,
		PrevEvents: prev,
		AuthEvents: authIDs,
		Depth:      r.depth,
		Content:    spec.RawJSON(content),
	})
	ev, err := eb.Build(time.UnixMilli(1700000000000+r.depth), u.Domain(), auditF2KeyID, r.keys[u.Domain()])
	if err != nil {
		r.t.Fatalf("building %s: %v", typ, err)
	}
	for _, s := range extraSigners {
		ev = ev.Sign(string(s), auditF2KeyID, r.keys[s])
	}
	r.last = []string{ev.EventID()}
	return ev
}

// auditF2BreakHash returns a copy of the event whose content no longer matches
// its content hash. Signatures and event ID (both taken over the redacted form)
// stay valid; the parser turns such a copy into the redacted event.
func auditF2BreakHash(ev PDU) spec.RawJSON {
	var m map[string]json.RawMessage
	_ = json.Unmarshal(ev.JSON(), &m)
	var c map[string]json.RawMessage
	_ = json.Unmarshal(m["content"], &c)
	c["tampered"] = json.RawMessage(`true`)
	m["content"], _ = json.Marshal(c)
	out, _ := json.Marshal(m)
	return out
}

// A send_join response carries the room's power-levels event twice: intact in
// the auth chain and with a broken content hash (i.e. as its redacted form,
// which in room versions 1-10 has lost "invite") in the state. The joining
// event is a restricted join authorised by a user whose level (0) is below the
// real invite level (50); it does not cite the power levels among its auth
// events (a resident server's make_join template decides that).
//
// CheckStateResponse and - since the last two audit rounds - the lookup table
// for the join's auth events let the intact copy stand for the event. The
// second check of CheckSendJoinResponse, "allowed by the returned state", still
// goes by whichever copy happens to sit in the state list: the verdict on the
// same response flips when the two copies swap places.
func TestAuditFinding2(t *testing.T) {
	for _, ver := range []RoomVersion{RoomVersionV8, RoomVersionV9, RoomVersionV10} {
		t.Run(string(ver), func(t *testing.T) {
			keys := auditF2NewKeys("a.example", "b.example")
			r := &auditF2Room{t: t, ver: ver, keys: keys}
			create := r.build("@alice:a.example", spec.MRoomCreate, "", `{"creator":"@alice:a.example","room_version":"`+string(ver)+`"}`, nil)
			aliceJoin := r.build("@alice:a.example", spec.MRoomMember, "@alice:a.example", `{"membership":"join"}`, []PDU{create})
			powerLevels := r.build("@alice:a.example", spec.MRoomPowerLevels, "", `{"users":{"@alice:a.example":100},"users_default":0,"invite":50}`, []PDU{create, aliceJoin})
			publicRules := r.build("@alice:a.example", spec.MRoomJoinRules, "", `{"join_rule":"public"}`, []PDU{create, aliceJoin, powerLevels})
			danJoin := r.build("@dan:a.example", spec.MRoomMember, "@dan:a.example", `{"membership":"join"}`, []PDU{create, powerLevels, publicRules})
			restricted := r.build("@alice:a.example", spec.MRoomJoinRules, "",
				`{"join_rule":"restricted","allow":[{"type":"m.room_membership","room_id":"!other:a.example"}]}`, []PDU{create, aliceJoin, powerLevels})
			// Bob's join, authorised by dan (level 0 < invite 50), not citing the power levels.
			join := r.build("@bob:b.example", spec.MRoomMember, "@bob:b.example",
				`{"join_authorised_via_users_server":"@dan:a.example","membership":"join"}`, []PDU{create, restricted, danJoin}, "a.example")

			// Sanity: the state of the room forbids the join.
			realState, _ := NewAuthEvents([]PDU{create, aliceJoin, powerLevels, restricted, danJoin})
			if err := Allowed(join, realState, auditF2UserIDForSender); err == nil {
				t.Fatalf("test setup: the join should not be allowed by the room state")
			}

			intactInState := &stateResponseImpl{
				authEvents:  EventJSONs{create.JSON(), aliceJoin.JSON(), auditF2BreakHash(powerLevels), publicRules.JSON()},
				stateEvents: EventJSONs{create.JSON(), aliceJoin.JSON(), powerLevels.JSON(), restricted.JSON(), danJoin.JSON()},
			}
			intactInAuthChain := &stateResponseImpl{
				authEvents:  EventJSONs{create.JSON(), aliceJoin.JSON(), powerLevels.JSON(), publicRules.JSON()},
				stateEvents: EventJSONs{create.JSON(), aliceJoin.JSON(), auditF2BreakHash(powerLevels), restricted.JSON(), danJoin.JSON()},
			}

			_, errA := CheckSendJoinResponse(context.Background(), ver, intactInState, keys, join, nil, auditF2UserIDForSender)
			_, errB := CheckSendJoinResponse(context.Background(), ver, intactInAuthChain, keys, join, nil, auditF2UserIDForSender)
			if errA == nil {
				t.Errorf("intact power levels in the state: join accepted although the state forbids it")
			}
			if errB == nil {
				t.Errorf("same two copies of the power levels, intact one in the auth chain and hash-broken one in the state: "+
					"the join is accepted, although the intact power-levels event (invite: 50) arrived with verified signatures "+
					"in the same response and forbids it (with the copies swapped the verdict is: %v)", errA)
			}
		})
	}
}
