// Audit finding 3 (property C15).
// Place this file in the package root directory (package gomatrixserverlib).
package gomatrixserverlib

import (
	"context"
	"crypto/ed25519"
	"crypto/sha256"
	"fmt"
	"testing"
	"time"

	"github.com/matrix-org/gomatrixserverlib/spec"
)

type auditF3Keys map[spec.ServerName]ed25519.PrivateKey

const auditF3KeyID = KeyID("ed25519:1")

func (k auditF3Keys) VerifyJSONs(ctx context.Context, requests []VerifyJSONRequest) ([]VerifyJSONResult, error) {
	res := make([]VerifyJSONResult, len(requests))
	for i, r := range requests {
		sk, ok := k[r.ServerName]
		if !ok {
			res[i].Error = fmt.Errorf("no key for %q", r.ServerName)
			continue
		}
		res[i].Error = VerifyJSON(string(r.ServerName), auditF3KeyID, sk.Public().(ed25519.PublicKey), r.Message)
	}
	return res, nil
}

type auditF3RoomQuerier struct{ known bool }

func (q auditF3RoomQuerier) IsKnownRoom(ctx context.Context, roomID spec.RoomID) (bool, error) {
	return q.known, nil
}

type auditF3Membership struct{ membership string }

func (q auditF3Membership) CurrentMembership(ctx context.Context, roomID spec.RoomID, senderID spec.SenderID) (string, error) {
	return q.membership, nil
}

type auditF3StateQuerier struct{ state []PDU }

func (q auditF3StateQuerier) GetAuthEvents(ctx context.Context, event PDU) (AuthEventProvider, error) {
	return NewAuthEvents(q.state)
}
func (q auditF3StateQuerier) GetState(ctx context.Context, roomID spec.RoomID, stateWanted []StateKeyTuple) ([]PDU, error) {
	return q.state, nil
}

// HandleInvite has to refuse an invite whose target is already joined to the
// room, whatever the other queriers answer. It asks the membership querier
// only when the room querier calls the room "known": with IsKnownRoom == false
// and CurrentMembership == "join" (a combination of querier answers inside
// the quantified range) the invite is accepted and countersigned.
func TestAuditFinding3(t *testing.T) {
	for _, ver := range []RoomVersion{RoomVersionV1, RoomVersionV6, RoomVersionV10, RoomVersionV11} {
		for _, known := range []bool{true, false} {
			t.Run(fmt.Sprintf("v%s/known=%v", ver, known), func(t *testing.T) {
				keys := auditF3Keys{}
				for _, s := range []spec.ServerName{"a.example", "b.example"} {
					seed := sha256.Sum256([]byte(s))
					keys[s] = ed25519.NewKeyFromSeed(seed[:])
				}
				verImpl := MustGetRoomVersion(ver)
				build := func(sender, typ, stateKey, content string, depth int64, prev, auth []string) PDU {
					var prevRefs, authRefs interface{} = prev, auth
					if verImpl.EventFormat() == EventFormatV1 {
						prevRefs, authRefs = toEventReference(prev), toEventReference(auth)
					}
					eb := verImpl.NewEventBuilderFromProtoEvent(&ProtoEvent{
						SenderID: sender, RoomID: "!room:a.example", Type: typ, StateKey: &stateKey,
						PrevEvents: prevRefs, AuthEvents: authRefs, Depth: depth, Content: spec.RawJSON(content),
					})
					ev, err := eb.Build(time.UnixMilli(1700000000000+depth), "a.example", auditF3KeyID, keys["a.example"])
					if err != nil {
						t.Fatalf("building %s: %v", typ, err)
					}
					return ev
				}
				createContent := `{"creator":"@alice:a.example","room_version":"` + string(ver) + `"}`
				if ver == RoomVersionV11 {
					createContent = `{"room_version":"11"}`
				}
				create := build("@alice:a.example", spec.MRoomCreate, "", createContent, 1, []string{}, []string{})
				aliceJoin := build("@alice:a.example", spec.MRoomMember, "@alice:a.example", `{"membership":"join"}`, 2,
					[]string{create.EventID()}, []string{create.EventID()})
				invite := build("@alice:a.example", spec.MRoomMember, "@bob:b.example", `{"membership":"invite"}`, 3,
					[]string{aliceJoin.EventID()}, []string{create.EventID(), aliceJoin.EventID()})

				roomID, _ := spec.NewRoomID("!room:a.example")
				bob, _ := spec.NewUserID("@bob:b.example", true)
				signed, err := HandleInvite(context.Background(), HandleInviteInput{
					RoomID:            *roomID,
					RoomVersion:       ver,
					InvitedUser:       *bob,
					InvitedSenderID:   spec.SenderID(bob.String()),
					InviteEvent:       invite,
					KeyID:             auditF3KeyID,
					PrivateKey:        keys["b.example"],
					Verifier:          keys,
					RoomQuerier:       auditF3RoomQuerier{known: known},
					MembershipQuerier: auditF3Membership{membership: spec.Join}, // the invited user is joined
					StateQuerier:      auditF3StateQuerier{state: []PDU{create}},
					UserIDQuerier: func(roomID spec.RoomID, senderID spec.SenderID) (*spec.UserID, error) {
						return spec.NewUserID(string(senderID), true)
					},
				})
				if err == nil {
					t.Errorf("IsKnownRoom=%v: HandleInvite accepted and countersigned an invite (%s) for a user whose current membership is %q",
						known, signed.EventID(), spec.Join)
				}
			})
		}
	}
}
