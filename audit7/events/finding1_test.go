package gomatrixserverlib

// Audit round 7, events, finding 1. Belongs in the package root directory
// (package gomatrixserverlib).

import (
	"testing"
	"time"

	"github.com/matrix-org/gomatrixserverlib/spec"
	"golang.org/x/crypto/ed25519"
)

// EventBuilder.Build must not produce an event that NewEventFromUntrustedJSON
// (and therefore every server running this library) refuses. Since the
// untrusted parsers refuse text that is not valid UTF-8, Build has to refuse a
// proto-event whose content / unsigned carries an invalid byte - or else the
// event it returns has to re-parse.
func TestAuditFinding1(t *testing.T) {
	key := ed25519.NewKeyFromSeed(make([]byte, 32))
	emptyKey := ""
	for ver, verImpl := range RoomVersions() {
		roomID := "!room:example.org"
		if verImpl.DomainlessRoomIDs() {
			roomID = "!aaaaaaaaaaaaaaaaaaaaaaaaaaaaaaaaaaaaaaaaaaa"
		}
		var prev, auth interface{} = []string{"$bbbbbbbbbbbbbbbbbbbbbbbbbbbbbbbbbbbbbbbbbbb"}, []string{"$ccccccccccccccccccccccccccccccccccccccccccc"}
		cases := map[string]ProtoEvent{
			"invalid byte in a redactable content value": {
				Type: "m.room.message", Content: spec.RawJSON("{\"body\":\"a\xffb\"}"),
			},
			"invalid byte in a redactable content key": {
				Type: "m.room.message", Content: spec.RawJSON("{\"bo\xffdy\":\"ab\"}"),
			},
			"invalid byte in a redactable content value of a state event": {
				Type: "m.room.topic", StateKey: &emptyKey, Content: spec.RawJSON("{\"topic\":\"\xc3\x28\"}"),
			},
			"invalid byte in unsigned": {
				Type: "m.room.message", Content: spec.RawJSON(`{"body":"ab"}`), Unsigned: spec.RawJSON("{\"transaction_id\":\"\xff\"}"),
			},
		}
		for name, pe := range cases {
			pe.SenderID = "@alice:example.org"
			pe.RoomID = roomID
			pe.PrevEvents = prev
			pe.AuthEvents = auth
			pe.Depth = 2
			ev, err := verImpl.NewEventBuilderFromProtoEvent(&pe).Build(time.UnixMilli(1700000000000), "example.org", "ed25519:k", key)
			if err != nil {
				// refusing the proto-event is fine
				continue
			}
			got, err := verImpl.NewEventFromUntrustedJSON(ev.JSON())
			if err != nil {
				t.Errorf("room version %s, %s: Build succeeded (event %s) but NewEventFromUntrustedJSON refuses the event it built: %v", ver, name, ev.EventID(), err)
				continue
			}
			if got.EventID() != ev.EventID() || got.Redacted() {
				t.Errorf("room version %s, %s: built event re-parses to %s (redacted=%v), want %s unredacted", ver, name, got.EventID(), got.Redacted(), ev.EventID())
			}
		}
	}
}
