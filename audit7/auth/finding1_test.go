// Package directory: the repository root (package gomatrixserverlib).
package gomatrixserverlib

import (
	"encoding/json"
	"fmt"
	"testing"

	"github.com/matrix-org/gomatrixserverlib/spec"
)

// TestAuditFinding1: in room versions 1-9 an m.room.power_levels event whose
// content is {"users": null} is authorised, although its "users" property is
// present and is not an object ("If the users property in content is not an
// object with keys that are valid user IDs with values that are integers (or a
// string that is an integer), reject."). Every other non-object ([] , "x", 5,
// true) is refused in these versions, and so is {"users": null} from version
// 10 on.
func TestAuditFinding1(t *testing.T) {
	querier := func(roomID spec.RoomID, senderID spec.SenderID) (*spec.UserID, error) {
		return spec.NewUserID(string(senderID), true)
	}
	for _, ver := range []RoomVersion{"1", "2", "3", "4", "5", "6", "7", "8", "9"} {
		impl := MustGetRoomVersion(ver)
		n := 0
		mk := func(typ, stateKey, sender, content string) PDU {
			n++
			m := map[string]interface{}{
				"type": typ, "state_key": stateKey, "sender": sender, "room_id": "!room:hs1",
				"content": json.RawMessage(content), "origin_server_ts": 1000 + n, "depth": n,
				"prev_events": []interface{}{}, "auth_events": []interface{}{},
				"hashes": map[string]string{"sha256": "aaaa"},
			}
			if impl.EventFormat() == EventFormatV1 {
				m["event_id"] = fmt.Sprintf("$e%d:hs1", n)
			}
			b, err := json.Marshal(m)
			if err != nil {
				t.Fatal(err)
			}
			ev, err := impl.NewEventFromTrustedJSON(b, false)
			if err != nil {
				t.Fatal(err)
			}
			return ev
		}
		create := mk("m.room.create", "", "@c:hs1", fmt.Sprintf(`{"creator":"@c:hs1","room_version":%q}`, string(ver)))
		join := mk("m.room.member", "@c:hs1", "@c:hs1", `{"membership":"join"}`)
		oldPL := mk("m.room.power_levels", "", "@c:hs1", `{"users":{"@c:hs1":100}}`)

		check := func(content string) error {
			provider, err := NewAuthEvents([]PDU{create, join, oldPL})
			if err != nil {
				t.Fatal(err)
			}
			return Allowed(mk("m.room.power_levels", "", "@c:hs1", content), provider, querier)
		}
		// control: the other non-objects are refused, an object is accepted
		for _, c := range []string{`{"users":[]}`, `{"users":"x"}`, `{"users":5}`, `{"users":true}`} {
			if err := check(c); err == nil {
				t.Errorf("room version %s: control %s was allowed", ver, c)
			}
		}
		if err := check(`{"users":{}}`); err != nil {
			t.Errorf("room version %s: control {\"users\":{}} was refused: %v", ver, err)
		}
		// the finding
		if err := check(`{"users":null}`); err == nil {
			t.Errorf("room version %s: power-levels event {\"users\":null} was allowed; its users property is not an object", ver)
		}
	}
}
