// Belongs in the package root directory (package gomatrixserverlib), next to signing.go.
package gomatrixserverlib

import (
	"bytes"
	"strings"
	"testing"

	"golang.org/x/crypto/ed25519"
)

// C02: a signer name / key ID that is not valid UTF-8. SignJSON files the
// signature under another name (every invalid byte becomes U+FFFD when the
// "signatures" map is marshalled), so the object it returns
//   - does not verify under the signer's own name / key ID,
//   - does verify under a different name / key ID,
//   - and, when the U+FFFD spelling has signed before, repeats a member under
//     "signatures", which makes VerifyJSON refuse the earlier signature too.
//
// Either SignJSON refuses such a name / key ID (as it refuses a message that
// is not valid UTF-8 since the sixth round), or all three checks have to hold.
func TestAuditFinding1(t *testing.T) {
	seed := bytes.Repeat([]byte{7}, ed25519.SeedSize)
	priv := ed25519.NewKeyFromSeed(seed)
	pub := priv.Public().(ed25519.PublicKey)
	seed2 := bytes.Repeat([]byte{9}, ed25519.SeedSize)
	priv2 := ed25519.NewKeyFromSeed(seed2)
	pub2 := priv2.Public().(ed25519.PublicKey)

	message := []byte(`{"content":{"body":"x"},"unsigned":{"age":1}}`)

	cases := []struct {
		name, otherName string
		id, otherID     KeyID
	}{
		{name: "srv\xff", otherName: "srv�", id: "ed25519:1", otherID: "ed25519:1"},
		{name: "srv", otherName: "srv", id: "ed25519:\xff", otherID: "ed25519:�"},
		{name: "\xc3(", otherName: "�(", id: "ed25519:1", otherID: "ed25519:1"},
	}
	for _, c := range cases {
		signed, err := SignJSON(c.name, c.id, priv, message)
		if err != nil {
			// refusing the name / key ID is a correct answer
			continue
		}
		if err := VerifyJSON(c.name, c.id, pub, signed); err != nil {
			t.Errorf("SignJSON(%q, %q) succeeded, but the result does not verify under that name and key ID: %v\n  signed: %s", c.name, c.id, err, signed)
		}
		if err := VerifyJSON(c.otherName, c.otherID, pub, signed); err == nil {
			t.Errorf("object signed as (%q, %q) verifies under the different name / key ID (%q, %q)\n  signed: %s", c.name, c.id, c.otherName, c.otherID, signed)
		}

		// An earlier signature filed under the U+FFFD spelling must survive.
		first, err := SignJSON(c.otherName, c.otherID, priv2, message)
		if err != nil {
			t.Fatalf("SignJSON(%q, %q): %v", c.otherName, c.otherID, err)
		}
		if err := VerifyJSON(c.otherName, c.otherID, pub2, first); err != nil {
			t.Fatalf("VerifyJSON(%q, %q): %v", c.otherName, c.otherID, err)
		}
		second, err := SignJSON(c.name, c.id, priv, first)
		if err != nil {
			continue
		}
		if err := VerifyJSON(c.otherName, c.otherID, pub2, second); err != nil {
			t.Errorf("signature of (%q, %q) is lost after (%q, %q) co-signs: %v\n  before: %s\n  after:  %s", c.otherName, c.otherID, c.name, c.id, err, first, second)
		}
		if n := strings.Count(string(second), `"`+c.otherName+`":`) + strings.Count(string(second), `"`+string(c.otherID)+`":`); n > 2 {
			t.Errorf("co-signed object repeats a member under \"signatures\": %s", second)
		}
	}
}
