// Belongs in the package root directory (package gomatrixserverlib), next to signing.go.
package gomatrixserverlib

import (
	"bytes"
	"testing"

	"github.com/tidwall/sjson"
	"golang.org/x/crypto/ed25519"
)

// C02: a signature must keep verifying "after further entities add their
// signatures, and after `unsigned` is changed". The duplicate-member guard of
// VerifyJSON (a52ba0a) walks the whole text, the two members that the signature
// does not cover included, so a repeated name inside `unsigned` or inside the
// entry of ANOTHER entity under `signatures` makes the untouched, valid
// signature of this entity fail - the situation ebb3899 repaired for entries of
// other entities that are not decodable ("a malformed one must not invalidate
// this entity's signature").
func TestAuditFinding2(t *testing.T) {
	priv := ed25519.NewKeyFromSeed(bytes.Repeat([]byte{7}, ed25519.SeedSize))
	pub := priv.Public().(ed25519.PublicKey)

	signed, err := SignJSON("origin", "ed25519:1", priv, []byte(`{"content":{"body":"x"},"type":"m"}`))
	if err != nil {
		t.Fatal(err)
	}
	if err = VerifyJSON("origin", "ed25519:1", pub, signed); err != nil {
		t.Fatal(err)
	}

	// 1. `unsigned` is changed (by whoever relays the object).
	changed, err := sjson.SetRawBytes(signed, "unsigned", []byte(`{"age":1,"age":2}`))
	if err != nil {
		t.Fatal(err)
	}
	if err = VerifyJSON("origin", "ed25519:1", pub, changed); err != nil {
		t.Errorf("signature of origin fails after `unsigned` was changed: %v\n  %s", err, changed)
	}

	// 2. Another entity adds its (sloppy) entry under `signatures`.
	cosigned, err := sjson.SetRawBytes(signed, "signatures.other", []byte(`{"ed25519:a":"AAAA","ed25519:a":"BBBB"}`))
	if err != nil {
		t.Fatal(err)
	}
	if err = VerifyJSON("origin", "ed25519:1", pub, cosigned); err != nil {
		t.Errorf("signature of origin fails after another entity added its entry: %v\n  %s", err, cosigned)
	}

	// Controls: a repeated name where the signature does cover it stays refused.
	for _, tampered := range []string{
		`{"content":{"body":"y"},` + string(signed[1:]),                       // top level
		`{"content":{"body":"y","body":"x"},` + string(signed[len(`{"content":{"body":"x"},`):]), // nested, signed member
	} {
		if err = VerifyJSON("origin", "ed25519:1", pub, []byte(tampered)); err == nil {
			t.Errorf("tampered object verifies: %s", tampered)
		}
	}
}
