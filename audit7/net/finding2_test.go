package fclient

// Audit round 7, net, finding 2 (property C13).
// Belongs in the package directory fclient/ (package fclient).

import (
	"bufio"
	"bytes"
	"context"
	"net/http"
	"testing"
	"time"

	"github.com/matrix-org/gomatrixserverlib"
	"github.com/matrix-org/gomatrixserverlib/spec"
	"golang.org/x/crypto/ed25519"
)

// auditFinding2Keys is a key database holding the one key of the origin.
type auditFinding2Keys struct {
	name  spec.ServerName
	keyID gomatrixserverlib.KeyID
	key   ed25519.PublicKey
}

func (d *auditFinding2Keys) FetcherName() string { return "auditFinding2Keys" }
func (d *auditFinding2Keys) FetchKeys(
	ctx context.Context, reqs map[gomatrixserverlib.PublicKeyLookupRequest]spec.Timestamp,
) (map[gomatrixserverlib.PublicKeyLookupRequest]gomatrixserverlib.PublicKeyLookupResult, error) {
	out := map[gomatrixserverlib.PublicKeyLookupRequest]gomatrixserverlib.PublicKeyLookupResult{}
	for r := range reqs {
		if r.ServerName == d.name && r.KeyID == d.keyID {
			out[r] = gomatrixserverlib.PublicKeyLookupResult{
				VerifyKey:    gomatrixserverlib.VerifyKey{Key: spec.Base64Bytes(d.key)},
				ValidUntilTS: spec.AsTimestamp(time.Now().Add(time.Hour)),
			}
		}
	}
	return out, nil
}
func (d *auditFinding2Keys) StoreKeys(context.Context, map[gomatrixserverlib.PublicKeyLookupRequest]gomatrixserverlib.PublicKeyLookupResult) error {
	return nil
}

// HTTPRequest checks "that the request fields will round-trip properly" and
// refuses a request URI with a blank in the path. A blank in the query passes
// that check, and the request that is then sent has the request line
// "GET /path?q=a b HTTP/1.1": three blanks. No HTTP server reads that as a
// request (net/http answers 400 before any handler runs), so the signed
// request is never accepted by VerifyHTTPRequest at the destination.
// Either HTTPRequest refuses the URI (as it does for the path), or what it
// sends has to arrive and verify.
func TestAuditFinding2(t *testing.T) {
	_, priv, err := ed25519.GenerateKey(bytes.NewReader(bytes.Repeat([]byte{7}, 32)))
	if err != nil {
		t.Fatal(err)
	}
	const origin, destination = spec.ServerName("origin.example"), spec.ServerName("destination.example")
	const keyID = gomatrixserverlib.KeyID("ed25519:1")
	ring := &gomatrixserverlib.KeyRing{KeyDatabase: &auditFinding2Keys{origin, keyID, priv.Public().(ed25519.PublicKey)}}

	for _, uri := range []string{
		"/_matrix/federation/v1/query/profile?field=a b",
		"/_matrix/federation/v1/query/profile? ",
		"/_matrix/federation/v1/query/profile?user_id=%40a%3Aorigin.example&field=displayname HTTP/1.1",
	} {
		fr := NewFederationRequest("GET", origin, destination, uri)
		if err = fr.Sign(origin, keyID, priv); err != nil {
			t.Fatal(err)
		}
		hr, err := fr.HTTPRequest()
		if err != nil {
			// refusing the URI is fine: nothing is sent
			continue
		}
		// what goes over the wire ...
		wire := bytes.NewBuffer(nil)
		if err = hr.Write(wire); err != nil {
			continue // refusing at this point is fine as well
		}
		// ... and what a server makes of it
		received, err := http.ReadRequest(bufio.NewReader(bytes.NewReader(wire.Bytes())))
		if err != nil {
			t.Errorf("URI %q: HTTPRequest accepted it, but the request it sends cannot be read by a server: %v\nrequest line: %q",
				uri, err, bytes.SplitN(wire.Bytes(), []byte("\r\n"), 2)[0])
			continue
		}
		verified, resp := VerifyHTTPRequest(received, time.Now(), destination, nil, ring)
		if verified == nil {
			t.Errorf("URI %q: sent through HTTPRequest but refused at the destination: %d %v", uri, resp.Code, resp.JSON)
			continue
		}
		if verified.RequestURI() != uri || verified.Method() != "GET" || verified.Origin() != origin || verified.Destination() != destination {
			t.Errorf("URI %q: reported as %q", uri, verified.RequestURI())
		}
	}

	// control: the same blank in the path is refused by HTTPRequest
	fr := NewFederationRequest("GET", origin, destination, "/_matrix/federation/v1/query/pro file")
	if err = fr.Sign(origin, keyID, priv); err != nil {
		t.Fatal(err)
	}
	if _, err = fr.HTTPRequest(); err == nil {
		t.Errorf("control: a blank in the path is no longer refused")
	}
	// control: a query without blanks arrives and verifies
	fr = NewFederationRequest("GET", origin, destination, "/_matrix/federation/v1/query/profile?field=a%20b+c")
	if err = fr.Sign(origin, keyID, priv); err != nil {
		t.Fatal(err)
	}
	hr, err := fr.HTTPRequest()
	if err != nil {
		t.Fatal(err)
	}
	wire := bytes.NewBuffer(nil)
	if err = hr.Write(wire); err != nil {
		t.Fatal(err)
	}
	received, err := http.ReadRequest(bufio.NewReader(wire))
	if err != nil {
		t.Fatal(err)
	}
	if verified, resp := VerifyHTTPRequest(received, time.Now(), destination, nil, ring); verified == nil {
		t.Errorf("control: refused: %d %v", resp.Code, resp.JSON)
	}
}
