package fclient

// Audit round 7, net, finding 1 (property C16).
// Belongs in the package directory fclient/ (package fclient).

import (
	"context"
	"net"
	"testing"

	"github.com/matrix-org/gomatrixserverlib/spec"
	"github.com/miekg/dns"
	"gopkg.in/h2non/gock.v1"
)

// auditFinding1DNS answers every SRV question for _matrix-fed._tcp.example.com
// with one record and everything else with an empty answer.
type auditFinding1DNS struct{ answerSRV bool }

func (h *auditFinding1DNS) ServeDNS(w dns.ResponseWriter, r *dns.Msg) {
	msg := dns.Msg{}
	msg.SetReply(r)
	q := r.Question[0]
	if h.answerSRV && q.Qtype == dns.TypeSRV && q.Name == "_matrix-fed._tcp.example.com." {
		msg.Authoritative = true
		msg.Answer = append(msg.Answer, &dns.SRV{
			Hdr:    dns.RR_Header{Name: q.Name, Rrtype: dns.TypeSRV, Class: dns.ClassINET, Ttl: 60},
			Port:   4242,
			Target: "matrix.otherexample.com.",
		})
	}
	_ = w.WriteMsg(&msg)
}

func auditFinding1FakeDNS(t *testing.T, answerSRV bool) {
	conn, err := net.ListenUDP("udp", &net.UDPAddr{IP: net.ParseIP("127.0.0.1")})
	if err != nil {
		t.Fatal(err)
	}
	srv := &dns.Server{PacketConn: conn, Handler: &auditFinding1DNS{answerSRV: answerSRV}}
	go func() { _ = srv.ActivateAndServe() }()
	addr := conn.LocalAddr().String()
	old := net.DefaultResolver
	net.DefaultResolver = &net.Resolver{
		PreferGo: true,
		Dial: func(ctx context.Context, network, address string) (net.Conn, error) {
			return net.Dial("udp", addr)
		},
	}
	t.Cleanup(func() {
		_ = srv.Shutdown()
		net.DefaultResolver = old
	})
}

// A well-known reply whose m.server is not a server name is an invalid reply:
// it must not be honoured, and the (valid) server name that was asked for is
// then resolved by the remaining steps - SRV records, finally port 8448 -
// exactly as for a reply that is not JSON, or has no m.server, or has an
// m.server that is not a string. Instead the whole resolution of the valid
// name fails with "Invalid server name".
func TestAuditFinding1(t *testing.T) {
	bodies := []string{
		`{"m.server": "not a server name"}`,
		`{"m.server": "matrix.example.com:"}`,
		`{"m.server": "https://matrix.example.com"}`,
		`{"m.server": "matrix.example.com/"}`,
		`{"m.server": " matrix.example.com"}`,
		`{"m.server": "::1"}`,
	}
	for _, withSRV := range []bool{true, false} {
		want := ResolutionResult{Destination: "example.com:8448", Host: "example.com", TLSServerName: "example.com"}
		if withSRV {
			want.Destination = "matrix.otherexample.com:4242"
		}
		for _, body := range bodies {
			func() {
				defer gock.Off()
				gock.New("https://example.com").
					Get("/.well-known/matrix/server").
					Reply(200).
					BodyString(body)
				auditFinding1FakeDNS(t, withSRV)

				res, err := ResolveServer(context.Background(), spec.ServerName("example.com"))
				if err != nil {
					t.Errorf("well-known %s (SRV record: %v): the valid name example.com is refused: %v", body, withSRV, err)
					return
				}
				if len(res) != 1 || res[0] != want {
					t.Errorf("well-known %s (SRV record: %v): got %+v, want [%+v]", body, withSRV, res, want)
				}
			}()
		}
	}

	// control: the same replies with an m.server of the wrong JSON type are
	// (correctly) skipped.
	func() {
		defer gock.Off()
		gock.New("https://example.com").Get("/.well-known/matrix/server").Reply(200).BodyString(`{"m.server": 5}`)
		auditFinding1FakeDNS(t, true)
		res, err := ResolveServer(context.Background(), spec.ServerName("example.com"))
		if err != nil || len(res) != 1 || res[0].Destination != "matrix.otherexample.com:4242" {
			t.Errorf("control: got %+v, %v", res, err)
		}
	}()
}
