package gomatrixserverlib

// Audit finding 2 (C10). Belongs in the package root directory
// (package gomatrixserverlib, next to stateresolutionv2.go).

import (
	"encoding/json"
	"fmt"
	"testing"

	"github.com/matrix-org/gomatrixserverlib/spec"
)

type auditF2Room struct {
	t        *testing.T
	ver      RoomVersion
	roomID   string
	createID string
}

func (r auditF2Room) event(id, typ, stateKey, sender, content string, ts int64, auth ...string) PDU {
	r.t.Helper()
	impl := MustGetRoomVersion(r.ver)
	fields := map[string]interface{}{
		"type": typ, "state_key": stateKey, "sender": sender, "content": json.RawMessage(content),
		"origin_server_ts": ts, "depth": ts, "room_id": r.roomID,
	}
	prev := []string{"$prev"}
	if typ == spec.MRoomCreate {
		prev = []string{}
	}
	if impl.DomainlessRoomIDs() { // room version 12: no room_id on the create event, create event not cited
		if typ == spec.MRoomCreate {
			delete(fields, "room_id")
		}
		kept := []string{}
		for _, a := range auth {
			if a != r.createID {
				kept = append(kept, a)
			}
		}
		auth = kept
	}
	if auth == nil {
		auth = []string{}
	}
	fields["auth_events"] = auth
	fields["prev_events"] = prev
	js, err := json.Marshal(fields)
	if err != nil {
		r.t.Fatal(err)
	}
	ev, err := impl.NewEventFromTrustedJSONWithEventID(id, js, false)
	if err != nil {
		r.t.Fatal(err)
	}
	return ev
}

// Two forks change the power levels (PL1, PL2); PL2 wins, so the power level
// mainline is PL0 <- PL2. Two topic events were sent while PL1 was in force and
// cite it, so for both the closest mainline event is PL0, one power-levels hop
// away. T3 has the smaller origin_server_ts, so the mainline ordering is T3, T1
// and T1, applied last, is the resolved topic. T3 differs from T1 in one respect:
// its auth_events list the power levels event PL1 twice.
func TestAuditFinding2(t *testing.T) {
	const alice = "@alice:example.com"
	userID := func(roomID spec.RoomID, senderID spec.SenderID) (*spec.UserID, error) {
		return spec.NewUserID(string(senderID), true)
	}
	for _, ver := range []RoomVersion{RoomVersionV3, RoomVersionV6, RoomVersionV10, RoomVersionV11, RoomVersionV12} {
		r := auditF2Room{t: t, ver: ver, roomID: "!room:example.com", createID: "$CREATE"}
		createContent := fmt.Sprintf(`{"creator":%q,"room_version":%q}`, alice, ver)
		plUsers := fmt.Sprintf(`"users":{%q:100}`, alice)
		if MustGetRoomVersion(ver).DomainlessRoomIDs() {
			r.createID = "$CREATE0000000000000000000000000000000000000"
			r.roomID = "!" + r.createID[1:]
			createContent = fmt.Sprintf(`{"room_version":%q}`, ver)
			plUsers = `"users":{}`
		}
		C := r.event(r.createID, spec.MRoomCreate, "", alice, createContent, 1)
		A := r.event("$A", spec.MRoomMember, alice, alice, `{"membership":"join"}`, 2, r.createID)
		PL0 := r.event("$PL0", spec.MRoomPowerLevels, "", alice, `{`+plUsers+`,"state_default":50}`, 3, r.createID, "$A")
		JR := r.event("$JR", spec.MRoomJoinRules, "", alice, `{"join_rule":"public"}`, 4, r.createID, "$A", "$PL0")
		PL1 := r.event("$PL1", spec.MRoomPowerLevels, "", alice, `{`+plUsers+`,"state_default":50,"kick":60}`, 500, r.createID, "$A", "$PL0")
		PL2 := r.event("$PL2", spec.MRoomPowerLevels, "", alice, `{`+plUsers+`,"state_default":50,"kick":70}`, 600, r.createID, "$A", "$PL0")
		T1 := r.event("$T1", "m.room.topic", "", alice, `{"topic":"one"}`, 1000, r.createID, "$A", "$PL1")
		T3 := r.event("$T3", "m.room.topic", "", alice, `{"topic":"three"}`, 900, r.createID, "$A", "$PL1", "$PL1")

		stateSets := [][]PDU{
			{C, A, JR, PL1, T1},
			{C, A, JR, PL2},
			{C, A, JR, PL1, T3},
		}
		authEvents := []PDU{C, A, PL0, PL1}
		res, err := ResolveConflictsNew(ver, stateSets, authEvents, userID, func(string) bool { return false })
		if err != nil {
			t.Fatal(err)
		}
		var topic, pl string
		for _, e := range res {
			switch e.Type() {
			case "m.room.topic":
				topic = e.EventID()
			case spec.MRoomPowerLevels:
				pl = e.EventID()
			}
		}
		if pl != "$PL2" {
			t.Fatalf("room version %s: resolved power levels %q, expected $PL2 (test premise)", ver, pl)
		}
		// Mainline ordering: both topics have mainline position 0 (PL0) and are one
		// power-levels hop (PL1) away from it; T3 (ts 900) sorts before T1 (ts 1000).
		if topic != "$T1" {
			t.Errorf("room version %s: resolved topic is %q, the mainline ordering (pos 0, 1 hop, ts 900) < (pos 0, 1 hop, ts 1000) makes $T1 the last applied", ver, topic)
		}

		// Control: the same input with PL1 cited once resolves to $T1.
		T3b := r.event("$T3", "m.room.topic", "", alice, `{"topic":"three"}`, 900, r.createID, "$A", "$PL1")
		stateSets[2] = []PDU{C, A, JR, PL1, T3b}
		res, err = ResolveConflictsNew(ver, stateSets, authEvents, userID, func(string) bool { return false })
		if err != nil {
			t.Fatal(err)
		}
		for _, e := range res {
			if e.Type() == "m.room.topic" && e.EventID() != "$T1" {
				t.Fatalf("room version %s: control case resolved topic %q", ver, e.EventID())
			}
		}

		// Second form: the resolved power levels event PL2b cites its predecessor
		// PL0 twice. The mainline is PL0 <- PL2b, so PL0 has position 0. X (sent
		// before there were power levels, ts 2000) has no mainline ancestor and Y
		// (cites PL0, ts 1000) is attached to position 0: both sort with position 0
		// and 0 hops, Y before X by timestamp, and X, applied last, is the topic.
		for _, twice := range []bool{false, true} {
			cites := []string{r.createID, "$A", "$PL0"}
			if twice {
				cites = append(cites, "$PL0")
			}
			PL2b := r.event("$PL2b", spec.MRoomPowerLevels, "", alice, `{`+plUsers+`,"state_default":50,"kick":70}`, 600, cites...)
			X := r.event("$X", "m.room.topic", "", alice, `{"topic":"x"}`, 2000, r.createID, "$A")
			Y := r.event("$Y", "m.room.topic", "", alice, `{"topic":"y"}`, 1000, r.createID, "$A", "$PL0")
			res, err = ResolveConflictsNew(ver, [][]PDU{{C, A, X}, {C, A, PL2b, Y}}, []PDU{C, A, PL0}, userID, func(string) bool { return false })
			if err != nil {
				t.Fatal(err)
			}
			for _, e := range res {
				if e.Type() == "m.room.topic" && e.EventID() != "$X" {
					t.Errorf("room version %s, power levels citing $PL0 twice=%v: resolved topic is %q, expected $X", ver, twice, e.EventID())
				}
			}
		}
	}
}
