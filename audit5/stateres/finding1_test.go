package gomatrixserverlib

// Audit finding 1 (C11). Belongs in the package root directory
// (package gomatrixserverlib, next to stateresolution.go).

import (
	"encoding/json"
	"sort"
	"strings"
	"testing"

	"github.com/matrix-org/gomatrixserverlib/spec"
)

func auditF1Event(t *testing.T, id, typ, stateKey, sender, content string, auth []string, depth int64) PDU {
	t.Helper()
	refs := func(ids []string) []interface{} {
		out := []interface{}{}
		for _, i := range ids {
			out = append(out, []interface{}{i, map[string]string{}})
		}
		return out
	}
	prev := []string{}
	if typ != spec.MRoomCreate {
		prev = []string{"$prev:example.com"}
	}
	js, err := json.Marshal(map[string]interface{}{
		"event_id": id, "room_id": "!room:example.com", "type": typ, "state_key": stateKey,
		"sender": sender, "content": json.RawMessage(content), "origin_server_ts": 1000, "depth": depth,
		"auth_events": refs(auth), "prev_events": refs(prev),
	})
	if err != nil {
		t.Fatal(err)
	}
	ev, err := MustGetRoomVersion(RoomVersionV1).NewEventFromTrustedJSONWithEventID(id, js, false)
	if err != nil {
		t.Fatal(err)
	}
	return ev
}

func TestAuditFinding1(t *testing.T) {
	const (
		alice = "@alice:example.com"
		bob   = "@bob:example.com"
	)
	userID := func(roomID spec.RoomID, senderID spec.SenderID) (*spec.UserID, error) {
		return spec.NewUserID(string(senderID), true)
	}
	base := []string{"$C:example.com", "$PL:example.com", "$JR:example.com"}
	with := func(ids ...string) []string { return append(ids, base...) }

	C := auditF1Event(t, "$C:example.com", spec.MRoomCreate, "", alice, `{"creator":"@alice:example.com"}`, nil, 0)
	A0 := auditF1Event(t, "$A0:example.com", spec.MRoomMember, alice, alice, `{"membership":"join"}`, []string{"$C:example.com"}, 1)
	PL := auditF1Event(t, "$PL:example.com", spec.MRoomPowerLevels, "", alice,
		`{"users":{"@alice:example.com":100},"kick":50,"ban":50,"invite":0,"state_default":50}`, []string{"$C:example.com", "$A0:example.com"}, 2)
	JR := auditF1Event(t, "$JR:example.com", spec.MRoomJoinRules, "", alice, `{"join_rule":"public"}`, with("$A0:example.com"), 3)
	B0 := auditF1Event(t, "$B0:example.com", spec.MRoomMember, bob, bob, `{"membership":"join"}`, base, 4)
	// Fork 1: Alice kicks Bob, then changes her display name.
	K1 := auditF1Event(t, "$K1:example.com", spec.MRoomMember, bob, alice, `{"membership":"leave"}`, with("$A0:example.com", "$B0:example.com"), 6)
	A1 := auditF1Event(t, "$A1:example.com", spec.MRoomMember, alice, alice, `{"membership":"join","displayname":"a1"}`, with("$A0:example.com"), 7)
	// Fork 2: Alice and Bob both change their display names.
	A2 := auditF1Event(t, "$A2:example.com", spec.MRoomMember, alice, alice, `{"membership":"join","displayname":"a2"}`, with("$A0:example.com"), 5)
	B2 := auditF1Event(t, "$B2:example.com", spec.MRoomMember, bob, bob, `{"membership":"join","displayname":"b2"}`, with("$B0:example.com"), 5)

	stateSets := [][]PDU{
		{C, PL, JR, A1, K1},
		{C, PL, JR, A2, B2},
	}
	// The entire set of auth_events of the events above: it has one event per
	// (type, state_key).
	authEvents := []PDU{C, PL, JR, A0, B0}

	run := func(name string, resolve func() ([]PDU, error)) {
		seen := map[string]int{}
		for i := 0; i < 400; i++ {
			res, err := resolve()
			if err != nil {
				t.Fatal(err)
			}
			ids := make([]string, 0, len(res))
			for _, e := range res {
				ids = append(ids, e.EventID())
			}
			sort.Strings(ids)
			seen[strings.Join(ids, " ")]++
		}
		if len(seen) != 1 {
			t.Errorf("%s: the same input resolved to %d different states in one process: %v", name, len(seen), seen)
		}
	}
	run("ResolveConflictsNew", func() ([]PDU, error) {
		return ResolveConflictsNew(RoomVersionV1, stateSets, authEvents, userID, func(string) bool { return false })
	})
	run("ResolveConflicts", func() ([]PDU, error) {
		return ResolveConflicts(RoomVersionV1, append(append([]PDU{}, stateSets[0]...), stateSets[1]...), authEvents, userID, func(string) bool { return false })
	})
}
