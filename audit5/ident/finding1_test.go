package gomatrixserverlib

// Belongs in the package root directory (package gomatrixserverlib).

import (
	"encoding/json"
	"errors"
	"strings"
	"testing"
	"time"

	"golang.org/x/crypto/ed25519"
)

// A room ID of at most 255 code points but more than 255 bytes exceeds only the
// lenient (byte) limit. Room versions 1-11 report such an event as "too large
// but persistable" (EventValidationError{Code: EventValidationTooLarge,
// Persistable: true}) on receipt and on build; room version 12 reports a plain
// error that says nothing about size or persistability.
func TestAuditFinding1(t *testing.T) {
	_, sk, _ := ed25519.GenerateKey(nil)
	// 1 + 2*127 + 2 = 257 bytes, 130 code points
	roomID := "!" + strings.Repeat("é", 127) + ":h"
	if len(roomID) <= 255 || len([]rune(roomID)) > 255 {
		t.Fatalf("bad test room ID: %d bytes %d code points", len(roomID), len([]rune(roomID)))
	}

	isPersistableTooLarge := func(err error) bool {
		var ve EventValidationError
		return errors.As(err, &ve) && ve.Code == EventValidationTooLarge && ve.Persistable
	}

	for _, v := range []RoomVersion{RoomVersionV11, RoomVersionV12} {
		ver := MustGetRoomVersion(v)

		// on receipt
		e := map[string]interface{}{
			"type": "m.room.message", "sender": "@u:h", "room_id": roomID,
			"content":     map[string]interface{}{"body": "x"},
			"prev_events": []interface{}{}, "auth_events": []interface{}{},
			"depth": 1, "origin_server_ts": 1, "origin": "h",
			"signatures": map[string]interface{}{"h": map[string]interface{}{"ed25519:1": "x"}},
		}
		raw, _ := json.Marshal(e)
		raw, err := addContentHashesToEvent(raw)
		if err != nil {
			t.Fatal(err)
		}
		_, err = ver.NewEventFromUntrustedJSON(raw)
		if err == nil {
			t.Errorf("room version %s, receipt: event with a %d-byte room ID accepted", v, len(roomID))
		} else if !isPersistableTooLarge(err) {
			t.Errorf("room version %s, receipt: want a too-large-but-persistable verdict, got %T: %v", v, err, err)
		}

		// on build
		eb := ver.NewEventBuilder()
		eb.Type = "m.room.message"
		eb.SenderID = "@u:h"
		eb.RoomID = roomID
		eb.Content = []byte(`{"body":"x"}`)
		eb.Depth = 1
		eb.PrevEvents = []string{}
		eb.AuthEvents = []string{}
		_, err = eb.Build(time.Now(), "h", "ed25519:1", sk)
		if err == nil {
			t.Errorf("room version %s, build: event with a %d-byte room ID built", v, len(roomID))
		} else if !isPersistableTooLarge(err) {
			t.Errorf("room version %s, build: want a too-large-but-persistable verdict, got %T: %v", v, err, err)
		}
	}
}
