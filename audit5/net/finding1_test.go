// Package directory: fclient/  (package fclient)
package fclient

import (
	"context"
	"net/http"
	"net/http/httptest"
	"strings"
	"sync/atomic"
	"testing"

	"github.com/matrix-org/gomatrixserverlib/spec"
)

// C16: "invalid server names are refused".
// Client.CreateMediaDownloadRequest pastes the server name behind "matrix://",
// so net/url reads "evil@127.0.0.1:PORT" as the host 127.0.0.1:PORT with a
// userinfo part (and "127.0.0.1:PORT/x", "127.0.0.1:PORT?x=", "127.0.0.1:PORT#"
// as that host followed by a path / query / fragment): the request for an
// invalid server name is resolved and sent to 127.0.0.1:PORT.
func TestAuditFinding1(t *testing.T) {
	var hits int32
	srv := httptest.NewTLSServer(http.HandlerFunc(func(w http.ResponseWriter, r *http.Request) {
		atomic.AddInt32(&hits, 1)
		w.WriteHeader(200)
	}))
	defer srv.Close()
	addr := strings.TrimPrefix(srv.URL, "https://") // 127.0.0.1:PORT

	for _, name := range []string{
		"evil@" + addr,
		"user:pw@" + addr,
		addr + "/x",
		addr + "?x=",
		addr + "#",
	} {
		if _, _, valid := spec.ParseAndValidateServerName(spec.ServerName(name)); valid {
			t.Fatalf("%q is supposed to be an invalid server name", name)
		}
		// the same configuration NewFederationClient uses: resolution with
		// well-known / SRV lookups, which validates the name it is given
		client := NewClient(WithSkipVerify(true), WithWellKnownSRVLookups(true))
		atomic.StoreInt32(&hits, 0)
		resp, err := client.CreateMediaDownloadRequest(context.Background(), spec.ServerName(name), "mediaid")
		if resp != nil {
			_ = resp.Body.Close()
		}
		if err == nil {
			t.Errorf("CreateMediaDownloadRequest(%q): no error for an invalid server name", name)
		}
		if n := atomic.LoadInt32(&hits); n != 0 {
			t.Errorf("CreateMediaDownloadRequest(%q): %d request(s) were sent to %s", name, n, addr)
		}
	}
}
