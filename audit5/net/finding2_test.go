// Package directory: fclient/  (package fclient)
package fclient

import (
	"context"
	"net/http"
	"net/http/httptest"
	"strings"
	"sync/atomic"
	"testing"

	"github.com/matrix-org/gomatrixserverlib"
	"github.com/matrix-org/gomatrixserverlib/spec"
)

// C16: "invalid server names are refused".
// "127.0.0.1:PORT:" (and "example.com:") is not a server name - ResolveServer
// and HTTPRequest refuse it - but GetVersion, GetServerKeys, LookupServerKeys
// and LookupUserInfo put it into url.URL.Host, and http.NewRequest silently
// removes an empty port from the host, so the request goes to 127.0.0.1:PORT.
func TestAuditFinding2(t *testing.T) {
	var hits int32
	srv := httptest.NewTLSServer(http.HandlerFunc(func(w http.ResponseWriter, r *http.Request) {
		atomic.AddInt32(&hits, 1)
		w.WriteHeader(200)
		_, _ = w.Write([]byte(`{}`))
	}))
	defer srv.Close()
	addr := strings.TrimPrefix(srv.URL, "https://") // 127.0.0.1:PORT
	name := spec.ServerName(addr + ":")

	if _, _, valid := spec.ParseAndValidateServerName(name); valid {
		t.Fatalf("%q is supposed to be an invalid server name", name)
	}
	if _, err := ResolveServer(context.Background(), name); err == nil {
		t.Fatalf("ResolveServer(%q) is supposed to refuse the name", name)
	}

	client := NewClient(WithSkipVerify(true), WithWellKnownSRVLookups(true))
	ctx := context.Background()
	calls := map[string]func() error{
		"GetVersion":    func() error { _, err := client.GetVersion(ctx, name); return err },
		"GetServerKeys": func() error { _, err := client.GetServerKeys(ctx, name); return err },
		"LookupServerKeys": func() error {
			_, err := client.LookupServerKeys(ctx, name, map[gomatrixserverlib.PublicKeyLookupRequest]spec.Timestamp{
				{ServerName: "x.example", KeyID: "ed25519:1"}: 0,
			})
			return err
		},
		"LookupUserInfo": func() error {
			_, err := client.LookupUserInfo(ctx, name, "token")
			// (an error about the *answer* does not count: look at the hits)
			return err
		},
	}
	for what, call := range calls {
		atomic.StoreInt32(&hits, 0)
		err := call()
		if n := atomic.LoadInt32(&hits); n != 0 {
			t.Errorf("%s(%q): %d request(s) were sent to %s (err = %v)", what, name, n, addr, err)
		} else if err == nil {
			t.Errorf("%s(%q): no error for an invalid server name", what, name)
		}
	}
}
