// Package directory: fclient/  (package fclient)
package fclient

import (
	"context"
	"testing"
	"time"

	"gopkg.in/h2non/gock.v1"
)

// C16: "... with its cache lifetime taken from max-age in preference to
// Expires" - from a max-age *directive*, not from the text of a quoted string.
//
// In a quoted-string a backslash escapes the next character (RFC 7230 3.2.6:
// quoted-pair), so the header below holds ONE directive, the extension
//
//	community="a\",max-age=5,\""          (argument: a",max-age=5,")
//
// and no max-age directive at all: the lifetime has to come from Expires.
// The splitter toggles its in-quotes state at every '"', also at an escaped
// one, cuts the argument at its commas and reads "max-age=5" out of it.
func TestAuditFinding3(t *testing.T) {
	lookup := func(cacheControl, expires string) *WellKnownResult {
		defer gock.Off()
		gock.New("https://example.com").
			Get("/.well-known/matrix/server").
			Reply(200).
			SetHeader("Cache-Control", cacheControl).
			SetHeader("Expires", expires).
			BodyString(`{"m.server": "matrix.example.com:8448"}`)
		res, err := LookupWellKnown(context.Background(), "example.com")
		if err != nil {
			t.Fatalf("LookupWellKnown: %v", err)
		}
		return res
	}

	expiresAt := time.Now().Add(1000 * time.Hour).UTC().Truncate(time.Second)
	expires := expiresAt.Format("Mon, 02 Jan 2006 15:04:05 GMT")

	// control: a real max-age directive after a quoted argument that ends in an
	// escaped backslash is honoured (this passes before and after a fix)
	before := time.Now().Unix()
	res := lookup(`community="a\\", max-age=7`, expires)
	after := time.Now().Unix()
	if res.CacheExpiresAt < before+7 || res.CacheExpiresAt > after+7 {
		t.Errorf("control: CacheExpiresAt = now%+d s, want now+7 s (max-age=7)", res.CacheExpiresAt-after)
	}

	// the finding: no max-age directive, only quoted text that looks like one
	res = lookup(`community="a\",max-age=5,\""`, expires)
	if res.CacheExpiresAt != expiresAt.Unix() {
		t.Errorf("Cache-Control: community=\"a\\\",max-age=5,\\\"\" has no max-age directive, "+
			"so the lifetime must come from Expires (%d = now+1000h); got %d (now%+d s)",
			expiresAt.Unix(), res.CacheExpiresAt, res.CacheExpiresAt-time.Now().Unix())
	}
}
