// Package directory: fclient/  (package fclient)
package fclient

import (
	"context"
	"net/http"
	"net/http/httptest"
	"strings"
	"sync/atomic"
	"testing"
	"time"

	"gopkg.in/h2non/gock.v1"
)

// C16: a well-known reply is honoured "with its cache lifetime taken from
// max-age in preference to Expires", and outbound federation goes only where
// the resolution rules allow.
//
// The client's destination tripper caches the resolution of a server name -
// including the delegation read from /.well-known - in resolutionCache and
// never looks at the lifetime lookupWellKnown computed (CacheExpiresAt): the
// entry lives until every target in it fails. A delegation published with
// max-age=1 is still followed after it has expired and been replaced.
func TestAuditFinding4(t *testing.T) {
	var hitsA, hitsB int32
	a := httptest.NewTLSServer(http.HandlerFunc(func(w http.ResponseWriter, r *http.Request) {
		atomic.AddInt32(&hitsA, 1)
		_, _ = w.Write([]byte(`{}`))
	}))
	defer a.Close()
	b := httptest.NewTLSServer(http.HandlerFunc(func(w http.ResponseWriter, r *http.Request) {
		atomic.AddInt32(&hitsB, 1)
		_, _ = w.Write([]byte(`{}`))
	}))
	defer b.Close()
	addrA := strings.TrimPrefix(a.URL, "https://")
	addrB := strings.TrimPrefix(b.URL, "https://")

	defer gock.Off()
	publish := func(delegate string) {
		gock.Off()
		gock.New("https://wk.example").
			Get("/.well-known/matrix/server").
			Persist().
			Reply(200).
			SetHeader("Cache-Control", "max-age=1").
			BodyString(`{"m.server":"` + delegate + `"}`)
	}

	client := NewClient(WithSkipVerify(true), WithWellKnownSRVLookups(true))

	publish(addrA)
	if _, err := client.GetVersion(context.Background(), "wk.example"); err != nil {
		t.Fatalf("first request: %v", err)
	}
	if atomic.LoadInt32(&hitsA) != 1 || atomic.LoadInt32(&hitsB) != 0 {
		t.Fatalf("first request: hits A=%d B=%d, want 1 / 0", hitsA, hitsB)
	}

	// the delegation was valid for one second; it now names another server
	time.Sleep(1500 * time.Millisecond)
	publish(addrB)

	if _, err := client.GetVersion(context.Background(), "wk.example"); err != nil {
		t.Fatalf("second request: %v", err)
	}
	if atomic.LoadInt32(&hitsB) != 1 || atomic.LoadInt32(&hitsA) != 1 {
		t.Errorf("second request, 1.5 s after a well-known reply with max-age=1: hits A=%d B=%d, want 1 / 1 "+
			"(the expired delegation to %s was used again, the current one to %s never fetched)",
			atomic.LoadInt32(&hitsA), atomic.LoadInt32(&hitsB), addrA, addrB)
	}
}
