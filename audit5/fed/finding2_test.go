// Audit finding 2 (property C14). Belongs in the package root directory
// (package gomatrixserverlib, next to backfill.go / load.go).
//
// RequestBackfill deliberately keeps events whose signature cannot be verified
// any more. But LoadAndVerify stops at the first check an event fails, so an
// event with a bad signature is never run through the auth checks (steps 4 and
// 5), and RequestBackfill returns it whatever the auth rules say about it: any
// server can get any event it makes up (here a power-levels event of a user
// who is not even in the room) returned as "safe to be inserted into a
// database", simply by NOT signing it properly.
package gomatrixserverlib

import (
	"context"
	"crypto/ed25519"
	"encoding/json"
	"fmt"
	"testing"
	"time"

	"github.com/matrix-org/gomatrixserverlib/spec"
)

type f2Server struct {
	name  spec.ServerName
	keyID KeyID
	priv  ed25519.PrivateKey
}

func f2NewServer(name string) *f2Server {
	seed := make([]byte, ed25519.SeedSize)
	copy(seed, "finding2-"+name)
	return &f2Server{name: spec.ServerName(name), keyID: "ed25519:f2", priv: ed25519.NewKeyFromSeed(seed)}
}

// f2Verifier checks signatures for real, with the keys of the servers it knows.
type f2Verifier map[spec.ServerName]*f2Server

func (v f2Verifier) VerifyJSONs(ctx context.Context, requests []VerifyJSONRequest) ([]VerifyJSONResult, error) {
	results := make([]VerifyJSONResult, len(requests))
	for i, r := range requests {
		s, ok := v[r.ServerName]
		if !ok {
			results[i].Error = fmt.Errorf("no key for %q", r.ServerName)
			continue
		}
		results[i].Error = VerifyJSON(string(r.ServerName), s.keyID, s.priv.Public().(ed25519.PublicKey), r.Message)
	}
	return results, nil
}

func f2UserIDForSender(roomID spec.RoomID, senderID spec.SenderID) (*spec.UserID, error) {
	return spec.NewUserID(string(senderID), true)
}

// f2Requester answers a backfill request with a fixed list of PDUs; it knows the
// room's events (for the auth chain) and the room state before every event.
type f2Requester struct {
	pdus        []json.RawMessage
	known       map[string]PDU
	stateBefore []PDU
}

func (b *f2Requester) StateIDsBeforeEvent(ctx context.Context, event PDU) ([]string, error) {
	ids := []string{}
	for _, e := range b.stateBefore {
		ids = append(ids, e.EventID())
	}
	return ids, nil
}
func (b *f2Requester) StateBeforeEvent(ctx context.Context, roomVer RoomVersion, event PDU, eventIDs []string) (map[string]PDU, error) {
	state := map[string]PDU{}
	for _, e := range b.stateBefore {
		state[e.EventID()] = e
	}
	return state, nil
}
func (b *f2Requester) Backfill(ctx context.Context, origin, server spec.ServerName, roomID string, limit int, fromEventIDs []string) (Transaction, error) {
	return Transaction{PDUs: b.pdus}, nil
}
func (b *f2Requester) ServersAtEvent(ctx context.Context, roomID, eventID string) []spec.ServerName {
	return []spec.ServerName{"evil"}
}
func (b *f2Requester) ProvideEvents(roomVer RoomVersion, eventIDs []string) ([]PDU, error) {
	var out []PDU
	for _, id := range eventIDs {
		if e, ok := b.known[id]; ok {
			out = append(out, e)
		}
	}
	return out, nil
}

func TestAuditFinding2(t *testing.T) {
	const (
		roomID  = "!f2:resident"
		alice   = "@alice:resident" // creator, power 100, the only member
		mallory = "@mallory:evil"   // never joined the (invite-only) room
	)
	ver := RoomVersionV10
	verImpl := MustGetRoomVersion(ver)
	resident, evil := f2NewServer("resident"), f2NewServer("evil")
	wrongKey := f2NewServer("somebody-else") // signs in evil's name with a key that is not evil's

	ts := time.UnixMilli(1700000000000)
	depth := int64(0)
	prev := []string{}
	known := map[string]PDU{}
	build := func(signer *f2Server, signAs spec.ServerName, sender, evType string, stateKey *string, content string, auth []PDU) PDU {
		t.Helper()
		depth++
		ts = ts.Add(time.Second)
		authIDs := []string{}
		for _, a := range auth {
			authIDs = append(authIDs, a.EventID())
		}
		eb := verImpl.NewEventBuilderFromProtoEvent(&ProtoEvent{
			SenderID: sender, RoomID: roomID, Type: evType, StateKey: stateKey,
			PrevEvents: prev, AuthEvents: authIDs, Depth: depth, Content: spec.RawJSON(content),
		})
		ev, err := eb.Build(ts, signAs, signer.keyID, signer.priv)
		if err != nil {
			t.Fatalf("building %s: %v", evType, err)
		}
		known[ev.EventID()] = ev
		return ev
	}
	empty := ""
	aliceKey := alice

	create := build(resident, resident.name, alice, spec.MRoomCreate, &empty, `{"creator":"`+alice+`","room_version":"10"}`, nil)
	prev = []string{create.EventID()}
	aliceJoin := build(resident, resident.name, alice, spec.MRoomMember, &aliceKey, `{"membership":"join"}`, []PDU{create})
	prev = []string{aliceJoin.EventID()}
	powerLevels := build(resident, resident.name, alice, spec.MRoomPowerLevels, &empty,
		`{"users":{"`+alice+`":100},"users_default":0,"state_default":50,"events_default":0,"invite":50,"ban":50,"kick":50,"redact":50}`,
		[]PDU{create, aliceJoin})
	prev = []string{powerLevels.EventID()}
	joinRules := build(resident, resident.name, alice, spec.MRoomJoinRules, &empty, `{"join_rule":"invite"}`, []PDU{create, aliceJoin, powerLevels})
	prev = []string{joinRules.EventID()}
	stateBefore := []PDU{create, aliceJoin, powerLevels, joinRules}

	// A genuine message of alice.
	good := build(resident, resident.name, alice, "m.room.message", nil, `{"body":"hello"}`, []PDU{create, aliceJoin, powerLevels})

	// Two events made up by the server "evil" in the name of its user mallory, who is
	// not in the room: a message, and a power-levels event that makes her an admin.
	// Neither is allowed by its auth events, nor by the state before it. They are
	// "signed" with a key that is not evil's, so their signature check fails as well.
	spam := build(wrongKey, evil.name, mallory, "m.room.message", nil, `{"body":"spam"}`, []PDU{create, powerLevels})
	coup := build(wrongKey, evil.name, mallory, spec.MRoomPowerLevels, &empty, `{"users":{"`+mallory+`":100}}`, []PDU{create, powerLevels})

	verifier := f2Verifier{resident.name: resident, evil.name: evil}

	// Each of the two is refused by the auth rules.
	for _, e := range []PDU{spam, coup} {
		if err := VerifyEventAuthChain(context.Background(), e, (&f2Requester{known: known}).ProvideEvents, f2UserIDForSender); err == nil {
			t.Fatalf("test setup: %s of %s should not pass the auth rules", e.Type(), e.SenderID())
		}
		if err := VerifyEventSignatures(context.Background(), e, verifier, f2UserIDForSender); err == nil {
			t.Fatalf("test setup: %s of %s should not pass the signature check", e.Type(), e.SenderID())
		}
	}

	requester := &f2Requester{
		pdus:        []json.RawMessage{good.JSON(), spam.JSON(), coup.JSON()},
		known:       known,
		stateBefore: stateBefore,
	}
	events, err := RequestBackfill(context.Background(), "me", requester, verifier, roomID, ver, []string{good.EventID()}, 10, f2UserIDForSender)
	if err != nil {
		t.Fatalf("RequestBackfill: %v", err)
	}
	gotGood := false
	for _, e := range events {
		switch e.EventID() {
		case good.EventID():
			gotGood = true
		default:
			t.Errorf("RequestBackfill returned the %s event %s of %s: its signature is bad AND it is allowed neither by its auth events nor by the room state before it",
				e.Type(), e.EventID(), e.SenderID())
		}
	}
	if !gotGood {
		t.Errorf("RequestBackfill did not return the genuine event")
	}
}
