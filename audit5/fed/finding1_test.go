// Audit finding 1 (property C14). Belongs in the package root directory
// (package gomatrixserverlib, next to authstate.go).
//
// CheckSendJoinResponse looks up the auth events of the join event in a map
// that is filled per event ID, auth chain first, state events second. When an
// event is listed twice - intact in the auth chain, and with a content that
// does not match its hash (hence parsed as its redacted form) among the state
// events - the redacted copy replaces the intact one, and the join event is
// judged against the redacted copy of the very auth event it cites.
package gomatrixserverlib

import (
	"context"
	"crypto/ed25519"
	"encoding/json"
	"fmt"
	"testing"
	"time"

	"github.com/matrix-org/gomatrixserverlib/spec"
)

type f1Server struct {
	name  spec.ServerName
	keyID KeyID
	priv  ed25519.PrivateKey
}

func f1NewServer(name string) *f1Server {
	seed := make([]byte, ed25519.SeedSize)
	copy(seed, "finding1-"+name)
	return &f1Server{name: spec.ServerName(name), keyID: "ed25519:f1", priv: ed25519.NewKeyFromSeed(seed)}
}

// f1Verifier checks signatures for real, with the keys of the test servers.
type f1Verifier map[spec.ServerName]*f1Server

func (v f1Verifier) VerifyJSONs(ctx context.Context, requests []VerifyJSONRequest) ([]VerifyJSONResult, error) {
	results := make([]VerifyJSONResult, len(requests))
	for i, r := range requests {
		s, ok := v[r.ServerName]
		if !ok {
			results[i].Error = fmt.Errorf("no key for %q", r.ServerName)
			continue
		}
		results[i].Error = VerifyJSON(string(r.ServerName), s.keyID, s.priv.Public().(ed25519.PublicKey), r.Message)
	}
	return results, nil
}

type f1StateResponse struct{ auth, state EventJSONs }

func (r *f1StateResponse) GetAuthEvents() EventJSONs  { return r.auth }
func (r *f1StateResponse) GetStateEvents() EventJSONs { return r.state }

func f1UserIDForSender(roomID spec.RoomID, senderID spec.SenderID) (*spec.UserID, error) {
	return spec.NewUserID(string(senderID), true)
}

func testAuditFinding1RestrictedJoin(t *testing.T) {
	const (
		roomID  = "!f1:resident"
		alice   = "@alice:resident" // creator, power 100
		bob     = "@bob:resident"   // joined, power 0: may NOT invite (invite level is 50)
		charlie = "@charlie:joiner" // the joining user
	)
	resident, joiner := f1NewServer("resident"), f1NewServer("joiner")
	verifier := f1Verifier{resident.name: resident, joiner.name: joiner}

	for _, ver := range []RoomVersion{RoomVersionV8, RoomVersionV9, RoomVersionV10} {
		t.Run("room version "+string(ver), func(t *testing.T) {
			verImpl := MustGetRoomVersion(ver)
			ts := time.UnixMilli(1700000000000)
			depth := int64(0)
			prev := []string{}
			build := func(signer *f1Server, sender, evType, stateKey, content string, auth []PDU, extraSigners ...*f1Server) PDU {
				t.Helper()
				depth++
				ts = ts.Add(time.Second)
				authIDs := []string{}
				for _, a := range auth {
					authIDs = append(authIDs, a.EventID())
				}
				eb := verImpl.NewEventBuilderFromProtoEvent(&ProtoEvent{
					SenderID: sender, RoomID: roomID, Type: evType, StateKey: &stateKey,
					PrevEvents: prev, AuthEvents: authIDs, Depth: depth, Content: spec.RawJSON(content),
				})
				ev, err := eb.Build(ts, signer.name, signer.keyID, signer.priv)
				if err != nil {
					t.Fatalf("building %s: %v", evType, err)
				}
				for _, s := range extraSigners {
					ev = ev.Sign(string(s.name), s.keyID, s.priv)
				}
				prev = []string{ev.EventID()}
				return ev
			}

			create := build(resident, alice, spec.MRoomCreate, "", `{"creator":"`+alice+`","room_version":"`+string(ver)+`"}`, nil)
			aliceJoin := build(resident, alice, spec.MRoomMember, alice, `{"membership":"join"}`, []PDU{create})
			powerLevels := build(resident, alice, spec.MRoomPowerLevels, "",
				`{"users":{"`+alice+`":100},"users_default":0,"invite":50,"state_default":50,"events_default":0,"ban":50,"kick":50,"redact":50}`,
				[]PDU{create, aliceJoin})
			publicRules := build(resident, alice, spec.MRoomJoinRules, "", `{"join_rule":"public"}`, []PDU{create, aliceJoin, powerLevels})
			bobJoin := build(resident, bob, spec.MRoomMember, bob, `{"membership":"join"}`, []PDU{create, powerLevels, publicRules})
			joinRules := build(resident, alice, spec.MRoomJoinRules, "",
				`{"join_rule":"restricted","allow":[{"type":"m.room_membership","room_id":"!space:resident"}]}`,
				[]PDU{create, aliceJoin, powerLevels})

			// Charlie's restricted join names bob as the authorising user. Bob has
			// power level 0 and the room asks for 50 to invite: the auth rules
			// refuse this join.
			join := build(joiner, charlie, spec.MRoomMember, charlie,
				`{"membership":"join","join_authorised_via_users_server":"`+bob+`"}`,
				[]PDU{create, powerLevels, joinRules, bobJoin}, resident)

			authChain := EventJSONs{create.JSON(), aliceJoin.JSON(), powerLevels.JSON(), publicRules.JSON(), joinRules.JSON(), bobJoin.JSON()}

			// Sanity check: with the state as it is, the response is refused.
			honest := &f1StateResponse{
				auth:  authChain,
				state: EventJSONs{create.JSON(), aliceJoin.JSON(), powerLevels.JSON(), joinRules.JSON(), bobJoin.JSON()},
			}
			if _, err := CheckSendJoinResponse(context.Background(), ver, honest, verifier, join, nil, f1UserIDForSender); err == nil {
				t.Fatalf("sanity check failed: the join authorised by a user without the power to invite was accepted")
			}

			// The same response, except that the copy of the power-levels event among
			// the *state* events has a changed content. Its content hash does not match
			// any more, so the copy is parsed as the redacted form of the event (same
			// event ID, signatures still valid). Redaction drops "invite" in these room
			// versions, so the redacted copy says that anybody may invite.
			// The auth chain still holds the intact event with invite: 50.
			var plObject map[string]json.RawMessage
			if err := json.Unmarshal(powerLevels.JSON(), &plObject); err != nil {
				t.Fatal(err)
			}
			plObject["content"] = json.RawMessage(`{"users":{"` + alice + `":100},"users_default":0,"invite":0,"state_default":50,"events_default":0,"ban":50,"kick":50,"redact":50}`)
			tamperedPL, err := json.Marshal(plObject)
			if err != nil {
				t.Fatal(err)
			}
			if parsed, perr := verImpl.NewEventFromUntrustedJSON(tamperedPL); perr != nil || !parsed.Redacted() || parsed.EventID() != powerLevels.EventID() {
				t.Fatalf("test setup: the altered copy should parse as the redacted form of the power-levels event (%v)", perr)
			}
			crafted := &f1StateResponse{
				auth:  authChain,
				state: EventJSONs{create.JSON(), aliceJoin.JSON(), tamperedPL, joinRules.JSON(), bobJoin.JSON()},
			}
			_, err = CheckSendJoinResponse(context.Background(), ver, crafted, verifier, join, nil, f1UserIDForSender)
			if err == nil {
				t.Errorf("CheckSendJoinResponse accepted a join that its auth events do not allow: "+
					"the power-levels event %s it cites arrived intact and correctly signed in the auth chain (invite: 50, "+
					"authorising user %s has level 0), but the join was judged against the redacted copy listed among the state events",
					powerLevels.EventID(), bob)
			}
		})
	}
}

// The same defect with the create event, in every room version whose redaction
// algorithm drops "m.federate" (1 to 10): the room is not federated, the intact
// create event in the auth chain says so, and the join of a user of another
// server is accepted because the state lists a copy of the create event with an
// altered content.
func TestAuditFinding1(t *testing.T) {
	t.Run("restricted join", testAuditFinding1RestrictedJoin)
	t.Run("unfederated room", testAuditFinding1Unfederated)
}

func testAuditFinding1Unfederated(t *testing.T) {
	const (
		roomID  = "!f1:resident"
		alice   = "@alice:resident"
		charlie = "@charlie:joiner"
	)
	resident, joiner := f1NewServer("resident"), f1NewServer("joiner")
	verifier := f1Verifier{resident.name: resident, joiner.name: joiner}
	for _, ver := range []RoomVersion{RoomVersionV1, RoomVersionV2, RoomVersionV3, RoomVersionV4, RoomVersionV5,
		RoomVersionV6, RoomVersionV7, RoomVersionV8, RoomVersionV9, RoomVersionV10} {
		t.Run("room version "+string(ver), func(t *testing.T) {
			verImpl := MustGetRoomVersion(ver)
			ts := time.UnixMilli(1700000000000)
			depth := int64(0)
			prev := []string{}
			build := func(signer *f1Server, sender, evType, stateKey, content string, auth []PDU) PDU {
				t.Helper()
				depth++
				ts = ts.Add(time.Second)
				authIDs := []string{}
				for _, a := range auth {
					authIDs = append(authIDs, a.EventID())
				}
				eb := verImpl.NewEventBuilderFromProtoEvent(&ProtoEvent{
					SenderID: sender, RoomID: roomID, Type: evType, StateKey: &stateKey,
					PrevEvents: prev, AuthEvents: authIDs, Depth: depth, Content: spec.RawJSON(content),
				})
				ev, err := eb.Build(ts, signer.name, signer.keyID, signer.priv)
				if err != nil {
					t.Fatalf("building %s: %v", evType, err)
				}
				prev = []string{ev.EventID()}
				return ev
			}
			create := build(resident, alice, spec.MRoomCreate, "", `{"creator":"`+alice+`","room_version":"`+string(ver)+`","m.federate":false}`, nil)
			aliceJoin := build(resident, alice, spec.MRoomMember, alice, `{"membership":"join"}`, []PDU{create})
			powerLevels := build(resident, alice, spec.MRoomPowerLevels, "",
				`{"users":{"`+alice+`":100},"users_default":0,"invite":50,"state_default":50,"events_default":0,"ban":50,"kick":50,"redact":50}`,
				[]PDU{create, aliceJoin})
			joinRules := build(resident, alice, spec.MRoomJoinRules, "", `{"join_rule":"public"}`, []PDU{create, aliceJoin, powerLevels})
			join := build(joiner, charlie, spec.MRoomMember, charlie, `{"membership":"join"}`, []PDU{create, powerLevels, joinRules})

			authChain := EventJSONs{create.JSON(), aliceJoin.JSON(), powerLevels.JSON(), joinRules.JSON()}
			honest := &f1StateResponse{auth: authChain, state: EventJSONs{create.JSON(), aliceJoin.JSON(), powerLevels.JSON(), joinRules.JSON()}}
			if _, err := CheckSendJoinResponse(context.Background(), ver, honest, verifier, join, nil, f1UserIDForSender); err == nil {
				t.Fatalf("sanity check failed: a user of another server was let into a room that is not federated")
			}

			var createObject map[string]json.RawMessage
			if err := json.Unmarshal(create.JSON(), &createObject); err != nil {
				t.Fatal(err)
			}
			createObject["content"] = json.RawMessage(`{"creator":"` + alice + `","room_version":"` + string(ver) + `","m.federate":true}`)
			tamperedCreate, err := json.Marshal(createObject)
			if err != nil {
				t.Fatal(err)
			}
			if parsed, perr := verImpl.NewEventFromUntrustedJSON(tamperedCreate); perr != nil || !parsed.Redacted() || parsed.EventID() != create.EventID() {
				t.Fatalf("test setup: the altered copy should parse as the redacted form of the create event (%v)", perr)
			}
			crafted := &f1StateResponse{auth: authChain, state: EventJSONs{tamperedCreate, aliceJoin.JSON(), powerLevels.JSON(), joinRules.JSON()}}
			if _, err = CheckSendJoinResponse(context.Background(), ver, crafted, verifier, join, nil, f1UserIDForSender); err == nil {
				t.Errorf("CheckSendJoinResponse accepted a join that its auth events do not allow: the create event %s it cites "+
					"arrived intact and correctly signed in the auth chain and says \"m.federate\": false, but the join of %s was "+
					"judged against the redacted copy listed among the state events", create.EventID(), charlie)
			}
		})
	}
}
