// Belongs in the package root directory (package gomatrixserverlib), e.g. as
// /tmp/au5/keys/finding1_test.go.
package gomatrixserverlib

import (
	"context"
	"crypto/ed25519"
	"encoding/json"
	"fmt"
	"testing"
	"time"

	"github.com/matrix-org/gomatrixserverlib/spec"
)

type auditF1Server struct {
	name  string
	keyID KeyID
	pub   ed25519.PublicKey
	priv  ed25519.PrivateKey
}

func auditF1NewServer(name string, seed byte) auditF1Server {
	s := make([]byte, ed25519.SeedSize)
	for i := range s {
		s[i] = seed
	}
	priv := ed25519.NewKeyFromSeed(s)
	return auditF1Server{name: name, keyID: "ed25519:k1", pub: priv.Public().(ed25519.PublicKey), priv: priv}
}

// auditF1Notary is the KeyClient of a PerspectiveKeyFetcher: it answers every
// /_matrix/key/v2/query with the same list of key documents.
type auditF1Notary struct{ docs []ServerKeys }

func (n auditF1Notary) GetServerKeys(context.Context, spec.ServerName) (ServerKeys, error) {
	return ServerKeys{}, fmt.Errorf("not reachable directly")
}
func (n auditF1Notary) LookupServerKeys(context.Context, spec.ServerName, map[PublicKeyLookupRequest]spec.Timestamp) ([]ServerKeys, error) {
	return n.docs, nil
}

type auditF1DB struct {
	keys map[PublicKeyLookupRequest]PublicKeyLookupResult
}

func (d *auditF1DB) FetcherName() string { return "auditF1DB" }
func (d *auditF1DB) FetchKeys(_ context.Context, reqs map[PublicKeyLookupRequest]spec.Timestamp) (map[PublicKeyLookupRequest]PublicKeyLookupResult, error) {
	res := map[PublicKeyLookupRequest]PublicKeyLookupResult{}
	for r := range reqs {
		if k, ok := d.keys[r]; ok {
			res[r] = k
		}
	}
	return res, nil
}
func (d *auditF1DB) StoreKeys(_ context.Context, keys map[PublicKeyLookupRequest]PublicKeyLookupResult) error {
	for r, k := range keys {
		d.keys[r] = k
	}
	return nil
}

// auditF1KeyDoc builds the key document of a server, signed by the server
// itself with its key and then by every co-signer (the notary).
func auditF1KeyDoc(t *testing.T, s auditF1Server, validUntil spec.Timestamp, extraVerifyKeys map[string]interface{}, cosigners ...auditF1Server) ServerKeys {
	t.Helper()
	verifyKeys := map[string]interface{}{
		string(s.keyID): map[string]interface{}{"key": spec.Base64Bytes(s.pub).Encode()},
	}
	for id, k := range extraVerifyKeys {
		verifyKeys[id] = k
	}
	doc, err := json.Marshal(map[string]interface{}{
		"server_name":     s.name,
		"valid_until_ts":  uint64(validUntil),
		"verify_keys":     verifyKeys,
		"old_verify_keys": map[string]interface{}{},
	})
	if err != nil {
		t.Fatal(err)
	}
	if doc, err = SignJSON(s.name, s.keyID, s.priv, doc); err != nil {
		t.Fatal(err)
	}
	for _, c := range cosigners {
		if doc, err = SignJSON(c.name, c.keyID, c.priv, doc); err != nil {
			t.Fatal(err)
		}
	}
	var keys ServerKeys
	if err = json.Unmarshal(doc, &keys); err != nil {
		t.Fatal(err)
	}
	return keys
}

// A notary answers one query about two servers. The key document of server A
// is signed by A and by the notary. The document of server B is relayed too
// (signed by the notary), but it is not acceptable: it lists a second ed25519
// verify key that has not signed it. A message signed by A must verify - the
// notary supplied A's key, in a response signed by A and by the notary - and
// what B published about itself must not matter for A.
func TestAuditFinding1(t *testing.T) {
	now := time.Now()
	a := auditF1NewServer("a.example", 1)
	b := auditF1NewServer("b.example", 2)
	bSecond := auditF1NewServer("b.example", 3)
	notary := auditF1NewServer("notary.example", 4)

	validUntil := spec.AsTimestamp(now.Add(time.Hour))
	docA := auditF1KeyDoc(t, a, validUntil, nil, notary)
	docB := auditF1KeyDoc(t, b, validUntil, map[string]interface{}{
		// listed by B, but B did not sign the document with it
		"ed25519:k2": map[string]interface{}{"key": spec.Base64Bytes(bSecond.pub).Encode()},
	}, notary)

	// sanity: A's document on its own is accepted, B's is not
	if checks, _ := CheckKeys(spec.ServerName(a.name), time.Unix(0, 0), docA); !checks.AllChecksOK {
		t.Fatalf("test setup: A's key document fails CheckKeys: %+v", checks)
	}
	if checks, _ := CheckKeys(spec.ServerName(b.name), time.Unix(0, 0), docB); checks.AllChecksOK {
		t.Fatalf("test setup: B's key document passes CheckKeys")
	}

	msgA, err := SignJSON(a.name, a.keyID, a.priv, []byte(`{"hello":"from a"}`))
	if err != nil {
		t.Fatal(err)
	}
	msgB, err := SignJSON(b.name, b.keyID, b.priv, []byte(`{"hello":"from b"}`))
	if err != nil {
		t.Fatal(err)
	}
	ts := spec.AsTimestamp(now)

	for _, order := range [][]ServerKeys{{docA, docB}, {docB, docA}} {
		fetcher := &PerspectiveKeyFetcher{
			PerspectiveServerName: spec.ServerName(notary.name),
			PerspectiveServerKeys: map[KeyID]ed25519.PublicKey{notary.keyID: notary.pub},
			Client:                auditF1Notary{docs: order},
		}

		// Control: the same notary asked about A alone (it then answers with A's
		// document alone) makes A's message verify.
		control := KeyRing{
			KeyFetchers: []KeyFetcher{&PerspectiveKeyFetcher{
				PerspectiveServerName: fetcher.PerspectiveServerName,
				PerspectiveServerKeys: fetcher.PerspectiveServerKeys,
				Client:                auditF1Notary{docs: []ServerKeys{docA}},
			}},
			KeyDatabase: &auditF1DB{keys: map[PublicKeyLookupRequest]PublicKeyLookupResult{}},
		}
		res, err := control.VerifyJSONs(context.Background(), []VerifyJSONRequest{
			{ServerName: spec.ServerName(a.name), AtTS: ts, Message: msgA, ValidityCheckingFunc: StrictValiditySignatureCheck},
		})
		if err != nil || len(res) != 1 || res[0].Error != nil {
			t.Fatalf("control: A's message alone does not verify: %v %v", err, res)
		}

		// The batch: A's and B's message together.
		ring := KeyRing{
			KeyFetchers: []KeyFetcher{fetcher},
			KeyDatabase: &auditF1DB{keys: map[PublicKeyLookupRequest]PublicKeyLookupResult{}},
		}
		res, err = ring.VerifyJSONs(context.Background(), []VerifyJSONRequest{
			{ServerName: spec.ServerName(a.name), AtTS: ts, Message: msgA, ValidityCheckingFunc: StrictValiditySignatureCheck},
			{ServerName: spec.ServerName(b.name), AtTS: ts, Message: msgB, ValidityCheckingFunc: StrictValiditySignatureCheck},
		})
		if err != nil {
			t.Fatalf("VerifyJSONs: %v", err)
		}
		if len(res) != 2 {
			t.Fatalf("VerifyJSONs returned %d results for 2 requests", len(res))
		}
		if res[0].Error != nil {
			t.Errorf("documents listed as [%s %s]: the message signed by %s is refused (%v) although the notary "+
				"supplied its key in a document signed by %s and by the notary; the unacceptable document of %s discarded it",
				order[0].ServerName, order[1].ServerName, a.name, res[0].Error, a.name, b.name)
		}
	}
}
