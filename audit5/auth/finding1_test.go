package gomatrixserverlib

// Audit finding 1 (C08). Belongs in the package root directory
// (package gomatrixserverlib).
//
// Two accepted power-level events let a user demote another user whose level
// equals (is "at least") the sender's own: the first event drops the peer's
// explicit entry from "users" while setting users_default to the same value
// (the effective level of the peer does not change, so checkUserLevels does not
// look at the entry at all), the second one lowers users_default again, which
// only needs "current value <= sender's level".

import (
	"encoding/json"
	"fmt"
	"testing"

	"github.com/matrix-org/gomatrixserverlib/spec"
)

func auditF1Event(t *testing.T, ver RoomVersion, n int, fields map[string]interface{}) PDU {
	t.Helper()
	impl := MustGetRoomVersion(ver)
	fields["origin_server_ts"] = 1000 + n
	fields["depth"] = n
	fields["prev_events"] = []interface{}{}
	fields["auth_events"] = []interface{}{}
	if impl.EventFormat() == EventFormatV1 {
		fields["event_id"] = fmt.Sprintf("$f1e%d:example.org", n)
	}
	b, err := json.Marshal(fields)
	if err != nil {
		t.Fatal(err)
	}
	ev, err := impl.NewEventFromTrustedJSON(b, false)
	if err != nil {
		t.Fatalf("room version %s: cannot build event %s: %v", ver, b, err)
	}
	return ev
}

func TestAuditFinding1(t *testing.T) {
	userIDForSender := func(roomID spec.RoomID, senderID spec.SenderID) (*spec.UserID, error) {
		return spec.NewUserID(string(senderID), true)
	}
	const creator = "@creator:example.org"
	const mallory = "@mallory:example.org" // level 100
	const alice = "@alice:example.org"     // level 100, the peer that gets demoted

	for _, ver := range []RoomVersion{"1", "2", "3", "4", "5", "6", "7", "8", "9", "10", "11", "12"} {
		impl := MustGetRoomVersion(ver)
		n := 0
		createFields := map[string]interface{}{
			"type": "m.room.create", "state_key": "", "sender": creator,
			"content": map[string]interface{}{"creator": creator, "room_version": string(ver)},
		}
		if !impl.DomainlessRoomIDs() {
			createFields["room_id"] = "!room:example.org"
		}
		n++
		create := auditF1Event(t, ver, n, createFields)
		roomID := create.RoomID().String()
		mk := func(typ, stateKey, sender string, content map[string]interface{}) PDU {
			n++
			return auditF1Event(t, ver, n, map[string]interface{}{
				"type": typ, "state_key": stateKey, "sender": sender, "room_id": roomID, "content": content,
			})
		}
		join := func(u string) PDU {
			return mk("m.room.member", u, u, map[string]interface{}{"membership": "join"})
		}
		members := []PDU{join(creator), join(mallory), join(alice)}

		// The room's power levels: two admins of equal rank, everybody else 0.
		pl0 := mk("m.room.power_levels", "", creator, map[string]interface{}{
			"users": map[string]interface{}{mallory: 100, alice: 100},
		})
		// Step 1 (sent by mallory): alice's entry is removed, users_default becomes 100.
		pl1 := mk("m.room.power_levels", "", mallory, map[string]interface{}{
			"users":         map[string]interface{}{mallory: 100},
			"users_default": 100,
		})
		// Step 2 (sent by mallory): users_default goes back to 0.
		pl2 := mk("m.room.power_levels", "", mallory, map[string]interface{}{
			"users":         map[string]interface{}{mallory: 100},
			"users_default": 0,
		})

		state := func(pl PDU) *AuthEvents {
			p, err := NewAuthEvents(append([]PDU{create, pl}, members...))
			if err != nil {
				t.Fatal(err)
			}
			return p
		}
		levelOf := func(pl PDU, user string) int64 {
			c, err := NewPowerLevelContentFromEvent(pl)
			if err != nil {
				t.Fatal(err)
			}
			return c.UserLevel(spec.SenderID(user))
		}

		before := levelOf(pl0, alice)
		senderLevel := levelOf(pl0, mallory)
		if before < senderLevel {
			t.Fatalf("test setup: alice (%d) must be at least at mallory's level (%d)", before, senderLevel)
		}

		err1 := Allowed(pl1, state(pl0), userIDForSender)
		if err1 != nil {
			// The removal of a peer's entry is refused, as the rules ask: nothing to show.
			continue
		}
		err2 := Allowed(pl2, state(pl1), userIDForSender)
		if err2 != nil {
			continue
		}
		after := levelOf(pl2, alice)
		if after != before {
			t.Errorf("room version %s: %s (level %d) changed the level of %s from %d to %d with two accepted power-level events, "+
				"although %s's level was not below the sender's: the first event removed her entry from \"users\" (level %d >= %d)",
				ver, mallory, senderLevel, alice, before, after, alice, before, senderLevel)
		}
	}
}
