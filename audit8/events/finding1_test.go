package gomatrixserverlib

// Audit finding 1 (property C03). Belongs in the package root directory
// (package gomatrixserverlib), next to event_builder.go.
//
// EventBuilder.Build silently rewrites bytes that are not valid UTF-8 in the
// *string* fields of a proto-event (type, state key, sender, redacts, prev /
// auth event IDs) to U+FFFD: encoding/json does that when it marshals a Go
// string. The guard of fix 77cfbc2 ("Build refuses a proto-event that is not
// valid UTF-8") looks at the marshalled text, in which those bytes are already
// gone; it only ever fires for the raw-JSON fields (content, unsigned).
// Two proto-events that differ in their type (or state key, ...) are therefore
// built into one and the same event: same content hash, same event ID, same
// signature - exactly what fix 4ddc9bf repaired for unpaired surrogate escapes.

import (
	"bytes"
	"testing"
	"time"

	"github.com/matrix-org/gomatrixserverlib/spec"
	"golang.org/x/crypto/ed25519"
)

func TestAuditFinding1(t *testing.T) {
	_, priv, err := ed25519.GenerateKey(bytes.NewReader(bytes.Repeat([]byte{7}, 64)))
	if err != nil {
		t.Fatal(err)
	}
	now := time.UnixMilli(1700000000000)

	type variant struct {
		name string
		// a and b differ in exactly one field
		a, b func(pe *ProtoEvent)
		// what the built event reports for that field
		get func(PDU) string
		// what the proto-events said
		wantA, wantB string
	}
	sk := func(s string) *string { return &s }
	variants := []variant{
		{
			name:  "type",
			a:     func(pe *ProtoEvent) { pe.Type = "org.example.t\xff" },
			b:     func(pe *ProtoEvent) { pe.Type = "org.example.t\xfe" },
			get:   func(e PDU) string { return e.Type() },
			wantA: "org.example.t\xff", wantB: "org.example.t\xfe",
		},
		{
			name:  "state key",
			a:     func(pe *ProtoEvent) { pe.StateKey = sk("k\xff") },
			b:     func(pe *ProtoEvent) { pe.StateKey = sk("k\xc0") },
			get:   func(e PDU) string { return *e.StateKey() },
			wantA: "k\xff", wantB: "k\xc0",
		},
		{
			name:  "sender",
			a:     func(pe *ProtoEvent) { pe.SenderID = "@al\xffice:example.org" },
			b:     func(pe *ProtoEvent) { pe.SenderID = "@al\xfeice:example.org" },
			get:   func(e PDU) string { return string(e.SenderID()) },
			wantA: "@al\xffice:example.org", wantB: "@al\xfeice:example.org",
		},
	}

	for verName, verImpl := range RoomVersions() {
		if verImpl.EventFormat() != EventFormatV2 {
			// room versions 1 and 2 have random event IDs
			continue
		}
		for _, vt := range variants {
			build := func(mod func(pe *ProtoEvent)) (PDU, error) {
				pe := &ProtoEvent{
					SenderID:   "@alice:example.org",
					RoomID:     "!room:example.org",
					Type:       "org.example.t",
					StateKey:   sk("k"),
					PrevEvents: []string{"$prev"},
					AuthEvents: []string{"$auth"},
					Depth:      3,
					Content:    spec.RawJSON(`{"body":"hello"}`),
				}
				if verImpl.DomainlessRoomIDs() {
					pe.RoomID = "!AAAAAAAAAAAAAAAAAAAAAAAAAAAAAAAAAAAAAAAAAAA"
				}
				mod(pe)
				return verImpl.NewEventBuilderFromProtoEvent(pe).Build(now, "example.org", "ed25519:k1", priv)
			}
			evA, errA := build(vt.a)
			evB, errB := build(vt.b)
			if errA != nil && errB != nil {
				// refusing such proto-events (as Build does for content and
				// unsigned that are not UTF-8) is fine
				continue
			}
			if errA != nil || errB != nil {
				t.Errorf("room version %s, %s: only one of the two proto-events was refused: %v / %v", verName, vt.name, errA, errB)
				continue
			}
			if evA.EventID() == evB.EventID() {
				t.Errorf("room version %s: two proto-events that differ in their %s (%q vs %q) were built into events with the same event ID %s (both report %q)",
					verName, vt.name, vt.wantA, vt.wantB, evA.EventID(), vt.get(evA))
			}
			if got := vt.get(evA); got != vt.wantA {
				t.Errorf("room version %s: built event reports %s %q, the proto-event said %q", verName, vt.name, got, vt.wantA)
			}
		}
	}
}
