// Belongs in the package root of gomatrixserverlib (package gomatrixserverlib,
// next to keyring.go). Self-contained: needs no other test file.
package gomatrixserverlib

import (
	"context"
	"crypto/sha256"
	"encoding/json"
	"sync"
	"testing"
	"time"

	"github.com/matrix-org/gomatrixserverlib/spec"
	"golang.org/x/crypto/ed25519"
)

// a faithful in-memory key database: FetchKeys answers what it holds,
// StoreKeys files every entry under its (server, key ID), replacing what was there.
type af1DB struct {
	mu   sync.Mutex
	keys map[PublicKeyLookupRequest]PublicKeyLookupResult
}

func (d *af1DB) FetcherName() string { return "af1DB" }
func (d *af1DB) FetchKeys(_ context.Context, reqs map[PublicKeyLookupRequest]spec.Timestamp) (map[PublicKeyLookupRequest]PublicKeyLookupResult, error) {
	d.mu.Lock()
	defer d.mu.Unlock()
	out := map[PublicKeyLookupRequest]PublicKeyLookupResult{}
	for req := range reqs {
		if res, ok := d.keys[req]; ok {
			out[req] = res
		}
	}
	return out, nil
}
func (d *af1DB) StoreKeys(_ context.Context, results map[PublicKeyLookupRequest]PublicKeyLookupResult) error {
	d.mu.Lock()
	defer d.mu.Unlock()
	for req, res := range results {
		d.keys[req] = res
	}
	return nil
}

// a fetcher that answers every call with the same map (what it was asked for
// and, like a notary or a server with several keys may, some more)
type af1Fetcher struct {
	answer map[PublicKeyLookupRequest]PublicKeyLookupResult
	asked  []map[PublicKeyLookupRequest]spec.Timestamp
}

func (f *af1Fetcher) FetcherName() string { return "af1Fetcher" }
func (f *af1Fetcher) FetchKeys(_ context.Context, reqs map[PublicKeyLookupRequest]spec.Timestamp) (map[PublicKeyLookupRequest]PublicKeyLookupResult, error) {
	cp := map[PublicKeyLookupRequest]spec.Timestamp{}
	for k, v := range reqs {
		cp[k] = v
	}
	f.asked = append(f.asked, cp)
	out := map[PublicKeyLookupRequest]PublicKeyLookupResult{}
	for k, v := range f.answer {
		out[k] = v
	}
	return out, nil
}

// a notary (KeyClient) that answers every query with the same documents
type af1Notary struct {
	docs  [][]byte
	asked []map[PublicKeyLookupRequest]spec.Timestamp
}

func (n *af1Notary) GetServerKeys(context.Context, spec.ServerName) (ServerKeys, error) {
	return ServerKeys{}, nil
}
func (n *af1Notary) LookupServerKeys(_ context.Context, _ spec.ServerName, reqs map[PublicKeyLookupRequest]spec.Timestamp) ([]ServerKeys, error) {
	cp := map[PublicKeyLookupRequest]spec.Timestamp{}
	for k, v := range reqs {
		cp[k] = v
	}
	n.asked = append(n.asked, cp)
	var out []ServerKeys
	for _, doc := range n.docs {
		var keys ServerKeys
		if err := json.Unmarshal(doc, &keys); err != nil {
			return nil, err
		}
		out = append(out, keys)
	}
	return out, nil
}

// af1KeyDoc makes a key document of server, listing keyID/pub under verify_keys,
// signed by the server and countersigned by the notary.
func af1KeyDoc(t *testing.T, server string, keyID KeyID, pub ed25519.PublicKey, priv ed25519.PrivateKey, validUntil spec.Timestamp, notaryPriv ed25519.PrivateKey) []byte {
	t.Helper()
	doc, err := json.Marshal(map[string]interface{}{
		"server_name":     server,
		"valid_until_ts":  validUntil,
		"verify_keys":     map[KeyID]VerifyKey{keyID: {Key: spec.Base64Bytes(pub)}},
		"old_verify_keys": map[string]interface{}{},
	})
	if err != nil {
		t.Fatal(err)
	}
	doc = af1Sign(t, server, keyID, priv, string(doc))
	return af1Sign(t, "notary.example", "ed25519:n", notaryPriv, string(doc))
}

func af1Key(seed string) (ed25519.PublicKey, ed25519.PrivateKey) {
	h := sha256.Sum256([]byte(seed))
	priv := ed25519.NewKeyFromSeed(h[:])
	return priv.Public().(ed25519.PublicKey), priv
}

func af1Sign(t *testing.T, server string, keyID KeyID, priv ed25519.PrivateKey, body string) []byte {
	t.Helper()
	signed, err := SignJSON(server, keyID, priv, []byte(body))
	if err != nil {
		t.Fatal(err)
	}
	return signed
}

func af1Verify(t *testing.T, ring KeyRing, server spec.ServerName, at spec.Timestamp, msg []byte, check SignatureValidityCheckFunc) error {
	t.Helper()
	results, err := ring.VerifyJSONs(context.Background(), []VerifyJSONRequest{{
		ServerName: server, AtTS: at, Message: msg, ValidityCheckingFunc: check,
	}})
	if err != nil {
		t.Fatal(err)
	}
	if len(results) != 1 {
		t.Fatalf("%d results for 1 request", len(results))
	}
	return results[0].Error
}

// TestAuditFinding1: a key that a fetcher volunteers for a (server, key ID)
// that is not part of the batch is written over the record the database holds
// for that pair - a record the key ring never asked the fetcher to refresh
// (it is inside its validity, or it is an expired key, which the ring itself
// treats as final). The verdict on a message of that other server changes
// from one call to the next although nothing about that server was asked.
func TestAuditFinding1(t *testing.T) {
	now := spec.AsTimestamp(time.Now())
	day := spec.Timestamp(24 * 60 * 60 * 1000)

	pubS, privS := af1Key("server S")
	pubT, privT := af1Key("server T")
	pubOther, _ := af1Key("not T's key")
	const keyS, keyT = KeyID("ed25519:s"), KeyID("ed25519:t")
	reqS := PublicKeyLookupRequest{ServerName: "s.example", KeyID: keyS}
	reqT := PublicKeyLookupRequest{ServerName: "t.example", KeyID: keyT}
	msgS := af1Sign(t, "s.example", keyS, privS, `{"from":"s"}`)
	msgT := af1Sign(t, "t.example", keyT, privT, `{"from":"t"}`)

	t.Run("current key of another server replaced", func(t *testing.T) {
		// The database holds T's key, valid for another day: the ring must not
		// consult any fetcher about it ("consults fetchers only for keys the
		// database lacks or holds past their validity").
		db := &af1DB{keys: map[PublicKeyLookupRequest]PublicKeyLookupResult{
			reqT: {VerifyKey: VerifyKey{Key: spec.Base64Bytes(pubT)}, ValidUntilTS: now + day},
		}}
		// The fetcher is asked for S's key only; it answers that and volunteers
		// a (wrong) key for (t.example, ed25519:t).
		fetcher := &af1Fetcher{answer: map[PublicKeyLookupRequest]PublicKeyLookupResult{
			reqS: {VerifyKey: VerifyKey{Key: spec.Base64Bytes(pubS)}, ValidUntilTS: now + day},
			reqT: {VerifyKey: VerifyKey{Key: spec.Base64Bytes(pubOther)}, ValidUntilTS: now + day},
		}}
		ring := KeyRing{KeyDatabase: db, KeyFetchers: []KeyFetcher{fetcher}}

		if err := af1Verify(t, ring, "t.example", now, msgT, StrictValiditySignatureCheck); err != nil {
			t.Fatalf("T's message before: %v", err)
		}
		if err := af1Verify(t, ring, "s.example", now, msgS, StrictValiditySignatureCheck); err != nil {
			t.Fatalf("S's message: %v", err)
		}
		for _, asked := range fetcher.asked {
			if _, ok := asked[reqT]; ok {
				t.Fatalf("the fetcher was asked for T's key")
			}
		}
		// Same message, same timestamp, same ring: the database held a valid key
		// for it and no fetcher was ever asked about it.
		if err := af1Verify(t, ring, "t.example", now, msgT, StrictValiditySignatureCheck); err != nil {
			t.Errorf("T's message verified before S's message was checked and does not afterwards: %v", err)
		}
		if got := db.keys[reqT]; string(got.Key) != string(pubT) {
			t.Errorf("the database's record for %v was replaced by a key no fetcher was asked for", reqT)
		}
	})

	t.Run("expired key of another server revived", func(t *testing.T) {
		// T retired its key: the database holds it as an expired key. The ring
		// treats such a record as final ("it's not going to change", it is never
		// requested again). An older key document of T, in which the key is still
		// listed under verify_keys, reaches the ring as an unsolicited entry (a
		// notary answering with more than it was asked for).
		expiredAt := now - 10*day
		db := &af1DB{keys: map[PublicKeyLookupRequest]PublicKeyLookupResult{
			reqT: {VerifyKey: VerifyKey{Key: spec.Base64Bytes(pubT)}, ExpiredTS: expiredAt},
		}}
		fetcher := &af1Fetcher{answer: map[PublicKeyLookupRequest]PublicKeyLookupResult{
			reqS: {VerifyKey: VerifyKey{Key: spec.Base64Bytes(pubS)}, ValidUntilTS: now + day},
			reqT: {VerifyKey: VerifyKey{Key: spec.Base64Bytes(pubT)}, ValidUntilTS: now - 20*day},
		}}
		ring := KeyRing{KeyDatabase: db, KeyFetchers: []KeyFetcher{fetcher}}

		// a message of T dated after the key expired, lenient rule (room versions 1-4)
		at := expiredAt + day
		if err := af1Verify(t, ring, "t.example", at, msgT, NoStrictValidityCheck); err == nil {
			t.Fatalf("a signature made after the key expired was accepted to begin with")
		}
		if err := af1Verify(t, ring, "s.example", now, msgS, StrictValiditySignatureCheck); err != nil {
			t.Fatalf("S's message: %v", err)
		}
		if err := af1Verify(t, ring, "t.example", at, msgT, NoStrictValidityCheck); err == nil {
			t.Errorf("T's key expired at %d; a signature at %d was refused before S's message was checked and is accepted afterwards", expiredAt, at)
		}
		if got := db.keys[reqT]; got.ExpiredTS != expiredAt {
			t.Errorf("the database's expired-key record for %v was replaced by an unsolicited entry: %+v", reqT, got)
		}
	})

	t.Run("expired key revived by the library's own notary fetcher", func(t *testing.T) {
		// The same as the previous case with PerspectiveKeyFetcher as the
		// fetcher: the notary answers the query for S's key with S's document
		// and with a (genuine, self-signed, countersigned) document of T from
		// the time before T retired its key. The fetcher accepts documents
		// whatever their valid_until_ts and returns every document it is sent.
		expiredAt := now - 10*day
		db := &af1DB{keys: map[PublicKeyLookupRequest]PublicKeyLookupResult{
			reqT: {VerifyKey: VerifyKey{Key: spec.Base64Bytes(pubT)}, ExpiredTS: expiredAt},
		}}
		pubN, privN := af1Key("notary")
		notary := &af1Notary{docs: [][]byte{
			af1KeyDoc(t, "s.example", keyS, pubS, privS, now+day, privN),
			af1KeyDoc(t, "t.example", keyT, pubT, privT, now-20*day, privN),
		}}
		ring := KeyRing{KeyDatabase: db, KeyFetchers: []KeyFetcher{&PerspectiveKeyFetcher{
			PerspectiveServerName: "notary.example",
			PerspectiveServerKeys: map[KeyID]ed25519.PublicKey{"ed25519:n": pubN},
			Client:                notary,
		}}}

		at := expiredAt + day
		if err := af1Verify(t, ring, "t.example", at, msgT, NoStrictValidityCheck); err == nil {
			t.Fatalf("a signature made after the key expired was accepted to begin with")
		}
		if err := af1Verify(t, ring, "s.example", now, msgS, StrictValiditySignatureCheck); err != nil {
			t.Fatalf("S's message: %v", err)
		}
		for _, asked := range notary.asked {
			if _, ok := asked[reqT]; ok {
				t.Fatalf("the notary was asked for T's key")
			}
		}
		if err := af1Verify(t, ring, "t.example", at, msgT, NoStrictValidityCheck); err == nil {
			t.Errorf("T's key expired at %d; a signature at %d was refused before S's message was checked and is accepted afterwards", expiredAt, at)
		}
		if got := db.keys[reqT]; got.ExpiredTS != expiredAt {
			t.Errorf("the database's expired-key record for %v was replaced by an unsolicited entry: %+v", reqT, got)
		}
	})
}
