// Belongs in the package root of gomatrixserverlib (package gomatrixserverlib,
// next to keyring.go). Self-contained: needs no other test file.
package gomatrixserverlib

import (
	"context"
	"crypto/sha256"
	"errors"
	"sync"
	"testing"
	"time"

	"github.com/matrix-org/gomatrixserverlib/spec"
	"golang.org/x/crypto/ed25519"
)

// a faithful in-memory key database, safe for concurrent use: FetchKeys answers
// what it holds, StoreKeys files every entry under its (server, key ID).
type af2DB struct {
	mu   sync.Mutex
	keys map[PublicKeyLookupRequest]PublicKeyLookupResult
}

func (d *af2DB) FetcherName() string { return "af2DB" }
func (d *af2DB) FetchKeys(_ context.Context, reqs map[PublicKeyLookupRequest]spec.Timestamp) (map[PublicKeyLookupRequest]PublicKeyLookupResult, error) {
	d.mu.Lock()
	defer d.mu.Unlock()
	out := map[PublicKeyLookupRequest]PublicKeyLookupResult{}
	for req := range reqs {
		if res, ok := d.keys[req]; ok {
			out[req] = res
		}
	}
	return out, nil
}
func (d *af2DB) StoreKeys(_ context.Context, results map[PublicKeyLookupRequest]PublicKeyLookupResult) error {
	d.mu.Lock()
	defer d.mu.Unlock()
	for req, res := range results {
		d.keys[req] = res
	}
	return nil
}
func (d *af2DB) get(req PublicKeyLookupRequest) PublicKeyLookupResult {
	d.mu.Lock()
	defer d.mu.Unlock()
	return d.keys[req]
}

// a fetcher whose first call hangs (until released) and then fails - a
// connection that is reset - and whose later calls answer.
type af2Fetcher struct {
	mu      sync.Mutex
	calls   int
	inFirst chan struct{} // closed when the first call has started
	release chan struct{} // the first call returns once this is closed
	answer  map[PublicKeyLookupRequest]PublicKeyLookupResult
}

func (f *af2Fetcher) FetcherName() string { return "af2Fetcher" }
func (f *af2Fetcher) FetchKeys(_ context.Context, _ map[PublicKeyLookupRequest]spec.Timestamp) (map[PublicKeyLookupRequest]PublicKeyLookupResult, error) {
	f.mu.Lock()
	f.calls++
	first := f.calls == 1
	f.mu.Unlock()
	if first {
		close(f.inFirst)
		<-f.release
		return nil, errors.New("connection reset by peer")
	}
	out := map[PublicKeyLookupRequest]PublicKeyLookupResult{}
	for k, v := range f.answer {
		out[k] = v
	}
	return out, nil
}

// TestAuditFinding2: VerifyJSONs hands StoreKeys not only what it fetched but
// also every record it merely read from the database at the start of the
// call. A call whose fetch fails therefore writes the (old) records it read
// back over whatever a concurrent call has fetched and stored in the meantime.
func TestAuditFinding2(t *testing.T) {
	now := spec.AsTimestamp(time.Now())
	hour := spec.Timestamp(60 * 60 * 1000)
	day := 24 * hour

	h := sha256.Sum256([]byte("server S"))
	priv := ed25519.NewKeyFromSeed(h[:])
	pub := priv.Public().(ed25519.PublicKey)
	req := PublicKeyLookupRequest{ServerName: "s.example", KeyID: "ed25519:a"}
	msg, err := SignJSON("s.example", "ed25519:a", priv, []byte(`{"from":"s"}`))
	if err != nil {
		t.Fatal(err)
	}

	// The database holds S's key from an earlier fetch; the record went stale
	// an hour ago, so a message dated now needs a fresh copy.
	stale := PublicKeyLookupResult{VerifyKey: VerifyKey{Key: spec.Base64Bytes(pub)}, ValidUntilTS: now - hour}
	// S has retired the key in the meantime: what the fetcher returns when it
	// answers is the key as an old key that expired two days ago.
	expiredAt := now - 2*day
	retired := PublicKeyLookupResult{VerifyKey: VerifyKey{Key: spec.Base64Bytes(pub)}, ExpiredTS: expiredAt}

	db := &af2DB{keys: map[PublicKeyLookupRequest]PublicKeyLookupResult{req: stale}}
	fetcher := &af2Fetcher{
		inFirst: make(chan struct{}), release: make(chan struct{}),
		answer: map[PublicKeyLookupRequest]PublicKeyLookupResult{req: retired},
	}
	ring := KeyRing{KeyDatabase: db, KeyFetchers: []KeyFetcher{fetcher}}
	verify := func(at spec.Timestamp, check SignatureValidityCheckFunc) error {
		results, err := ring.VerifyJSONs(context.Background(), []VerifyJSONRequest{{
			ServerName: "s.example", AtTS: at, Message: msg, ValidityCheckingFunc: check,
		}})
		if err != nil {
			t.Fatal(err)
		}
		return results[0].Error
	}

	// Call A reads the stale record from the database and goes to the fetcher,
	// where it hangs.
	aDone := make(chan error, 1)
	go func() { aDone <- verify(now, StrictValiditySignatureCheck) }()
	select {
	case <-fetcher.inFirst:
	case <-time.After(10 * time.Second):
		t.Fatal("call A never reached the fetcher")
	}

	// Call B, meanwhile, runs from start to end: it fetches the key (now an
	// expired key) and stores it.
	if err := verify(now, StrictValiditySignatureCheck); err == nil {
		t.Fatalf("call B: a signature dated after the key expired was accepted")
	}
	if got := db.get(req); got.ExpiredTS != expiredAt {
		t.Fatalf("call B did not store what it fetched: %+v", got)
	}

	// Call A's fetch now fails; A has fetched nothing.
	close(fetcher.release)
	select {
	case err := <-aDone:
		if err == nil {
			t.Fatalf("call A: accepted")
		}
	case <-time.After(10 * time.Second):
		t.Fatal("call A never returned")
	}

	// A fetched nothing, so it had nothing to store: the database must still
	// hold what B fetched.
	if got := db.get(req); got.ExpiredTS != expiredAt {
		t.Errorf("call A, which fetched nothing, wrote the record it had read at its start over the one call B fetched: database now holds %+v, want expired_ts %d", got, expiredAt)
	}
	// ... and with it the verdict on a signature made a day after the key
	// expired (lenient rule, room versions 1-4) must be "refused".
	if err := verify(expiredAt+day, NoStrictValidityCheck); err == nil {
		t.Errorf("the key expired at %d (fetched and stored by call B); a signature at %d is accepted", expiredAt, expiredAt+day)
	}
}
