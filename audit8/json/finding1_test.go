// Belongs in the package root directory of gomatrixserverlib (package gomatrixserverlib).
package gomatrixserverlib

import (
	"testing"
)

// RoomVersions() hands out the library's own registry map. A caller that
// edits the map it got back (to build its own list of versions to advertise,
// say) edits the registry: afterwards the enforced canonical-JSON variant no
// longer enforces anything for a registered room version >= 6, or no longer
// knows the version at all.
func TestAuditFinding1(t *testing.T) {
	// keep the registry as it was for the other tests of the package
	saved := map[RoomVersion]IRoomVersion{}
	for v, impl := range roomVersionMeta {
		saved[v] = impl
	}
	defer func() {
		for v := range roomVersionMeta {
			delete(roomVersionMeta, v)
		}
		for v, impl := range saved {
			roomVersionMeta[v] = impl
		}
	}()

	fraction := []byte(`{"a":1.5}`)
	integer := []byte(`{"b":2,"a":1}`)

	// sanity: version 10 enforces integers
	if _, err := EnforcedCanonicalJSON(fraction, RoomVersionV10); err == nil {
		t.Fatalf("precondition: version 10 accepted %s", fraction)
	}

	// 1. A caller builds its own table from the answer of RoomVersions():
	//    "treat version 10 like version 1 in my admin view".
	mine := RoomVersions()
	mine[RoomVersionV10] = mine[RoomVersionV1]

	if out, err := EnforcedCanonicalJSON(fraction, RoomVersionV10); err == nil {
		t.Errorf("after editing the map returned by RoomVersions(), EnforcedCanonicalJSON(%s, \"10\") = %s, want an error: "+
			"room version 10 must refuse numbers that are not integers", fraction, out)
	}

	// 2. A caller filters the answer of RoomVersions() down to what it advertises.
	theirs := RoomVersions()
	delete(theirs, RoomVersionV11)

	if out, err := EnforcedCanonicalJSON(integer, RoomVersionV11); err != nil || string(out) != `{"a":1,"b":2}` {
		t.Errorf("after filtering the map returned by RoomVersions(), EnforcedCanonicalJSON(%s, \"11\") = %q, %v; want {\"a\":1,\"b\":2}, nil",
			integer, out, err)
	}
	if !KnownRoomVersion(RoomVersionV11) {
		t.Errorf("room version 11 is no longer known to the library after a caller edited its own copy of RoomVersions()")
	}
}
