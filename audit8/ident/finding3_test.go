// Place in the package root directory (package gomatrixserverlib), next to eventversion.go.
// Run: go test -vet=off -count=1 -run TestAuditFinding3 .
package gomatrixserverlib

import (
	"crypto/rand"
	"fmt"
	"testing"
	"time"

	"github.com/matrix-org/gomatrixserverlib/spec"
	"golang.org/x/crypto/ed25519"
)

// RoomVersions() hands out the registry map itself. A caller that works on the
// result - here: narrows it down to the stable versions it wants to advertise,
// as StableRoomVersions() does on a copy - edits the room-version table of the
// library: versions disappear for every other user of the library, and events
// of those versions that were parsed / built before panic in Redact(), Sign()
// and the auth checks.
func TestAuditFinding3(t *testing.T) {
	_, priv, err := ed25519.GenerateKey(rand.Reader)
	if err != nil {
		t.Fatal(err)
	}
	// whatever happens, leave the registry as it was for the other tests
	saved := map[RoomVersion]IRoomVersion{}
	for v, impl := range RoomVersions() {
		saved[v] = impl
	}
	defer func() {
		for v, impl := range saved {
			if !KnownRoomVersion(v) {
				SetRoomVersion(impl)
			}
		}
	}()

	const unstable = RoomVersion("org.matrix.msc3787")
	verImpl, err := GetRoomVersion(unstable)
	if err != nil {
		t.Fatalf("%s is not registered to begin with: %v", unstable, err)
	}
	stateKey := ""
	create, err := verImpl.NewEventBuilderFromProtoEvent(&ProtoEvent{
		SenderID: "@u:example.org", RoomID: "!r:example.org", Type: spec.MRoomCreate, StateKey: &stateKey,
		PrevEvents: []string{}, AuthEvents: []string{}, Depth: 1,
		Content: spec.RawJSON(`{"creator":"@u:example.org","room_version":"org.matrix.msc3787"}`),
	}).Build(time.Now(), "example.org", "ed25519:1", priv)
	if err != nil {
		t.Fatal(err)
	}
	received, err := verImpl.NewEventFromUntrustedJSON(create.JSON())
	if err != nil {
		t.Fatal(err)
	}
	numRegistered := len(saved)

	// --- the caller: "which versions do I advertise?" ---
	advertised := RoomVersions()
	for v, impl := range advertised {
		if !impl.Stable() {
			delete(advertised, v)
		}
	}
	// --- end of the caller ---

	if n := len(RoomVersions()); n != numRegistered {
		t.Errorf("the library's room-version table shrank from %d to %d entries because a caller edited the map it was given", numRegistered, n)
	}
	if !KnownRoomVersion(unstable) {
		t.Errorf("KnownRoomVersion(%q) = false after a caller filtered the result of RoomVersions()", unstable)
	}
	if _, err := GetRoomVersion(unstable); err != nil {
		t.Errorf("GetRoomVersion(%q) after a caller filtered the result of RoomVersions(): %v", unstable, err)
	}
	// events of that room version that parsing accepted before
	try := func(what string, f func()) {
		defer func() {
			if r := recover(); r != nil {
				t.Errorf("%s of an accepted %s event panics: %v", what, unstable, r)
			}
		}()
		f()
	}
	try("Redact()", func() { received.Redact() })
	try("Sign()", func() { create.Sign("other.example.org", "ed25519:2", priv) })
	try("Allowed()", func() {
		authEvents, _ := NewAuthEvents([]PDU{create})
		_ = Allowed(create, authEvents, func(roomID spec.RoomID, senderID spec.SenderID) (*spec.UserID, error) {
			return spec.NewUserID(string(senderID), true)
		})
	})
	try("PowerLevels()", func() { _, _ = received.PowerLevels() })
	_ = fmt.Sprint
}
