// Place in the package root directory (package gomatrixserverlib), next to eventV2.go.
// Run: go test -vet=off -count=1 -run TestAuditFinding1 .
package gomatrixserverlib

import (
	"crypto/rand"
	"encoding/json"
	"errors"
	"strings"
	"testing"
	"time"

	"github.com/matrix-org/gomatrixserverlib/spec"
	"golang.org/x/crypto/ed25519"
)

// C17: "Events are refused on receipt and on build when ... their type, state
// key, sender or room ID exceeds 255 code points, and are reported as too large
// but persistable when only the 255-byte limit is exceeded." - for every
// registered room version. In room version org.matrix.msc4014 the sender is not
// measured at all.
func TestAuditFinding1(t *testing.T) {
	_, priv, err := ed25519.GenerateKey(rand.Reader)
	if err != nil {
		t.Fatal(err)
	}
	const version = RoomVersionPseudoIDs // "org.matrix.msc4014", a registered room version
	verImpl := MustGetRoomVersion(version)

	// a correctly hashed and signed event of that room version, as another server would send it
	received := func(sender string) []byte {
		raw, err := json.Marshal(map[string]interface{}{
			"type": "m.room.message", "sender": sender, "room_id": "!r:example.org",
			"content": map[string]interface{}{"body": "x"}, "depth": 1, "origin_server_ts": 1,
			"prev_events": []string{}, "auth_events": []string{},
		})
		if err != nil {
			t.Fatal(err)
		}
		if raw, err = addContentHashesToEvent(raw); err != nil {
			t.Fatal(err)
		}
		if raw, err = signEvent("example.org", "ed25519:1", priv, raw, version); err != nil {
			t.Fatal(err)
		}
		if raw, err = CanonicalJSON(raw); err != nil {
			t.Fatal(err)
		}
		return raw
	}
	built := func(sender string) (PDU, error) {
		eb := verImpl.NewEventBuilderFromProtoEvent(&ProtoEvent{
			SenderID: sender, RoomID: "!r:example.org", Type: "m.room.message",
			PrevEvents: []string{}, AuthEvents: []string{}, Depth: 1,
			Content: spec.RawJSON(`{"body":"x"}`),
		})
		return eb.Build(time.Now(), "example.org", "ed25519:1", priv)
	}
	verdict := func(err error) string {
		if err == nil {
			return "accepted"
		}
		var tooLarge EventValidationError
		if errors.As(err, &tooLarge) && tooLarge.Persistable {
			return "too large but persistable"
		}
		return "refused"
	}

	for _, tc := range []struct {
		name   string
		sender string
		want   string
	}{
		{"43 characters (a room key)", strings.Repeat("A", 43), "accepted"},
		{"255 code points / 255 bytes", strings.Repeat("A", 255), "accepted"},
		{"256 code points / 256 bytes", strings.Repeat("A", 256), "refused"},
		{"5000 code points", strings.Repeat("A", 5000), "refused"},
		{"200 code points / 400 bytes", strings.Repeat("é", 200), "too large but persistable"},
		{"255 code points / 765 bytes", strings.Repeat("€", 255), "too large but persistable"},
		{"256 code points / 768 bytes", strings.Repeat("€", 256), "refused"},
	} {
		_, err := verImpl.NewEventFromUntrustedJSON(received(tc.sender))
		if got := verdict(err); got != tc.want {
			t.Errorf("receipt, room version %s, sender of %s: %s (err = %v), want %s", version, tc.name, got, err, tc.want)
		}
		_, err = built(tc.sender)
		if got := verdict(err); got != tc.want {
			t.Errorf("build, room version %s, sender of %s: %s (err = %v), want %s", version, tc.name, got, err, tc.want)
		}
	}

	// The same senders in a room version that differs from org.matrix.msc4014 in
	// nothing else the table says ("currently, just a copy of V10"): there the
	// limits hold (senders need the user-ID shape there, hence the "@...:d").
	v10 := MustGetRoomVersion(RoomVersionV10)
	ctl, err := json.Marshal(map[string]interface{}{
		"type": "m.room.message", "sender": "@" + strings.Repeat("A", 253) + ":d", "room_id": "!r:example.org",
		"content": map[string]interface{}{"body": "x"}, "depth": 1, "origin_server_ts": 1,
		"prev_events": []string{}, "auth_events": []string{},
	})
	if err != nil {
		t.Fatal(err)
	}
	ctl, _ = addContentHashesToEvent(ctl)
	ctl, _ = signEvent("example.org", "ed25519:1", priv, ctl, RoomVersionV10)
	ctl, _ = CanonicalJSON(ctl)
	if _, err = v10.NewEventFromUntrustedJSON(ctl); verdict(err) != "refused" {
		t.Fatalf("control: room version 10 does not refuse a sender of 256 code points: %v", err)
	}
}
