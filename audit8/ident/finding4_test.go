// Place in the package root directory (package gomatrixserverlib), next to handleinvite.go.
// Run: go test -vet=off -count=1 -run TestAuditFinding4 .
package gomatrixserverlib

import (
	"context"
	"crypto/rand"
	"encoding/json"
	"fmt"
	"testing"
	"time"

	"github.com/matrix-org/gomatrixserverlib/spec"
	"golang.org/x/crypto/ed25519"
)

type finding4Verifier struct{}

func (finding4Verifier) VerifyJSONs(ctx context.Context, requests []VerifyJSONRequest) ([]VerifyJSONResult, error) {
	return make([]VerifyJSONResult, len(requests)), nil // every signature is fine
}

type finding4Queriers struct{}

func (finding4Queriers) IsKnownRoom(ctx context.Context, roomID spec.RoomID) (bool, error) {
	return false, nil
}
func (finding4Queriers) CurrentMembership(ctx context.Context, roomID spec.RoomID, senderID spec.SenderID) (string, error) {
	return spec.Leave, nil
}
func (finding4Queriers) GetAuthEvents(ctx context.Context, event PDU) (AuthEventProvider, error) {
	return NewAuthEvents(nil)
}
func (finding4Queriers) GetState(ctx context.Context, roomID spec.RoomID, stateWanted []StateKeyTuple) ([]PDU, error) {
	return nil, nil
}

// C18: the invite request of another server (the invite event and its
// invite_room_state) is handled by HandleInvite, which returns the event with our
// signature and the remote's invite_room_state under "unsigned". In the room
// versions that enforce canonical JSON a number such as 1.5 in that stripped
// state makes every later Sign() of the returned event panic (and the library's
// own NewEventFromUntrustedJSON refuses the event HandleInvite has just made).
func TestAuditFinding4(t *testing.T) {
	_, remoteKey, err := ed25519.GenerateKey(rand.Reader)
	if err != nil {
		t.Fatal(err)
	}
	_, localKey, err := ed25519.GenerateKey(rand.Reader)
	if err != nil {
		t.Fatal(err)
	}
	userIDForSender := func(roomID spec.RoomID, senderID spec.SenderID) (*spec.UserID, error) {
		return spec.NewUserID(string(senderID), true)
	}

	// what the inviting server sends as "invite_room_state" (fclient.InviteV2Request
	// decodes it into []InviteStrippedState without looking at the contents)
	for _, strippedContent := range []string{
		`{"name":"lobby","order":1.5}`,
		`{"name":"lobby","order":1e2}`,
		`{"name":"lobby","order":9007199254740992}`,
	} {
		var strippedState []InviteStrippedState
		if err = json.Unmarshal([]byte(`[{"type":"m.room.name","state_key":"","sender":"@inviter:remote.example","content":`+strippedContent+`}]`), &strippedState); err != nil {
			t.Fatal(err)
		}
		for _, version := range []RoomVersion{
			RoomVersionV6, RoomVersionV7, RoomVersionV8, RoomVersionV9, RoomVersionV10, RoomVersionV11, RoomVersionV12,
			"org.matrix.msc3667", "org.matrix.msc3787", RoomVersionHydra,
		} {
			verImpl := MustGetRoomVersion(version)
			roomIDString := "!room:remote.example"
			if verImpl.DomainlessRoomIDs() {
				roomIDString = "!AAAAAAAAAAAAAAAAAAAAAAAAAAAAAAAAAAAAAAAAAAA"
			}
			roomID, err := spec.NewRoomID(roomIDString)
			if err != nil {
				t.Fatal(err)
			}
			invitee, err := spec.NewUserID("@invitee:local.example", true)
			if err != nil {
				t.Fatal(err)
			}
			stateKey := invitee.String()
			built, err := verImpl.NewEventBuilderFromProtoEvent(&ProtoEvent{
				SenderID: "@inviter:remote.example", RoomID: roomIDString, Type: spec.MRoomMember, StateKey: &stateKey,
				PrevEvents: []string{}, AuthEvents: []string{}, Depth: 5, Content: spec.RawJSON(`{"membership":"invite"}`),
			}).Build(time.Now(), "remote.example", "ed25519:r", remoteKey)
			if err != nil {
				t.Fatal(err)
			}
			// as received over federation
			inviteEvent, err := verImpl.NewEventFromUntrustedJSON(built.JSON())
			if err != nil {
				t.Fatal(err)
			}

			signed, err := HandleInvite(context.Background(), HandleInviteInput{
				RoomID: *roomID, RoomVersion: version, InvitedUser: *invitee, InvitedSenderID: spec.SenderID(invitee.String()),
				InviteEvent: inviteEvent, StrippedState: strippedState,
				KeyID: "ed25519:l", PrivateKey: localKey, Verifier: finding4Verifier{},
				RoomQuerier: finding4Queriers{}, MembershipQuerier: finding4Queriers{}, StateQuerier: finding4Queriers{},
				UserIDQuerier: userIDForSender,
			})
			if err != nil {
				continue // refusing the request is fine
			}
			if signed == nil {
				t.Fatalf("room version %s: no event and no error", version)
			}
			func() {
				defer func() {
					if r := recover(); r != nil {
						t.Errorf("room version %s, invite_room_state content %s: Sign() of the event returned by HandleInvite panics: %.120s", version, strippedContent, fmt.Sprint(r))
					}
				}()
				signed.Sign("another.example", "ed25519:a", localKey)
			}()
		}
	}
}
