// Place in the package root directory (package gomatrixserverlib), next to event.go / eventV2.go.
// Run: go test -vet=off -count=1 -run TestAuditFinding2 .
package gomatrixserverlib

import (
	"crypto/rand"
	"encoding/json"
	"errors"
	"strings"
	"testing"

	"golang.org/x/crypto/ed25519"
)

// C17: an event is "reported as too large but persistable when ONLY the 255-byte
// limit is exceeded". The parsers return that verdict as soon as the room ID is
// over 255 bytes (and within 255 code points), before they have looked at whether
// the room ID is a room ID at all, and before the checks on the event's shape:
// an event that is refused outright with a short room ID is reported as
// "persistable" once its room ID is long enough.
func TestAuditFinding2(t *testing.T) {
	_, priv, err := ed25519.GenerateKey(rand.Reader)
	if err != nil {
		t.Fatal(err)
	}
	verdict := func(err error) string {
		if err == nil {
			return "accepted"
		}
		var tooLarge EventValidationError
		if errors.As(err, &tooLarge) && tooLarge.Persistable {
			return "too large but persistable"
		}
		return "refused"
	}
	// 131 code points, 261 bytes: over the byte limit only
	longOpaque := strings.Repeat("é", 130)
	shortOpaque := strings.Repeat("é", 10)

	for _, version := range []RoomVersion{
		RoomVersionV1, RoomVersionV2, RoomVersionV3, RoomVersionV4, RoomVersionV5, RoomVersionV6,
		RoomVersionV7, RoomVersionV8, RoomVersionV9, RoomVersionV10, RoomVersionV11,
		"org.matrix.msc3667", "org.matrix.msc3787",
	} {
		verImpl := MustGetRoomVersion(version)
		event := func(roomID string, mutate func(map[string]interface{})) []byte {
			fields := map[string]interface{}{
				"type": "m.room.message", "sender": "@u:example.org", "room_id": roomID,
				"content": map[string]interface{}{"body": "x"}, "depth": 1, "origin_server_ts": 1,
			}
			if verImpl.EventFormat() == EventFormatV1 {
				fields["event_id"] = "$1:example.org"
				fields["prev_events"], fields["auth_events"] = []interface{}{}, []interface{}{}
			} else {
				fields["prev_events"], fields["auth_events"] = []string{}, []string{}
			}
			raw, err := json.Marshal(fields)
			if err != nil {
				t.Fatal(err)
			}
			if raw, err = addContentHashesToEvent(raw); err != nil {
				t.Fatal(err)
			}
			if raw, err = signEvent("example.org", "ed25519:1", priv, raw, version); err != nil {
				t.Fatal(err)
			}
			if mutate != nil {
				var m map[string]interface{}
				if err = json.Unmarshal(raw, &m); err != nil {
					t.Fatal(err)
				}
				mutate(m)
				if raw, err = json.Marshal(m); err != nil {
					t.Fatal(err)
				}
			}
			if raw, err = CanonicalJSON(raw); err != nil {
				t.Fatal(err)
			}
			return raw
		}
		noObjectContent := func(m map[string]interface{}) { m["content"] = []interface{}{} }
		noType := func(m map[string]interface{}) { delete(m, "type") }

		for _, tc := range []struct {
			name   string
			roomID string
			mutate func(map[string]interface{})
			want   string
		}{
			// controls: what the parser says when the room ID is short, and for a
			// long room ID with nothing else wrong
			{"short room ID, domain is no server name", "!" + shortOpaque + ":bad domain", nil, "refused"},
			{"short room ID, no domain", "!" + shortOpaque + ":", nil, "refused"},
			{"short room ID, content is no object", "!" + shortOpaque + ":example.org", noObjectContent, "refused"},
			{"short room ID, no type", "!" + shortOpaque + ":example.org", noType, "refused"},
			{"261-byte room ID, nothing else wrong", "!" + longOpaque + ":example.org", nil, "too large but persistable"},
			// the same faults with a room ID of more than 255 bytes
			{"261+ byte room ID, domain is no server name", "!" + longOpaque + ":bad domain", nil, "refused"},
			{"261+ byte room ID, domain is a:b:c", "!" + longOpaque + ":a:b:c", nil, "refused"},
			{"261+ byte room ID, no domain", "!" + longOpaque + ":", nil, "refused"},
			{"261-byte room ID, content is no object", "!" + longOpaque + ":example.org", noObjectContent, "refused"},
			{"261-byte room ID, no type", "!" + longOpaque + ":example.org", noType, "refused"},
		} {
			_, err := verImpl.NewEventFromUntrustedJSON(event(tc.roomID, tc.mutate))
			if got := verdict(err); got != tc.want {
				t.Errorf("room version %s, %s: %s (err = %v), want %s", version, tc.name, got, err, tc.want)
			}
		}
	}
}
