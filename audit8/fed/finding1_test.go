package gomatrixserverlib

// Audit finding 1 (property C14). Belongs in the package root directory
// (package gomatrixserverlib).
//
// RequestBackfill keeps events whose signature check failed (deliberately: the
// key may have been rotated away since). But LoadAndVerify stops at the first
// failing check, so for such an event the auth checks never run: a forged
// event that no server ever signed AND that the auth rules refuse leaves
// RequestBackfill as a verified event. The same event with a correct
// signature is dropped.

import (
	"bytes"
	"context"
	"crypto/sha256"
	"encoding/json"
	"fmt"
	"testing"
	"time"

	"github.com/matrix-org/gomatrixserverlib/spec"
	"golang.org/x/crypto/ed25519"
)

type f1Server struct {
	name  spec.ServerName
	keyID KeyID
	priv  ed25519.PrivateKey
	pub   ed25519.PublicKey
}

func f1NewServer(name string) *f1Server {
	seed := sha256.Sum256([]byte("finding1" + name))
	priv := ed25519.NewKeyFromSeed(seed[:])
	return &f1Server{name: spec.ServerName(name), keyID: "ed25519:k1", priv: priv, pub: priv.Public().(ed25519.PublicKey)}
}

type f1Verifier map[spec.ServerName]*f1Server

func (v f1Verifier) VerifyJSONs(ctx context.Context, requests []VerifyJSONRequest) ([]VerifyJSONResult, error) {
	res := make([]VerifyJSONResult, len(requests))
	for i, r := range requests {
		s, ok := v[r.ServerName]
		if !ok {
			res[i].Error = fmt.Errorf("no key for %q", r.ServerName)
			continue
		}
		res[i].Error = VerifyJSON(string(r.ServerName), s.keyID, s.pub, r.Message)
	}
	return res, nil
}

func f1UserIDForSender(roomID spec.RoomID, senderID spec.SenderID) (*spec.UserID, error) {
	return spec.NewUserID(string(senderID), true)
}

type f1Room struct {
	t      *testing.T
	ver    RoomVersion
	roomID string
	byID   map[string]PDU
	n      int64
}

func (r *f1Room) build(srv *f1Server, sender, typ string, stateKey *string, content string, auth, prev []PDU) PDU {
	r.t.Helper()
	verImpl := MustGetRoomVersion(r.ver)
	ids := func(evs []PDU, dropCreate bool) []string {
		out := []string{}
		for _, e := range evs {
			if dropCreate && e.Type() == spec.MRoomCreate {
				continue // room version 12: the create event is implied by the room ID
			}
			out = append(out, e.EventID())
		}
		return out
	}
	r.n++
	roomID := r.roomID
	if verImpl.DomainlessRoomIDs() && typ == spec.MRoomCreate {
		roomID = ""
	}
	eb := verImpl.NewEventBuilderFromProtoEvent(&ProtoEvent{
		SenderID: sender, RoomID: roomID, Type: typ, StateKey: stateKey,
		PrevEvents: ids(prev, false), AuthEvents: ids(auth, verImpl.DomainlessRoomIDs()),
		Depth: r.n, Content: spec.RawJSON(content),
	})
	ev, err := eb.Build(time.UnixMilli(1700000000000+r.n), srv.name, srv.keyID, srv.priv)
	if err != nil {
		r.t.Fatalf("building %s: %v", typ, err)
	}
	if verImpl.DomainlessRoomIDs() && typ == spec.MRoomCreate {
		r.roomID = "!" + ev.EventID()[1:]
	}
	r.byID[ev.EventID()] = ev
	return ev
}

type f1Backfiller struct {
	room  *f1Room
	state []PDU
	pdus  []json.RawMessage
}

func (b *f1Backfiller) StateIDsBeforeEvent(ctx context.Context, ev PDU) ([]string, error) {
	ids := []string{}
	for _, e := range b.state {
		ids = append(ids, e.EventID())
	}
	return ids, nil
}
func (b *f1Backfiller) StateBeforeEvent(ctx context.Context, roomVer RoomVersion, ev PDU, ids []string) (map[string]PDU, error) {
	m := map[string]PDU{}
	for _, e := range b.state {
		m[e.EventID()] = e
	}
	return m, nil
}
func (b *f1Backfiller) ServersAtEvent(ctx context.Context, roomID, eventID string) []spec.ServerName {
	return []spec.ServerName{"c.example"}
}
func (b *f1Backfiller) Backfill(ctx context.Context, origin, server spec.ServerName, roomID string, limit int, from []string) (Transaction, error) {
	return Transaction{PDUs: b.pdus}, nil
}
func (b *f1Backfiller) ProvideEvents(roomVer RoomVersion, ids []string) ([]PDU, error) {
	var res []PDU
	for _, id := range ids {
		if e, ok := b.room.byID[id]; ok {
			res = append(res, e)
		}
	}
	return res, nil
}

func TestAuditFinding1(t *testing.T) {
	versions := []RoomVersion{RoomVersionV1, RoomVersionV2, RoomVersionV3, RoomVersionV4, RoomVersionV5, RoomVersionV6,
		RoomVersionV7, RoomVersionV8, RoomVersionV9, RoomVersionV10, RoomVersionV11, RoomVersionV12}
	for _, ver := range versions {
		verImpl := MustGetRoomVersion(ver)
		A, C := f1NewServer("a.example"), f1NewServer("c.example")
		verifier := f1Verifier{A.name: A, C.name: C}
		r := &f1Room{t: t, ver: ver, roomID: "!room:a.example", byID: map[string]PDU{}}
		alice, mallory, empty := "@alice:a.example", "@mallory:c.example", ""

		createContent := fmt.Sprintf(`{"creator":%q,"room_version":%q}`, alice, string(ver))
		plContent := fmt.Sprintf(`{"users":{%q:100},"state_default":50,"events_default":0,"users_default":0}`, alice)
		if verImpl.PrivilegedCreators() {
			createContent = fmt.Sprintf(`{"room_version":%q}`, string(ver))
			plContent = `{"state_default":50,"events_default":0,"users_default":0}`
		}
		create := r.build(A, alice, spec.MRoomCreate, &empty, createContent, nil, nil)
		joinA := r.build(A, alice, spec.MRoomMember, &alice, `{"membership":"join"}`, []PDU{create}, []PDU{create})
		pl := r.build(A, alice, spec.MRoomPowerLevels, &empty, plContent, []PDU{create, joinA}, []PDU{joinA})
		jr := r.build(A, alice, spec.MRoomJoinRules, &empty, `{"join_rule":"invite"}`, []PDU{create, joinA, pl}, []PDU{pl})
		state := []PDU{create, joinA, pl, jr}

		// Mallory has never been in the (invite-only) room. This power-levels
		// event makes her its admin; the auth rules refuse it.
		evil := r.build(C, mallory, spec.MRoomPowerLevels, &empty, fmt.Sprintf(`{"users":{%q:100}}`, mallory), []PDU{create, pl}, []PDU{jr})
		delete(r.byID, evil.EventID())

		// Control: with its proper signature the event is dropped.
		bf := &f1Backfiller{room: r, state: state, pdus: []json.RawMessage{evil.JSON()}}
		res, err := RequestBackfill(context.Background(), "b.example", bf, verifier, r.roomID, ver, []string{jr.EventID()}, 10, f1UserIDForSender)
		if err != nil || len(res) != 0 {
			t.Fatalf("room version %s: control: expected the unauthorised event to be dropped, got %d events, err=%v", ver, len(res), err)
		}

		// Now the same event with a signature nobody made: one character of it changed.
		forged := append([]byte(nil), evil.JSON()...)
		marker := []byte(`"ed25519:k1":"`)
		i := bytes.Index(forged, marker)
		if i < 0 {
			t.Fatalf("no signature in %s", forged)
		}
		i += len(marker)
		if forged[i] == 'A' {
			forged[i] = 'B'
		} else {
			forged[i] = 'A'
		}
		bf.pdus = []json.RawMessage{forged}
		res, err = RequestBackfill(context.Background(), "b.example", bf, verifier, r.roomID, ver, []string{jr.EventID()}, 10, f1UserIDForSender)
		if err != nil {
			t.Fatalf("room version %s: %v", ver, err)
		}
		for _, ev := range res {
			t.Errorf("room version %s: RequestBackfill returned event %s (%s by %s): its signature is invalid AND its auth events do not allow it",
				ver, ev.EventID(), ev.Type(), ev.SenderID())
		}
	}
}
