package gomatrixserverlib

// Audit finding 2 (property C15, requesting side). Belongs in the package root
// directory (package gomatrixserverlib).
//
// PerformJoin refuses a send_join response whose m.room.create event names a
// room version the library does not know ("room_version":"99"). If the resident
// server damages the content hash of that same create event (an extra top-level
// member is enough), the event is parsed as its redacted form, which in room
// versions 1-10 has lost "room_version"; the check then reads the default "1"
// and the join is returned.

import (
	"context"
	"crypto/sha256"
	"fmt"
	"testing"
	"time"

	"github.com/matrix-org/gomatrixserverlib/spec"
	"github.com/tidwall/sjson"
	"golang.org/x/crypto/ed25519"
)

type f2Server struct {
	name  spec.ServerName
	keyID KeyID
	priv  ed25519.PrivateKey
	pub   ed25519.PublicKey
}

func f2NewServer(name string) *f2Server {
	seed := sha256.Sum256([]byte("finding2" + name))
	priv := ed25519.NewKeyFromSeed(seed[:])
	return &f2Server{name: spec.ServerName(name), keyID: "ed25519:k1", priv: priv, pub: priv.Public().(ed25519.PublicKey)}
}

type f2KeyDB map[spec.ServerName]*f2Server

func (d f2KeyDB) FetcherName() string { return "f2KeyDB" }
func (d f2KeyDB) FetchKeys(ctx context.Context, reqs map[PublicKeyLookupRequest]spec.Timestamp) (map[PublicKeyLookupRequest]PublicKeyLookupResult, error) {
	res := map[PublicKeyLookupRequest]PublicKeyLookupResult{}
	for r := range reqs {
		if s, ok := d[r.ServerName]; ok && r.KeyID == s.keyID {
			res[r] = PublicKeyLookupResult{
				VerifyKey:    VerifyKey{Key: spec.Base64Bytes(s.pub)},
				ValidUntilTS: spec.AsTimestamp(time.Now().Add(24 * time.Hour)),
				ExpiredTS:    PublicKeyNotExpired,
			}
		}
	}
	return res, nil
}
func (d f2KeyDB) StoreKeys(ctx context.Context, r map[PublicKeyLookupRequest]PublicKeyLookupResult) error {
	return nil
}

type f2MakeJoinResp struct {
	ver   RoomVersion
	proto ProtoEvent
}

func (r *f2MakeJoinResp) GetJoinEvent() ProtoEvent    { return r.proto }
func (r *f2MakeJoinResp) GetRoomVersion() RoomVersion { return r.ver }

type f2SendJoinResp struct{ auth, state EventJSONs }

func (r *f2SendJoinResp) GetAuthEvents() EventJSONs  { return r.auth }
func (r *f2SendJoinResp) GetStateEvents() EventJSONs { return r.state }
func (r *f2SendJoinResp) GetOrigin() spec.ServerName { return "a.example" }
func (r *f2SendJoinResp) GetJoinEvent() spec.RawJSON { return nil }
func (r *f2SendJoinResp) GetMembersOmitted() bool    { return false }
func (r *f2SendJoinResp) GetServersInRoom() []string { return nil }

type f2Client struct {
	makeJoin MakeJoinResponse
	sendJoin SendJoinResponse
}

func (c *f2Client) MakeJoin(ctx context.Context, origin, s spec.ServerName, roomID, userID string) (MakeJoinResponse, error) {
	return c.makeJoin, nil
}
func (c *f2Client) SendJoin(ctx context.Context, origin, s spec.ServerName, event PDU) (SendJoinResponse, error) {
	return c.sendJoin, nil
}

func f2UserIDForSender(roomID spec.RoomID, senderID spec.SenderID) (*spec.UserID, error) {
	return spec.NewUserID(string(senderID), true)
}

func TestAuditFinding2(t *testing.T) {
	// (from version 11 on redaction keeps the whole content of the create event; there the check holds)
	versions := []RoomVersion{RoomVersionV1, RoomVersionV2, RoomVersionV3, RoomVersionV4, RoomVersionV5,
		RoomVersionV6, RoomVersionV7, RoomVersionV8, RoomVersionV9, RoomVersionV10}
	for _, ver := range versions {
		verImpl := MustGetRoomVersion(ver)
		A, B := f2NewServer("a.example"), f2NewServer("b.example")
		roomID := "!room:a.example"
		alice, bob, empty := "@alice:a.example", "@bob:b.example", ""
		var n int64
		build := func(typ string, stateKey *string, content string, auth, prev []PDU) PDU {
			n++
			ids := func(evs []PDU) []string {
				out := []string{}
				for _, e := range evs {
					out = append(out, e.EventID())
				}
				return out
			}
			eb := verImpl.NewEventBuilderFromProtoEvent(&ProtoEvent{
				SenderID: alice, RoomID: roomID, Type: typ, StateKey: stateKey,
				PrevEvents: ids(prev), AuthEvents: ids(auth), Depth: n, Content: spec.RawJSON(content),
			})
			ev, err := eb.Build(time.Now(), A.name, A.keyID, A.priv)
			if err != nil {
				t.Fatalf("building %s: %v", typ, err)
			}
			return ev
		}
		// The room is of a version this library does not know.
		create := build(spec.MRoomCreate, &empty, fmt.Sprintf(`{"creator":%q,"room_version":"99"}`, alice), nil, nil)
		joinA := build(spec.MRoomMember, &alice, `{"membership":"join"}`, []PDU{create}, []PDU{create})
		pl := build(spec.MRoomPowerLevels, &empty, fmt.Sprintf(`{"users":{%q:100}}`, alice), []PDU{create, joinA}, []PDU{joinA})
		jr := build(spec.MRoomJoinRules, &empty, `{"join_rule":"public"}`, []PDU{create, joinA, pl}, []PDU{pl})

		bobID, _ := spec.NewUserID(bob, true)
		rid, _ := spec.NewRoomID(roomID)
		template := ProtoEvent{
			SenderID: bob, RoomID: roomID, Type: spec.MRoomMember, StateKey: &bob,
			PrevEvents: []interface{}{jr.EventID()},
			AuthEvents: []interface{}{create.EventID(), pl.EventID(), jr.EventID()},
			Depth:      10, Content: spec.RawJSON(`{"membership":"join"}`),
		}
		if verImpl.EventFormat() == EventFormatV1 {
			template.PrevEvents = toEventReference([]string{jr.EventID()})
			template.AuthEvents = toEventReference([]string{create.EventID(), pl.EventID(), jr.EventID()})
		}
		input := PerformJoinInput{
			UserID: bobID, RoomID: rid, ServerName: A.name,
			PrivateKey: B.priv, KeyID: B.keyID,
			KeyRing:       &KeyRing{KeyDatabase: f2KeyDB{A.name: A, B.name: B}},
			UserIDQuerier: f2UserIDForSender,
		}
		join := func(createJSON []byte) (*PerformJoinResponse, *FederationError) {
			events := EventJSONs{createJSON, joinA.JSON(), pl.JSON(), jr.JSON()}
			client := &f2Client{
				makeJoin: &f2MakeJoinResp{ver: ver, proto: template},
				sendJoin: &f2SendJoinResp{auth: events, state: events},
			}
			return PerformJoin(context.Background(), client, input)
		}

		// Control: the create event as it is. Refused: unknown room version.
		if res, ferr := join(create.JSON()); ferr == nil {
			t.Fatalf("room version %s: control: join of a room with \"room_version\":\"99\" returned %v", ver, res.JoinEvent.EventID())
		}

		// The same create event with its content hash broken by an extra member.
		// The signatures (taken over the redacted form) are still valid.
		damaged, err := sjson.SetBytes(create.JSON(), "x", 1)
		if err != nil {
			t.Fatal(err)
		}
		res, ferr := join(damaged)
		if ferr == nil {
			t.Errorf("room version %s: PerformJoin returned join %s although the create event it was sent says \"room_version\":\"99\" (unknown)",
				ver, res.JoinEvent.EventID())
		}
	}
}
