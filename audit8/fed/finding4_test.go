package gomatrixserverlib

// Audit finding 4 (C15 requesting side; history / aliasing). Belongs in the
// package root directory (package gomatrixserverlib).
//
// PerformJoin merges the content of the remote's make_join template into the
// caller's PerformJoinInput.Content MAP (and writes "membership" /
// "mxid_mapping" into it). The map outlives the call: a caller that tries one
// server after the other with the same input - the usual way to join via a
// list of candidate servers - sends to the second server a join event whose
// content was chosen by the first one.

import (
	"context"
	"crypto/sha256"
	"fmt"
	"reflect"
	"testing"
	"time"

	"github.com/matrix-org/gomatrixserverlib/spec"
	"golang.org/x/crypto/ed25519"
)

type f4KeyDB map[spec.ServerName]ed25519.PublicKey

func (d f4KeyDB) FetcherName() string { return "f4KeyDB" }
func (d f4KeyDB) FetchKeys(ctx context.Context, reqs map[PublicKeyLookupRequest]spec.Timestamp) (map[PublicKeyLookupRequest]PublicKeyLookupResult, error) {
	res := map[PublicKeyLookupRequest]PublicKeyLookupResult{}
	for r := range reqs {
		if key, ok := d[r.ServerName]; ok && r.KeyID == "ed25519:k1" {
			res[r] = PublicKeyLookupResult{
				VerifyKey:    VerifyKey{Key: spec.Base64Bytes(key)},
				ValidUntilTS: spec.AsTimestamp(time.Now().Add(24 * time.Hour)),
				ExpiredTS:    PublicKeyNotExpired,
			}
		}
	}
	return res, nil
}
func (d f4KeyDB) StoreKeys(ctx context.Context, r map[PublicKeyLookupRequest]PublicKeyLookupResult) error {
	return nil
}

type f4MakeJoinResp struct {
	ver   RoomVersion
	proto ProtoEvent
}

func (r *f4MakeJoinResp) GetJoinEvent() ProtoEvent    { return r.proto }
func (r *f4MakeJoinResp) GetRoomVersion() RoomVersion { return r.ver }

type f4SendJoinResp struct{ events EventJSONs }

func (r *f4SendJoinResp) GetAuthEvents() EventJSONs  { return r.events }
func (r *f4SendJoinResp) GetStateEvents() EventJSONs { return r.events }
func (r *f4SendJoinResp) GetOrigin() spec.ServerName { return "a.example" }
func (r *f4SendJoinResp) GetJoinEvent() spec.RawJSON { return nil }
func (r *f4SendJoinResp) GetMembersOmitted() bool    { return false }
func (r *f4SendJoinResp) GetServersInRoom() []string { return nil }

type f4Client struct {
	makeJoin func(s spec.ServerName) (MakeJoinResponse, error)
	sendJoin func(s spec.ServerName, ev PDU) (SendJoinResponse, error)
}

func (c *f4Client) MakeJoin(ctx context.Context, origin, s spec.ServerName, roomID, userID string) (MakeJoinResponse, error) {
	return c.makeJoin(s)
}
func (c *f4Client) SendJoin(ctx context.Context, origin, s spec.ServerName, event PDU) (SendJoinResponse, error) {
	return c.sendJoin(s, event)
}

func TestAuditFinding4(t *testing.T) {
	key := func(name string) ed25519.PrivateKey {
		seed := sha256.Sum256([]byte("finding4" + name))
		return ed25519.NewKeyFromSeed(seed[:])
	}
	keyA, keyB := key("a.example"), key("b.example")
	ver := RoomVersionV10
	verImpl := MustGetRoomVersion(ver)
	roomID := "!room:a.example"
	alice, bob, empty := "@alice:a.example", "@bob:b.example", ""
	var n int64
	build := func(typ string, stateKey *string, content string, auth, prev []PDU) PDU {
		n++
		ids := func(evs []PDU) []string {
			out := []string{}
			for _, e := range evs {
				out = append(out, e.EventID())
			}
			return out
		}
		eb := verImpl.NewEventBuilderFromProtoEvent(&ProtoEvent{
			SenderID: alice, RoomID: roomID, Type: typ, StateKey: stateKey,
			PrevEvents: ids(prev), AuthEvents: ids(auth), Depth: n, Content: spec.RawJSON(content),
		})
		ev, err := eb.Build(time.Now(), "a.example", "ed25519:k1", keyA)
		if err != nil {
			t.Fatalf("building %s: %v", typ, err)
		}
		return ev
	}
	create := build(spec.MRoomCreate, &empty, fmt.Sprintf(`{"creator":%q,"room_version":"10"}`, alice), nil, nil)
	joinA := build(spec.MRoomMember, &alice, `{"membership":"join"}`, []PDU{create}, []PDU{create})
	pl := build(spec.MRoomPowerLevels, &empty, fmt.Sprintf(`{"users":{%q:100}}`, alice), []PDU{create, joinA}, []PDU{joinA})
	jr := build(spec.MRoomJoinRules, &empty, `{"join_rule":"public"}`, []PDU{create, joinA, pl}, []PDU{pl})
	state := EventJSONs{create.JSON(), joinA.JSON(), pl.JSON(), jr.JSON()}

	sentTo := map[spec.ServerName]PDU{}
	client := &f4Client{
		makeJoin: func(s spec.ServerName) (MakeJoinResponse, error) {
			// the honest resident server's template
			content := `{"membership":"join"}`
			if s == "evil.example" {
				// the other candidate's template
				content = `{"membership":"join","displayname":"I was here first","join_authorised_via_users_server":"@mallory:evil.example"}`
			}
			return &f4MakeJoinResp{ver: ver, proto: ProtoEvent{
				SenderID: bob, RoomID: roomID, Type: spec.MRoomMember, StateKey: &bob,
				PrevEvents: []interface{}{jr.EventID()},
				AuthEvents: []interface{}{create.EventID(), pl.EventID(), jr.EventID()},
				Depth:      10, Content: spec.RawJSON(content),
			}}, nil
		},
		sendJoin: func(s spec.ServerName, ev PDU) (SendJoinResponse, error) {
			sentTo[s] = ev
			if s == "evil.example" {
				return nil, fmt.Errorf("go away")
			}
			return &f4SendJoinResp{events: state}, nil
		},
	}

	bobID, _ := spec.NewUserID(bob, true)
	rid, _ := spec.NewRoomID(roomID)
	input := PerformJoinInput{
		UserID: bobID, RoomID: rid,
		Content:    map[string]interface{}{"displayname": "Bob"},
		PrivateKey: keyB, KeyID: "ed25519:k1",
		KeyRing: &KeyRing{KeyDatabase: f4KeyDB{
			"a.example": keyA.Public().(ed25519.PublicKey), "b.example": keyB.Public().(ed25519.PublicKey),
		}},
		UserIDQuerier: func(roomID spec.RoomID, senderID spec.SenderID) (*spec.UserID, error) {
			return spec.NewUserID(string(senderID), true)
		},
	}

	// First candidate: evil.example. Its send_join fails.
	input.ServerName = "evil.example"
	if res, ferr := PerformJoin(context.Background(), client, input); ferr == nil {
		t.Fatalf("expected the join via evil.example to fail, got %v", res)
	}
	if want := map[string]interface{}{"displayname": "Bob"}; !reflect.DeepEqual(input.Content, want) {
		t.Errorf("after the failed attempt the caller's Content map is %v, want %v", input.Content, want)
	}

	// Second candidate: the honest resident server, same input.
	input.ServerName = "a.example"
	res, ferr := PerformJoin(context.Background(), client, input)
	if ferr != nil {
		t.Fatalf("join via a.example failed: %v", ferr)
	}
	var content map[string]interface{}
	if err := unmarshalExact(res.JoinEvent.Content(), &content); err != nil {
		t.Fatal(err)
	}
	if _, ok := content["join_authorised_via_users_server"]; ok || content["displayname"] != "Bob" {
		t.Errorf("the join sent to and returned for a.example has content %s:\n"+
			"neither the caller nor a.example's template put \"join_authorised_via_users_server\" / this displayname there, evil.example's earlier template did",
			res.JoinEvent.Content())
	}
}
