package gomatrixserverlib

// Audit finding 3 (property C15, aliasing). Belongs in the package root
// directory (package gomatrixserverlib).
//
// HandleInvite countersigns the invite BEFORE it has decided whether to accept
// it, and PDU.Sign works in place: when the invite is then refused (the invited
// user is already joined, the room querier fails, ...) nil is returned, but the
// caller's own InviteEvent object now carries a valid signature of the local
// server - the countersignature that a refusal is meant to withhold.

import (
	"bytes"
	"context"
	"crypto/sha256"
	"fmt"
	"testing"
	"time"

	"github.com/matrix-org/gomatrixserverlib/spec"
	"golang.org/x/crypto/ed25519"
)

type f3Verifier map[spec.ServerName]ed25519.PublicKey

func (v f3Verifier) VerifyJSONs(ctx context.Context, requests []VerifyJSONRequest) ([]VerifyJSONResult, error) {
	res := make([]VerifyJSONResult, len(requests))
	for i, r := range requests {
		key, ok := v[r.ServerName]
		if !ok {
			res[i].Error = fmt.Errorf("no key for %q", r.ServerName)
			continue
		}
		res[i].Error = VerifyJSON(string(r.ServerName), "ed25519:k1", key, r.Message)
	}
	return res, nil
}

type f3RoomQuerier struct{ known bool }

func (q f3RoomQuerier) IsKnownRoom(ctx context.Context, roomID spec.RoomID) (bool, error) {
	return q.known, nil
}

type f3MembershipQuerier struct{ membership string }

func (q f3MembershipQuerier) CurrentMembership(ctx context.Context, roomID spec.RoomID, senderID spec.SenderID) (string, error) {
	return q.membership, nil
}

type f3StateQuerier struct{}

func (f3StateQuerier) GetAuthEvents(ctx context.Context, event PDU) (AuthEventProvider, error) {
	return NewAuthEvents(nil)
}
func (f3StateQuerier) GetState(ctx context.Context, roomID spec.RoomID, stateWanted []StateKeyTuple) ([]PDU, error) {
	return nil, nil
}

func TestAuditFinding3(t *testing.T) {
	key := func(name string) ed25519.PrivateKey {
		seed := sha256.Sum256([]byte("finding3" + name))
		return ed25519.NewKeyFromSeed(seed[:])
	}
	keyA, keyB := key("a.example"), key("b.example")
	verifier := f3Verifier{"a.example": keyA.Public().(ed25519.PublicKey), "b.example": keyB.Public().(ed25519.PublicKey)}
	alice, bob := "@alice:a.example", "@bob:b.example"

	for _, ver := range []RoomVersion{RoomVersionV1, RoomVersionV5, RoomVersionV10, RoomVersionV11} {
		verImpl := MustGetRoomVersion(ver)
		roomID, _ := spec.NewRoomID("!room:a.example")
		bobID, _ := spec.NewUserID(bob, true)

		eb := verImpl.NewEventBuilderFromProtoEvent(&ProtoEvent{
			SenderID: alice, RoomID: roomID.String(), Type: spec.MRoomMember, StateKey: &bob,
			PrevEvents: []string{"$prev:a.example"}, AuthEvents: []string{"$auth:a.example"},
			Depth: 7, Content: spec.RawJSON(`{"membership":"invite"}`),
		})
		built, err := eb.Build(time.Now(), "a.example", "ed25519:k1", keyA)
		if err != nil {
			t.Fatal(err)
		}
		// the invite as b.example receives it
		invite, err := verImpl.NewEventFromUntrustedJSON(built.JSON())
		if err != nil {
			t.Fatal(err)
		}
		received := append([]byte(nil), invite.JSON()...)

		strippedState := []InviteStrippedState{NewInviteStrippedState(built)}
		input := HandleInviteInput{
			RoomID: *roomID, RoomVersion: ver, InvitedUser: *bobID, InvitedSenderID: spec.SenderID(bob),
			InviteEvent: invite, StrippedState: strippedState,
			KeyID: "ed25519:k1", PrivateKey: keyB, Verifier: verifier,
			RoomQuerier: f3RoomQuerier{known: true}, MembershipQuerier: f3MembershipQuerier{membership: spec.Join},
			StateQuerier: f3StateQuerier{}, UserIDQuerier: func(roomID spec.RoomID, senderID spec.SenderID) (*spec.UserID, error) {
				return spec.NewUserID(string(senderID), true)
			},
		}
		// bob is already joined: the invite has to be refused.
		res, refusal := HandleInvite(context.Background(), input)
		if refusal == nil || res != nil {
			t.Fatalf("room version %s: expected the invite of an already joined user to be refused, got %v, %v", ver, res, refusal)
		}

		// ... and refused means: not countersigned.
		redacted, err := verImpl.RedactEventJSON(invite.JSON())
		if err != nil {
			t.Fatal(err)
		}
		if VerifyJSON("b.example", "ed25519:k1", keyB.Public().(ed25519.PublicKey), redacted) == nil {
			t.Errorf("room version %s: HandleInvite refused the invite (%v), yet the InviteEvent it was given now carries a valid signature of b.example", ver, refusal)
		}
		if !bytes.Equal(received, invite.JSON()) {
			t.Errorf("room version %s: HandleInvite refused the invite but altered the caller's event: %d bytes before, %d bytes after", ver, len(received), len(invite.JSON()))
		}
	}
}
