// Audit finding 2 (auth, C09 / C07): AuthEvents.AddEvent keeps the room ID of an
// event it has replaced, so Valid() - and with it Allowed() - keeps refusing
// everything although every event the provider holds is of one room.
//
// Belongs in the package root directory (package gomatrixserverlib).
// Run: go test -vet=off -count=1 -run TestAuditFinding2 .
package gomatrixserverlib

import (
	"testing"

	"github.com/matrix-org/gomatrixserverlib/spec"
)

func TestAuditFinding2(t *testing.T) {
	querier := func(roomID spec.RoomID, senderID spec.SenderID) (*spec.UserID, error) {
		return spec.NewUserID(string(senderID), true)
	}
	verImpl := MustGetRoomVersion(RoomVersionV10)
	mk := func(js string) PDU {
		t.Helper()
		ev, err := verImpl.NewEventFromTrustedJSON([]byte(js), false)
		if err != nil {
			t.Fatalf("cannot build event: %v", err)
		}
		return ev
	}
	create := mk(`{"type":"m.room.create","state_key":"","sender":"@creator:x","room_id":"!r:x","content":{"creator":"@creator:x","room_version":"10"},"prev_events":[],"auth_events":[],"depth":1,"origin_server_ts":1}`)
	joinCreator := mk(`{"type":"m.room.member","state_key":"@creator:x","sender":"@creator:x","room_id":"!r:x","content":{"membership":"join"},"prev_events":[],"auth_events":[],"depth":2,"origin_server_ts":2}`)
	// state that the message below does not need: a topic of another room, and
	// the topic of this room that takes its place
	topicOther := mk(`{"type":"m.room.topic","state_key":"","sender":"@creator:x","room_id":"!other:x","content":{"topic":"a"},"prev_events":[],"auth_events":[],"depth":3,"origin_server_ts":3}`)
	topicHere := mk(`{"type":"m.room.topic","state_key":"","sender":"@creator:x","room_id":"!r:x","content":{"topic":"b"},"prev_events":[],"auth_events":[],"depth":4,"origin_server_ts":4}`)
	message := mk(`{"type":"m.room.message","sender":"@creator:x","room_id":"!r:x","content":{"body":"x"},"prev_events":[],"auth_events":[],"depth":5,"origin_server_ts":5}`)

	// reference: a provider that was given the events of this room only
	fresh, err := NewAuthEvents([]PDU{create, joinCreator, topicHere})
	if err != nil {
		t.Fatal(err)
	}
	if err = Allowed(message, fresh, querier); err != nil {
		t.Fatalf("sanity: the message should be allowed: %v", err)
	}

	// the same provider contents, reached by replacing an entry
	replaced, err := NewAuthEvents([]PDU{create, joinCreator, topicOther})
	if err != nil {
		t.Fatal(err)
	}
	if replaced.Valid() {
		t.Fatalf("sanity: events of two rooms should make the provider invalid")
	}
	if err = replaced.AddEvent(topicHere); err != nil { // "the event is replaced with the new event"
		t.Fatal(err)
	}
	// every event it holds now is of room !r:x
	if !replaced.Valid() {
		t.Errorf("Valid() = false after the event of the other room has been replaced: the provider holds events of one room only")
	}
	if err = Allowed(message, replaced, querier); err != nil {
		t.Errorf("Allowed refuses the message through a provider whose contents equal those of a fresh one that allows it: %v", err)
	}
}
