// Audit finding 1 (auth, C07 / C09): Allowed swallows an error of the
// AuthEventProvider's PowerLevels() and then judges the event with every
// threshold at 0 - it fails open.
//
// Belongs in the package root directory (package gomatrixserverlib).
// Run: go test -vet=off -count=1 -run TestAuditFinding1 .
package gomatrixserverlib

import (
	"errors"
	"testing"

	"github.com/matrix-org/gomatrixserverlib/spec"
)

// auditF1Provider is an AuthEventProvider backed by a real AuthEvents whose
// power-levels lookup fails (a database-backed provider hitting an error).
type auditF1Provider struct {
	*AuthEvents
	powerLevelsErr error
}

func (p *auditF1Provider) PowerLevels() (PDU, error) {
	if p.powerLevelsErr != nil {
		return nil, p.powerLevelsErr
	}
	return p.AuthEvents.PowerLevels()
}

func TestAuditFinding1(t *testing.T) {
	querier := func(roomID spec.RoomID, senderID spec.SenderID) (*spec.UserID, error) {
		return spec.NewUserID(string(senderID), true)
	}
	verImpl := MustGetRoomVersion(RoomVersionV10)
	mk := func(js string) PDU {
		t.Helper()
		ev, err := verImpl.NewEventFromTrustedJSON([]byte(js), false)
		if err != nil {
			t.Fatalf("cannot build event: %v", err)
		}
		return ev
	}
	create := mk(`{"type":"m.room.create","state_key":"","sender":"@creator:x","room_id":"!r:x","content":{"creator":"@creator:x","room_version":"10"},"prev_events":[],"auth_events":[],"depth":1,"origin_server_ts":1}`)
	joinCreator := mk(`{"type":"m.room.member","state_key":"@creator:x","sender":"@creator:x","room_id":"!r:x","content":{"membership":"join"},"prev_events":[],"auth_events":[],"depth":2,"origin_server_ts":2}`)
	joinUser := mk(`{"type":"m.room.member","state_key":"@user:x","sender":"@user:x","room_id":"!r:x","content":{"membership":"join"},"prev_events":[],"auth_events":[],"depth":3,"origin_server_ts":3}`)
	powerLevels := mk(`{"type":"m.room.power_levels","state_key":"","sender":"@creator:x","room_id":"!r:x","content":{"users":{"@creator:x":100},"users_default":0,"state_default":50,"events_default":10,"ban":50,"kick":50,"invite":50,"redact":50},"prev_events":[],"auth_events":[],"depth":4,"origin_server_ts":4}`)

	// sent by the level-0 user: a state event (needs 50) and a message (needs 10)
	joinRules := mk(`{"type":"m.room.join_rules","state_key":"","sender":"@user:x","room_id":"!r:x","content":{"join_rule":"public"},"prev_events":[],"auth_events":[],"depth":5,"origin_server_ts":5}`)
	message := mk(`{"type":"m.room.message","sender":"@user:x","room_id":"!r:x","content":{"body":"x"},"prev_events":[],"auth_events":[],"depth":6,"origin_server_ts":6}`)

	state, err := NewAuthEvents([]PDU{create, joinCreator, joinUser, powerLevels})
	if err != nil {
		t.Fatal(err)
	}
	// sanity: with the power levels available both events are refused
	for _, ev := range []PDU{joinRules, message} {
		if err := Allowed(ev, state, querier); err == nil {
			t.Fatalf("sanity: %s of a level-0 user should be refused by the power levels", ev.Type())
		}
	}

	loadErr := errors.New("database is down")
	failing := &auditF1Provider{AuthEvents: state, powerLevelsErr: loadErr}
	for _, ev := range []PDU{joinRules, message} {
		err := Allowed(ev, failing, querier)
		if err == nil {
			t.Errorf("%s of a level-0 user: the provider could not load the power levels (%q), "+
				"yet Allowed returned nil - the event was judged against thresholds of 0; "+
				"want the load error (doc comment: \"If there was an error loading the auth events then it returns that error\")",
				ev.Type(), loadErr)
		}
	}
}
