// Audit finding 3 (C16) - belongs in package directory fclient/
//
// WithAllowDenyNetworks and NewDNSCache keep the caller's slices instead of
// copying them: the dialer's control function re-reads (and re-parses) the
// caller's backing arrays on every connection. When the caller later reuses
// one of its slices, the network policy of an already configured client or
// cache changes silently - here a client configured to deny 127.0.0.0/8
// starts connecting to 127.0.0.1.
package fclient_test

import (
	"context"
	"net/http"
	"net/http/httptest"
	"testing"
	"time"

	"github.com/matrix-org/gomatrixserverlib/fclient"
	"github.com/matrix-org/gomatrixserverlib/spec"
)

func TestAuditFinding3(t *testing.T) {
	srv := httptest.NewTLSServer(http.HandlerFunc(func(w http.ResponseWriter, r *http.Request) {
		w.Header().Set("Content-Type", "application/json")
		_, _ = w.Write([]byte(`{"server":{"name":"x","version":"1"}}`))
	}))
	defer srv.Close()
	name := spec.ServerName(srv.Listener.Addr().String()) // 127.0.0.1:<port>

	for _, viaCache := range []bool{false, true} {
		allow := []string{"0.0.0.0/0", "::/0"}
		deny := []string{"127.0.0.0/8"}
		opts := []fclient.ClientOption{fclient.WithSkipVerify(true), fclient.WithTimeout(5 * time.Second)}
		if viaCache {
			// the lists are configured on a DNS cache the client dials through
			opts = append(opts, fclient.WithDNSCache(fclient.NewDNSCache(16, time.Minute, allow, deny)))
		} else {
			opts = append(opts, fclient.WithAllowDenyNetworks(allow, deny))
		}
		client := fclient.NewClient(opts...)

		// Control: as configured, the client refuses the loopback address.
		if _, err := client.GetVersion(context.Background(), name); err == nil {
			t.Fatalf("viaCache=%v: precondition failed: connected to %s although 127.0.0.0/8 is denied", viaCache, name)
		}

		// The caller goes on to use its slice for something else (say, the
		// deny list of the next client it configures).
		deny[0] = "203.0.113.0/24"

		// The client that was configured before must behave as configured.
		if _, err := client.GetVersion(context.Background(), name); err == nil {
			t.Errorf("viaCache=%v: the client was configured with deny list [127.0.0.0/8] and now connects to %s: "+
				"the lists are read from the caller's slice on every dial", viaCache, name)
		}
	}
}
