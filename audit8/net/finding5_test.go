// Audit finding 5 (C16) - belongs in package directory fclient/
//
// LookupWellKnown pastes its argument behind "https://" without checking that
// it is a server name. net/url tidies the result up: "evil@127.0.0.1:8448"
// becomes the host 127.0.0.1:8448 (plus Basic credentials), and
// "127.0.0.1:8448/x?" a request for the path /x on that host. Invalid server
// names, which ResolveServer refuses, are so "looked up" at whatever valid
// name is left over, and the reply is honoured.
package fclient_test

import (
	"context"
	"testing"

	"github.com/matrix-org/gomatrixserverlib/fclient"
	"github.com/matrix-org/gomatrixserverlib/spec"
	"gopkg.in/h2non/gock.v1"
)

func TestAuditFinding5(t *testing.T) {
	defer gock.Off()
	for _, name := range []spec.ServerName{
		"evil@internal.example:8448",
		"internal.example:8448/x?",
		"internal.example:8448/x#",
	} {
		if _, _, valid := spec.ParseAndValidateServerName(name); valid {
			t.Fatalf("%q is supposed to be an invalid server name", name)
		}
		if _, err := fclient.ResolveServer(context.Background(), name); err == nil {
			t.Fatalf("ResolveServer accepts %q", name)
		}
		gock.Off()
		gock.New("https://internal.example:8448").Get("/.well-known/matrix/server").
			Reply(200).BodyString(`{"m.server":"a.example:1"}`)
		gock.New("https://internal.example:8448").Get("/x").
			Reply(200).BodyString(`{"m.server":"b.example:1"}`)
		res, err := fclient.LookupWellKnown(context.Background(), name)
		if err == nil {
			t.Errorf("LookupWellKnown(%q): the invalid server name is not refused; a request was made to "+
				"internal.example:8448 and its reply honoured: m.server = %q", name, res.NewAddress)
		}
	}
}
