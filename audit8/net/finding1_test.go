// Audit finding 1 (C16) - belongs in package directory fclient/
//
// NewFederationClient appends its own option to the caller's option slice
// (append(options, WithWellKnownSRVLookups(true))). When the caller's slice has
// spare capacity - it is a prefix of a longer option list - the library writes
// into the caller's backing array and replaces the caller's next option, here
// the allow / deny network lists of another client.
package fclient_test

import (
	"context"
	"net/http"
	"net/http/httptest"
	"testing"
	"time"

	"github.com/matrix-org/gomatrixserverlib/fclient"
	"github.com/matrix-org/gomatrixserverlib/spec"
)

func TestAuditFinding1(t *testing.T) {
	srv := httptest.NewTLSServer(http.HandlerFunc(func(w http.ResponseWriter, r *http.Request) {
		w.Header().Set("Content-Type", "application/json")
		_, _ = w.Write([]byte(`{"server":{"name":"x","version":"1"}}`))
	}))
	defer srv.Close()
	// an IP literal with a port: 127.0.0.1:<port>, no lookups of any kind
	name := spec.ServerName(srv.Listener.Addr().String())

	// The option list of the application: common options first, then the
	// network policy that only some of its clients get.
	opts := []fclient.ClientOption{
		fclient.WithSkipVerify(true),
		fclient.WithTimeout(5 * time.Second),
		fclient.WithAllowDenyNetworks([]string{"0.0.0.0/0", "::/0"}, []string{"127.0.0.0/8"}),
	}

	// Control: a client built from the whole list refuses loopback addresses.
	if _, err := fclient.NewClient(opts...).GetVersion(context.Background(), name); err == nil {
		t.Fatalf("precondition failed: connected to %s although 127.0.0.0/8 is denied", name)
	}

	// A federation client is built from the common options only.
	_ = fclient.NewFederationClient(nil, opts[:2]...)

	// The caller's list must be what it was: a client built from it still
	// refuses loopback addresses.
	if _, err := fclient.NewClient(opts...).GetVersion(context.Background(), name); err == nil {
		t.Fatalf("after NewFederationClient(ids, opts[:2]...) a client built from opts connected to %s "+
			"although opts[2] denies 127.0.0.0/8: NewFederationClient overwrote the caller's opts[2]", name)
	}
}
