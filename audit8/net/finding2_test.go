// Audit finding 2 (C16) - belongs in package directory fclient/
//
// A _matrix-fed._tcp answer that holds no usable target (only the RFC 2782
// "service not available" record with the root target ".", or only records
// with a malformed target) makes the resolution jump straight to port 8448:
// the _matrix._tcp records of the same name, which do name a target, are
// never looked up.
package fclient_test

import (
	"context"
	"net"
	"strings"
	"testing"

	"github.com/matrix-org/gomatrixserverlib/fclient"
	"github.com/miekg/dns"
	"gopkg.in/h2non/gock.v1"
)

type auditF2Handler struct {
	fed func(m *dns.Msg, name string)
}

func (h *auditF2Handler) ServeDNS(w dns.ResponseWriter, r *dns.Msg) {
	msg := dns.Msg{}
	msg.SetReply(r)
	msg.Authoritative = true
	q := r.Question[0]
	if q.Qtype == dns.TypeSRV {
		srv := func(target string, port uint16) dns.RR {
			return &dns.SRV{
				Hdr:      dns.RR_Header{Name: q.Name, Rrtype: dns.TypeSRV, Class: dns.ClassINET, Ttl: 60},
				Priority: 10, Weight: 1, Port: port, Target: target,
			}
		}
		switch {
		case strings.HasPrefix(q.Name, "_matrix-fed._tcp."):
			h.fed(&msg, q.Name)
		case strings.HasPrefix(q.Name, "_matrix._tcp."):
			// the deprecated service does name a target
			msg.Answer = append(msg.Answer, srv("matrix.otherexample.com.", 4242))
		}
	}
	_ = w.WriteMsg(&msg)
}

func auditF2Resolve(t *testing.T, fed func(m *dns.Msg, name string)) []fclient.ResolutionResult {
	t.Helper()
	defer gock.Off()
	gock.New("https://example.com").Get("/.well-known/matrix/server").Reply(404)

	udpAddr, err := net.ResolveUDPAddr("udp", "127.0.0.1:0")
	if err != nil {
		t.Fatal(err)
	}
	udpConn, err := net.ListenUDP("udp", udpAddr)
	if err != nil {
		t.Fatal(err)
	}
	listenAddr := udpConn.LocalAddr().String()
	srv := &dns.Server{PacketConn: udpConn, Handler: &auditF2Handler{fed: fed}}
	go func() { _ = srv.ActivateAndServe() }()
	defaultResolver := net.DefaultResolver
	net.DefaultResolver = &net.Resolver{
		PreferGo: true,
		Dial: func(ctx context.Context, network, address string) (net.Conn, error) {
			return net.Dial("udp", listenAddr)
		},
	}
	defer func() {
		_ = srv.Shutdown()
		net.DefaultResolver = defaultResolver
	}()

	res, err := fclient.ResolveServer(context.Background(), "example.com")
	if err != nil {
		t.Fatal(err)
	}
	return res
}

func TestAuditFinding2(t *testing.T) {
	fedRR := func(name, target string) dns.RR {
		return &dns.SRV{
			Hdr:      dns.RR_Header{Name: name, Rrtype: dns.TypeSRV, Class: dns.ClassINET, Ttl: 60},
			Priority: 0, Weight: 0, Port: 0, Target: target,
		}
	}
	cases := []struct {
		desc string
		fed  func(m *dns.Msg, name string)
	}{
		// control: no _matrix-fed record at all - the _matrix record is used (passes)
		{"no _matrix-fed record", func(m *dns.Msg, name string) {}},
		// "_matrix-fed._tcp.example.com SRV 0 0 0 ." - no target
		{"_matrix-fed record with the root target only", func(m *dns.Msg, name string) {
			m.Answer = append(m.Answer, fedRR(name, "."))
		}},
		// only a record whose target is not a host name - no target either
		{"_matrix-fed record with a malformed target only", func(m *dns.Msg, name string) {
			m.Answer = append(m.Answer, fedRR(name, "bad name!.example.com."))
		}},
	}
	for _, c := range cases {
		res := auditF2Resolve(t, c.fed)
		if len(res) != 1 || res[0].Destination != "matrix.otherexample.com:4242" ||
			res[0].Host != "example.com" || res[0].TLSServerName != "example.com" {
			t.Errorf("%s: resolved to %+v; want the _matrix._tcp target matrix.otherexample.com:4242 "+
				"(Host and TLS name example.com), which comes before port 8448", c.desc, res)
		}
	}
}
