// Audit finding 4 (C13) - belongs in package directory fclient/
//
// A FederationRequest built with the empty method is signed over
// {"method":""}; HTTPRequest turns it into a GET (net/http reads "" as GET)
// without complaint, so what is transmitted is not what was signed and
// VerifyHTTPRequest answers 401 to a request that was signed and sent the
// way the library prescribes.
package fclient_test

import (
	"bufio"
	"bytes"
	"context"
	"fmt"
	"net/http"
	"testing"
	"time"

	"github.com/matrix-org/gomatrixserverlib"
	"github.com/matrix-org/gomatrixserverlib/fclient"
	"golang.org/x/crypto/ed25519"
)

type auditF4Verifier struct {
	keyID gomatrixserverlib.KeyID
	key   ed25519.PublicKey
}

func (v auditF4Verifier) VerifyJSONs(ctx context.Context, requests []gomatrixserverlib.VerifyJSONRequest) ([]gomatrixserverlib.VerifyJSONResult, error) {
	results := make([]gomatrixserverlib.VerifyJSONResult, len(requests))
	for i, r := range requests {
		results[i].Error = gomatrixserverlib.VerifyJSON(string(r.ServerName), v.keyID, v.key, r.Message)
	}
	return results, nil
}

func TestAuditFinding4(t *testing.T) {
	pub, priv, err := ed25519.GenerateKey(nil)
	if err != nil {
		t.Fatal(err)
	}
	const keyID = gomatrixserverlib.KeyID("ed25519:k1")

	for _, method := range []string{"GET", "get", ""} {
		fr := fclient.NewFederationRequest(method, "origin.example", "dest.example", "/_matrix/federation/v1/version")
		if err = fr.Sign("origin.example", keyID, priv); err != nil {
			t.Fatal(err)
		}
		hr, err := fr.HTTPRequest()
		if err != nil {
			// refusing to build the request is fine: nothing is sent
			t.Logf("method %q: HTTPRequest refuses: %v", method, err)
			continue
		}
		var wire bytes.Buffer
		if err = hr.Write(&wire); err != nil {
			t.Fatal(err)
		}
		received, err := http.ReadRequest(bufio.NewReader(&wire))
		if err != nil {
			t.Fatal(err)
		}
		got, resp := fclient.VerifyHTTPRequest(received, time.Now(), "dest.example", nil, auditF4Verifier{keyID, pub})
		if got == nil {
			t.Errorf("method %q: signed as %q, transmitted as %q, refused by VerifyHTTPRequest: %d %s",
				method, fr.Method(), received.Method, resp.Code, fmt.Sprint(resp.JSON))
			continue
		}
		if got.Method() != fr.Method() {
			t.Errorf("method %q: signed %q, reported %q", method, fr.Method(), got.Method())
		}
	}
}
