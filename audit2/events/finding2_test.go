// Finding 2 - belongs in the package root directory (package gomatrixserverlib).
//
// The untrusted parsers decode the whole event into the typed event struct
// BEFORE the content hash is checked and the event is reduced to its redacted
// form. Three of the typed members are not in any redaction keep-list
// ("sticky", "msc4354_sticky" in every room version, "redacts" as a top-level
// key): they are redactable material. When a relaying server adds / rewrites
// one of them with a value of another JSON type, the event is refused
// outright instead of surfacing in its redacted form with the original event
// ID and a valid signature (C04).
package gomatrixserverlib

import (
	"bytes"
	"crypto/ed25519"
	"testing"
	"time"

	"github.com/matrix-org/gomatrixserverlib/spec"
)

func TestAuditFinding2(t *testing.T) {
	privateKey := ed25519.NewKeyFromSeed(bytes.Repeat([]byte{7}, 32))
	publicKey := privateKey.Public().(ed25519.PublicKey)

	for _, ver := range []RoomVersion{RoomVersionV1, RoomVersionV5, RoomVersionV6, RoomVersionV10, RoomVersionV11, RoomVersionV12} {
		verImpl := MustGetRoomVersion(ver)
		roomID := "!room:origin.example"
		if verImpl.DomainlessRoomIDs() {
			roomID = "!AAAAAAAAAAAAAAAAAAAAAAAAAAAAAAAAAAAAAAAAAAA"
		}
		eb := verImpl.NewEventBuilderFromProtoEvent(&ProtoEvent{
			SenderID:   "@u:origin.example",
			RoomID:     roomID,
			Type:       "m.room.message",
			PrevEvents: []string{"$prev:origin.example"},
			AuthEvents: []string{"$auth:origin.example"},
			Depth:      7,
			Content:    spec.RawJSON(`{"body":"hello"}`),
		})
		original, err := eb.Build(time.UnixMilli(1700000000000), "origin.example", "ed25519:k1", privateKey)
		if err != nil {
			t.Fatalf("v%s: Build: %v", ver, err)
		}

		wantRedacted, err := verImpl.RedactEventJSON(original.JSON())
		if err != nil {
			t.Fatal(err)
		}
		wantRedacted, err = CanonicalJSON(wantRedacted)
		if err != nil {
			t.Fatal(err)
		}

		// Extra top-level members, none of them in the redaction keep-list of any
		// room version. (A well-typed one, e.g. "sticky":{"duration_ms":5000} or
		// "redacts":"$x:y", is handled correctly: the event comes back redacted.)
		for _, extra := range []string{
			`"sticky":true`,
			`"sticky":"yes"`,
			`"sticky":{"duration_ms":"5000"}`,
			`"msc4354_sticky":[]`,
			`"msc4354_sticky":5`,
			`"redacts":5`,
			`"redacts":{}`,
			`"redacts":["$a:b"]`,
		} {
			s := string(original.JSON())
			tampered := []byte(s[:len(s)-1] + "," + extra + "}")

			got, err := verImpl.NewEventFromUntrustedJSON(tampered)
			if err != nil {
				t.Errorf("v%s, extra member %s: the event is refused instead of being redacted: %v", ver, extra, err)
				continue
			}
			if !got.Redacted() {
				t.Errorf("v%s, extra member %s: content hash cannot match but the event is not flagged redacted", ver, extra)
			}
			if !bytes.Equal(got.JSON(), wantRedacted) {
				t.Errorf("v%s, extra member %s: JSON is not the redacted form\n got %s\nwant %s", ver, extra, got.JSON(), wantRedacted)
			}
			if got.EventID() != original.EventID() {
				t.Errorf("v%s, extra member %s: event ID %s, want %s", ver, extra, got.EventID(), original.EventID())
			}
			if got.Redacts() != "" || got.IsSticky(time.UnixMilli(1700000000001), time.UnixMilli(1700000000001)) {
				t.Errorf("v%s, extra member %s: redactable member observable through an accessor", ver, extra)
			}
			if err := VerifyJSON("origin.example", "ed25519:k1", publicKey, got.JSON()); err != nil {
				t.Errorf("v%s, extra member %s: origin signature no longer verifies: %v", ver, extra, err)
			}
		}
	}
}
