// Finding 1 - belongs in the package root directory (package gomatrixserverlib).
//
// checkUntrustedEventShape (event.go) decodes the received event with plain
// encoding/json, which matches member names case-insensitively (and folds
// U+017F / U+212A). An extra top-level member such as "Content", "CONTENT",
// "SIGNATURES" or "ſignatures" - redactable material that every other part of
// the library treats as an unknown key - is therefore type-checked as if it
// were "content" / "signatures" and the whole event is refused, instead of
// being reduced to its redacted form (C04).
package gomatrixserverlib

import (
	"bytes"
	"crypto/ed25519"
	"testing"
	"time"

	"github.com/matrix-org/gomatrixserverlib/spec"
)

func TestAuditFinding1(t *testing.T) {
	privateKey := ed25519.NewKeyFromSeed(bytes.Repeat([]byte{7}, 32))
	publicKey := privateKey.Public().(ed25519.PublicKey)

	for _, ver := range []RoomVersion{RoomVersionV1, RoomVersionV5, RoomVersionV6, RoomVersionV10, RoomVersionV11, RoomVersionV12} {
		verImpl := MustGetRoomVersion(ver)
		roomID := "!room:origin.example"
		if verImpl.DomainlessRoomIDs() {
			roomID = "!AAAAAAAAAAAAAAAAAAAAAAAAAAAAAAAAAAAAAAAAAAA"
		}
		eb := verImpl.NewEventBuilderFromProtoEvent(&ProtoEvent{
			SenderID:   "@u:origin.example",
			RoomID:     roomID,
			Type:       "m.room.message",
			PrevEvents: []string{"$prev:origin.example"},
			AuthEvents: []string{"$auth:origin.example"},
			Depth:      7,
			Content:    spec.RawJSON(`{"body":"hello"}`),
		})
		original, err := eb.Build(time.UnixMilli(1700000000000), "origin.example", "ed25519:k1", privateKey)
		if err != nil {
			t.Fatalf("v%s: Build: %v", ver, err)
		}

		// what the redacted form of the original event looks like
		wantRedacted, err := verImpl.RedactEventJSON(original.JSON())
		if err != nil {
			t.Fatal(err)
		}
		wantRedacted, err = CanonicalJSON(wantRedacted)
		if err != nil {
			t.Fatal(err)
		}

		// A relaying server adds one extra top-level member. None of these names is
		// "content" or "signatures"; none is in any redaction keep-list.
		for _, extra := range []string{`"Content":1`, `"CONTENT":"x"`, `"SIGNATURES":"x"`, `"Signatures":[]`, `"ſignatures":5`} {
			s := string(original.JSON())
			tampered := []byte(s[:len(s)-1] + "," + extra + "}")

			got, err := verImpl.NewEventFromUntrustedJSON(tampered)
			if err != nil {
				t.Errorf("v%s, extra member %s: the event is refused instead of being redacted: %v", ver, extra, err)
			} else {
				if !got.Redacted() {
					t.Errorf("v%s, extra member %s: content hash cannot match but the event is not flagged redacted", ver, extra)
				}
				if !bytes.Equal(got.JSON(), wantRedacted) {
					t.Errorf("v%s, extra member %s: JSON is not the redacted form\n got %s\nwant %s", ver, extra, got.JSON(), wantRedacted)
				}
				if got.EventID() != original.EventID() {
					t.Errorf("v%s, extra member %s: event ID %s, want %s", ver, extra, got.EventID(), original.EventID())
				}
				if err := VerifyJSON("origin.example", "ed25519:k1", publicKey, got.JSON()); err != nil {
					t.Errorf("v%s, extra member %s: origin signature no longer verifies: %v", ver, extra, err)
				}
			}

			// The same member put there by the origin itself: content hash and
			// signature are computed over it, so the hash matches and the event must
			// come back unredacted and intact (as it does for a member "zzz").
			for _, member := range []string{extra, `"zzz":1`} {
				unsignedEvent := []byte(s[:len(s)-1] + "," + member + "}")
				hashed, err := addContentHashesToEvent(unsignedEvent)
				if err != nil {
					t.Fatal(err)
				}
				signed, err := signEvent("origin.example", "ed25519:k1", privateKey, hashed, ver)
				if err != nil {
					t.Fatal(err)
				}
				signed, err = CanonicalJSON(signed)
				if err != nil {
					t.Fatal(err)
				}
				ev, err := verImpl.NewEventFromUntrustedJSON(signed)
				if err != nil {
					t.Errorf("v%s, member %s with matching hash: event refused: %v", ver, member, err)
					continue
				}
				if ev.Redacted() || !bytes.Equal(ev.JSON(), signed) {
					t.Errorf("v%s, member %s with matching hash: event not returned intact", ver, member)
				}
			}
		}
	}
}
