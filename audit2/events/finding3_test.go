// Finding 3 - belongs in the package root directory (package gomatrixserverlib).
//
// EventBuilder.Build does not apply the duplicate-member check that
// NewEventFromUntrustedJSON applies (checkNoDuplicateKeys). Given a proto-event
// whose content (valid JSON) repeats a member name, Build hashes, signs and
// returns an event - without any error - whose JSON is refused by
// NewEventFromUntrustedJSON in every room version: the event does not
// round-trip as untrusted input (C03), and no server running this library
// will ever accept it.
package gomatrixserverlib

import (
	"bytes"
	"crypto/ed25519"
	"testing"
	"time"

	"github.com/matrix-org/gomatrixserverlib/spec"
)

func TestAuditFinding3(t *testing.T) {
	privateKey := ed25519.NewKeyFromSeed(bytes.Repeat([]byte{7}, 32))

	for _, ver := range []RoomVersion{RoomVersionV1, RoomVersionV3, RoomVersionV6, RoomVersionV10, RoomVersionV11, RoomVersionV12} {
		verImpl := MustGetRoomVersion(ver)
		roomID := "!room:origin.example"
		if verImpl.DomainlessRoomIDs() {
			roomID = "!AAAAAAAAAAAAAAAAAAAAAAAAAAAAAAAAAAAAAAAAAAA"
		}
		for _, content := range []string{
			`{"body":"x","body":"y"}`,
			`{"body":"x","m.relates_to":{"rel_type":"a","rel_type":"b"}}`,
			`{"list":[{"k":1,"k":1}]}`,
		} {
			eb := verImpl.NewEventBuilderFromProtoEvent(&ProtoEvent{
				SenderID:   "@u:origin.example",
				RoomID:     roomID,
				Type:       "m.room.message",
				PrevEvents: []string{"$prev:origin.example"},
				AuthEvents: []string{"$auth:origin.example"},
				Depth:      7,
				Content:    spec.RawJSON(content),
			})
			built, err := eb.Build(time.UnixMilli(1700000000000), "origin.example", "ed25519:k1", privateKey)
			if err != nil {
				// Refusing to build such an event is fine: nothing was produced.
				continue
			}
			// Build produced an event without complaint: it has to round-trip.
			reparsed, err := verImpl.NewEventFromUntrustedJSON(built.JSON())
			if err != nil {
				t.Errorf("v%s content %s: Build succeeded but its JSON does not re-parse as untrusted input: %v", ver, content, err)
				continue
			}
			if reparsed.EventID() != built.EventID() || reparsed.Redacted() {
				t.Errorf("v%s content %s: re-parsed event differs (ID %s vs %s, redacted %v)", ver, content, reparsed.EventID(), built.EventID(), reparsed.Redacted())
			}
		}
	}
}
