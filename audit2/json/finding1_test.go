package gomatrixserverlib

// Audit finding 1 (property C02). Belongs in the package root directory
// (package gomatrixserverlib), next to signing.go.

import (
	"crypto/ed25519"
	"strings"
	"testing"

	"github.com/tidwall/gjson"
)

func TestAuditFinding1(t *testing.T) {
	seed := make([]byte, ed25519.SeedSize)
	for i := range seed {
		seed[i] = byte(i + 1)
	}
	priv := ed25519.NewKeyFromSeed(seed)
	pub := priv.Public().(ed25519.PublicKey)

	const name, keyID = "origin.example", KeyID("ed25519:auto")

	original := []byte(`{"amount":1,"payee":"@alice:origin.example","unsigned":{"age":3}}`)
	signed, err := SignJSON(name, keyID, priv, original)
	if err != nil {
		t.Fatalf("SignJSON: %v", err)
	}
	if err = VerifyJSON(name, keyID, pub, signed); err != nil {
		t.Fatalf("the untouched signed object must verify: %v", err)
	}

	// Tampering: one member is INSERTED in front of the signed ones. Nothing
	// else is touched; "signatures" and "unsigned" are as the signer left them.
	// The inserted member happens to have the name of an existing member.
	for _, inserted := range []string{
		`"amount":1000000,`,
		`"payee":"@mallory:evil.example",`,
		`"\u0061mount":1000000,`, // same name, escaped spelling
	} {
		tampered := []byte("{" + inserted + strings.TrimPrefix(string(signed), "{"))
		if !gjson.ValidBytes(tampered) {
			t.Fatalf("test bug: tampered text is not well-formed JSON: %s", tampered)
		}
		// What the rest of the library (gjson / sjson based readers such as
		// PDU field access, redaction, content hashing) reads from the object:
		seenAmount := gjson.GetBytes(tampered, "amount").Raw
		seenPayee := gjson.GetBytes(tampered, "payee").String()
		if err = VerifyJSON(name, keyID, pub, tampered); err == nil {
			t.Errorf("VerifyJSON accepted an object with an inserted member %s\n  tampered: %s\n  readers see amount=%s payee=%s, the signer signed amount=1 payee=@alice:origin.example",
				inserted, tampered, seenAmount, seenPayee)
		}
	}

	// The same divergence on the signing side: SignJSON removes the FIRST
	// "signatures"/"unsigned" (sjson) and signs every copy of a repeated member,
	// VerifyJSON keeps only the LAST copy (encoding/json). So an object with a
	// repeated member is signed without error, but the result never verifies.
	// Either outcome is fine: a refusal to sign, or a signature that verifies.
	dup := []byte(`{"amount":1,"amount":2}`)
	if signedDup, err := SignJSON(name, keyID, priv, dup); err == nil {
		if err = VerifyJSON(name, keyID, pub, signedDup); err != nil {
			t.Errorf("SignJSON signed %s without error as %s, but VerifyJSON refuses its own signer: %v", dup, signedDup, err)
		}
	}
}
