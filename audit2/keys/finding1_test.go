// Package directory: the module root (package gomatrixserverlib), e.g. /tmp/au2/keys/finding1_test.go
package gomatrixserverlib

import (
	"context"
	"encoding/json"
	"fmt"
	"testing"
	"time"

	"github.com/matrix-org/gomatrixserverlib/spec"
	"golang.org/x/crypto/ed25519"
)

// f1Notary is an honest notary (key perspective server): it hands out, for every
// server name it is asked about, the key document that this server published
// (identified by the document's exact "server_name" member, as every other
// Matrix implementation reads it), countersigned by the notary.
// LookupServerKeys decodes the response body exactly as fclient.Client does.
type f1Notary struct {
	docs map[spec.ServerName][]byte // exact server_name -> countersigned key document
}

func (n *f1Notary) GetServerKeys(ctx context.Context, s spec.ServerName) (ServerKeys, error) {
	return ServerKeys{}, fmt.Errorf("not reachable directly")
}

func (n *f1Notary) LookupServerKeys(
	ctx context.Context, notary spec.ServerName, reqs map[PublicKeyLookupRequest]spec.Timestamp,
) ([]ServerKeys, error) {
	asked := map[spec.ServerName]bool{}
	body := `{"server_keys":[`
	for req := range reqs {
		doc, ok := n.docs[req.ServerName]
		if !ok || asked[req.ServerName] {
			continue
		}
		if len(asked) > 0 {
			body += ","
		}
		asked[req.ServerName] = true
		body += string(doc)
	}
	body += `]}`
	// what fclient.Client.LookupServerKeys does with the body
	var parsed struct {
		ServerKeyList []json.RawMessage `json:"server_keys"`
	}
	if err := json.Unmarshal([]byte(body), &parsed); err != nil {
		return nil, err
	}
	var res []ServerKeys
	for _, field := range parsed.ServerKeyList {
		var keys ServerKeys
		if err := json.Unmarshal(field, &keys); err == nil {
			res = append(res, keys)
		}
	}
	return res, nil
}

type f1DB struct {
	keys map[PublicKeyLookupRequest]PublicKeyLookupResult
}

func (d *f1DB) FetcherName() string { return "f1DB" }
func (d *f1DB) FetchKeys(ctx context.Context, reqs map[PublicKeyLookupRequest]spec.Timestamp) (map[PublicKeyLookupRequest]PublicKeyLookupResult, error) {
	out := map[PublicKeyLookupRequest]PublicKeyLookupResult{}
	for r := range reqs {
		if k, ok := d.keys[r]; ok {
			out[r] = k
		}
	}
	return out, nil
}
func (d *f1DB) StoreKeys(ctx context.Context, res map[PublicKeyLookupRequest]PublicKeyLookupResult) error {
	for r, k := range res {
		d.keys[r] = k
	}
	return nil
}

// A key document published by evil.example carries, next to its real
// "server_name":"evil.example", a member "ſerver_name":"victim.example" (U+017F).
// ServerKeys.UnmarshalJSON decodes with encoding/json, which folds that name onto
// the server_name field, so the library files evil.example's key under
// victim.example - although the notary vouched for a document of evil.example and
// victim.example never signed anything. Afterwards evil.example can sign as
// victim.example.
func TestAuditFinding1(t *testing.T) {
	ctx := context.Background()
	_, evilPriv, _ := ed25519.GenerateKey(nil)
	evilPub := evilPriv.Public().(ed25519.PublicKey)
	notaryPub, notaryPriv, _ := ed25519.GenerateKey(nil)
	now := time.Now()

	// evil.example's key document, as evil.example publishes it.
	doc := []byte(fmt.Sprintf(
		`{"server_name":"evil.example","ſerver_name":"victim.example","valid_until_ts":%d,"verify_keys":{"ed25519:x":{"key":%q}},"old_verify_keys":{}}`,
		spec.AsTimestamp(now.Add(24*time.Hour)), spec.Base64Bytes(evilPub).Encode(),
	))
	var err error
	// signed by evil.example with the key it lists (what a notary checks) ...
	if doc, err = SignJSON("evil.example", "ed25519:x", evilPriv, doc); err != nil {
		t.Fatal(err)
	}
	// ... plus one more entry in "signatures", made with the same evil key.
	if doc, err = SignJSON("victim.example", "ed25519:x", evilPriv, doc); err != nil {
		t.Fatal(err)
	}
	// The notary checked evil.example's signature and countersigns the document.
	if err = VerifyJSON("evil.example", "ed25519:x", evilPub, doc); err != nil {
		t.Fatal(err)
	}
	if doc, err = SignJSON("notary.example", "ed25519:n", notaryPriv, doc); err != nil {
		t.Fatal(err)
	}

	notary := &f1Notary{docs: map[spec.ServerName][]byte{"evil.example": doc}}
	db := &f1DB{keys: map[PublicKeyLookupRequest]PublicKeyLookupResult{}}
	ring := KeyRing{
		KeyDatabase: db,
		KeyFetchers: []KeyFetcher{&PerspectiveKeyFetcher{
			PerspectiveServerName: "notary.example",
			PerspectiveServerKeys: map[KeyID]ed25519.PublicKey{"ed25519:n": notaryPub},
			Client:                notary,
		}},
	}
	ts := spec.AsTimestamp(now.Add(-time.Minute))

	// Step 1: anything signed by evil.example makes the key ring ask the notary
	// about evil.example.
	msg1, err := SignJSON("evil.example", "ed25519:x", evilPriv, []byte(`{"hello":"world"}`))
	if err != nil {
		t.Fatal(err)
	}
	if _, err = ring.VerifyJSONs(ctx, []VerifyJSONRequest{{
		ServerName: "evil.example", AtTS: ts, Message: msg1, ValidityCheckingFunc: StrictValiditySignatureCheck,
	}}); err != nil {
		t.Fatal(err)
	}

	// Step 2: a message in victim.example's name, signed with evil.example's key.
	// victim.example never published or signed any key and the notary knows
	// nothing about it: this must not verify.
	forged, err := SignJSON("victim.example", "ed25519:x", evilPriv, []byte(`{"i_am":"victim.example"}`))
	if err != nil {
		t.Fatal(err)
	}
	results, err := ring.VerifyJSONs(ctx, []VerifyJSONRequest{{
		ServerName: "victim.example", AtTS: ts, Message: forged, ValidityCheckingFunc: StrictValiditySignatureCheck,
	}})
	if err != nil {
		t.Fatal(err)
	}
	if got, ok := db.keys[PublicKeyLookupRequest{"victim.example", "ed25519:x"}]; ok {
		t.Errorf("a key for victim.example was stored from evil.example's key document: %v", got.Key.Encode())
	}
	if results[0].Error == nil {
		t.Errorf("a message signed by evil.example's key verified as signed by victim.example")
	}
}
