// Package directory: the module root (package gomatrixserverlib), e.g. /tmp/au2/keys/finding2_test.go
package gomatrixserverlib

import (
	"context"
	"testing"
	"time"

	"github.com/matrix-org/gomatrixserverlib/spec"
	"golang.org/x/crypto/ed25519"
)

type f2DB struct {
	keys map[PublicKeyLookupRequest]PublicKeyLookupResult
}

func (d *f2DB) FetcherName() string { return "f2DB" }
func (d *f2DB) FetchKeys(ctx context.Context, reqs map[PublicKeyLookupRequest]spec.Timestamp) (map[PublicKeyLookupRequest]PublicKeyLookupResult, error) {
	out := map[PublicKeyLookupRequest]PublicKeyLookupResult{}
	for r := range reqs {
		if k, ok := d.keys[r]; ok {
			out[r] = k
		}
	}
	return out, nil
}
func (d *f2DB) StoreKeys(ctx context.Context, res map[PublicKeyLookupRequest]PublicKeyLookupResult) error {
	for r, k := range res {
		d.keys[r] = k
	}
	return nil
}

type f2Fetcher struct {
	name   string
	answer map[PublicKeyLookupRequest]PublicKeyLookupResult
	asked  []map[PublicKeyLookupRequest]spec.Timestamp
}

func (f *f2Fetcher) FetcherName() string { return f.name }
func (f *f2Fetcher) FetchKeys(ctx context.Context, reqs map[PublicKeyLookupRequest]spec.Timestamp) (map[PublicKeyLookupRequest]PublicKeyLookupResult, error) {
	cp := map[PublicKeyLookupRequest]spec.Timestamp{}
	for r, ts := range reqs {
		cp[r] = ts
	}
	f.asked = append(f.asked, cp)
	// like DirectKeyFetcher and PerspectiveKeyFetcher: everything the fetcher
	// knows about the servers in question, asked for or not
	out := map[PublicKeyLookupRequest]PublicKeyLookupResult{}
	for r, k := range f.answer {
		out[r] = k
	}
	return out, nil
}

// A message of x.example carries two signatures, ed25519:a (the current key) and
// ed25519:b (a key nobody knows any more). The database is empty.
//   - fetcher 1 (think: DirectKeyFetcher) answers with x.example's current key
//     ed25519:a, valid for another hour. That key verifies the message.
//   - ed25519:b is still outstanding, so fetcher 2 (think: a notary with an old
//     copy of x.example's keys) is asked for it. It does not know ed25519:b
//     either, but its answer contains - unsolicited - its old copy of
//     ed25519:a with a valid_until_ts of yesterday.
//
// The unsolicited copy replaces the key obtained from the first fetcher that was
// able to answer, and the message (origin_server_ts one hour ago) is refused as
// "key not valid at"; the stale copy is also what is stored in the database.
func TestAuditFinding2(t *testing.T) {
	pubA, privA, _ := ed25519.GenerateKey(nil)
	_, privB, _ := ed25519.GenerateKey(nil)
	now := time.Now()
	msg, err := SignJSON("x.example", "ed25519:a", privA, []byte(`{"hello":"world"}`))
	if err != nil {
		t.Fatal(err)
	}
	if msg, err = SignJSON("x.example", "ed25519:b", privB, msg); err != nil {
		t.Fatal(err)
	}
	atTS := spec.AsTimestamp(now.Add(-time.Hour))
	reqA := PublicKeyLookupRequest{ServerName: "x.example", KeyID: "ed25519:a"}
	reqB := PublicKeyLookupRequest{ServerName: "x.example", KeyID: "ed25519:b"}
	fresh := PublicKeyLookupResult{
		VerifyKey: VerifyKey{Key: spec.Base64Bytes(pubA)}, ExpiredTS: PublicKeyNotExpired,
		ValidUntilTS: spec.AsTimestamp(now.Add(time.Hour)),
	}
	old := fresh
	old.ValidUntilTS = spec.AsTimestamp(now.Add(-24 * time.Hour))

	f1 := &f2Fetcher{name: "first", answer: map[PublicKeyLookupRequest]PublicKeyLookupResult{reqA: fresh}}
	f2 := &f2Fetcher{name: "second", answer: map[PublicKeyLookupRequest]PublicKeyLookupResult{reqA: old}}
	db := &f2DB{keys: map[PublicKeyLookupRequest]PublicKeyLookupResult{}}
	ring := KeyRing{KeyFetchers: []KeyFetcher{f1, f2}, KeyDatabase: db}

	results, err := ring.VerifyJSONs(context.Background(), []VerifyJSONRequest{{
		ServerName: "x.example", AtTS: atTS, Message: msg, ValidityCheckingFunc: StrictValiditySignatureCheck,
	}})
	if err != nil {
		t.Fatal(err)
	}
	// sanity: the second fetcher was only asked for the key that was still missing
	if len(f2.asked) != 1 || len(f2.asked[0]) != 1 {
		t.Fatalf("second fetcher was asked %v, expected only %v", f2.asked, reqB)
	}
	if _, ok := f2.asked[0][reqB]; !ok {
		t.Fatalf("second fetcher was asked %v, expected only %v", f2.asked, reqB)
	}
	if results[0].Error != nil {
		t.Errorf("the first fetcher able to answer supplied a key that is valid at the timestamp and verifies the message, but: %v", results[0].Error)
	}
	if got := db.keys[reqA].ValidUntilTS; got != fresh.ValidUntilTS {
		t.Errorf("stored valid_until_ts for %v is %d, expected the first fetcher's %d", reqA, got, fresh.ValidUntilTS)
	}
}
