// Package directory: the module root (package gomatrixserverlib), e.g. /tmp/au2/keys/finding3_test.go
package gomatrixserverlib

import (
	"context"
	"testing"
	"time"

	"github.com/matrix-org/gomatrixserverlib/spec"
	"golang.org/x/crypto/ed25519"
)

type f3DB struct {
	keys map[PublicKeyLookupRequest]PublicKeyLookupResult
}

func (d *f3DB) FetcherName() string { return "f3DB" }
func (d *f3DB) FetchKeys(ctx context.Context, reqs map[PublicKeyLookupRequest]spec.Timestamp) (map[PublicKeyLookupRequest]PublicKeyLookupResult, error) {
	out := map[PublicKeyLookupRequest]PublicKeyLookupResult{}
	for r := range reqs {
		if k, ok := d.keys[r]; ok {
			out[r] = k
		}
	}
	return out, nil
}
func (d *f3DB) StoreKeys(ctx context.Context, res map[PublicKeyLookupRequest]PublicKeyLookupResult) error {
	for r, k := range res {
		d.keys[r] = k
	}
	return nil
}

type f3Fetcher struct {
	answer map[PublicKeyLookupRequest]PublicKeyLookupResult
	calls  int
}

func (f *f3Fetcher) FetcherName() string { return "f3Fetcher" }
func (f *f3Fetcher) FetchKeys(ctx context.Context, reqs map[PublicKeyLookupRequest]spec.Timestamp) (map[PublicKeyLookupRequest]PublicKeyLookupResult, error) {
	f.calls++
	out := map[PublicKeyLookupRequest]PublicKeyLookupResult{}
	for r := range reqs {
		if k, ok := f.answer[r]; ok {
			out[r] = k
		}
	}
	return out, nil
}

// The database holds x.example's key ed25519:a with a valid_until_ts of one hour
// ago: stale today, but valid at the message's timestamp (two hours ago), and it
// verifies the message. The only fetcher (a notary with an older copy) answers
// with the same key and a valid_until_ts of yesterday.
//
// Asked about that message alone, VerifyJSONs reports success (the database key
// does it; the fetcher is not even consulted). Asked about the very same message
// together with any second request - here a message that y.example has not
// signed at all - it reports "key ... not valid at" for the first one: the
// short cut that tries the database keys first is taken only when the number of
// keys found happens to equal the number of requests in the batch, and without
// it the fetcher's answer replaces the sufficient database key before it is tried.
func TestAuditFinding3(t *testing.T) {
	pubA, privA, _ := ed25519.GenerateKey(nil)
	now := time.Now()
	msg, err := SignJSON("x.example", "ed25519:a", privA, []byte(`{"hello":"world"}`))
	if err != nil {
		t.Fatal(err)
	}
	atTS := spec.AsTimestamp(now.Add(-2 * time.Hour))
	reqA := PublicKeyLookupRequest{ServerName: "x.example", KeyID: "ed25519:a"}

	run := func(batch []VerifyJSONRequest) []VerifyJSONResult {
		db := &f3DB{keys: map[PublicKeyLookupRequest]PublicKeyLookupResult{
			reqA: {VerifyKey: VerifyKey{Key: spec.Base64Bytes(pubA)}, ExpiredTS: PublicKeyNotExpired,
				ValidUntilTS: spec.AsTimestamp(now.Add(-time.Hour))},
		}}
		fetcher := &f3Fetcher{answer: map[PublicKeyLookupRequest]PublicKeyLookupResult{
			reqA: {VerifyKey: VerifyKey{Key: spec.Base64Bytes(pubA)}, ExpiredTS: PublicKeyNotExpired,
				ValidUntilTS: spec.AsTimestamp(now.Add(-24 * time.Hour))},
		}}
		ring := KeyRing{KeyFetchers: []KeyFetcher{fetcher}, KeyDatabase: db}
		results, err := ring.VerifyJSONs(context.Background(), batch)
		if err != nil {
			t.Fatal(err)
		}
		if len(results) != len(batch) {
			t.Fatalf("%d results for %d requests", len(results), len(batch))
		}
		return results
	}

	signed := VerifyJSONRequest{ServerName: "x.example", AtTS: atTS, Message: msg, ValidityCheckingFunc: StrictValiditySignatureCheck}
	unrelated := VerifyJSONRequest{ServerName: "y.example", AtTS: atTS, Message: []byte(`{"hello":"world"}`), ValidityCheckingFunc: StrictValiditySignatureCheck}

	alone := run([]VerifyJSONRequest{signed})
	if alone[0].Error != nil {
		t.Errorf("alone: the database supplies a key valid at the timestamp, but: %v", alone[0].Error)
	}
	together := run([]VerifyJSONRequest{signed, unrelated})
	if together[1].Error == nil {
		t.Errorf("the unsigned message verified")
	}
	if together[0].Error != nil {
		t.Errorf("in a batch of two: the database supplies a key valid at the timestamp, but: %v", together[0].Error)
	}
}
