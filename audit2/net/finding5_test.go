package fclient

// Audit finding 5 (property C13, low severity). Belongs in package directory fclient/.
//
// HTTPRequest checks that the key ID "is safe to include in an HTTP header" as
// a quoted-string and then writes key="<key ID>". A comma is legal inside a
// quoted-string, so a key ID such as "ed25519:a,b" passes that check and the
// request is sent - but ParseAuthorization splits the header at every comma,
// also inside the quotes, finds the pieces `key="ed25519:a` and `b"`, and
// reports a malformed header. A request that was correctly signed by its
// origin and sent through HTTPRequest is refused with 400 by VerifyHTTPRequest
// at the named destination.

import (
	"bufio"
	"bytes"
	"context"
	"crypto/rand"
	"net/http"
	"testing"
	"time"

	"github.com/matrix-org/gomatrixserverlib"
	"github.com/matrix-org/gomatrixserverlib/spec"
	"golang.org/x/crypto/ed25519"
)

type finding5Verifier struct {
	origin string
	keyID  gomatrixserverlib.KeyID
	pub    ed25519.PublicKey
}

func (v *finding5Verifier) VerifyJSONs(_ context.Context, reqs []gomatrixserverlib.VerifyJSONRequest) ([]gomatrixserverlib.VerifyJSONResult, error) {
	res := make([]gomatrixserverlib.VerifyJSONResult, len(reqs))
	for i := range reqs {
		res[i].Error = gomatrixserverlib.VerifyJSON(v.origin, v.keyID, v.pub, reqs[i].Message)
	}
	return res, nil
}

func TestAuditFinding5(t *testing.T) {
	const origin, destination = spec.ServerName("origin.example"), spec.ServerName("dest.example")
	pub, priv, err := ed25519.GenerateKey(rand.Reader)
	if err != nil {
		t.Fatal(err)
	}
	for _, keyID := range []gomatrixserverlib.KeyID{
		"ed25519:auto",  // control: accepted
		"ed25519:a b=c", // control: blank and '=' inside the quotes are read correctly
		"ed25519:a,b",
		"ed25519:,",
	} {
		req := NewFederationRequest("GET", origin, destination, "/_matrix/federation/v1/version")
		if err = req.Sign(origin, keyID, priv); err != nil {
			t.Fatal(err)
		}
		httpReq, err := req.HTTPRequest()
		if err != nil {
			// Refusing to build a header that cannot be read back is a legitimate fix.
			t.Logf("key ID %q: HTTPRequest refuses: %v", keyID, err)
			continue
		}
		var wire bytes.Buffer
		if err = httpReq.Write(&wire); err != nil {
			t.Fatal(err)
		}
		received, err := http.ReadRequest(bufio.NewReader(&wire))
		if err != nil {
			t.Fatal(err)
		}
		got, resp := VerifyHTTPRequest(received, time.Now(), destination, nil, &finding5Verifier{string(origin), keyID, pub})
		if got == nil {
			t.Errorf("key ID %q: the request built by HTTPRequest (Authorization: %s) is refused by VerifyHTTPRequest with %d %v",
				keyID, httpReq.Header.Get("Authorization"), resp.Code, resp.JSON)
			continue
		}
		if got.Origin() != origin || got.Destination() != destination || got.Method() != "GET" || got.RequestURI() != "/_matrix/federation/v1/version" {
			t.Errorf("key ID %q: reported %q %q %q %q", keyID, got.Method(), got.RequestURI(), got.Origin(), got.Destination())
		}
	}
}
