package fclient

// Audit finding 3 (property C16). Belongs in package directory fclient/.
//
// An SRV record whose target is "." (the root: RFC 2782 "the service is
// decidedly not available at this domain") is turned into the connection
// target ":<port>" - a destination without a host, which Go's dialer takes for
// the LOCAL machine. The server name is thereby resolved to a target that
// neither the SRV step nor any other step of the specification assigns to it.

import (
	"context"
	"net"
	"net/http"
	"strings"
	"sync/atomic"
	"testing"
	"time"

	"github.com/miekg/dns"
	"gopkg.in/h2non/gock.v1"
)

type finding3DNS struct{ port uint16 }

func (h finding3DNS) ServeDNS(w dns.ResponseWriter, r *dns.Msg) {
	msg := dns.Msg{}
	msg.SetReply(r)
	msg.RecursionAvailable = true
	q := r.Question[0]
	if q.Qtype == dns.TypeSRV && strings.HasPrefix(q.Name, "_matrix-fed._tcp.") {
		msg.Answer = append(msg.Answer, &dns.SRV{
			Hdr:      dns.RR_Header{Name: q.Name, Rrtype: dns.TypeSRV, Class: dns.ClassINET, Ttl: 60},
			Priority: 0, Weight: 0, Port: h.port,
			Target: ".",
		})
	}
	_ = w.WriteMsg(&msg)
}

func TestAuditFinding3(t *testing.T) {
	defer gock.Off()
	// no well-known file
	gock.New("https://example.com").Get("/.well-known/matrix/server").Reply(404)

	// a listener on the loopback interface that stands for a local service
	local, err := net.Listen("tcp", "127.0.0.1:0")
	if err != nil {
		t.Fatal(err)
	}
	defer local.Close() // nolint: errcheck
	var hits int32
	go func() {
		for {
			c, err := local.Accept()
			if err != nil {
				return
			}
			atomic.AddInt32(&hits, 1)
			_ = c.Close()
		}
	}()
	localPort := uint16(local.Addr().(*net.TCPAddr).Port)

	// a DNS server of our own, as in resolve_test.go
	udpAddr, err := net.ResolveUDPAddr("udp", "127.0.0.1:0")
	if err != nil {
		t.Fatal(err)
	}
	udpConn, err := net.ListenUDP("udp", udpAddr)
	if err != nil {
		t.Fatal(err)
	}
	listenAddr := udpConn.LocalAddr().String()
	srv := &dns.Server{PacketConn: udpConn, Handler: finding3DNS{localPort}}
	go func() { _ = srv.ActivateAndServe() }()
	defaultResolver := net.DefaultResolver
	net.DefaultResolver = &net.Resolver{
		PreferGo: true,
		Dial: func(ctx context.Context, network, address string) (net.Conn, error) {
			return net.Dial("udp", listenAddr)
		},
	}
	defer func() {
		_ = srv.Shutdown()
		net.DefaultResolver = defaultResolver
	}()

	ctx, cancel := context.WithTimeout(context.Background(), 10*time.Second)
	defer cancel()
	results, err := ResolveServer(ctx, "example.com")
	if err != nil {
		t.Fatal(err)
	}
	if len(results) == 0 {
		t.Fatal("no resolution results")
	}
	for _, res := range results {
		host, _, err := net.SplitHostPort(res.Destination)
		if err != nil {
			t.Errorf("destination %q: %v", res.Destination, err)
			continue
		}
		if host == "" {
			t.Errorf("example.com was resolved to the target %q (Host %q, TLS name %q): a destination without a host, i.e. this machine; "+
				"expected the unusable SRV record to be ignored (example.com:8448)", res.Destination, res.Host, res.TLSServerName)
		}
	}

	// What a client does with that target: it connects to this machine.
	gock.Off() // the client below must use its own transport
	client := NewClient(WithWellKnownSRVLookups(true), WithSkipVerify(true), WithTimeout(5*time.Second))
	req, err := http.NewRequest("GET", "matrix://example.com/_matrix/federation/v1/version", nil)
	if err != nil {
		t.Fatal(err)
	}
	resp, err := client.DoHTTPRequest(ctx, req)
	if resp != nil {
		_ = resp.Body.Close()
	}
	time.Sleep(100 * time.Millisecond)
	if n := atomic.LoadInt32(&hits); n != 0 {
		t.Errorf("a request for example.com made %d connection(s) to 127.0.0.1:%d of this machine (request error: %v)", n, localPort, err)
	}
}
