package fclient

// Audit finding 1 (property C16). Belongs in package directory fclient/.
//
// Allow / deny network lists that are configured on the DNS cache of a client
// (NewDNSCache(size, lifetime, allow, deny) + WithDNSCache) govern the
// federation connections, but the /.well-known/matrix/server request of the
// same client is made with the default HTTP transport and connects to denied
// addresses.
//
// The test needs to listen on 127.0.0.1:443 (the well-known request always
// goes to port 443); it is skipped if that is not possible.

import (
	"context"
	"net"
	"net/http"
	"sync/atomic"
	"testing"
	"time"
)

func TestAuditFinding1(t *testing.T) {
	var hits int32
	listening := 0
	for _, addr := range []string{"127.0.0.1:443", "[::1]:443"} {
		l, err := net.Listen("tcp", addr)
		if err != nil {
			t.Logf("cannot listen on %s: %v", addr, err)
			continue
		}
		listening++
		defer l.Close() // nolint: errcheck
		go func() {
			for {
				c, err := l.Accept()
				if err != nil {
					return
				}
				atomic.AddInt32(&hits, 1)
				_ = c.Close()
			}
		}()
	}
	if listening == 0 {
		t.Skip("cannot listen on port 443 of the loopback interface")
	}

	// Everything is allowed except the loopback ranges.
	allow := []string{"0.0.0.0/0", "::/0"}
	deny := []string{"127.0.0.0/8", "::1/128"}
	cache := NewDNSCache(16, time.Minute, allow, deny)
	client := NewClient(
		WithWellKnownSRVLookups(true), // what NewFederationClient always sets
		WithDNSCache(cache),
		WithSkipVerify(true),
		WithTimeout(5*time.Second),
	)

	// "localhost" has no port, so step 3 (well-known) of the resolution runs.
	req, err := http.NewRequest("GET", "matrix://localhost/_matrix/federation/v1/version", nil)
	if err != nil {
		t.Fatal(err)
	}
	ctx, cancel := context.WithTimeout(context.Background(), 10*time.Second)
	defer cancel()
	resp, err := client.DoHTTPRequest(ctx, req)
	if resp != nil {
		_ = resp.Body.Close()
	}
	if err == nil {
		t.Errorf("the request to a denied address succeeded")
	}
	time.Sleep(100 * time.Millisecond)
	if n := atomic.LoadInt32(&hits); n != 0 {
		t.Errorf("the client made %d TCP connection(s) to a loopback address although 127.0.0.0/8 and ::1/128 are denied (request error: %v)", n, err)
	}
}
