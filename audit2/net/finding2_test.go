package fclient

// Audit finding 2 (property C13). Belongs in package directory fclient/.
//
// The signature of a federation request covers the canonical JSON of the body.
// Canonical JSON sorts object members with slices.SortFunc, which is not a
// stable sort: in an object of 13 or more members that contains a repeated
// member name, the repeated members can change places. Two bodies that a JSON
// decoder reads differently (Go's encoding/json, which this library and its
// callers use for request bodies, keeps the LAST copy of a repeated member)
// therefore share one signature:
//   - the body that VerifyHTTPRequest reports is not the body that was signed,
//   - a relay can swap one body for the other and the request is still accepted.

import (
	"bufio"
	"bytes"
	"context"
	"crypto/rand"
	"encoding/json"
	"io"
	"net/http"
	"reflect"
	"testing"
	"time"

	"github.com/matrix-org/gomatrixserverlib"
	"github.com/matrix-org/gomatrixserverlib/spec"
	"golang.org/x/crypto/ed25519"
)

type finding2Verifier struct {
	origin string
	keyID  gomatrixserverlib.KeyID
	pub    ed25519.PublicKey
}

func (v *finding2Verifier) VerifyJSONs(_ context.Context, reqs []gomatrixserverlib.VerifyJSONRequest) ([]gomatrixserverlib.VerifyJSONResult, error) {
	res := make([]gomatrixserverlib.VerifyJSONResult, len(reqs))
	for i := range reqs {
		res[i].Error = gomatrixserverlib.VerifyJSON(v.origin, v.keyID, v.pub, reqs[i].Message)
	}
	return res, nil
}

func TestAuditFinding2(t *testing.T) {
	const origin, destination = spec.ServerName("origin.example"), spec.ServerName("dest.example")
	const keyID = gomatrixserverlib.KeyID("ed25519:k1")
	pub, priv, err := ed25519.GenerateKey(rand.Reader)
	if err != nil {
		t.Fatal(err)
	}
	verifier := &finding2Verifier{string(origin), keyID, pub}

	// 13 members; "k09" occurs twice. Every JSON decoder that keeps the last
	// copy (encoding/json, Python's json, JavaScript's JSON.parse) reads k09 = 2.
	signedBody := `{"k09":1,"k02":0,"k00":0,"k05":0,"k03":0,"k12":0,"k08":0,"k10":0,"k09":2,"k06":0,"k04":0,"k01":0,"k07":0}`
	// The same members, sorted, with the two copies of k09 the other way round:
	// every such decoder reads k09 = 1.
	otherBody := `{"k00":0,"k01":0,"k02":0,"k03":0,"k04":0,"k05":0,"k06":0,"k07":0,"k08":0,"k09":2,"k09":1,"k10":0,"k12":0}`

	decode := func(b []byte) map[string]interface{} {
		var m map[string]interface{}
		if err := json.Unmarshal(b, &m); err != nil {
			t.Fatalf("decoding %s: %v", b, err)
		}
		return m
	}
	if reflect.DeepEqual(decode([]byte(signedBody)), decode([]byte(otherBody))) {
		t.Fatal("test is broken: the two bodies mean the same")
	}

	req := NewFederationRequest("PUT", origin, destination, "/_matrix/federation/v1/send/1")
	if err = req.SetContent(json.RawMessage(signedBody)); err != nil {
		t.Skipf("the library refuses to send a body with a repeated member: %v", err)
	}
	if err = req.Sign(origin, keyID, priv); err != nil {
		t.Skipf("the library refuses to sign a body with a repeated member: %v", err)
	}
	httpReq, err := req.HTTPRequest()
	if err != nil {
		t.Skipf("the library refuses to send a body with a repeated member: %v", err)
	}
	var wire bytes.Buffer
	if err = httpReq.Write(&wire); err != nil {
		t.Fatal(err)
	}

	// receive delivers the request as sent, with the given body put in place of
	// the transmitted one when it is not empty.
	receive := func(body string) *FederationRequest {
		r, err := http.ReadRequest(bufio.NewReader(bytes.NewReader(wire.Bytes())))
		if err != nil {
			t.Fatal(err)
		}
		if body != "" {
			r.Body = io.NopCloser(bytes.NewReader([]byte(body)))
			r.ContentLength = int64(len(body))
		}
		got, _ := VerifyHTTPRequest(r, time.Now(), destination, nil, verifier)
		return got
	}

	// 1. The request as sent by HTTPRequest: if it is accepted, the body that is
	// reported must mean what the body that was signed means.
	if got := receive(""); got != nil {
		if !reflect.DeepEqual(decode(got.Content()), decode([]byte(signedBody))) {
			t.Errorf("signed body   %s\nreported body %s\nthe signed body says k09 = %v, the reported body says k09 = %v",
				signedBody, got.Content(), decode([]byte(signedBody))["k09"], decode(got.Content())["k09"])
		}
	}

	// 2. Of two bodies that mean different things at most one can be the one
	// that was signed: the receiver must not accept both under one signature.
	gotSigned, gotOther := receive(signedBody), receive(otherBody)
	if gotSigned != nil && gotOther != nil {
		t.Errorf("one signature is accepted for two bodies that differ:\n  %s (k09 = %v)\n  %s (k09 = %v)",
			gotSigned.Content(), decode(gotSigned.Content())["k09"], gotOther.Content(), decode(gotOther.Content())["k09"])
	}
}
