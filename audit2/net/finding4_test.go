package fclient

// Audit finding 4 (property C16). Belongs in package directory fclient/.
//
// The cache lifetime of a well-known reply has to be taken from max-age in
// preference to Expires. For large max-age values it is not:
//   - max-age=9223372036854775807 is added to the current time without an
//     overflow check, the sum wraps and CacheExpiresAt is a negative time (the
//     reply looks as if it had expired before 1970);
//   - max-age=9223372036854775808 (and anything longer) fails to parse as an
//     int64 and is silently dropped, so the Expires header decides although a
//     max-age directive is present. RFC 7234 section 1.2.1 requires such a
//     delta-seconds value to be treated as the greatest representable one.

import (
	"context"
	"testing"
	"time"

	"gopkg.in/h2non/gock.v1"
)

func TestAuditFinding4(t *testing.T) {
	defer gock.Off()
	// An Expires date in the past: if it is used, the reply is stale at once.
	const expiresInThePast = "Mon, 02 Jan 2006 15:04:05 GMT"

	for _, maxAge := range []string{
		"9223372036854775807",  // math.MaxInt64
		"9223372036854775000",  // wraps as well
		"9223372036854775808",  // math.MaxInt64 + 1
		"99999999999999999999", // 20 digits
	} {
		gock.Off()
		gock.New("https://example.com").
			Get("/.well-known/matrix/server").
			Reply(200).
			SetHeader("Cache-Control", "max-age="+maxAge).
			SetHeader("Expires", expiresInThePast).
			BodyString(`{"m.server": "matrix.example.com:8448"}`)

		now := time.Now().Unix()
		res, err := LookupWellKnown(context.Background(), "example.com")
		if err != nil {
			t.Fatalf("max-age=%s: %v", maxAge, err)
		}
		// The server asked for the reply to be kept (practically) for ever. Any
		// expiry time that is not in the future contradicts max-age.
		if res.CacheExpiresAt <= now {
			t.Errorf("max-age=%s: CacheExpiresAt = %d, which is not after the time of the request (%d): "+
				"the lifetime was not taken from max-age", maxAge, res.CacheExpiresAt, now)
		}
	}
}
