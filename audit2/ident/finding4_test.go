// Package directory: fclient/ (package fclient).
//
// Finding 4 (C19): a DNS cache configured with size 0 (or a negative size)
// never returns from its first lookup: the eviction loop
// "for len(c.entries) >= c.size" can never become false, and it spins while
// holding the cache mutex, so every other caller of the cache blocks forever
// too. ("never deadlocks" / "never holds more entries than its configured size")
package fclient

import (
	"context"
	"net"
	"testing"
	"time"
)

type auditF4Resolver struct{}

func (auditF4Resolver) LookupIPAddr(_ context.Context, hostname string) ([]net.IPAddr, error) {
	return []net.IPAddr{{IP: net.ParseIP("192.0.2.1")}}, nil
}

func TestAuditFinding4(t *testing.T) {
	for _, size := range []int{0, -1} {
		cache := NewDNSCache(size, time.Minute, []string{"0.0.0.0/0"}, nil)
		cache.resolver = auditF4Resolver{}

		done := make(chan *dnsCacheEntry, 1)
		go func() {
			entry, _ := cache.lookup(context.Background(), "example.org")
			done <- entry
		}()
		select {
		case entry := <-done:
			if entry == nil || len(entry.addrs) != 1 {
				t.Errorf("size %d: the lookup should still be answered (uncached), got %v", size, entry)
			}
			cache.mutex.Lock()
			n := len(cache.entries)
			cache.mutex.Unlock()
			if max := size; max < 0 && n > 0 || max >= 0 && n > max {
				t.Errorf("size %d: the cache holds %d entries", size, n)
			}
		case <-time.After(3 * time.Second):
			t.Errorf("size %d: lookup did not return within 3s: the eviction loop spins forever with the cache mutex held", size)
			// a second caller is now stuck on the mutex as well
			locked := make(chan struct{})
			go func() { cache.mutex.Lock(); cache.mutex.Unlock(); close(locked) }()
			select {
			case <-locked:
			case <-time.After(time.Second):
				t.Errorf("size %d: the cache mutex is never released - every other lookup / DialContext blocks", size)
			}
		}
	}
}
