// Package directory: repository root (package gomatrixserverlib).
//
// Finding 1 (C17): an event whose room ID exceeds only the 255-BYTE limit is
// reported as "too large but persistable" even when the same event ALSO breaks
// a hard limit (JSON > 65 536 bytes, or sender / type / state key > 255 code
// points). The room ID is judged - and the lenient verdict returned - before
// any of the hard limits is looked at, on receipt and on build.
package gomatrixserverlib

import (
	"encoding/json"
	"errors"
	"strings"
	"testing"
	"time"

	"github.com/matrix-org/gomatrixserverlib/spec"
	"golang.org/x/crypto/ed25519"
)

func auditF1Event(t *testing.T, ver RoomVersion, fields map[string]interface{}) []byte {
	t.Helper()
	verImpl := MustGetRoomVersion(ver)
	base := map[string]interface{}{
		"type":             "m.room.message",
		"sender":           "@alice:example.org",
		"room_id":          "!room:example.org",
		"state_key":        "x",
		"content":          map[string]interface{}{},
		"depth":            1,
		"origin_server_ts": 1,
		"origin":           "example.org",
	}
	if verImpl.EventFormat() == EventFormatV1 {
		base["event_id"] = "$ev:example.org"
		base["prev_events"] = []interface{}{}
		base["auth_events"] = []interface{}{}
	} else {
		base["prev_events"] = []string{}
		base["auth_events"] = []string{}
	}
	for k, v := range fields {
		base[k] = v
	}
	b, err := json.Marshal(base)
	if err != nil {
		t.Fatal(err)
	}
	if b, err = addContentHashesToEvent(b); err != nil {
		t.Fatal(err)
	}
	key := ed25519.NewKeyFromSeed(make([]byte, 32))
	if b, err = signEvent("example.org", "ed25519:1", key, b, ver); err != nil {
		t.Fatal(err)
	}
	return b
}

func TestAuditFinding1(t *testing.T) {
	// 200 two-byte code points: 413 bytes, 213 code points -> only the byte limit is exceeded
	longRoomID := "!" + strings.Repeat("é", 200) + ":example.org"

	hard := map[string]map[string]interface{}{
		"event JSON of 70 KB":            {"content": map[string]interface{}{"body": strings.Repeat("x", 70000)}},
		"sender of 313 code points":      {"sender": "@" + strings.Repeat("a", 300) + ":example.org"},
		"type of 302 code points":        {"type": "m." + strings.Repeat("a", 300)},
		"state key of 300 code points":   {"state_key": strings.Repeat("a", 300)},
		"sender without sigil (invalid)": {"sender": "alice:example.org"},
	}

	for _, ver := range []RoomVersion{RoomVersionV1, RoomVersionV2, RoomVersionV3, RoomVersionV4, RoomVersionV5, RoomVersionV6,
		RoomVersionV7, RoomVersionV8, RoomVersionV9, RoomVersionV10, RoomVersionV11} {
		verImpl := MustGetRoomVersion(ver)

		// sanity: each of the hard violations alone is a hard refusal
		for name, extra := range hard {
			_, err := verImpl.NewEventFromUntrustedJSON(auditF1Event(t, ver, extra))
			var ve EventValidationError
			if err == nil || (errors.As(err, &ve) && ve.Persistable) {
				t.Fatalf("v%s: sanity: %s alone should be a hard refusal, got %v", ver, name, err)
			}
		}

		// on receipt
		for name, extra := range hard {
			fields := map[string]interface{}{"room_id": longRoomID}
			for k, v := range extra {
				fields[k] = v
			}
			_, err := verImpl.NewEventFromUntrustedJSON(auditF1Event(t, ver, fields))
			if err == nil {
				t.Errorf("v%s receipt: room ID over 255 bytes + %s: accepted", ver, name)
				continue
			}
			var ve EventValidationError
			if errors.As(err, &ve) && ve.Persistable {
				t.Errorf("v%s receipt: room ID over 255 bytes + %s: reported as persistable (%v); want a hard refusal", ver, name, err)
			}
		}

		// on build
		for name, extra := range hard {
			if name == "sender without sigil (invalid)" {
				continue
			}
			eb := verImpl.NewEventBuilder()
			eb.Type = "m.room.message"
			eb.SenderID = "@alice:example.org"
			eb.RoomID = longRoomID
			sk := "x"
			eb.StateKey = &sk
			eb.Content = spec.RawJSON(`{}`)
			eb.Depth = 1
			if verImpl.EventFormat() == EventFormatV1 {
				eb.PrevEvents = []eventReference{}
				eb.AuthEvents = []eventReference{}
			} else {
				eb.PrevEvents = []string{}
				eb.AuthEvents = []string{}
			}
			if v, ok := extra["sender"]; ok {
				eb.SenderID = v.(string)
			}
			if v, ok := extra["type"]; ok {
				eb.Type = v.(string)
			}
			if v, ok := extra["state_key"]; ok {
				s := v.(string)
				eb.StateKey = &s
			}
			if v, ok := extra["content"]; ok {
				c, _ := json.Marshal(v)
				eb.Content = c
			}
			_, err := eb.Build(time.Now(), "example.org", "ed25519:1", ed25519.NewKeyFromSeed(make([]byte, 32)))
			if err == nil {
				t.Errorf("v%s build: room ID over 255 bytes + %s: built", ver, name)
				continue
			}
			var ve EventValidationError
			if errors.As(err, &ve) && ve.Persistable {
				t.Errorf("v%s build: room ID over 255 bytes + %s: reported as persistable (%v); want a hard refusal", ver, name, err)
			}
		}
	}
}
