// Package directory: repository root (package gomatrixserverlib).
// Run with the race detector to see the race itself:
//     go test -race -vet=off -count=1 -run TestAuditFinding2 .
// Without -race the test still fails, on the white-box assertion that the
// parser left the event ID to be computed (and cached) by the first EventID().
//
// Finding 2 (C19): read-only accessors of one parsed event race with each
// other when the event came from NewEventFromHeaderedJSON (no "_event_id"
// header) or NewEventFromTrustedJSONWithEventID("", ...): these two parsers
// still leave EventIDRaw empty, so the first EventID() / RoomID() /
// ToHeaderedJSON() calls write the cache field without synchronisation.
package gomatrixserverlib

import (
	"encoding/json"
	"sync"
	"testing"

	"github.com/tidwall/sjson"
	"golang.org/x/crypto/ed25519"
)

func auditF2Event(t *testing.T, ver RoomVersion, typ string) []byte {
	t.Helper()
	verImpl := MustGetRoomVersion(ver)
	base := map[string]interface{}{
		"type":             typ,
		"sender":           "@alice:example.org",
		"state_key":        "",
		"content":          map[string]interface{}{"creator": "@alice:example.org"},
		"depth":            1,
		"origin_server_ts": 1,
		"prev_events":      []string{},
		"auth_events":      []string{},
	}
	if !(verImpl.DomainlessRoomIDs() && typ == "m.room.create") {
		base["room_id"] = "!room:example.org"
		if verImpl.DomainlessRoomIDs() {
			base["room_id"] = "!AAAAAAAAAAAAAAAAAAAAAAAAAAAAAAAAAAAAAAAAAAA"
		}
	}
	b, err := json.Marshal(base)
	if err != nil {
		t.Fatal(err)
	}
	if b, err = addContentHashesToEvent(b); err != nil {
		t.Fatal(err)
	}
	if b, err = signEvent("example.org", "ed25519:1", ed25519.NewKeyFromSeed(make([]byte, 32)), b, ver); err != nil {
		t.Fatal(err)
	}
	return b
}

func auditF2Hammer(ev PDU) {
	var wg sync.WaitGroup
	for g := 0; g < 8; g++ {
		wg.Add(1)
		go func() {
			defer wg.Done()
			_ = ev.EventID()
			_ = ev.RoomID() // for a v12 create event the room ID is derived from the event ID
			_, _ = ev.ToHeaderedJSON()
		}()
	}
	wg.Wait()
}

func auditF2IDField(ev PDU) string {
	switch e := ev.(type) {
	case *eventV2:
		return e.EventIDRaw
	case *eventV3:
		return e.EventIDRaw
	}
	return "n/a"
}

func TestAuditFinding2(t *testing.T) {
	for _, ver := range []RoomVersion{RoomVersionV3, RoomVersionV4, RoomVersionV10, RoomVersionV11, RoomVersionV12} {
		verImpl := MustGetRoomVersion(ver)
		for _, typ := range []string{"m.room.create", "m.room.name"} {
			raw := auditF2Event(t, ver, typ)

			// reference: the ordinary parsers fill in the ID while the event is private to them
			ref, err := verImpl.NewEventFromUntrustedJSON(raw)
			if err != nil {
				t.Fatalf("v%s %s: %v", ver, typ, err)
			}
			if auditF2IDField(ref) == "" {
				t.Fatalf("v%s: reference parser did not populate the event ID", ver)
			}

			// 1. headered JSON without the "_event_id" header
			headered, err := sjson.SetBytes(raw, "_room_version", string(ver))
			if err != nil {
				t.Fatal(err)
			}
			ev1, err := NewEventFromHeaderedJSON(headered, false)
			if err != nil {
				t.Fatalf("v%s %s headered: %v", ver, typ, err)
			}
			if got := auditF2IDField(ev1); got == "" {
				t.Errorf("v%s %s: NewEventFromHeaderedJSON left the event ID to be computed lazily: first-time EventID()/RoomID() calls from several goroutines race", ver, typ)
			}
			auditF2Hammer(ev1) // reported by -race
			if ev1.EventID() != ref.EventID() {
				t.Errorf("v%s %s: event ID %q != %q", ver, typ, ev1.EventID(), ref.EventID())
			}

			// 2. explicit empty event ID
			ev2, err := verImpl.NewEventFromTrustedJSONWithEventID("", raw, false)
			if err != nil {
				t.Fatalf("v%s %s: %v", ver, typ, err)
			}
			if got := auditF2IDField(ev2); got == "" {
				t.Errorf("v%s %s: NewEventFromTrustedJSONWithEventID(\"\") left the event ID to be computed lazily: first-time EventID()/RoomID() calls from several goroutines race", ver, typ)
			}
			auditF2Hammer(ev2) // reported by -race
		}
	}
}
