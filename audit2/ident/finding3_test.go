// Package directory: repository root (package gomatrixserverlib).
//
// Finding 3 (C18): the auth check of an m.room.create event dereferences the
// *spec.UserID returned by the UserIDForSender callback without looking at it.
// Every other auth function treats "(nil, nil)" - the callback's way of saying
// "no user known for this sender" - as a refusal ("userID not found for sender
// ..."); createEventAllowed panics, and with it Allowed(), the v1 and v2 state
// resolution and everything that auth-checks remote events.
package gomatrixserverlib

import (
	"encoding/json"
	"testing"

	"github.com/matrix-org/gomatrixserverlib/spec"
	"golang.org/x/crypto/ed25519"
)

func auditF3Event(t *testing.T, ver RoomVersion, fields map[string]interface{}) []byte {
	t.Helper()
	verImpl := MustGetRoomVersion(ver)
	base := map[string]interface{}{
		"type":             "m.room.create",
		"state_key":        "",
		"content":          map[string]interface{}{},
		"depth":            1,
		"origin_server_ts": 1,
	}
	if !verImpl.DomainlessRoomIDs() {
		base["room_id"] = "!room:example.org"
	}
	if verImpl.EventFormat() == EventFormatV1 {
		base["event_id"] = "$create:example.org"
		base["prev_events"] = []interface{}{}
		base["auth_events"] = []interface{}{}
	} else {
		base["prev_events"] = []string{}
		base["auth_events"] = []string{}
	}
	for k, v := range fields {
		base[k] = v
	}
	b, err := json.Marshal(base)
	if err != nil {
		t.Fatal(err)
	}
	if b, err = addContentHashesToEvent(b); err != nil {
		t.Fatal(err)
	}
	if b, err = signEvent("example.org", "ed25519:1", ed25519.NewKeyFromSeed(make([]byte, 32)), b, ver); err != nil {
		t.Fatal(err)
	}
	return b
}

// A UserIDForSender that answers "not found" the way the library expects it
// (commonChecks, aliasEventAllowed, membershipAllowed, powerLevelsEventAllowed,
// NewCreateContentFromAuthEvents and VerifyEventSignatures all test for a nil
// user ID): no user, no error. This is what a server does for a pseudo ID it
// has no mapping for, or for a sender string that is not a user ID.
func auditF3Querier(roomID spec.RoomID, senderID spec.SenderID) (*spec.UserID, error) {
	userID, err := spec.NewUserID(string(senderID), true)
	if err != nil {
		return nil, nil
	}
	return userID, nil
}

func TestAuditFinding3(t *testing.T) {
	for ver := range RoomVersions() {
		verImpl := MustGetRoomVersion(ver)

		// accepted by the parser: sigil and colon are there (pseudo ID rooms do
		// not even ask for those), but it is no user ID
		sender := "@:example.org"
		if ver == RoomVersionPseudoIDs {
			sender = "AAAAAAAAAAAAAAAAAAAAAAAAAAAAAAAAAAAAAAAAAAA" // a room key nobody told us about
		}
		create, err := verImpl.NewEventFromUntrustedJSON(auditF3Event(t, ver, map[string]interface{}{
			"sender": sender, "content": map[string]interface{}{"creator": sender},
		}))
		if err != nil {
			t.Fatalf("v%s: the create event should parse: %v", ver, err)
		}

		// control: a non-create event of the same sender is refused with an error
		name, err := verImpl.NewEventFromUntrustedJSON(auditF3Event(t, ver, map[string]interface{}{
			"type": "m.room.name", "sender": sender, "room_id": func() string {
				if verImpl.DomainlessRoomIDs() {
					return "!AAAAAAAAAAAAAAAAAAAAAAAAAAAAAAAAAAAAAAAAAAA"
				}
				return "!room:example.org"
			}(),
		}))
		if err != nil {
			t.Fatalf("v%s: %v", ver, err)
		}
		prov, _ := NewAuthEvents(nil)
		if err := Allowed(name, prov, auditF3Querier); err == nil {
			t.Errorf("v%s: control: m.room.name of an unknown sender allowed", ver)
		}

		func() {
			defer func() {
				if r := recover(); r != nil {
					t.Errorf("v%s: Allowed(create event of sender %q) panicked: %v", ver, sender, r)
				}
			}()
			prov, _ := NewAuthEvents(nil)
			if err := Allowed(create, prov, auditF3Querier); err == nil {
				t.Errorf("v%s: create event of an unknown sender allowed", ver)
			}
		}()

		func() {
			defer func() {
				if r := recover(); r != nil {
					t.Errorf("v%s: ResolveConflicts with a create event of sender %q panicked: %v", ver, sender, r)
				}
			}()
			// the create event is conflicted with a second one (remote servers supply both)
			create2, err := verImpl.NewEventFromUntrustedJSON(auditF3Event(t, ver, map[string]interface{}{
				"sender": sender, "content": map[string]interface{}{"creator": sender}, "depth": 2, "event_id": "$create2:example.org",
			}))
			if err != nil {
				t.Fatalf("v%s: %v", ver, err)
			}
			_, _ = ResolveConflicts(ver, []PDU{create, create2}, []PDU{create, create2}, auditF3Querier, func(string) bool { return false })
		}()
	}
}
