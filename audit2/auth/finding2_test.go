// Package directory: repository root (package gomatrixserverlib).
package gomatrixserverlib

import (
	"encoding/json"
	"testing"

	"github.com/matrix-org/gomatrixserverlib/spec"
	"golang.org/x/crypto/ed25519"
)

// TestAuditFinding2: a third-party invite is verified against a re-serialisation of
// three members of content.third_party_invite.signed (mxid, signatures, token) instead of
// against the signed object that is in the event. A signed object with any further
// member, correctly signed by the key in the m.room.third_party_invite event, is refused;
// and a signed object to which a member was added AFTER signing is accepted.
func TestAuditFinding2(t *testing.T) {
	querier := func(roomID spec.RoomID, senderID spec.SenderID) (*spec.UserID, error) {
		return spec.NewUserID(string(senderID), true)
	}
	pub, priv, err := ed25519.GenerateKey(nil)
	if err != nil {
		t.Fatal(err)
	}
	ver := MustGetRoomVersion(RoomVersionV10)
	mk := func(typ, sender, stateKey string, content interface{}) PDU {
		c, err := json.Marshal(content)
		if err != nil {
			t.Fatal(err)
		}
		js, err := json.Marshal(map[string]interface{}{
			"type": typ, "sender": sender, "state_key": stateKey, "room_id": "!r:a",
			"content": json.RawMessage(c), "prev_events": []string{}, "auth_events": []string{},
			"depth": 2, "origin_server_ts": 1,
		})
		if err != nil {
			t.Fatal(err)
		}
		ev, err := ver.NewEventFromTrustedJSON(js, false)
		if err != nil {
			t.Fatal(err)
		}
		return ev
	}
	create := mk("m.room.create", "@c:a", "", map[string]interface{}{"creator": "@c:a", "room_version": "10"})
	creatorJoin := mk("m.room.member", "@c:a", "@c:a", map[string]interface{}{"membership": "join"})
	tpi := mk("m.room.third_party_invite", "@c:a", "tok", map[string]interface{}{
		"display_name": "u", "key_validity_url": "https://id.server/valid", "public_key": spec.Base64Bytes(pub),
		"public_keys": []map[string]interface{}{{"public_key": spec.Base64Bytes(pub), "key_validity_url": "https://id.server/valid"}},
	})
	provider, err := NewAuthEvents([]PDU{create, creatorJoin, tpi})
	if err != nil {
		t.Fatal(err)
	}
	sign := func(obj map[string]interface{}) json.RawMessage {
		b, _ := json.Marshal(obj)
		signed, err := SignJSON("id.server", "ed25519:0", priv, b)
		if err != nil {
			t.Fatal(err)
		}
		// the signature is good for the object as it will appear in the event
		if err = VerifyJSON("id.server", "ed25519:0", pub, signed); err != nil {
			t.Fatal(err)
		}
		return signed
	}
	invite := func(signed json.RawMessage) PDU {
		return mk("m.room.member", "@c:a", "@u:b", map[string]interface{}{
			"membership": "invite",
			"third_party_invite": map[string]interface{}{"display_name": "u", "signed": signed},
		})
	}

	// control: the minimal signed object works
	if err := Allowed(invite(sign(map[string]interface{}{"mxid": "@u:b", "token": "tok"})), provider, querier); err != nil {
		t.Fatalf("plain third-party invite should be allowed: %v", err)
	}

	// 1. a signed object with one more member, validly signed as a whole
	if err := Allowed(invite(sign(map[string]interface{}{"mxid": "@u:b", "token": "tok", "medium": "email"})), provider, querier); err != nil {
		t.Errorf("third-party invite whose signed object verifies under public_keys[0] was refused: %v", err)
	}

	// 2. a member added after signing: the signature does not cover the object in the event
	var tampered map[string]interface{}
	_ = json.Unmarshal(sign(map[string]interface{}{"mxid": "@u:b", "token": "tok"}), &tampered)
	tampered["medium"] = "email"
	tb, _ := json.Marshal(tampered)
	if err := VerifyJSON("id.server", "ed25519:0", pub, tb); err == nil {
		t.Fatal("test is broken: tampered object must not verify")
	}
	if err := Allowed(invite(tb), provider, querier); err == nil {
		t.Errorf("third-party invite whose signed object does NOT verify under any public key was allowed")
	}
}
