// Package directory: repository root (package gomatrixserverlib).
package gomatrixserverlib

import (
	"encoding/json"
	"testing"

	"github.com/matrix-org/gomatrixserverlib/spec"
)

// TestAuditFinding4: "mxid_mapping" is a member-content key of the unstable pseudo-ID
// room version (org.matrix.msc4014) only; the auth rules of room versions 1-12 do not
// know it. Nevertheless a member event of a stable room version whose content has an
// "mxid_mapping" member that is not shaped like an MSC4014 mapping is refused outright
// ("unparseable member event content"), whatever the rules say about the transition.
func TestAuditFinding4(t *testing.T) {
	querier := func(roomID spec.RoomID, senderID spec.SenderID) (*spec.UserID, error) {
		return spec.NewUserID(string(senderID), true)
	}
	for _, rv := range []RoomVersion{"1", "2", "3", "4", "5", "6", "7", "8", "9", "10", "11", "12"} {
		ver := MustGetRoomVersion(rv)
		roomID := "!r:a"
		mk := func(typ, sender, stateKey string, content string) PDU {
			f := map[string]interface{}{
				"type": typ, "sender": sender, "state_key": stateKey,
				"content": json.RawMessage(content), "origin_server_ts": 1, "depth": 2,
			}
			if !(typ == "m.room.create" && ver.DomainlessRoomIDs()) {
				f["room_id"] = roomID
			}
			if ver.EventFormat() == EventFormatV1 {
				f["event_id"] = "$" + typ + sender + stateKey + ":a"
				f["prev_events"] = []interface{}{}
				f["auth_events"] = []interface{}{}
			} else {
				f["prev_events"] = []string{}
				f["auth_events"] = []string{}
			}
			js, err := json.Marshal(f)
			if err != nil {
				t.Fatal(err)
			}
			ev, err := ver.NewEventFromTrustedJSON(js, false)
			if err != nil {
				t.Fatal(err)
			}
			return ev
		}
		createContent := `{"creator":"@c:a","room_version":"` + string(rv) + `"}`
		if ver.DomainlessRoomIDs() {
			createContent = `{"room_version":"` + string(rv) + `"}`
		}
		create := mk("m.room.create", "@c:a", "", createContent)
		if ver.DomainlessRoomIDs() {
			roomID = "!" + create.EventID()[1:]
		}
		creatorJoin := mk("m.room.member", "@c:a", "@c:a", `{"membership":"join"}`)
		public := mk("m.room.join_rules", "@c:a", "", `{"join_rule":"public"}`)
		provider, err := NewAuthEvents([]PDU{create, creatorJoin, public})
		if err != nil {
			t.Fatal(err)
		}

		// control: a plain join to a public room, and one with an oddly typed "reason"
		for _, c := range []string{`{"membership":"join"}`, `{"membership":"join","reason":5}`} {
			if err := Allowed(mk("m.room.member", "@u:a", "@u:a", c), provider, querier); err != nil {
				t.Fatalf("%s: join %s to a public room should be allowed: %v", rv, c, err)
			}
		}
		// the bug
		for _, c := range []string{`{"membership":"join","mxid_mapping":"x"}`, `{"membership":"join","mxid_mapping":{"user_id":5}}`} {
			if err := Allowed(mk("m.room.member", "@u:a", "@u:a", c), provider, querier); err != nil {
				t.Errorf("%s: join %s to a public room was refused: %v", rv, c, err)
			}
		}
	}
}
