// Package directory: repository root (package gomatrixserverlib).
package gomatrixserverlib

import (
	"encoding/json"
	"testing"

	"github.com/matrix-org/gomatrixserverlib/spec"
)

// TestAuditFinding3: when the m.room.power_levels auth event cannot be decoded, Allowed
// neither refuses the event nor applies the defaults of a room without power levels
// (state_default 50, ban/kick/redact 50): it checks against an all-zero PowerLevelContent,
// so every required level is 0 and a joined user with level 0 may send any state event.
func TestAuditFinding3(t *testing.T) {
	querier := func(roomID spec.RoomID, senderID spec.SenderID) (*spec.UserID, error) {
		return spec.NewUserID(string(senderID), true)
	}
	for _, rv := range []RoomVersion{RoomVersionV5, RoomVersionV10, RoomVersionV12} {
		ver := MustGetRoomVersion(rv)
		roomID := "!r:a"
		mk := func(typ, sender, stateKey string, content string) PDU {
			f := map[string]interface{}{
				"type": typ, "sender": sender, "state_key": stateKey,
				"content": json.RawMessage(content), "prev_events": []string{}, "auth_events": []string{},
				"depth": 2, "origin_server_ts": 1,
			}
			if !(typ == "m.room.create" && ver.DomainlessRoomIDs()) {
				f["room_id"] = roomID
			}
			js, err := json.Marshal(f)
			if err != nil {
				t.Fatal(err)
			}
			ev, err := ver.NewEventFromTrustedJSON(js, false)
			if err != nil {
				t.Fatal(err)
			}
			return ev
		}
		createContent := `{"creator":"@c:a","room_version":"` + string(rv) + `"}`
		if ver.DomainlessRoomIDs() {
			createContent = `{"room_version":"` + string(rv) + `"}`
		}
		create := mk("m.room.create", "@c:a", "", createContent)
		if ver.DomainlessRoomIDs() {
			roomID = "!" + create.EventID()[1:]
		}
		memberJoin := mk("m.room.member", "@m:a", "@m:a", `{"membership":"join"}`)
		// @m:a has power level 0 and wants to open the room
		joinRules := mk("m.room.join_rules", "@m:a", "", `{"join_rule":"public"}`)

		// control 1: no power levels event -> state_default 50 -> refused
		p, _ := NewAuthEvents([]PDU{create, memberJoin})
		if err := Allowed(joinRules, p, querier); err == nil {
			t.Fatalf("%s: without power levels a level-0 user must not send m.room.join_rules", rv)
		}
		// control 2: an ordinary power levels event -> refused
		p, _ = NewAuthEvents([]PDU{create, memberJoin, mk("m.room.power_levels", "@c:a", "", `{"users":{"@c:a":100}}`)})
		if rv != RoomVersionV12 {
			if err := Allowed(joinRules, p, querier); err == nil {
				t.Fatalf("%s: with default power levels a level-0 user must not send m.room.join_rules", rv)
			}
		}
		// the bug: power level events that NewPowerLevelContentFromEvent cannot decode
		for _, bad := range []string{`{"ban":true}`, `{"users":[]}`, `{"state_default":"fifty"}`, `{"events":{"m.room.join_rules":{}}}`} {
			pl := mk("m.room.power_levels", "@c:a", "", bad)
			if _, err := NewPowerLevelContentFromEvent(pl); err == nil {
				t.Fatalf("%s: expected %s to be undecodable", rv, bad)
			}
			p, _ = NewAuthEvents([]PDU{create, memberJoin, pl})
			if err := Allowed(joinRules, p, querier); err == nil {
				t.Errorf("%s: power levels %s: a user with level 0 was allowed to send m.room.join_rules (all required levels were taken as 0)", rv, bad)
			}
		}
	}
}
