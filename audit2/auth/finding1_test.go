// Package directory: repository root (package gomatrixserverlib).
package gomatrixserverlib

import (
	"testing"

	"github.com/matrix-org/gomatrixserverlib/spec"
)

// TestAuditFinding1: the room version 12 rule "if the create event has a room_id, reject"
// is only applied when the room_id is a non-empty string. A create event that carries
// "room_id":"" (or "room_id":null) is accepted by Allowed.
func TestAuditFinding1(t *testing.T) {
	querier := func(roomID spec.RoomID, senderID spec.SenderID) (*spec.UserID, error) {
		return spec.NewUserID(string(senderID), true)
	}
	for _, ver := range []RoomVersion{RoomVersionV12} {
		mk := func(roomIDMember string) PDU {
			js := `{"type":"m.room.create","state_key":"","sender":"@creator:a",` + roomIDMember +
				`"content":{"room_version":"` + string(ver) + `"},"prev_events":[],"auth_events":[],"depth":1,"origin_server_ts":1}`
			ev, err := MustGetRoomVersion(ver).NewEventFromTrustedJSON([]byte(js), false)
			if err != nil {
				t.Fatalf("parse: %v", err)
			}
			return ev
		}
		provider, _ := NewAuthEvents(nil)

		// control: no room_id member at all -> allowed
		if err := Allowed(mk(``), provider, querier); err != nil {
			t.Fatalf("%s: create event without room_id should be allowed: %v", ver, err)
		}
		// control: a non-empty room_id -> rejected (this works today)
		if err := Allowed(mk(`"room_id":"!x:a",`), provider, querier); err == nil {
			t.Fatalf("%s: create event with room_id !x:a should be rejected", ver)
		}
		// the bug: the event HAS a room_id member, but it is the empty string
		if err := Allowed(mk(`"room_id":"",`), provider, querier); err == nil {
			t.Errorf("%s: create event with \"room_id\":\"\" was allowed; v12 rule 1.2 'if the event has a room_id, reject'", ver)
		}
	}
}
