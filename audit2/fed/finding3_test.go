package gomatrixserverlib

// Audit finding 3 (property C15, PerformJoin). Belongs in the package root directory
// (package gomatrixserverlib). Run: go test -vet=off -count=1 -run TestAuditFinding3 .

import (
	"context"
	"crypto/ed25519"
	"crypto/sha256"
	"encoding/json"
	"testing"
	"time"

	"github.com/matrix-org/gomatrixserverlib/spec"
)

// PerformJoin is given an "unsigned" section for the join event (Dendrite passes the
// invite_room_state it received with a federated invite, i.e. content chosen by a
// remote server). If the section cannot be put into the event - in room versions 6+
// every number in an event, also in "unsigned", has to be an integer within
// [-2^53+1, 2^53-1] - SetUnsigned fails. PerformJoin calls this "non-fatal, log and
// continue", but has already overwritten its event variable with the nil PDU that
// SetUnsigned returns alongside the error: it reports success (nil error) and hands
// back a response whose JoinEvent is nil. The join has happened on the remote side,
// and the caller dereferences a nil event.
func TestAuditFinding3(t *testing.T) {
	unsignedSections := []map[string]interface{}{
		{"invite_room_state": []interface{}{map[string]interface{}{
			"type": "m.room.name", "state_key": "", "sender": "@alice:hs1", "content": map[string]interface{}{"name": "x", "weight": 0.5},
		}}},
		{"age": float64(1 << 60)},
	}
	for _, ver := range af3Versions {
		for _, unsigned := range unsignedSections {
			r := af3StdRoom(t, ver, nil)
			user := "@bob:hs2"
			uid, _ := spec.NewUserID(user, true)
			rid, _ := spec.NewRoomID(r.roomID)
			k := af3Key("hs2")
			resp, ferr := PerformJoin(context.Background(), &af3Resident{r: r, user: user}, PerformJoinInput{
				UserID: uid, RoomID: rid, ServerName: "hs1",
				PrivateKey: k.priv, KeyID: k.keyID, KeyRing: af3KeyRing("hs1", "hs2"),
				UserIDQuerier: af3UserIDForSender, Unsigned: unsigned,
			})
			if ferr != nil {
				// refusing would be acceptable; it just must not claim success without an event
				continue
			}
			if resp == nil || resp.JoinEvent == nil {
				t.Errorf("room version %s, unsigned %v: PerformJoin reports success but returns no join event (JoinEvent == nil)", ver, unsigned)
				continue
			}
			if m, err := resp.JoinEvent.Membership(); err != nil || m != spec.Join {
				t.Errorf("room version %s: returned event is not a join: %q %v", ver, m, err)
			}
		}
	}
}

// ---- an honest resident server (hs1) answering make_join / send_join from the room history ----

type af3MakeJoinResp struct {
	ver   RoomVersion
	proto ProtoEvent
}

func (m *af3MakeJoinResp) GetJoinEvent() ProtoEvent    { return m.proto }
func (m *af3MakeJoinResp) GetRoomVersion() RoomVersion { return m.ver }

type af3SendJoinResp struct{ auth, state EventJSONs }

func (s *af3SendJoinResp) GetAuthEvents() EventJSONs  { return s.auth }
func (s *af3SendJoinResp) GetStateEvents() EventJSONs { return s.state }
func (s *af3SendJoinResp) GetOrigin() spec.ServerName { return "hs1" }
func (s *af3SendJoinResp) GetJoinEvent() spec.RawJSON { return nil }
func (s *af3SendJoinResp) GetMembersOmitted() bool    { return false }
func (s *af3SendJoinResp) GetServersInRoom() []string { return nil }

type af3Resident struct {
	r    *af3Room
	user string
}

func (c *af3Resident) MakeJoin(ctx context.Context, origin, s spec.ServerName, roomID, userID string) (MakeJoinResponse, error) {
	ev, err := c.r.build(c.user, af3Domain(c.user), spec.MRoomMember, af3Str(c.user), map[string]interface{}{"membership": "join"})
	if err != nil {
		return nil, err
	}
	var proto ProtoEvent
	if err := json.Unmarshal(ev.JSON(), &proto); err != nil {
		return nil, err
	}
	proto.Signature = nil
	return &af3MakeJoinResp{ver: c.r.ver, proto: proto}, nil
}

func (c *af3Resident) SendJoin(ctx context.Context, origin, s spec.ServerName, event PDU) (SendJoinResponse, error) {
	st := c.r.stateEvents()
	return &af3SendJoinResp{auth: NewEventJSONsFromEvents(c.r.authChain(append(st, event))), state: NewEventJSONsFromEvents(st)}, nil
}

// ---------------------------------------------------------------------------
// helpers (self-contained; names carry the af3 prefix so that the finding
// files can be dropped into the package together)
// ---------------------------------------------------------------------------

type af3Keys struct {
	keyID KeyID
	priv  ed25519.PrivateKey
	pub   ed25519.PublicKey
}

// af3Key derives the (deterministic) signing key of a server from its name.
func af3Key(server string) af3Keys {
	seed := sha256.Sum256([]byte("seed-" + server))
	priv := ed25519.NewKeyFromSeed(seed[:])
	return af3Keys{keyID: "ed25519:a1", priv: priv, pub: priv.Public().(ed25519.PublicKey)}
}

// af3KeyDB is a key database that knows the keys of the listed servers only.
type af3KeyDB struct{ known map[string]bool }

func (d *af3KeyDB) FetcherName() string { return "af3KeyDB" }
func (d *af3KeyDB) FetchKeys(ctx context.Context, requests map[PublicKeyLookupRequest]spec.Timestamp) (map[PublicKeyLookupRequest]PublicKeyLookupResult, error) {
	res := map[PublicKeyLookupRequest]PublicKeyLookupResult{}
	for req := range requests {
		k := af3Key(string(req.ServerName))
		if !d.known[string(req.ServerName)] || req.KeyID != k.keyID {
			continue
		}
		res[req] = PublicKeyLookupResult{
			VerifyKey:    VerifyKey{Key: spec.Base64Bytes(k.pub)},
			ValidUntilTS: spec.AsTimestamp(time.Now().Add(24 * time.Hour)),
			ExpiredTS:    PublicKeyNotExpired,
		}
	}
	return res, nil
}
func (d *af3KeyDB) StoreKeys(ctx context.Context, results map[PublicKeyLookupRequest]PublicKeyLookupResult) error {
	return nil
}

func af3KeyRing(servers ...string) *KeyRing {
	db := &af3KeyDB{known: map[string]bool{}}
	for _, s := range servers {
		db.known[s] = true
	}
	return &KeyRing{KeyDatabase: db}
}

func af3UserIDForSender(roomID spec.RoomID, senderID spec.SenderID) (*spec.UserID, error) {
	return spec.NewUserID(string(senderID), true)
}

func af3Domain(user string) string {
	_, d, err := SplitID('@', user)
	if err != nil {
		panic(err)
	}
	return string(d)
}

func af3Str(s string) *string { return &s }

// af3Room builds a small, correctly signed room history in any room version.
type af3Room struct {
	t       *testing.T
	ver     RoomVersion
	verImpl IRoomVersion
	roomID  string
	events  []PDU
	state   map[StateKeyTuple]PDU
	byID    map[string]PDU
	depth   int64
	ts      time.Time
}

func af3NewRoom(t *testing.T, ver RoomVersion, creator string, createContent map[string]interface{}) *af3Room {
	r := &af3Room{t: t, ver: ver, verImpl: MustGetRoomVersion(ver), state: map[StateKeyTuple]PDU{}, byID: map[string]PDU{}, ts: time.Now().Add(-time.Hour)}
	if !r.verImpl.DomainlessRoomIDs() {
		r.roomID = "!room:" + af3Domain(creator)
	}
	if createContent == nil {
		createContent = map[string]interface{}{"room_version": string(ver)}
		if ver == RoomVersionV1 {
			createContent = map[string]interface{}{}
		}
		switch ver {
		case RoomVersionV11, RoomVersionV12:
		default:
			createContent["creator"] = creator
		}
	}
	ev := r.mustAdd(creator, spec.MRoomCreate, af3Str(""), createContent)
	if r.verImpl.DomainlessRoomIDs() {
		r.roomID = ev.RoomID().String()
	}
	return r
}

// build builds (and signs with the key of signer) an event on top of the current state, without adding it.
func (r *af3Room) build(sender, signer, typ string, stateKey *string, content interface{}) (PDU, error) {
	cj, err := json.Marshal(content)
	if err != nil {
		return nil, err
	}
	proto := &ProtoEvent{SenderID: sender, RoomID: r.roomID, Type: typ, StateKey: stateKey, Content: cj, Depth: r.depth + 1, Version: r.verImpl}
	if typ == spec.MRoomCreate {
		proto.PrevEvents = []string{}
		proto.AuthEvents = []string{}
	} else {
		needed, err := StateNeededForProtoEvent(proto)
		if err != nil {
			return nil, err
		}
		prov, _ := NewAuthEvents(r.stateEvents())
		refs, err := needed.AuthEventReferences(prov)
		if err != nil {
			return nil, err
		}
		ids := []string{}
		for _, id := range refs {
			if r.verImpl.DomainlessRoomIDs() && id == "$"+r.roomID[1:] {
				continue // v12: the create event is implied
			}
			ids = append(ids, id)
		}
		proto.AuthEvents = ids
		proto.PrevEvents = []string{r.events[len(r.events)-1].EventID()}
	}
	k := af3Key(signer)
	r.ts = r.ts.Add(time.Second)
	return r.verImpl.NewEventBuilderFromProtoEvent(proto).Build(r.ts, spec.ServerName(signer), k.keyID, k.priv)
}

func (r *af3Room) add(ev PDU) {
	r.events = append(r.events, ev)
	r.byID[ev.EventID()] = ev
	r.depth = ev.Depth()
	if ev.StateKey() != nil {
		r.state[StateKeyTuple{EventType: ev.Type(), StateKey: *ev.StateKey()}] = ev
	}
}

// mustAdd builds an event signed by its sender's server, checks that the auth rules allow it, and appends it.
func (r *af3Room) mustAdd(sender, typ string, stateKey *string, content interface{}) PDU {
	ev, err := r.build(sender, af3Domain(sender), typ, stateKey, content)
	if err != nil {
		r.t.Fatalf("building %s: %v", typ, err)
	}
	if typ != spec.MRoomCreate {
		prov, _ := NewAuthEvents(r.stateEvents())
		if err := Allowed(ev, prov, af3UserIDForSender); err != nil {
			r.t.Fatalf("test set-up: %s event is not allowed: %v", typ, err)
		}
	}
	r.add(ev)
	return ev
}

// stateEvents returns the current state in the order of the history.
func (r *af3Room) stateEvents() []PDU {
	out := []PDU{}
	for _, ev := range r.events {
		if ev.StateKey() != nil && r.state[StateKeyTuple{EventType: ev.Type(), StateKey: *ev.StateKey()}] == ev {
			out = append(out, ev)
		}
	}
	return out
}

// authChain returns every event reachable from evs through auth_events.
func (r *af3Room) authChain(evs []PDU) []PDU {
	seen := map[string]bool{}
	var out []PDU
	var walk func(e PDU)
	walk = func(e PDU) {
		for _, id := range e.AuthEventIDs() {
			if ae, ok := r.byID[id]; ok && !seen[id] {
				seen[id] = true
				out = append(out, ae)
				walk(ae)
			}
		}
	}
	for _, e := range evs {
		walk(e)
	}
	return out
}

// af3StdRoom: @alice:hs1 creates the room, joins, sets power levels (invite needs 50) and makes it public.
func af3StdRoom(t *testing.T, ver RoomVersion, joinRule map[string]interface{}) *af3Room {
	alice := "@alice:hs1"
	r := af3NewRoom(t, ver, alice, nil)
	r.mustAdd(alice, spec.MRoomMember, af3Str(alice), map[string]interface{}{"membership": "join"})
	users := map[string]interface{}{alice: 100}
	if r.verImpl.PrivilegedCreators() {
		users = map[string]interface{}{} // v12: creators must not be listed
	}
	r.mustAdd(alice, spec.MRoomPowerLevels, af3Str(""), map[string]interface{}{
		"users": users, "users_default": 0, "events_default": 0, "state_default": 50, "ban": 50, "kick": 50, "redact": 50, "invite": 50,
	})
	if joinRule == nil {
		joinRule = map[string]interface{}{"join_rule": "public"}
	}
	r.mustAdd(alice, spec.MRoomJoinRules, af3Str(""), joinRule)
	return r
}

var af3Versions = []RoomVersion{
	RoomVersionV1, RoomVersionV2, RoomVersionV3, RoomVersionV4, RoomVersionV5, RoomVersionV6,
	RoomVersionV7, RoomVersionV8, RoomVersionV9, RoomVersionV10, RoomVersionV11, RoomVersionV12,
}
