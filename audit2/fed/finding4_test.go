package gomatrixserverlib

// Audit finding 4 (property C15, PerformJoin). Belongs in the package root directory
// (package gomatrixserverlib). Run: go test -vet=off -count=1 -run TestAuditFinding4 .

import (
	"context"
	"crypto/ed25519"
	"crypto/sha256"
	"encoding/json"
	"testing"
	"time"

	"github.com/matrix-org/gomatrixserverlib/spec"
)

// PerformJoin must return a join only if the (verified) state contains a create event
// of a known room version. Its own check, checkEventsContainCreateEvent, reads
// content.room_version into a plain string and treats the empty string like a
// missing key ("defaults to 1"). In room version 11 the auth rules do not look at
// room_version at all, so a room whose create event says "room_version": "" - which
// is no known room version - passes every check and the join is returned.
// (In the other room versions the auth rule for m.room.create refuses "".)
func TestAuditFinding4(t *testing.T) {
	if _, known := RoomVersions()[RoomVersion("")]; known {
		t.Fatal(`test set-up: "" is a known room version`)
	}
	alice := "@alice:hs1"
	for _, tc := range []struct {
		name        string
		roomVersion interface{}
		wantJoin    bool
	}{
		{"control: room_version 11", "11", true},
		{"control: room_version 99", "99", false},
		{`room_version ""`, "", false},
	} {
		r := af4NewRoom(t, RoomVersionV11, alice, map[string]interface{}{"room_version": tc.roomVersion})
		r.mustAdd(alice, spec.MRoomMember, af4Str(alice), map[string]interface{}{"membership": "join"})
		r.mustAdd(alice, spec.MRoomJoinRules, af4Str(""), map[string]interface{}{"join_rule": "public"})

		user := "@bob:hs2"
		uid, _ := spec.NewUserID(user, true)
		rid, _ := spec.NewRoomID(r.roomID)
		k := af4Key("hs2")
		resp, ferr := PerformJoin(context.Background(), &af4Resident{r: r, user: user}, PerformJoinInput{
			UserID: uid, RoomID: rid, ServerName: "hs1",
			PrivateKey: k.priv, KeyID: k.keyID, KeyRing: af4KeyRing("hs1", "hs2"),
			UserIDQuerier: af4UserIDForSender,
		})
		gotJoin := ferr == nil && resp != nil && resp.JoinEvent != nil
		if gotJoin != tc.wantJoin {
			t.Errorf("%s: join returned = %v, want %v (error: %v)", tc.name, gotJoin, tc.wantJoin, ferr)
		}
	}
}

// ---- an honest resident server (hs1) answering make_join / send_join from the room history ----

type af4MakeJoinResp struct {
	ver   RoomVersion
	proto ProtoEvent
}

func (m *af4MakeJoinResp) GetJoinEvent() ProtoEvent    { return m.proto }
func (m *af4MakeJoinResp) GetRoomVersion() RoomVersion { return m.ver }

type af4SendJoinResp struct{ auth, state EventJSONs }

func (s *af4SendJoinResp) GetAuthEvents() EventJSONs  { return s.auth }
func (s *af4SendJoinResp) GetStateEvents() EventJSONs { return s.state }
func (s *af4SendJoinResp) GetOrigin() spec.ServerName { return "hs1" }
func (s *af4SendJoinResp) GetJoinEvent() spec.RawJSON { return nil }
func (s *af4SendJoinResp) GetMembersOmitted() bool    { return false }
func (s *af4SendJoinResp) GetServersInRoom() []string { return nil }

type af4Resident struct {
	r    *af4Room
	user string
}

func (c *af4Resident) MakeJoin(ctx context.Context, origin, s spec.ServerName, roomID, userID string) (MakeJoinResponse, error) {
	ev, err := c.r.build(c.user, af4Domain(c.user), spec.MRoomMember, af4Str(c.user), map[string]interface{}{"membership": "join"})
	if err != nil {
		return nil, err
	}
	var proto ProtoEvent
	if err := json.Unmarshal(ev.JSON(), &proto); err != nil {
		return nil, err
	}
	proto.Signature = nil
	return &af4MakeJoinResp{ver: c.r.ver, proto: proto}, nil
}

func (c *af4Resident) SendJoin(ctx context.Context, origin, s spec.ServerName, event PDU) (SendJoinResponse, error) {
	st := c.r.stateEvents()
	return &af4SendJoinResp{auth: NewEventJSONsFromEvents(c.r.authChain(append(st, event))), state: NewEventJSONsFromEvents(st)}, nil
}

// ---------------------------------------------------------------------------
// helpers (self-contained; names carry the af4 prefix so that the finding
// files can be dropped into the package together)
// ---------------------------------------------------------------------------

type af4Keys struct {
	keyID KeyID
	priv  ed25519.PrivateKey
	pub   ed25519.PublicKey
}

// af4Key derives the (deterministic) signing key of a server from its name.
func af4Key(server string) af4Keys {
	seed := sha256.Sum256([]byte("seed-" + server))
	priv := ed25519.NewKeyFromSeed(seed[:])
	return af4Keys{keyID: "ed25519:a1", priv: priv, pub: priv.Public().(ed25519.PublicKey)}
}

// af4KeyDB is a key database that knows the keys of the listed servers only.
type af4KeyDB struct{ known map[string]bool }

func (d *af4KeyDB) FetcherName() string { return "af4KeyDB" }
func (d *af4KeyDB) FetchKeys(ctx context.Context, requests map[PublicKeyLookupRequest]spec.Timestamp) (map[PublicKeyLookupRequest]PublicKeyLookupResult, error) {
	res := map[PublicKeyLookupRequest]PublicKeyLookupResult{}
	for req := range requests {
		k := af4Key(string(req.ServerName))
		if !d.known[string(req.ServerName)] || req.KeyID != k.keyID {
			continue
		}
		res[req] = PublicKeyLookupResult{
			VerifyKey:    VerifyKey{Key: spec.Base64Bytes(k.pub)},
			ValidUntilTS: spec.AsTimestamp(time.Now().Add(24 * time.Hour)),
			ExpiredTS:    PublicKeyNotExpired,
		}
	}
	return res, nil
}
func (d *af4KeyDB) StoreKeys(ctx context.Context, results map[PublicKeyLookupRequest]PublicKeyLookupResult) error {
	return nil
}

func af4KeyRing(servers ...string) *KeyRing {
	db := &af4KeyDB{known: map[string]bool{}}
	for _, s := range servers {
		db.known[s] = true
	}
	return &KeyRing{KeyDatabase: db}
}

func af4UserIDForSender(roomID spec.RoomID, senderID spec.SenderID) (*spec.UserID, error) {
	return spec.NewUserID(string(senderID), true)
}

func af4Domain(user string) string {
	_, d, err := SplitID('@', user)
	if err != nil {
		panic(err)
	}
	return string(d)
}

func af4Str(s string) *string { return &s }

// af4Room builds a small, correctly signed room history in any room version.
type af4Room struct {
	t       *testing.T
	ver     RoomVersion
	verImpl IRoomVersion
	roomID  string
	events  []PDU
	state   map[StateKeyTuple]PDU
	byID    map[string]PDU
	depth   int64
	ts      time.Time
}

func af4NewRoom(t *testing.T, ver RoomVersion, creator string, createContent map[string]interface{}) *af4Room {
	r := &af4Room{t: t, ver: ver, verImpl: MustGetRoomVersion(ver), state: map[StateKeyTuple]PDU{}, byID: map[string]PDU{}, ts: time.Now().Add(-time.Hour)}
	if !r.verImpl.DomainlessRoomIDs() {
		r.roomID = "!room:" + af4Domain(creator)
	}
	if createContent == nil {
		createContent = map[string]interface{}{"room_version": string(ver)}
		if ver == RoomVersionV1 {
			createContent = map[string]interface{}{}
		}
		switch ver {
		case RoomVersionV11, RoomVersionV12:
		default:
			createContent["creator"] = creator
		}
	}
	ev := r.mustAdd(creator, spec.MRoomCreate, af4Str(""), createContent)
	if r.verImpl.DomainlessRoomIDs() {
		r.roomID = ev.RoomID().String()
	}
	return r
}

// build builds (and signs with the key of signer) an event on top of the current state, without adding it.
func (r *af4Room) build(sender, signer, typ string, stateKey *string, content interface{}) (PDU, error) {
	cj, err := json.Marshal(content)
	if err != nil {
		return nil, err
	}
	proto := &ProtoEvent{SenderID: sender, RoomID: r.roomID, Type: typ, StateKey: stateKey, Content: cj, Depth: r.depth + 1, Version: r.verImpl}
	if typ == spec.MRoomCreate {
		proto.PrevEvents = []string{}
		proto.AuthEvents = []string{}
	} else {
		needed, err := StateNeededForProtoEvent(proto)
		if err != nil {
			return nil, err
		}
		prov, _ := NewAuthEvents(r.stateEvents())
		refs, err := needed.AuthEventReferences(prov)
		if err != nil {
			return nil, err
		}
		ids := []string{}
		for _, id := range refs {
			if r.verImpl.DomainlessRoomIDs() && id == "$"+r.roomID[1:] {
				continue // v12: the create event is implied
			}
			ids = append(ids, id)
		}
		proto.AuthEvents = ids
		proto.PrevEvents = []string{r.events[len(r.events)-1].EventID()}
	}
	k := af4Key(signer)
	r.ts = r.ts.Add(time.Second)
	return r.verImpl.NewEventBuilderFromProtoEvent(proto).Build(r.ts, spec.ServerName(signer), k.keyID, k.priv)
}

func (r *af4Room) add(ev PDU) {
	r.events = append(r.events, ev)
	r.byID[ev.EventID()] = ev
	r.depth = ev.Depth()
	if ev.StateKey() != nil {
		r.state[StateKeyTuple{EventType: ev.Type(), StateKey: *ev.StateKey()}] = ev
	}
}

// mustAdd builds an event signed by its sender's server, checks that the auth rules allow it, and appends it.
func (r *af4Room) mustAdd(sender, typ string, stateKey *string, content interface{}) PDU {
	ev, err := r.build(sender, af4Domain(sender), typ, stateKey, content)
	if err != nil {
		r.t.Fatalf("building %s: %v", typ, err)
	}
	if typ != spec.MRoomCreate {
		prov, _ := NewAuthEvents(r.stateEvents())
		if err := Allowed(ev, prov, af4UserIDForSender); err != nil {
			r.t.Fatalf("test set-up: %s event is not allowed: %v", typ, err)
		}
	}
	r.add(ev)
	return ev
}

// stateEvents returns the current state in the order of the history.
func (r *af4Room) stateEvents() []PDU {
	out := []PDU{}
	for _, ev := range r.events {
		if ev.StateKey() != nil && r.state[StateKeyTuple{EventType: ev.Type(), StateKey: *ev.StateKey()}] == ev {
			out = append(out, ev)
		}
	}
	return out
}

// authChain returns every event reachable from evs through auth_events.
func (r *af4Room) authChain(evs []PDU) []PDU {
	seen := map[string]bool{}
	var out []PDU
	var walk func(e PDU)
	walk = func(e PDU) {
		for _, id := range e.AuthEventIDs() {
			if ae, ok := r.byID[id]; ok && !seen[id] {
				seen[id] = true
				out = append(out, ae)
				walk(ae)
			}
		}
	}
	for _, e := range evs {
		walk(e)
	}
	return out
}

// af4StdRoom: @alice:hs1 creates the room, joins, sets power levels (invite needs 50) and makes it public.
func af4StdRoom(t *testing.T, ver RoomVersion, joinRule map[string]interface{}) *af4Room {
	alice := "@alice:hs1"
	r := af4NewRoom(t, ver, alice, nil)
	r.mustAdd(alice, spec.MRoomMember, af4Str(alice), map[string]interface{}{"membership": "join"})
	users := map[string]interface{}{alice: 100}
	if r.verImpl.PrivilegedCreators() {
		users = map[string]interface{}{} // v12: creators must not be listed
	}
	r.mustAdd(alice, spec.MRoomPowerLevels, af4Str(""), map[string]interface{}{
		"users": users, "users_default": 0, "events_default": 0, "state_default": 50, "ban": 50, "kick": 50, "redact": 50, "invite": 50,
	})
	if joinRule == nil {
		joinRule = map[string]interface{}{"join_rule": "public"}
	}
	r.mustAdd(alice, spec.MRoomJoinRules, af4Str(""), joinRule)
	return r
}

var af4Versions = []RoomVersion{
	RoomVersionV1, RoomVersionV2, RoomVersionV3, RoomVersionV4, RoomVersionV5, RoomVersionV6,
	RoomVersionV7, RoomVersionV8, RoomVersionV9, RoomVersionV10, RoomVersionV11, RoomVersionV12,
}
