package gomatrixserverlib

// Audit finding 1 (property C14). Belongs in the package root directory
// (package gomatrixserverlib). Run: go test -vet=off -count=1 -run TestAuditFinding1 .

import (
	"context"
	"crypto/ed25519"
	"crypto/sha256"
	"encoding/json"
	"testing"
	"time"

	"github.com/matrix-org/gomatrixserverlib/spec"
)

// af1Backfiller is a BackfillRequester over a locally known room history; the
// remote server it "asks" answers the /backfill request with the given PDUs.
type af1Backfiller struct {
	r    *af1Room
	pdus []json.RawMessage
}

func (b *af1Backfiller) stateBefore(event PDU) []PDU {
	st := map[StateKeyTuple]PDU{}
	var order []StateKeyTuple
	for _, e := range b.r.events {
		if e.EventID() == event.EventID() {
			break
		}
		if e.StateKey() != nil {
			k := StateKeyTuple{EventType: e.Type(), StateKey: *e.StateKey()}
			if _, ok := st[k]; !ok {
				order = append(order, k)
			}
			st[k] = e
		}
	}
	var out []PDU
	for _, k := range order {
		out = append(out, st[k])
	}
	return out
}
func (b *af1Backfiller) StateIDsBeforeEvent(ctx context.Context, event PDU) ([]string, error) {
	var ids []string
	for _, e := range b.stateBefore(event) {
		ids = append(ids, e.EventID())
	}
	return ids, nil
}
func (b *af1Backfiller) StateBeforeEvent(ctx context.Context, roomVer RoomVersion, event PDU, eventIDs []string) (map[string]PDU, error) {
	out := map[string]PDU{}
	for _, e := range b.stateBefore(event) {
		out[e.EventID()] = e
	}
	return out, nil
}
func (b *af1Backfiller) Backfill(ctx context.Context, origin, server spec.ServerName, roomID string, limit int, fromEventIDs []string) (Transaction, error) {
	return Transaction{PDUs: b.pdus}, nil
}
func (b *af1Backfiller) ServersAtEvent(ctx context.Context, roomID, eventID string) []spec.ServerName {
	return []spec.ServerName{"hs1"}
}
func (b *af1Backfiller) ProvideEvents(roomVer RoomVersion, eventIDs []string) ([]PDU, error) {
	var out []PDU
	for _, id := range eventIDs {
		if e, ok := b.r.byID[id]; ok {
			out = append(out, e)
		}
	}
	return out, nil
}

// A /backfill answer contains one genuine message and one event forged wholesale:
// "@mallory:hs3" (who never joined the room) makes herself admin, and the event is
// not signed by hs3 at all (it carries a signature made with some other key).
// The forged event fails the signature check AND the auth checks, yet
// RequestBackfill returns it as "safe to be inserted into a database".
func TestAuditFinding1(t *testing.T) {
	for _, ver := range af1Versions {
		r := af1StdRoom(t, ver, nil)
		msg := r.mustAdd("@alice:hs1", "m.room.message", nil, map[string]interface{}{"body": "hi"})

		// signed with the key of the server "evil"; the verifier knows no key of hs3
		forged, err := r.build("@mallory:hs3", "evil", spec.MRoomPowerLevels, af1Str(""),
			map[string]interface{}{"users": map[string]interface{}{"@mallory:hs3": 100}})
		if err != nil {
			t.Fatal(err)
		}

		// control: the forged event does fail both checks
		if err = VerifyEventSignatures(context.Background(), forged, af1KeyRing("hs1", "hs2"), af1UserIDForSender); err == nil {
			t.Fatalf("v%s: test set-up: forged event passes the signature check", ver)
		}
		b := &af1Backfiller{r: r, pdus: []json.RawMessage{msg.JSON(), forged.JSON()}}
		if err = VerifyEventAuthChain(context.Background(), forged, b.ProvideEvents, af1UserIDForSender); err == nil {
			t.Fatalf("v%s: test set-up: forged event passes the auth check", ver)
		}

		res, err := RequestBackfill(context.Background(), "me", b, af1KeyRing("hs1", "hs2"),
			r.roomID, ver, []string{msg.EventID()}, 10, af1UserIDForSender)
		if err != nil {
			t.Fatalf("v%s: RequestBackfill: %v", ver, err)
		}
		gotMsg := false
		for _, e := range res {
			if e.EventID() == msg.EventID() {
				gotMsg = true
			}
			if e.EventID() == forged.EventID() {
				t.Errorf("room version %s: RequestBackfill returned a forged %s event by %s that has no valid signature and is not allowed by its auth events",
					ver, e.Type(), e.SenderID())
			}
		}
		if !gotMsg {
			t.Errorf("room version %s: the genuine message is missing from the result", ver)
		}
	}
}

// ---------------------------------------------------------------------------
// helpers (self-contained; names carry the af1 prefix so that the finding
// files can be dropped into the package together)
// ---------------------------------------------------------------------------

type af1Keys struct {
	keyID KeyID
	priv  ed25519.PrivateKey
	pub   ed25519.PublicKey
}

// af1Key derives the (deterministic) signing key of a server from its name.
func af1Key(server string) af1Keys {
	seed := sha256.Sum256([]byte("seed-" + server))
	priv := ed25519.NewKeyFromSeed(seed[:])
	return af1Keys{keyID: "ed25519:a1", priv: priv, pub: priv.Public().(ed25519.PublicKey)}
}

// af1KeyDB is a key database that knows the keys of the listed servers only.
type af1KeyDB struct{ known map[string]bool }

func (d *af1KeyDB) FetcherName() string { return "af1KeyDB" }
func (d *af1KeyDB) FetchKeys(ctx context.Context, requests map[PublicKeyLookupRequest]spec.Timestamp) (map[PublicKeyLookupRequest]PublicKeyLookupResult, error) {
	res := map[PublicKeyLookupRequest]PublicKeyLookupResult{}
	for req := range requests {
		k := af1Key(string(req.ServerName))
		if !d.known[string(req.ServerName)] || req.KeyID != k.keyID {
			continue
		}
		res[req] = PublicKeyLookupResult{
			VerifyKey:    VerifyKey{Key: spec.Base64Bytes(k.pub)},
			ValidUntilTS: spec.AsTimestamp(time.Now().Add(24 * time.Hour)),
			ExpiredTS:    PublicKeyNotExpired,
		}
	}
	return res, nil
}
func (d *af1KeyDB) StoreKeys(ctx context.Context, results map[PublicKeyLookupRequest]PublicKeyLookupResult) error {
	return nil
}

func af1KeyRing(servers ...string) *KeyRing {
	db := &af1KeyDB{known: map[string]bool{}}
	for _, s := range servers {
		db.known[s] = true
	}
	return &KeyRing{KeyDatabase: db}
}

func af1UserIDForSender(roomID spec.RoomID, senderID spec.SenderID) (*spec.UserID, error) {
	return spec.NewUserID(string(senderID), true)
}

func af1Domain(user string) string {
	_, d, err := SplitID('@', user)
	if err != nil {
		panic(err)
	}
	return string(d)
}

func af1Str(s string) *string { return &s }

// af1Room builds a small, correctly signed room history in any room version.
type af1Room struct {
	t       *testing.T
	ver     RoomVersion
	verImpl IRoomVersion
	roomID  string
	events  []PDU
	state   map[StateKeyTuple]PDU
	byID    map[string]PDU
	depth   int64
	ts      time.Time
}

func af1NewRoom(t *testing.T, ver RoomVersion, creator string, createContent map[string]interface{}) *af1Room {
	r := &af1Room{t: t, ver: ver, verImpl: MustGetRoomVersion(ver), state: map[StateKeyTuple]PDU{}, byID: map[string]PDU{}, ts: time.Now().Add(-time.Hour)}
	if !r.verImpl.DomainlessRoomIDs() {
		r.roomID = "!room:" + af1Domain(creator)
	}
	if createContent == nil {
		createContent = map[string]interface{}{"room_version": string(ver)}
		if ver == RoomVersionV1 {
			createContent = map[string]interface{}{}
		}
		switch ver {
		case RoomVersionV11, RoomVersionV12:
		default:
			createContent["creator"] = creator
		}
	}
	ev := r.mustAdd(creator, spec.MRoomCreate, af1Str(""), createContent)
	if r.verImpl.DomainlessRoomIDs() {
		r.roomID = ev.RoomID().String()
	}
	return r
}

// build builds (and signs with the key of signer) an event on top of the current state, without adding it.
func (r *af1Room) build(sender, signer, typ string, stateKey *string, content interface{}) (PDU, error) {
	cj, err := json.Marshal(content)
	if err != nil {
		return nil, err
	}
	proto := &ProtoEvent{SenderID: sender, RoomID: r.roomID, Type: typ, StateKey: stateKey, Content: cj, Depth: r.depth + 1, Version: r.verImpl}
	if typ == spec.MRoomCreate {
		proto.PrevEvents = []string{}
		proto.AuthEvents = []string{}
	} else {
		needed, err := StateNeededForProtoEvent(proto)
		if err != nil {
			return nil, err
		}
		prov, _ := NewAuthEvents(r.stateEvents())
		refs, err := needed.AuthEventReferences(prov)
		if err != nil {
			return nil, err
		}
		ids := []string{}
		for _, id := range refs {
			if r.verImpl.DomainlessRoomIDs() && id == "$"+r.roomID[1:] {
				continue // v12: the create event is implied
			}
			ids = append(ids, id)
		}
		proto.AuthEvents = ids
		proto.PrevEvents = []string{r.events[len(r.events)-1].EventID()}
	}
	k := af1Key(signer)
	r.ts = r.ts.Add(time.Second)
	return r.verImpl.NewEventBuilderFromProtoEvent(proto).Build(r.ts, spec.ServerName(signer), k.keyID, k.priv)
}

func (r *af1Room) add(ev PDU) {
	r.events = append(r.events, ev)
	r.byID[ev.EventID()] = ev
	r.depth = ev.Depth()
	if ev.StateKey() != nil {
		r.state[StateKeyTuple{EventType: ev.Type(), StateKey: *ev.StateKey()}] = ev
	}
}

// mustAdd builds an event signed by its sender's server, checks that the auth rules allow it, and appends it.
func (r *af1Room) mustAdd(sender, typ string, stateKey *string, content interface{}) PDU {
	ev, err := r.build(sender, af1Domain(sender), typ, stateKey, content)
	if err != nil {
		r.t.Fatalf("building %s: %v", typ, err)
	}
	if typ != spec.MRoomCreate {
		prov, _ := NewAuthEvents(r.stateEvents())
		if err := Allowed(ev, prov, af1UserIDForSender); err != nil {
			r.t.Fatalf("test set-up: %s event is not allowed: %v", typ, err)
		}
	}
	r.add(ev)
	return ev
}

// stateEvents returns the current state in the order of the history.
func (r *af1Room) stateEvents() []PDU {
	out := []PDU{}
	for _, ev := range r.events {
		if ev.StateKey() != nil && r.state[StateKeyTuple{EventType: ev.Type(), StateKey: *ev.StateKey()}] == ev {
			out = append(out, ev)
		}
	}
	return out
}

// authChain returns every event reachable from evs through auth_events.
func (r *af1Room) authChain(evs []PDU) []PDU {
	seen := map[string]bool{}
	var out []PDU
	var walk func(e PDU)
	walk = func(e PDU) {
		for _, id := range e.AuthEventIDs() {
			if ae, ok := r.byID[id]; ok && !seen[id] {
				seen[id] = true
				out = append(out, ae)
				walk(ae)
			}
		}
	}
	for _, e := range evs {
		walk(e)
	}
	return out
}

// af1StdRoom: @alice:hs1 creates the room, joins, sets power levels (invite needs 50) and makes it public.
func af1StdRoom(t *testing.T, ver RoomVersion, joinRule map[string]interface{}) *af1Room {
	alice := "@alice:hs1"
	r := af1NewRoom(t, ver, alice, nil)
	r.mustAdd(alice, spec.MRoomMember, af1Str(alice), map[string]interface{}{"membership": "join"})
	users := map[string]interface{}{alice: 100}
	if r.verImpl.PrivilegedCreators() {
		users = map[string]interface{}{} // v12: creators must not be listed
	}
	r.mustAdd(alice, spec.MRoomPowerLevels, af1Str(""), map[string]interface{}{
		"users": users, "users_default": 0, "events_default": 0, "state_default": 50, "ban": 50, "kick": 50, "redact": 50, "invite": 50,
	})
	if joinRule == nil {
		joinRule = map[string]interface{}{"join_rule": "public"}
	}
	r.mustAdd(alice, spec.MRoomJoinRules, af1Str(""), joinRule)
	return r
}

var af1Versions = []RoomVersion{
	RoomVersionV1, RoomVersionV2, RoomVersionV3, RoomVersionV4, RoomVersionV5, RoomVersionV6,
	RoomVersionV7, RoomVersionV8, RoomVersionV9, RoomVersionV10, RoomVersionV11, RoomVersionV12,
}
