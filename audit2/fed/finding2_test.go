package gomatrixserverlib

// Audit finding 2 (property C14). Belongs in the package root directory
// (package gomatrixserverlib). Run: go test -vet=off -count=1 -run TestAuditFinding2 .

import (
	"context"
	"crypto/ed25519"
	"crypto/sha256"
	"encoding/json"
	"testing"
	"time"

	"github.com/matrix-org/gomatrixserverlib/spec"
	"github.com/tidwall/sjson"
)

type af2StateResp struct{ auth, state EventJSONs }

func (s *af2StateResp) GetAuthEvents() EventJSONs  { return s.auth }
func (s *af2StateResp) GetStateEvents() EventJSONs { return s.state }

// A /state (or /send_join) answer normally lists the current power levels twice:
// once in "pdus"/"state" and once in "auth_chain". Here the copy in the auth
// chain has a broken signature, the copy in the state is intact.
//
//   - The intact, allowed copy is dropped from the returned state (CheckStateResponse
//     keys its failures by event ID, so one bad copy condemns every copy), and
//   - @bob:hs2's invite of @carol:hs2, which cites those power levels (invite needs
//     level 50, bob has 0), is judged without them and is returned as a valid state
//     event, although the power levels it cites arrived with a verified signature
//     and forbid it.
func TestAuditFinding2(t *testing.T) {
	badSig := "AAAAAAAAAAAAAAAAAAAAAAAAAAAAAAAAAAAAAAAAAAAAAAAAAAAAAAAAAAAAAAAAAAAAAAAAAAAAAAAAAAAAAA"
	for _, ver := range af2Versions {
		r := af2StdRoom(t, ver, nil) // power levels: invite needs 50, everybody but alice has 0
		bob := "@bob:hs2"
		r.mustAdd(bob, spec.MRoomMember, af2Str(bob), map[string]interface{}{"membership": "join"})
		pl := r.state[StateKeyTuple{EventType: spec.MRoomPowerLevels, StateKey: ""}]

		// not allowed: bob (level 0) invites carol (invite needs 50). Correctly signed by hs2.
		invite, err := r.build(bob, "hs2", spec.MRoomMember, af2Str("@carol:hs2"), map[string]interface{}{"membership": "invite"})
		if err != nil {
			t.Fatal(err)
		}
		cited := false
		for _, id := range invite.AuthEventIDs() {
			cited = cited || id == pl.EventID()
		}
		if !cited {
			t.Fatalf("v%s: test set-up: the invite does not cite the power levels", ver)
		}
		r.add(invite)

		state := r.stateEvents()
		chain := r.authChain(state)
		resp := &af2StateResp{state: NewEventJSONsFromEvents(state), auth: NewEventJSONsFromEvents(chain)}
		broken := 0
		for i, e := range chain {
			if e.EventID() == pl.EventID() {
				resp.auth[i], err = sjson.SetBytes(e.JSON(), "signatures.hs1.ed25519:a1", badSig)
				if err != nil {
					t.Fatal(err)
				}
				broken++
			}
		}
		if broken != 1 {
			t.Fatalf("v%s: test set-up: power levels not in the auth chain", ver)
		}

		_, gotState, err := CheckStateResponse(context.Background(), resp, ver, af2KeyRing("hs1", "hs2"), nil, af2UserIDForSender)
		if err != nil {
			t.Fatalf("v%s: CheckStateResponse: %v", ver, err)
		}
		hasPL, hasInvite := false, false
		for _, e := range gotState {
			hasPL = hasPL || e.EventID() == pl.EventID()
			hasInvite = hasInvite || e.EventID() == invite.EventID()
		}
		if !hasPL {
			t.Errorf("room version %s: the validly signed and allowed m.room.power_levels state event was dropped because another copy of it (in the auth chain) has a bad signature", ver)
		}
		if hasInvite {
			t.Errorf("room version %s: bob's invite was returned although the power levels it cites (which arrived with a verified signature) forbid it", ver)
		}
	}
}

// ---------------------------------------------------------------------------
// helpers (self-contained; names carry the af2 prefix so that the finding
// files can be dropped into the package together)
// ---------------------------------------------------------------------------

type af2Keys struct {
	keyID KeyID
	priv  ed25519.PrivateKey
	pub   ed25519.PublicKey
}

// af2Key derives the (deterministic) signing key of a server from its name.
func af2Key(server string) af2Keys {
	seed := sha256.Sum256([]byte("seed-" + server))
	priv := ed25519.NewKeyFromSeed(seed[:])
	return af2Keys{keyID: "ed25519:a1", priv: priv, pub: priv.Public().(ed25519.PublicKey)}
}

// af2KeyDB is a key database that knows the keys of the listed servers only.
type af2KeyDB struct{ known map[string]bool }

func (d *af2KeyDB) FetcherName() string { return "af2KeyDB" }
func (d *af2KeyDB) FetchKeys(ctx context.Context, requests map[PublicKeyLookupRequest]spec.Timestamp) (map[PublicKeyLookupRequest]PublicKeyLookupResult, error) {
	res := map[PublicKeyLookupRequest]PublicKeyLookupResult{}
	for req := range requests {
		k := af2Key(string(req.ServerName))
		if !d.known[string(req.ServerName)] || req.KeyID != k.keyID {
			continue
		}
		res[req] = PublicKeyLookupResult{
			VerifyKey:    VerifyKey{Key: spec.Base64Bytes(k.pub)},
			ValidUntilTS: spec.AsTimestamp(time.Now().Add(24 * time.Hour)),
			ExpiredTS:    PublicKeyNotExpired,
		}
	}
	return res, nil
}
func (d *af2KeyDB) StoreKeys(ctx context.Context, results map[PublicKeyLookupRequest]PublicKeyLookupResult) error {
	return nil
}

func af2KeyRing(servers ...string) *KeyRing {
	db := &af2KeyDB{known: map[string]bool{}}
	for _, s := range servers {
		db.known[s] = true
	}
	return &KeyRing{KeyDatabase: db}
}

func af2UserIDForSender(roomID spec.RoomID, senderID spec.SenderID) (*spec.UserID, error) {
	return spec.NewUserID(string(senderID), true)
}

func af2Domain(user string) string {
	_, d, err := SplitID('@', user)
	if err != nil {
		panic(err)
	}
	return string(d)
}

func af2Str(s string) *string { return &s }

// af2Room builds a small, correctly signed room history in any room version.
type af2Room struct {
	t       *testing.T
	ver     RoomVersion
	verImpl IRoomVersion
	roomID  string
	events  []PDU
	state   map[StateKeyTuple]PDU
	byID    map[string]PDU
	depth   int64
	ts      time.Time
}

func af2NewRoom(t *testing.T, ver RoomVersion, creator string, createContent map[string]interface{}) *af2Room {
	r := &af2Room{t: t, ver: ver, verImpl: MustGetRoomVersion(ver), state: map[StateKeyTuple]PDU{}, byID: map[string]PDU{}, ts: time.Now().Add(-time.Hour)}
	if !r.verImpl.DomainlessRoomIDs() {
		r.roomID = "!room:" + af2Domain(creator)
	}
	if createContent == nil {
		createContent = map[string]interface{}{"room_version": string(ver)}
		if ver == RoomVersionV1 {
			createContent = map[string]interface{}{}
		}
		switch ver {
		case RoomVersionV11, RoomVersionV12:
		default:
			createContent["creator"] = creator
		}
	}
	ev := r.mustAdd(creator, spec.MRoomCreate, af2Str(""), createContent)
	if r.verImpl.DomainlessRoomIDs() {
		r.roomID = ev.RoomID().String()
	}
	return r
}

// build builds (and signs with the key of signer) an event on top of the current state, without adding it.
func (r *af2Room) build(sender, signer, typ string, stateKey *string, content interface{}) (PDU, error) {
	cj, err := json.Marshal(content)
	if err != nil {
		return nil, err
	}
	proto := &ProtoEvent{SenderID: sender, RoomID: r.roomID, Type: typ, StateKey: stateKey, Content: cj, Depth: r.depth + 1, Version: r.verImpl}
	if typ == spec.MRoomCreate {
		proto.PrevEvents = []string{}
		proto.AuthEvents = []string{}
	} else {
		needed, err := StateNeededForProtoEvent(proto)
		if err != nil {
			return nil, err
		}
		prov, _ := NewAuthEvents(r.stateEvents())
		refs, err := needed.AuthEventReferences(prov)
		if err != nil {
			return nil, err
		}
		ids := []string{}
		for _, id := range refs {
			if r.verImpl.DomainlessRoomIDs() && id == "$"+r.roomID[1:] {
				continue // v12: the create event is implied
			}
			ids = append(ids, id)
		}
		proto.AuthEvents = ids
		proto.PrevEvents = []string{r.events[len(r.events)-1].EventID()}
	}
	k := af2Key(signer)
	r.ts = r.ts.Add(time.Second)
	return r.verImpl.NewEventBuilderFromProtoEvent(proto).Build(r.ts, spec.ServerName(signer), k.keyID, k.priv)
}

func (r *af2Room) add(ev PDU) {
	r.events = append(r.events, ev)
	r.byID[ev.EventID()] = ev
	r.depth = ev.Depth()
	if ev.StateKey() != nil {
		r.state[StateKeyTuple{EventType: ev.Type(), StateKey: *ev.StateKey()}] = ev
	}
}

// mustAdd builds an event signed by its sender's server, checks that the auth rules allow it, and appends it.
func (r *af2Room) mustAdd(sender, typ string, stateKey *string, content interface{}) PDU {
	ev, err := r.build(sender, af2Domain(sender), typ, stateKey, content)
	if err != nil {
		r.t.Fatalf("building %s: %v", typ, err)
	}
	if typ != spec.MRoomCreate {
		prov, _ := NewAuthEvents(r.stateEvents())
		if err := Allowed(ev, prov, af2UserIDForSender); err != nil {
			r.t.Fatalf("test set-up: %s event is not allowed: %v", typ, err)
		}
	}
	r.add(ev)
	return ev
}

// stateEvents returns the current state in the order of the history.
func (r *af2Room) stateEvents() []PDU {
	out := []PDU{}
	for _, ev := range r.events {
		if ev.StateKey() != nil && r.state[StateKeyTuple{EventType: ev.Type(), StateKey: *ev.StateKey()}] == ev {
			out = append(out, ev)
		}
	}
	return out
}

// authChain returns every event reachable from evs through auth_events.
func (r *af2Room) authChain(evs []PDU) []PDU {
	seen := map[string]bool{}
	var out []PDU
	var walk func(e PDU)
	walk = func(e PDU) {
		for _, id := range e.AuthEventIDs() {
			if ae, ok := r.byID[id]; ok && !seen[id] {
				seen[id] = true
				out = append(out, ae)
				walk(ae)
			}
		}
	}
	for _, e := range evs {
		walk(e)
	}
	return out
}

// af2StdRoom: @alice:hs1 creates the room, joins, sets power levels (invite needs 50) and makes it public.
func af2StdRoom(t *testing.T, ver RoomVersion, joinRule map[string]interface{}) *af2Room {
	alice := "@alice:hs1"
	r := af2NewRoom(t, ver, alice, nil)
	r.mustAdd(alice, spec.MRoomMember, af2Str(alice), map[string]interface{}{"membership": "join"})
	users := map[string]interface{}{alice: 100}
	if r.verImpl.PrivilegedCreators() {
		users = map[string]interface{}{} // v12: creators must not be listed
	}
	r.mustAdd(alice, spec.MRoomPowerLevels, af2Str(""), map[string]interface{}{
		"users": users, "users_default": 0, "events_default": 0, "state_default": 50, "ban": 50, "kick": 50, "redact": 50, "invite": 50,
	})
	if joinRule == nil {
		joinRule = map[string]interface{}{"join_rule": "public"}
	}
	r.mustAdd(alice, spec.MRoomJoinRules, af2Str(""), joinRule)
	return r
}

var af2Versions = []RoomVersion{
	RoomVersionV1, RoomVersionV2, RoomVersionV3, RoomVersionV4, RoomVersionV5, RoomVersionV6,
	RoomVersionV7, RoomVersionV8, RoomVersionV9, RoomVersionV10, RoomVersionV11, RoomVersionV12,
}
