package gomatrixserverlib

// Audit finding 5 (property C15, HandleMakeJoin). Belongs in the package root directory
// (package gomatrixserverlib). Run: go test -vet=off -count=1 -run TestAuditFinding5 .

import (
	"context"
	"crypto/ed25519"
	"crypto/sha256"
	"encoding/json"
	"testing"
	"time"

	"github.com/matrix-org/gomatrixserverlib/spec"
)

// af5Querier answers the restricted-join questions from the room history. The
// joining user is a member of the allowed room, and the local server (hs1) is
// resident there.
type af5Querier struct {
	r           *af5Room
	joinedUsers []PDU
}

func (q *af5Querier) CurrentStateEvent(ctx context.Context, roomID spec.RoomID, eventType string, stateKey string) (PDU, error) {
	if e, ok := q.r.state[StateKeyTuple{EventType: eventType, StateKey: stateKey}]; ok {
		return e, nil
	}
	return nil, nil
}
func (q *af5Querier) InvitePending(ctx context.Context, roomID spec.RoomID, senderID spec.SenderID) (bool, error) {
	return false, nil
}
func (q *af5Querier) RestrictedRoomJoinInfo(ctx context.Context, roomID spec.RoomID, senderID spec.SenderID, localServerName spec.ServerName) (*RestrictedRoomJoinInfo, error) {
	return &RestrictedRoomJoinInfo{LocalServerInRoom: true, UserJoinedToRoom: true, JoinedUsers: q.joinedUsers}, nil
}

// Restricted room on the local server hs1. The only users who may invite (level 50)
// are @alice:hs1 (local) and @erin:hs3 (remote). HandleMakeJoin must only hand out a
// template if a LOCAL user entitled to invite can authorise the join: the local server
// is going to countersign the join in that user's name, and HandleSendJoin refuses a
// join whose join_authorised_via_users_server is not local. checkRestrictedJoin takes
// the first sufficiently powerful entry of RestrictedRoomJoinInfo.JoinedUsers without
// looking at its server name (it is given localServerName but only passes it on to the
// querier), so with @erin:hs3 among the joined users it returns a template that names
// a user of another server as the authoriser.
func TestAuditFinding5(t *testing.T) {
	alice, dave, erin, bob := "@alice:hs1", "@dave:hs1", "@erin:hs3", "@bob:hs2"
	for _, ver := range []RoomVersion{RoomVersionV8, RoomVersionV9, RoomVersionV10, RoomVersionV11, RoomVersionV12} {
		r := af5StdRoom(t, ver, map[string]interface{}{
			"join_rule": "restricted",
			"allow":     []interface{}{map[string]interface{}{"type": "m.room_membership", "room_id": "!allowed:hs1"}},
		})
		r.mustAdd(alice, spec.MRoomMember, af5Str(dave), map[string]interface{}{"membership": "invite"})
		r.mustAdd(dave, spec.MRoomMember, af5Str(dave), map[string]interface{}{"membership": "join"})
		r.mustAdd(alice, spec.MRoomMember, af5Str(erin), map[string]interface{}{"membership": "invite"})
		r.mustAdd(erin, spec.MRoomMember, af5Str(erin), map[string]interface{}{"membership": "join"})
		users := map[string]interface{}{alice: 100, erin: 100}
		if r.verImpl.PrivilegedCreators() {
			users = map[string]interface{}{erin: 100}
		}
		r.mustAdd(alice, spec.MRoomPowerLevels, af5Str(""), map[string]interface{}{"users": users, "invite": 50, "state_default": 50})
		member := func(u string) PDU { return r.state[StateKeyTuple{EventType: spec.MRoomMember, StateKey: u}] }

		for _, tc := range []struct {
			name   string
			joined []PDU
			want   string // expected authoriser, "" = no template
		}{
			{"control: local admin alice", []PDU{member(dave), member(alice)}, alice},
			{"control: only powerless local user dave", []PDU{member(dave)}, ""},
			{"remote admin erin listed", []PDU{member(dave), member(erin)}, ""},
			{"remote admin erin listed before local admin alice", []PDU{member(erin), member(alice)}, alice},
		} {
			uid, _ := spec.NewUserID(bob, true)
			rid, _ := spec.NewRoomID(r.roomID)
			resp, err := HandleMakeJoin(HandleMakeJoinInput{
				Context: context.Background(), UserID: *uid, SenderID: spec.SenderID(bob), RoomID: *rid, RoomVersion: ver,
				RemoteVersions: []RoomVersion{ver}, RequestOrigin: "hs2", LocalServerName: "hs1", LocalServerInRoom: true,
				RoomQuerier: &af5Querier{r: r, joinedUsers: tc.joined}, UserIDQuerier: af5UserIDForSender,
				BuildEventTemplate: func(p *ProtoEvent) (PDU, []PDU, error) {
					var c map[string]interface{}
					if err := json.Unmarshal(p.Content, &c); err != nil {
						return nil, nil, err
					}
					ev, err := r.build(p.SenderID, "hs2", p.Type, p.StateKey, c)
					if err != nil {
						return nil, nil, err
					}
					p.AuthEvents, p.PrevEvents, p.Depth = ev.AuthEventIDs(), ev.PrevEventIDs(), ev.Depth()
					return ev, r.stateEvents(), nil
				},
			})
			got := ""
			if err == nil {
				var mc MemberContent
				if err := json.Unmarshal(resp.JoinTemplateEvent.Content, &mc); err != nil {
					t.Fatal(err)
				}
				got = mc.AuthorisedVia
				if got == "" {
					t.Errorf("room version %s, %s: template for a restricted room without an authorising user", ver, tc.name)
					continue
				}
			}
			if got != "" && af5Domain(got) != "hs1" {
				t.Errorf("room version %s, %s: template names %s, a user of another server, as join_authorised_via_users_server (local server is hs1)", ver, tc.name, got)
			} else if got != tc.want {
				t.Errorf("room version %s, %s: authorised via %q, want %q (err: %v)", ver, tc.name, got, tc.want, err)
			}
		}
	}
}

// ---------------------------------------------------------------------------
// helpers (self-contained; names carry the af5 prefix so that the finding
// files can be dropped into the package together)
// ---------------------------------------------------------------------------

type af5Keys struct {
	keyID KeyID
	priv  ed25519.PrivateKey
	pub   ed25519.PublicKey
}

// af5Key derives the (deterministic) signing key of a server from its name.
func af5Key(server string) af5Keys {
	seed := sha256.Sum256([]byte("seed-" + server))
	priv := ed25519.NewKeyFromSeed(seed[:])
	return af5Keys{keyID: "ed25519:a1", priv: priv, pub: priv.Public().(ed25519.PublicKey)}
}

// af5KeyDB is a key database that knows the keys of the listed servers only.
type af5KeyDB struct{ known map[string]bool }

func (d *af5KeyDB) FetcherName() string { return "af5KeyDB" }
func (d *af5KeyDB) FetchKeys(ctx context.Context, requests map[PublicKeyLookupRequest]spec.Timestamp) (map[PublicKeyLookupRequest]PublicKeyLookupResult, error) {
	res := map[PublicKeyLookupRequest]PublicKeyLookupResult{}
	for req := range requests {
		k := af5Key(string(req.ServerName))
		if !d.known[string(req.ServerName)] || req.KeyID != k.keyID {
			continue
		}
		res[req] = PublicKeyLookupResult{
			VerifyKey:    VerifyKey{Key: spec.Base64Bytes(k.pub)},
			ValidUntilTS: spec.AsTimestamp(time.Now().Add(24 * time.Hour)),
			ExpiredTS:    PublicKeyNotExpired,
		}
	}
	return res, nil
}
func (d *af5KeyDB) StoreKeys(ctx context.Context, results map[PublicKeyLookupRequest]PublicKeyLookupResult) error {
	return nil
}

func af5KeyRing(servers ...string) *KeyRing {
	db := &af5KeyDB{known: map[string]bool{}}
	for _, s := range servers {
		db.known[s] = true
	}
	return &KeyRing{KeyDatabase: db}
}

func af5UserIDForSender(roomID spec.RoomID, senderID spec.SenderID) (*spec.UserID, error) {
	return spec.NewUserID(string(senderID), true)
}

func af5Domain(user string) string {
	_, d, err := SplitID('@', user)
	if err != nil {
		panic(err)
	}
	return string(d)
}

func af5Str(s string) *string { return &s }

// af5Room builds a small, correctly signed room history in any room version.
type af5Room struct {
	t       *testing.T
	ver     RoomVersion
	verImpl IRoomVersion
	roomID  string
	events  []PDU
	state   map[StateKeyTuple]PDU
	byID    map[string]PDU
	depth   int64
	ts      time.Time
}

func af5NewRoom(t *testing.T, ver RoomVersion, creator string, createContent map[string]interface{}) *af5Room {
	r := &af5Room{t: t, ver: ver, verImpl: MustGetRoomVersion(ver), state: map[StateKeyTuple]PDU{}, byID: map[string]PDU{}, ts: time.Now().Add(-time.Hour)}
	if !r.verImpl.DomainlessRoomIDs() {
		r.roomID = "!room:" + af5Domain(creator)
	}
	if createContent == nil {
		createContent = map[string]interface{}{"room_version": string(ver)}
		if ver == RoomVersionV1 {
			createContent = map[string]interface{}{}
		}
		switch ver {
		case RoomVersionV11, RoomVersionV12:
		default:
			createContent["creator"] = creator
		}
	}
	ev := r.mustAdd(creator, spec.MRoomCreate, af5Str(""), createContent)
	if r.verImpl.DomainlessRoomIDs() {
		r.roomID = ev.RoomID().String()
	}
	return r
}

// build builds (and signs with the key of signer) an event on top of the current state, without adding it.
func (r *af5Room) build(sender, signer, typ string, stateKey *string, content interface{}) (PDU, error) {
	cj, err := json.Marshal(content)
	if err != nil {
		return nil, err
	}
	proto := &ProtoEvent{SenderID: sender, RoomID: r.roomID, Type: typ, StateKey: stateKey, Content: cj, Depth: r.depth + 1, Version: r.verImpl}
	if typ == spec.MRoomCreate {
		proto.PrevEvents = []string{}
		proto.AuthEvents = []string{}
	} else {
		needed, err := StateNeededForProtoEvent(proto)
		if err != nil {
			return nil, err
		}
		prov, _ := NewAuthEvents(r.stateEvents())
		refs, err := needed.AuthEventReferences(prov)
		if err != nil {
			return nil, err
		}
		ids := []string{}
		for _, id := range refs {
			if r.verImpl.DomainlessRoomIDs() && id == "$"+r.roomID[1:] {
				continue // v12: the create event is implied
			}
			ids = append(ids, id)
		}
		proto.AuthEvents = ids
		proto.PrevEvents = []string{r.events[len(r.events)-1].EventID()}
	}
	k := af5Key(signer)
	r.ts = r.ts.Add(time.Second)
	return r.verImpl.NewEventBuilderFromProtoEvent(proto).Build(r.ts, spec.ServerName(signer), k.keyID, k.priv)
}

func (r *af5Room) add(ev PDU) {
	r.events = append(r.events, ev)
	r.byID[ev.EventID()] = ev
	r.depth = ev.Depth()
	if ev.StateKey() != nil {
		r.state[StateKeyTuple{EventType: ev.Type(), StateKey: *ev.StateKey()}] = ev
	}
}

// mustAdd builds an event signed by its sender's server, checks that the auth rules allow it, and appends it.
func (r *af5Room) mustAdd(sender, typ string, stateKey *string, content interface{}) PDU {
	ev, err := r.build(sender, af5Domain(sender), typ, stateKey, content)
	if err != nil {
		r.t.Fatalf("building %s: %v", typ, err)
	}
	if typ != spec.MRoomCreate {
		prov, _ := NewAuthEvents(r.stateEvents())
		if err := Allowed(ev, prov, af5UserIDForSender); err != nil {
			r.t.Fatalf("test set-up: %s event is not allowed: %v", typ, err)
		}
	}
	r.add(ev)
	return ev
}

// stateEvents returns the current state in the order of the history.
func (r *af5Room) stateEvents() []PDU {
	out := []PDU{}
	for _, ev := range r.events {
		if ev.StateKey() != nil && r.state[StateKeyTuple{EventType: ev.Type(), StateKey: *ev.StateKey()}] == ev {
			out = append(out, ev)
		}
	}
	return out
}

// authChain returns every event reachable from evs through auth_events.
func (r *af5Room) authChain(evs []PDU) []PDU {
	seen := map[string]bool{}
	var out []PDU
	var walk func(e PDU)
	walk = func(e PDU) {
		for _, id := range e.AuthEventIDs() {
			if ae, ok := r.byID[id]; ok && !seen[id] {
				seen[id] = true
				out = append(out, ae)
				walk(ae)
			}
		}
	}
	for _, e := range evs {
		walk(e)
	}
	return out
}

// af5StdRoom: @alice:hs1 creates the room, joins, sets power levels (invite needs 50) and makes it public.
func af5StdRoom(t *testing.T, ver RoomVersion, joinRule map[string]interface{}) *af5Room {
	alice := "@alice:hs1"
	r := af5NewRoom(t, ver, alice, nil)
	r.mustAdd(alice, spec.MRoomMember, af5Str(alice), map[string]interface{}{"membership": "join"})
	users := map[string]interface{}{alice: 100}
	if r.verImpl.PrivilegedCreators() {
		users = map[string]interface{}{} // v12: creators must not be listed
	}
	r.mustAdd(alice, spec.MRoomPowerLevels, af5Str(""), map[string]interface{}{
		"users": users, "users_default": 0, "events_default": 0, "state_default": 50, "ban": 50, "kick": 50, "redact": 50, "invite": 50,
	})
	if joinRule == nil {
		joinRule = map[string]interface{}{"join_rule": "public"}
	}
	r.mustAdd(alice, spec.MRoomJoinRules, af5Str(""), joinRule)
	return r
}

var af5Versions = []RoomVersion{
	RoomVersionV1, RoomVersionV2, RoomVersionV3, RoomVersionV4, RoomVersionV5, RoomVersionV6,
	RoomVersionV7, RoomVersionV8, RoomVersionV9, RoomVersionV10, RoomVersionV11, RoomVersionV12,
}
