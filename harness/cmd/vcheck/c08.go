package main

import (
	"fmt"
	"sort"

	gmsl "github.com/matrix-org/gomatrixserverlib"

	"verif/gen"
	"verif/mon"
	"verif/ref"
)

func init() {
	register(&propDef{
		ID:    "C08",
		Level: "exploration",
		Rule: "three sub-workloads, every registered non-pseudo-ID version: (a) enumerated single-key changes: key in {7 thresholds, events[t], users[other], users[sender], notifications.room} x old value {absent,<,=,> sender} x new value {absent,<,=,> sender} x sender in {creator without power-levels event, admin, moderator, default-level user}; (b) random multi-key proposals against random current contents; (c) histories: sequences of 10-30 proposed power-level events by random joined users applied to a room one after the other. The monitor looks only at ACCEPTED events and checks the no-escalation invariant on effective values. " +
			"distinct = distinct (version, current content, proposed content, sender); non-trivial = the proposal differs from the current content and was accepted or differs in a key whose value relates to the sender's level",
		Assumptions: []string{"invariant evaluated on effective values (explicit value or specification default), the weakest reading", "independent of the C07 reference model: only accepted events are inspected", "abstains on JSON null levels and on notification levels equal to the sender's level"},
		Run:         runC08,
	})
}

const inf = int64(1) << 53

// effPL is the effective power-level view the C08 monitor uses (its own small
// parser: explicit integer-like values, else defaults).
type effPL struct {
	thr            map[string]int64
	users, events  map[string]int64
	notifs         map[string]int64
	nonInteger     bool // some level is not a JSON integer
	hasNull        bool
	unparsable     bool
}

var thrDefaults = map[string]int64{"ban": 50, "kick": 50, "redact": 50, "invite": 0, "events_default": 0, "state_default": 50, "users_default": 0}

func effLevel(v *ref.Value, e *effPL) (int64, bool) {
	switch v.K {
	case ref.Num:
		if n, ok := v.Int(); ok {
			return n, true
		}
		e.nonInteger = true
		return 0, false
	case ref.Str:
		e.nonInteger = true
		var n int64
		if _, err := fmt.Sscanf(v.S, "%d", &n); err == nil {
			return n, true
		}
		return 0, false
	case ref.Null:
		e.hasNull = true
		return 0, false
	}
	e.nonInteger = true
	e.unparsable = true
	return 0, false
}

func parseEff(c *ref.Value) *effPL {
	e := &effPL{thr: map[string]int64{}, users: map[string]int64{}, events: map[string]int64{}, notifs: map[string]int64{}}
	for k, d := range thrDefaults {
		e.thr[k] = d
	}
	if c == nil {
		return e
	}
	for _, m := range c.O {
		if _, ok := thrDefaults[m.Key]; ok {
			if n, ok := effLevel(m.Val, e); ok {
				e.thr[m.Key] = n
			}
			continue
		}
		var dst map[string]int64
		switch m.Key {
		case "users":
			dst = e.users
		case "events":
			dst = e.events
		case "notifications":
			dst = e.notifs
		default:
			continue
		}
		if m.Val.K == ref.Null {
			e.hasNull = true
			continue
		}
		if m.Val.K != ref.Obj {
			e.unparsable = true
			continue
		}
		for _, x := range m.Val.O {
			if n, ok := effLevel(x.Val, e); ok {
				dst[x.Key] = n
			}
		}
	}
	return e
}

func (e *effPL) user(u string) int64 {
	if l, ok := e.users[u]; ok {
		return l
	}
	return e.thr["users_default"]
}

func (e *effPL) event(t string) int64 {
	if l, ok := e.events[t]; ok {
		return l
	}
	return e.thr["events_default"]
}

func (e *effPL) eventAs(t string, asState bool) int64 {
	if l, ok := e.events[t]; ok {
		return l
	}
	if asState {
		return e.thr["state_default"]
	}
	return e.thr["events_default"]
}

func (e *effPL) notif(k string) int64 {
	if l, ok := e.notifs[k]; ok {
		return l
	}
	return 50
}

// checkNoEscalation is the C08 step monitor. cur == nil means "no power-levels event".
func checkNoEscalation(c *mon.Ctx, t *ref.VersionTraits, creators []string, cur, proposed *ref.Value, sender string, ctx string) {
	o, n := parseEff(cur), parseEff(proposed)
	if cur == nil {
		o.users[creators[0]] = inf - 1
	}
	if t.IntegerPLs && n.hasNull {
		// JSON null in the place of a level, or of a map of levels, is present and is not an integer
		c.Failf("pl:non-integer-level-accepted:null", "%s: accepted v%s power-levels event has null where a level or a map of levels belongs: %s", ctx, t.Version, gen.Describe(proposed))
		return
	}
	if o.hasNull || n.hasNull || o.unparsable {
		c.Count("step_abstained_null")
		return
	}
	isCreator := func(u string) bool {
		for _, x := range creators {
			if x == u {
				return true
			}
		}
		return false
	}
	sl := o.user(sender)
	if cur == nil && sender != creators[0] {
		sl = 0
	}
	if t.PrivCreators && isCreator(sender) {
		sl = inf
	}
	c.Count("accepted_steps_checked")
	fail := func(kind, what string, ov, nv int64) {
		c.Failf("pl:escalation:"+kind, "%s: accepted power-levels event by %s (level %d) in v%s changes %s from %d to %d\n current:  %s\n proposed: %s", ctx, sender, sl, t.Version, what, ov, nv, gen.Describe(orEmpty(cur)), gen.Describe(proposed))
	}
	for k := range thrDefaults {
		ov, nv := o.thr[k], n.thr[k]
		if ov == nv {
			continue
		}
		c.Count("changed|" + k)
		if nv > sl {
			fail(k, k, ov, nv)
		} else if ov > sl {
			fail(k+":was-above-sender", k, ov, nv)
		}
	}
	keys := func(a, b map[string]int64) []string {
		s := map[string]bool{}
		for k := range a {
			s[k] = true
		}
		for k := range b {
			s[k] = true
		}
		out := []string{}
		for k := range s {
			out = append(out, k)
		}
		sort.Strings(out)
		return out
	}
	for _, k := range keys(o.events, n.events) {
		// the level needed to send an event of this type: the entry, or - where there is none - events_default for a
		// message event and state_default for a state event. Adding or removing an entry changes one of the two even
		// when it happens to equal the other default.
		for _, asState := range []bool{false, true} {
			ov, nv := o.eventAs(k, asState), n.eventAs(k, asState)
			if ov == nv {
				continue
			}
			what := "events[" + k + "] (sent as a message event)"
			if asState {
				what = "events[" + k + "] (sent as a state event)"
			}
			c.Count("changed|events")
			if nv > sl {
				fail("events", what, ov, nv)
			} else if ov > sl {
				fail("events:was-above-sender", what, ov, nv)
			}
		}
	}
	if t.PLNotifChecks {
		for _, k := range keys(o.notifs, n.notifs) {
			ov, nv := o.notif(k), n.notif(k)
			if k != "room" {
				// only "room" has a default: any other key has the level its entry gives it and none without one, so
				// an entry that appears is a level set, and one that disappears a level removed
				_, had := o.notifs[k]
				_, has := n.notifs[k]
				if !had && has && nv > sl {
					c.Count("changed|notifications")
					fail("notifications", "notifications["+k+"] (entry added)", ov, nv)
					continue
				}
				if had && !has && ov > sl {
					c.Count("changed|notifications")
					fail("notifications:was-above-sender", "notifications["+k+"] (entry removed)", ov, nv)
					continue
				}
				if had != has {
					continue
				}
			}
			if ov == nv {
				continue
			}
			c.Count("changed|notifications")
			if nv > sl {
				fail("notifications", "notifications["+k+"]", ov, nv)
			} else if ov > sl {
				fail("notifications:was-above-sender", "notifications["+k+"]", ov, nv)
			}
		}
	}
	for _, u := range keys(o.users, n.users) {
		ov, nv := o.user(u), n.user(u)
		if _, had := o.users[u]; had && u != sender && ov >= sl {
			if _, has := n.users[u]; !has {
				// the entry of a peer or superior is removed: even where users_default makes up for it today, the user
				// has lost the protection an entry of their own gives (the default can be lowered by anybody at its level)
				c.Count("changed|users")
				fail("users:peer-or-superior-removed", "users["+u+"] (entry removed)", ov, nv)
				continue
			}
		}
		if _, had := o.users[u]; !had {
			if ent, has := n.users[u]; has && ent > sl {
				// an entry is added with a level above the sender's: where users_default gives the user as much today the
				// effective level does not move, but the entry is a user level set above the sender's, and it outlives the
				// default (ninth audit round, auth #1)
				c.Count("changed|users")
				fail("users:entry-added-above-sender", "users["+u+"] (entry added)", ov, ent)
				continue
			}
		}
		if ov == nv {
			continue
		}
		c.Count("changed|users")
		if nv > sl {
			fail("users", "users["+u+"]", ov, nv)
		} else if u != sender && ov >= sl {
			fail("users:peer-or-superior-changed", "users["+u+"]", ov, nv)
		}
	}
	if t.PLCreatorCheck {
		for u := range n.users {
			if isCreator(u) {
				c.Failf("pl:creator-named", "%s: accepted v%s power-levels event names room creator %s in users: %s", ctx, t.Version, u, gen.Describe(proposed))
			}
		}
	}
	if t.IntegerPLs && n.nonInteger {
		c.Failf("pl:non-integer-level-accepted", "%s: accepted v%s power-levels event contains a non-integer level: %s", ctx, t.Version, gen.Describe(proposed))
	}
}

func orEmpty(v *ref.Value) *ref.Value {
	if v == nil {
		return ref.S("<no power-levels event>")
	}
	return v
}

// tryPL builds the proposed event and asks the library.
type c08checker struct {
	prov *gmsl.AuthEvents
	chk  *gmsl.VerifAllower
}

// one reused checker per room, kept for the whole run of a shard (cases run one after another)
var c08reused = map[*world]*c08checker{}

func tryPL(c *mon.Ctx, w *world, curEv gmsl.PDU, proposed *ref.Value, sender string, joined []string) (gmsl.PDU, bool) {
	ev, err := w.build("m.room.power_levels", strp(""), sender, proposed, nil, "")
	if err != nil {
		c.Count("unbuildable_proposal")
		return nil, false
	}
	state := []gmsl.PDU{w.create}
	if curEv != nil {
		state = append(state, curEv)
	}
	for _, u := range joined {
		state = append(state, w.members[[2]string{u, "join"}])
	}
	var got error
	site, msg, pan := mon.Guard(func() {
		prov, _ := gmsl.NewAuthEvents(state)
		got = gmsl.Allowed(ev, prov, userIDForSender)
	})
	if pan {
		c.Failf("pl:panic:"+site, "Allowed panics on a power-levels proposal: %s", msg)
		return nil, false
	}
	c.Count("proposals")
	// the same proposal through ONE checker per room that is kept across all proposals, driven as state resolution
	// drives it (provider cleared and refilled, update, allowed): an acceptance there is an acceptance too
	var viaReused error
	site, msg, pan = mon.Guard(func() {
		ru := c08reused[w]
		if ru == nil {
			ru = &c08checker{}
			ru.prov, _ = gmsl.NewAuthEvents(nil)
			c08reused[w] = ru
		}
		ru.prov.Clear()
		for _, p := range state {
			_ = ru.prov.AddEvent(p)
		}
		if ru.chk == nil {
			ru.chk = gmsl.NewVerifAllower(ru.prov, userIDForSender, ev.RoomID())
		} else {
			ru.chk.Update(ru.prov)
		}
		viaReused = ru.chk.Allowed(ev)
	})
	if pan {
		c.Failf("pl:panic:"+site, "the reused checker panics on a power-levels proposal: %s", msg)
		return nil, false
	}
	c.Count("proposals_through_reused_checker")
	if got != nil && viaReused == nil {
		c.Count("proposals_accepted_only_by_reused_checker")
		return ev, true
	}
	if got != nil {
		c.Count("proposals_rejected")
		return ev, false
	}
	c.Count("proposals_accepted")
	return ev, true
}

func runC08(c *mon.Ctx) {
	versions := sortedVersions()
	r := c.Rand("cases")
	caseNo := 0
	for _, ver := range versions {
		t := ref.Traits(string(ver))
		if t == nil || ver == gmsl.RoomVersionPseudoIDs {
			continue
		}
		variant := "plain"
		creators := []string{authUsers[0]}
		if t.PrivCreators {
			variant = "federated-explicit"
			creators = append(creators, authUsers[1])
		}
		w := newWorld(c.RandShared("world"+string(ver)), ver, variant, 0)
		joined := authUsers
		admin, mod, pleb, other := authUsers[4], authUsers[2], authUsers[3], authUsers[1]
		if t.PrivCreators {
			other = authUsers[3]
			pleb = authUsers[2]
			mod = authUsers[4]
			admin = authUsers[4]
		}
		// (a) enumerated single-key changes
		type senderKind struct {
			name  string
			user  string
			level int64
			noPL  bool
		}
		sks := []senderKind{{"creator-no-pl", authUsers[0], inf - 1, true}, {"admin", admin, 100, false}, {"moderator", mod, 50, false}, {"default", pleb, 10, false}}
		keysA := []string{"ban", "kick", "invite", "redact", "events_default", "state_default", "users_default", "events:m.room.name", "events:m.room.third_party_invite", "users:" + other, "users:self", "notifications:room", "notifications:custom"}
		rels := []string{"absent", "lt", "eq", "gt"}
		for _, sk := range sks {
			for _, key := range keysA {
				for _, orel := range rels {
					for _, nrel := range rels {
						caseNo++
						if !c.Mine(caseNo) {
							continue
						}
						val := func(rel string) *ref.Value {
							base := sk.level
							if sk.noPL {
								base = 100
							}
							switch rel {
							case "lt":
								return ref.I(base - 5)
							case "eq":
								return ref.I(base)
							case "gt":
								return ref.I(base + 5)
							}
							return nil
						}
						mk := func(rel string) *ref.Value {
							pc := ref.O("users", ref.O(other, ref.I(30)), "users_default", ref.I(10))
							if t.PLCreatorCheck {
								pc.Get("users").Del(authUsers[0])
								pc.Get("users").Del(authUsers[1])
							}
							if !sk.noPL && sk.name != "default" {
								pc.Get("users").Set(sk.user, ref.I(sk.level))
							}
							// power-levels events need state_default (50) unless listed: let everybody at 10+ send them
							pc.Set("events", ref.O("m.room.power_levels", ref.I(0)))
							v := val(rel)
							target := key
							sub := ""
							if i := indexByte(key, ':'); i >= 0 {
								target, sub = key[:i], key[i+1:]
								if sub == "self" {
									sub = sk.user
								}
							}
							if sub == "" {
								if v == nil {
									pc.Del(target)
								} else {
									pc.Set(target, v)
								}
							} else {
								m := pc.Get(target)
								if m == nil {
									m = ref.O()
									pc.Set(target, m)
								}
								if v == nil {
									m.Del(sub)
								} else {
									m.Set(sub, v)
								}
							}
							return pc
						}
						var curEv gmsl.PDU
						var cur *ref.Value
						if !sk.noPL {
							cur = mk(orel)
							curEv = w.mustBuild("m.room.power_levels", strp(""), authUsers[0], cur)
						} else if orel != "absent" {
							continue
						}
						proposed := mk(nrel)
						name := fmt.Sprintf("single:%s:%s:%s:%s->%s", ver, sk.name, key, orel, nrel)
						c.Case(name, map[string]any{"version": ver, "sender": sk.user, "sender_kind": sk.name, "key": key, "old": orel, "new": nrel, "current": gen.Describe(orEmpty(cur)), "proposed": gen.Describe(proposed)}, func() {
							if orel != nrel {
								c.Nontrivial(name)
							}
							if _, ok := tryPL(c, w, curEv, proposed, sk.user, joined); ok {
								checkNoEscalation(c, t, creators, cur, proposed, sk.user, name)
							}
						})
					}
				}
			}
		}
		// (a3) directed pairs of changes in one event (each of the two is looked at by its own piece of the rules; a slip
		// that keys or counts them together shows only when both are there): a named threshold raised above the sender
		// next to an entry of "events" for an event TYPE spelt like that threshold; a peer's "users" entry removed next
		// to somebody else's entry added (the map keeps its size)
		if c.Shard == 0 {
			for _, thr := range []string{"ban", "kick", "invite", "redact", "events_default", "state_default", "users_default"} {
				for _, where := range []string{"both", "proposed-only", "current-only"} {
					base := func(withEntry bool, level int64) *ref.Value {
						pc := ref.O("users", ref.O(other, ref.I(30), mod, ref.I(50)), "users_default", ref.I(10), "events", ref.O("m.room.power_levels", ref.I(0)))
						if t.PLCreatorCheck {
							pc.Get("users").Del(authUsers[0])
							pc.Get("users").Del(authUsers[1])
						}
						pc.Set(thr, ref.I(level))
						if withEntry {
							pc.Get("events").Set(thr, ref.I(0))
						}
						return pc
					}
					cur := base(where != "proposed-only", 50)
					proposed := base(where != "current-only", 75)
					curEv := w.mustBuild("m.room.power_levels", strp(""), authUsers[0], cur)
					name := fmt.Sprintf("pair:%s:threshold-raised-next-to-an-event-type-of-its-name:%s:%s", ver, thr, where)
					c.Case(name, map[string]any{"version": ver, "sender": mod, "current": gen.Describe(cur), "proposed": gen.Describe(proposed)}, func() {
						c.Nontrivial(name)
						if _, ok := tryPL(c, w, curEv, proposed, mod, joined); ok {
							checkNoEscalation(c, t, creators, cur, proposed, mod, name)
						}
					})
				}
			}
			for _, peerLevel := range []int64{50, 75} {
				cur := ref.O("users", ref.O(other, ref.I(peerLevel), mod, ref.I(50)), "users_default", ref.I(10), "events", ref.O("m.room.power_levels", ref.I(0)))
				// (users_default raised to the peer's level keeps the peer's effective level for now - the next event lowers it)
				ud := int64(10)
				if peerLevel == 50 {
					ud = 50
				}
				proposed := ref.O("users", ref.O(pleb, ref.I(20), mod, ref.I(50)), "users_default", ref.I(ud), "events", ref.O("m.room.power_levels", ref.I(0)))
				if t.PLCreatorCheck {
					for _, pc := range []*ref.Value{cur, proposed} {
						pc.Get("users").Del(authUsers[0])
						pc.Get("users").Del(authUsers[1])
					}
				}
				curEv := w.mustBuild("m.room.power_levels", strp(""), authUsers[0], cur)
				name := fmt.Sprintf("pair:%s:peer-removed-next-to-an-entry-added:%d", ver, peerLevel)
				c.Case(name, map[string]any{"version": ver, "sender": mod, "current": gen.Describe(cur), "proposed": gen.Describe(proposed)}, func() {
					c.Nontrivial(name)
					if _, ok := tryPL(c, w, curEv, proposed, mod, joined); ok {
						checkNoEscalation(c, t, creators, cur, proposed, mod, name)
					}
				})
			}
		}
		// (a1') an entry added at the level users_default gives everybody today, by a sender who stands BELOW that default
		// (ninth audit round, auth #1): no effective level moves, yet a user level is set above the sender's, and it
		// stays when the default is lowered. Controls: the same entry at the sender's level, and by a sender at the default.
		for _, dflt := range []int64{100, 75} {
			for _, entry := range []int64{dflt, 50, dflt + 1} {
				for _, sender := range []string{mod, authUsers[0]} {
					caseNo++
					if !c.Mine(caseNo) {
						continue
					}
					cur := ref.O("users", ref.O(authUsers[0], ref.I(100), mod, ref.I(50)), "users_default", ref.I(dflt), "events", ref.O("m.room.power_levels", ref.I(50)))
					proposed := cur.Clone()
					proposed.Get("users").Set(pleb, ref.I(entry))
					if t.PLCreatorCheck {
						for _, pc := range []*ref.Value{cur, proposed} {
							pc.Get("users").Del(authUsers[0])
							pc.Get("users").Del(authUsers[1])
						}
					}
					curEv := w.mustBuild("m.room.power_levels", strp(""), authUsers[0], cur)
					name := fmt.Sprintf("entry-added-at-users-default:%s:default=%d:entry=%d:sender=%s", ver, dflt, entry, sender)
					c.Case(name, map[string]any{"version": ver, "sender": sender, "current": gen.Describe(cur), "proposed": gen.Describe(proposed)}, func() {
						c.Nontrivial(name)
						c.Count("entries_added_at_the_level_of_users_default")
						if _, ok := tryPL(c, w, curEv, proposed, sender, joined); ok {
							checkNoEscalation(c, t, creators, cur, proposed, sender, name)
						}
					})
				}
			}
		}
		// (a2) versions in which creators stand above the power levels: an event that names one of them in users, with
		// whatever level (the one creators have anyway included), as the room's first power-levels event or a later one
		if t.PLCreatorCheck {
			for _, named := range creators {
				for _, level := range []int64{9007199254740991, 9007199254740990, 100, 0} {
					for _, first := range []bool{true, false} {
						caseNo++
						if !c.Mine(caseNo) {
							continue
						}
						var cur *ref.Value
						var curEv gmsl.PDU
						if !first {
							cur = ref.O("users", ref.O(other, ref.I(30)), "users_default", ref.I(10), "events", ref.O("m.room.power_levels", ref.I(0)))
							curEv = w.mustBuild("m.room.power_levels", strp(""), authUsers[0], cur)
						}
						proposed := ref.O("users", ref.O(other, ref.I(30), named, ref.I(level)), "users_default", ref.I(10), "events", ref.O("m.room.power_levels", ref.I(0)))
						for _, sender := range creators {
							name := fmt.Sprintf("creator-named:%s:first=%v:level=%d", ver, first, level)
							c.Case(name, map[string]any{"version": ver, "sender": sender, "named": named, "level": level, "first_power_levels_event": first, "proposed": gen.Describe(proposed)}, func() {
								c.Nontrivial(name + "|" + named + "|" + sender)
								if _, ok := tryPL(c, w, curEv, proposed, sender, joined); ok {
									checkNoEscalation(c, t, creators, cur, proposed, sender, name)
								}
							})
						}
					}
				}
			}
		}
		// (b) random multi-key proposals
		nB := c.Scale(6000, 720000) / len(versions)
		for k := 0; k < nB; k++ {
			var cur *ref.Value
			var curEv gmsl.PDU
			if r.Chance(0.9) {
				cur = randPLContent(r, t, creators)
				if r.Chance(0.7) {
					ev := cur.Get("events")
					if ev == nil || ev.K != ref.Obj {
						ev = ref.O()
						cur.Set("events", ev)
					}
					ev.Set("m.room.power_levels", ref.I(gen.Pick(r, []int64{0, 25, 50})))
				}
				curEv = w.mustBuild("m.room.power_levels", strp(""), authUsers[0], cur)
			}
			sender := gen.Pick(r, authUsers)
			proposed := proposePL(r, t, cur, creators)
			if t.IntegerPLs && r.Chance(0.05) {
				proposed.Set(gen.Pick(r, []string{"ban", "invite", "users_default"}), ref.S("10"))
			}
			name := "random:" + string(ver)
			c.Case(name, map[string]any{"version": ver, "sender": sender, "current": gen.Describe(orEmpty(cur)), "proposed": gen.Describe(proposed)}, func() {
				if _, ok := tryPL(c, w, curEv, proposed, sender, joined); ok {
					if cur == nil || !ref.Equal(cur, proposed) {
						c.Nontrivial(string(ver) + "|" + gen.Describe(orEmpty(cur)) + "|" + gen.Describe(proposed) + "|" + sender)
					}
					checkNoEscalation(c, t, creators, cur, proposed, sender, name)
				}
			})
		}
		// (c) histories
		nH := c.Scale(320, 32000) / len(versions)
		for h := 0; h < nH; h++ {
			hr := r.Fork("history")
			c.Case("history:"+string(ver), map[string]any{"version": ver, "history": h}, func() {
				init := randPLContent(hr, t, creators)
				ev := init.Get("events")
				if ev == nil || ev.K != ref.Obj {
					ev = ref.O()
					init.Set("events", ev)
				}
				ev.Set("m.room.power_levels", ref.I(gen.Pick(hr, []int64{0, 25})))
				curEv, ok := tryPL(c, w, nil, init, authUsers[0], joined)
				if !ok {
					return
				}
				checkNoEscalation(c, t, creators, nil, init, authUsers[0], "history:init")
				cur := init
				start := parseEff(cur)
				var maxStart int64
				for _, u := range authUsers {
					if l := start.user(u); l > maxStart {
						maxStart = l
					}
				}
				steps := hr.Range(10, 30)
				accepted := 0
				trace := []string{}
				for s := 0; s < steps; s++ {
					sender := gen.Pick(hr, authUsers)
					isCr := false
					for _, x := range creators {
						if x == sender && t.PrivCreators {
							isCr = true
						}
					}
					if isCr {
						continue // creators are unbounded by design
					}
					proposed := proposePL(hr, t, cur, creators)
					before := parseEff(cur)
					nev, ok := tryPL(c, w, curEv, proposed, sender, joined)
					if !ok {
						continue
					}
					accepted++
					trace = append(trace, fmt.Sprintf("%s: %s", sender, gen.Describe(proposed)))
					checkNoEscalation(c, t, creators, cur, proposed, sender, fmt.Sprintf("history step %d", s))
					after := parseEff(proposed)
					if !after.hasNull && !before.hasNull {
						if after.user(sender) > before.user(sender) {
							c.Failf("pl:history:self-promotion", "v%s: %s raised their own level from %d to %d\n%v", ver, sender, before.user(sender), after.user(sender), trace)
						}
						for _, u := range authUsers {
							if l := after.user(u); l > maxStart {
								c.Failf("pl:history:level-above-initial-maximum", "v%s: after %d accepted events %s holds level %d, above the maximum %d any user held at the start\n%v", ver, accepted, u, l, maxStart, trace)
							}
						}
					}
					cur, curEv = proposed, nev
				}
				c.CountN("history_accepted_steps", int64(accepted))
				c.Count("histories")
				if accepted >= 2 {
					c.Nontrivial(fmt.Sprintf("history|%s|%v", ver, trace))
				}
				if c.WantSample() && accepted >= 3 {
					c.Sample(map[string]any{"version": ver, "initial": gen.Describe(init), "accepted_events": trace})
				}
			})
		}
	}
	c.Floor("proposals_accepted", 300)
	c.Floor("proposals_rejected", 300)
	c.Floor("accepted_steps_checked", 300)
	for _, k := range []string{"ban", "kick", "invite", "redact", "events_default", "state_default", "users_default", "events", "users", "notifications"} {
		c.Floor("changed|"+k, 5)
	}
	c.Floor("history_accepted_steps", 50)
}

func indexByte(s string, b byte) int {
	for i := 0; i < len(s); i++ {
		if s[i] == b {
			return i
		}
	}
	return -1
}
