package main

import (
	"fmt"
	"crypto/ed25519"
	"encoding/base64"
	"time"

	gmsl "github.com/matrix-org/gomatrixserverlib"
	"github.com/matrix-org/gomatrixserverlib/spec"

	"verif/gen"
	"verif/ref"
)

// protoSpec is what a workload wants built.
type protoSpec struct {
	Type     string
	StateKey *string
	Sender   string
	RoomID   string
	Content  []byte
	Prev     []string
	Auth     []string
	Depth    int64
	Redacts  string
	Unsigned []byte
	// Signatures is the proto-event's "signatures" member (a make_join template of another server may carry one)
	Signatures []byte `json:",omitempty"`
}

func strp(s string) *string { return &s }

// buildEvent runs the real EventBuilder.Build.
func buildEvent(ver gmsl.RoomVersion, p protoSpec, id *gen.Identity, ts time.Time) (gmsl.PDU, error) {
	impl, err := gmsl.GetRoomVersion(ver)
	if err != nil {
		return nil, err
	}
	prev := p.Prev
	if prev == nil {
		prev = []string{}
	}
	auth := p.Auth
	if auth == nil {
		auth = []string{}
	}
	eb := impl.NewEventBuilderFromProtoEvent(&gmsl.ProtoEvent{
		SenderID:   p.Sender,
		RoomID:     p.RoomID,
		Type:       p.Type,
		StateKey:   p.StateKey,
		PrevEvents: prev,
		AuthEvents: auth,
		Redacts:    p.Redacts,
		Depth:      p.Depth,
		Content:    p.Content,
		Unsigned:   p.Unsigned,
		Signature:  p.Signatures,
	})
	before := protoSnapshot(p, prev, auth)
	ev, err := eb.Build(ts, spec.ServerName(id.Server), gmsl.KeyID(id.KeyID), id.Priv)
	if after := protoSnapshot(p, prev, auth); after != before && onProtoMutated != nil {
		onProtoMutated(fmt.Sprintf("Build (v%s) rewrote the proto-event it was given:\n before %s\n after  %s", ver, before, after))
	}
	return ev, err
}

// onProtoMutated is told when Build changed what the caller handed it (the lists and raw JSON of a proto-event are the
// caller's; the next Build from the same proto-event has to see what the first one saw).
var onProtoMutated func(detail string)

func protoSnapshot(p protoSpec, prev, auth []string) string {
	return fmt.Sprintf("prev=%q auth=%q content=%q unsigned=%q signatures=%q", prev, auth, p.Content, p.Unsigned, p.Signatures)
}

// refEventSigValid is the independent event-signature check: ed25519 over
// the canonical JSON of the reference redaction without signatures/unsigned.
func refEventSigValid(ev *ref.Value, t *ref.VersionTraits, server, keyID string, pub ed25519.PublicKey) bool {
	s, ok := ev.Get("signatures").Get(server).Get(keyID).Str()
	if !ok {
		return false
	}
	sig, err := base64.RawStdEncoding.DecodeString(s)
	if err != nil {
		sig, err = base64.RawURLEncoding.DecodeString(s)
		if err != nil {
			return false
		}
	}
	if len(sig) != ed25519.SignatureSize {
		return false
	}
	r := ref.Redact(t.Redaction, ev)
	r.Del("signatures")
	r.Del("unsigned")
	return ed25519.Verify(pub, ref.Canon(r), sig)
}

var baseTime = time.UnixMilli(1700000000000)

func edSign(id *gen.Identity, payload []byte) []byte { return ed25519.Sign(id.Priv, payload) }
