package main

// ruleExtras are the workload dimensions added after the design was written (third and fourth seeding / audit
// rounds); register() appends them to the rule text that goes into the evidence files.
var ruleExtras = map[string]string{
	"C02": "Inserted duplicate members are also spelled with \\u escapes. SignJSON on texts that are no JSON object (null, arrays, scalars): an error, or an output that verifies.",
	"C03": "Also: headered form without _event_id and the trusted parser given an empty ID; proto-events that bring a signatures member of their own.",
	"C04": "Also: events whose type or content is null or missing (correctly hashed and signed): refused, or returned and redacted with those members as received. Texts that are not JSON (a member name without a value in front of a dropped or read member) must be refused.",
	"C05": "Also: Redact() on events loaded with their ID supplied and a stale event_id member in the JSON.",
	"C06": "Also: signer state 'expired before ts with a valid_until still recorded'; a sender lookup that answers nil must not remove the sender's server from the required set.",
	"C07": "Also: third-party-invite tokens that start with '@'; JSON null as level / level map / room_version / additional_creators. Also: invites with \"third_party_invite\": null; third-party invites and restricted joins with the empty token (oracle abstains on the verdict, C09 checks it is one verdict).",
	"C08": "Every proposal is also judged through ONE reused checker per room (cleared and refilled provider), and an acceptance there is monitored like any other; null levels in v10+ count as non-integer. Per-event-type entries are compared for both fallbacks (events_default as message event, state_default as state event).",
	"C09": "Also: an event of another room supplied for a slot the state already fills (both orders); creator-then-admin power-level pairs against one power-levels event through the reused checker. Also: states holding a third-party-invite event under the empty state key together with member events naming the empty token.",
	"C12": "Also: valid_until_ts in the upper half of the unsigned 64-bit range through CheckKeys.",
	"C13": "Also: requests signed with two keys of which the receiver knows one (both line orders); key IDs containing commas; odd white space around parameter names, repeated parameters, a second X-Matrix line naming another destination. Also: two X-Matrix lines for one key ID with different signatures (both orders).",
	"C14": "Also: forged events citing no auth events; send_join responses with a needed event moved from state to auth events; a hash-broken (redacted) copy of a state event among the auth events; repeated inputs of LoadAndVerify classified copy by copy.",
	"C15": "Also: a second creator on another server in v12 rooms; a joined member with a malformed user ID; incoming events with a made-up entry under the local server's own name and key ID.",
	"C16": "Also: sequences of requests for names sharing a host through one resolving client against loopback TLS servers; Expires in the rfc850 and asctime forms; an SRV answer with one malformed target. Also: invalid server names with a userinfo part through the federation client APIs against a live loopback server; quoted Cache-Control arguments.",
	"C17": "Also: oversize events whose bulk is in unsigned / destinations / age_ts; v12 create events carrying a room_id member; identifiers whose domain is a lone bracket.",
	"C18": "Also: identifiers whose domain is '[' or '[:port' as hostile field values. Also: request bodies whose event member is a JSON string holding hostile text (60 000 levels of nesting); a process-fatal crash of a shard's child is reported as fatal:<frame>.",
	"C19": "Answers that are not from the cache are checked too (expiry after the call, address never handed out before); a FetchKeys call that does not return is judged on goroutine states (all fetcher goroutines parked on channel operations, none in the key client = deadlock = violation), otherwise inconclusive.",
	"C20": "Also: the server name carried in the token rewritten or removed and the token presented under the new name (same secret); the harness probes which root-key construction the library uses before re-minting.",
}
