// vcheck runs one property's workload under its monitors.
//
//	vcheck drive <PROP> [--tier quick|thorough] [--replay file]
//	vcheck child <PROP> --tier T --seed S --shard i --nshards n --out f --last f [--replay-index k]
//
// "drive" starts the children (one OS process per shard so that a
// process-fatal event ends only that batch), merges their results, matches
// violations against KNOWN_FINDINGS.json, writes the evidence file and prints
// the verdict lines. Only the driver prints VIOLATION / KNOWN-FINDING lines.
package main

import (
	"encoding/json"
	"flag"
	"fmt"
	"os"
	"os/exec"
	"path/filepath"
	"regexp"
	"sort"
	"strconv"
	"strings"
	"sync"
	"syscall"
	"time"

	"verif/mon"
)

type propDef struct {
	ID          string
	Level       string
	Rule        string
	Assumptions []string
	// Shards returns the number of child processes for a tier.
	Shards func(tier string) int
	// Race selects the race-detector build for a tier.
	Race func(tier string) bool
	// Watchdog is the generous wall-clock limit per child; firing = inconclusive.
	Watchdog func(tier string) time.Duration
	LogCases bool
	Run      func(c *mon.Ctx)
}

var registry = map[string]*propDef{}

func register(p *propDef) {
	if extra, ok := ruleExtras[p.ID]; ok {
		p.Rule += " Added later: " + extra
	}
	if p.Shards == nil {
		p.Shards = func(t string) int {
			if t == "thorough" {
				return 16
			}
			return 8
		}
	}
	if p.Race == nil {
		p.Race = func(string) bool { return false }
	}
	if p.Watchdog == nil {
		p.Watchdog = func(t string) time.Duration {
			if t == "thorough" {
				return 60 * time.Minute
			}
			return 15 * time.Minute
		}
	}
	registry[p.ID] = p
}

func root() string {
	if r := os.Getenv("VERIF_ROOT"); r != "" {
		return r
	}
	return "/verif"
}

func main() {
	if len(os.Args) < 3 {
		fmt.Fprintln(os.Stderr, "usage: vcheck drive|child <PROP> [flags]")
		os.Exit(2)
	}
	mode, prop := os.Args[1], os.Args[2]
	p, ok := registry[prop]
	if mode == "needs-race" {
		// used by the shell driver to decide which binaries to build
		if ok && p.Race(os.Args[3]) {
			fmt.Println("yes")
		} else {
			fmt.Println("no")
		}
		return
	}
	if !ok {
		fmt.Fprintf(os.Stderr, "unknown property %q\n", prop)
		os.Exit(2)
	}
	fs := flag.NewFlagSet(mode, flag.ExitOnError)
	tier := fs.String("tier", "quick", "")
	seed := fs.Uint64("seed", 1, "")
	shard := fs.Int("shard", 0, "")
	nshards := fs.Int("nshards", 1, "")
	out := fs.String("out", "", "")
	last := fs.String("last", "", "")
	replayIdx := fs.Int64("replay-index", -1, "")
	replay := fs.String("replay", "", "")
	fs.Parse(os.Args[3:])
	switch mode {
	case "child":
		c := mon.New(prop, *tier, *seed, *shard, *nshards, *last)
		c.ReplayIndex = *replayIdx
		c.LogCases = p.LogCases
		p.Run(c)
		if err := c.Finish(*out); err != nil {
			fmt.Fprintln(os.Stderr, "finish:", err)
			os.Exit(2)
		}
	case "drive":
		os.Exit(drive(p, *tier, *replay))
	default:
		os.Exit(2)
	}
}

type knownFinding struct {
	Property  string `json:"property"`
	Signature string `json:"signature"`
	Status    string `json:"status"` // known | fixed
	Commit    string `json:"commit,omitempty"`
	What      string `json:"what"`
}

func loadKnown() []knownFinding {
	var f struct {
		Findings []knownFinding `json:"findings"`
	}
	b, err := os.ReadFile(filepath.Join(root(), "KNOWN_FINDINGS.json"))
	if err != nil {
		return nil
	}
	if err := json.Unmarshal(b, &f); err != nil {
		fmt.Fprintln(os.Stderr, "KNOWN_FINDINGS.json:", err)
		os.Exit(2)
	}
	return f.Findings
}

type replayFile struct {
	Property  string         `json:"property"`
	Tier      string         `json:"tier"`
	Seed      uint64         `json:"seed"`
	NShards   int            `json:"nshards"`
	Violation *mon.Violation `json:"violation"`
	How       string         `json:"how_to_replay"`
}

func drive(p *propDef, tier, replayPath string) int {
	start := time.Now()
	seed := uint64(1)
	if s := os.Getenv("VERIF_SEED"); s != "" {
		if v, err := strconv.ParseUint(s, 10, 64); err == nil {
			seed = v
		}
	}
	nshards := p.Shards(tier)
	shardList := []int{}
	replayIndex := int64(-1)
	if replayPath != "" {
		var rf replayFile
		b, err := os.ReadFile(replayPath)
		if err != nil || json.Unmarshal(b, &rf) != nil || rf.Violation == nil {
			fmt.Fprintln(os.Stderr, "cannot read replay file", replayPath)
			return 2
		}
		tier, seed, nshards = rf.Tier, rf.Seed, rf.NShards
		shardList = []int{rf.Violation.Shard}
		replayIndex = rf.Violation.CaseIndex
	} else {
		for i := 0; i < nshards; i++ {
			shardList = append(shardList, i)
		}
	}
	workRoot := filepath.Join(root(), ".work")
	if w := os.Getenv("VERIF_WORK"); w != "" {
		workRoot = w
	}
	binDir := filepath.Join(root(), ".bin")
	if b := os.Getenv("VERIF_BIN"); b != "" {
		binDir = b
	}
	work := filepath.Join(workRoot, p.ID+"-"+tier)
	os.RemoveAll(work)
	os.MkdirAll(work, 0o755)
	bin := filepath.Join(binDir, "vcheck")
	race := p.Race(tier)
	if race {
		bin = filepath.Join(binDir, "vcheck-race")
	}
	type childOut struct {
		shard    int
		res      *mon.Result
		fatal    string // non-empty when the process died
		timedOut bool
		logPath  string
		lastPath string
	}
	outs := make([]childOut, len(shardList))
	var wg sync.WaitGroup
	sem := make(chan struct{}, 16)
	for i, sh := range shardList {
		wg.Add(1)
		go func(i, sh int) {
			defer wg.Done()
			sem <- struct{}{}
			defer func() { <-sem }()
			outPath := filepath.Join(work, fmt.Sprintf("result-%d.json", sh))
			lastPath := filepath.Join(work, fmt.Sprintf("last-%d.json", sh))
			logPath := filepath.Join(work, fmt.Sprintf("log-%d.txt", sh))
			logf, _ := os.Create(logPath)
			args := []string{"child", p.ID, "--tier", tier, "--seed", fmt.Sprint(seed), "--shard", fmt.Sprint(sh),
				"--nshards", fmt.Sprint(nshards), "--out", outPath, "--last", lastPath, "--replay-index", fmt.Sprint(replayIndex)}
			cmd := exec.Command(bin, args...)
			cmd.Stdout, cmd.Stderr = logf, logf
			cmd.Env = append(os.Environ(), "GOTRACEBACK=all")
			if race {
				cmd.Env = append(cmd.Env, "GORACE=halt_on_error=0 log_path="+filepath.Join(work, fmt.Sprintf("race-%d", sh)))
			}
			co := childOut{shard: sh, logPath: logPath, lastPath: lastPath}
			if err := cmd.Start(); err != nil {
				co.fatal = "cannot start child: " + err.Error()
				outs[i] = co
				return
			}
			done := make(chan error, 1)
			go func() { done <- cmd.Wait() }()
			var werr error
			select {
			case werr = <-done:
			case <-time.After(p.Watchdog(tier)):
				co.timedOut = true
				cmd.Process.Signal(syscall.SIGQUIT)
				select {
				case <-done:
				case <-time.After(10 * time.Second):
					cmd.Process.Kill()
					<-done
				}
			}
			logf.Close()
			if b, err := os.ReadFile(outPath); err == nil {
				var r mon.Result
				if json.Unmarshal(b, &r) == nil && r.Complete {
					co.res = &r
				}
			}
			if co.res == nil && !co.timedOut {
				co.fatal = fatalLine(logPath)
				if co.fatal == "" {
					co.fatal = fmt.Sprintf("child exited without result: %v", werr)
				}
			}
			outs[i] = co
		}(i, sh)
	}
	wg.Wait()

	// merge
	merged := mon.Result{Hist: map[string]int64{}, Floors: map[string]int64{}}
	hashes := map[uint64]struct{}{}
	bySig := map[string]*mon.Violation{}
	var sigOrder []string
	addV := func(v *mon.Violation) {
		if o, ok := bySig[v.Sig]; ok {
			o.Count += v.Count
			return
		}
		bySig[v.Sig] = v
		sigOrder = append(sigOrder, v.Sig)
	}
	inconclusive := []string{}
	exhaustive := false
	harnessErr := false
	for _, co := range outs {
		if co.timedOut {
			inconclusive = append(inconclusive, fmt.Sprintf("shard %d: watchdog fired (log %s)", co.shard, co.logPath))
			continue
		}
		if co.fatal != "" && strings.HasSuffix(co.fatal, "@ ") {
			// a crash with no library frame on the stack is the harness's own fault
			fmt.Printf("HARNESS-ERROR property=%s shard %d: %s (log %s)\n", p.ID, co.shard, co.fatal, co.logPath)
			harnessErr = true
			continue
		}
		if co.fatal != "" {
			v := &mon.Violation{Sig: "fatal:" + fatalClass(co.fatal), Detail: co.fatal + " (log " + co.logPath + ")", Shard: co.shard, Count: 1, CaseIndex: -1}
			if b, err := os.ReadFile(co.lastPath); err == nil && len(b) > 0 {
				var lc struct {
					CaseIndex int64           `json:"case_index"`
					CaseName  string          `json:"case_name"`
					Input     json.RawMessage `json:"input"`
				}
				if json.Unmarshal(b, &lc) == nil {
					v.CaseIndex, v.CaseName, v.Input = lc.CaseIndex, lc.CaseName, lc.Input
				}
			}
			addV(v)
			continue
		}
		r := co.res
		merged.Evals += r.Evals
		for _, h := range r.Hashes {
			hashes[h] = struct{}{}
		}
		for k, n := range r.Hist {
			merged.Hist[k] += n
		}
		for k, n := range r.Floors {
			if n > merged.Floors[k] {
				merged.Floors[k] = n
			}
		}
		if len(merged.Samples) < 8 {
			for _, s := range r.Samples {
				if len(merged.Samples) < 8 {
					merged.Samples = append(merged.Samples, s)
				}
			}
		}
		merged.Notes = append(merged.Notes, r.Notes...)
		exhaustive = exhaustive || r.Exhaustive
		for _, v := range r.Violations {
			addV(v)
		}
	}
	// values that separate processes must agree on
	agree := map[string]map[string]int{}
	for _, co := range outs {
		if co.res == nil {
			continue
		}
		for k, v := range co.res.Agree {
			if agree[k] == nil {
				agree[k] = map[string]int{}
			}
			agree[k][v] = co.shard
		}
	}
	crossChecked := 0
	for k, vals := range agree {
		crossChecked++
		if len(vals) > 1 {
			desc := []string{}
			for v, sh := range vals {
				desc = append(desc, fmt.Sprintf("shard %d: %s", sh, v))
			}
			sort.Strings(desc)
			class := k
			if i := strings.Index(k, "#"); i >= 0 {
				class = k[:i]
			}
			addV(&mon.Violation{Sig: "cross-process-disagreement:" + class, Detail: "separate processes computed different results for " + k + ":\n" + strings.Join(desc, "\n"), Count: 1, CaseIndex: -1, CaseName: k})
		}
	}
	if crossChecked > 0 {
		merged.Hist["keys_compared_across_processes"] = int64(crossChecked)
	}
	// race reports
	raceReports := 0
	if race {
		for _, rr := range collectRaces(work) {
			raceReports += rr.count
			addV(&mon.Violation{Sig: "race:" + rr.key, Detail: rr.text, Count: int64(rr.count), CaseIndex: -1, Shard: rr.shard})
		}
		merged.Hist["race_reports"] = int64(raceReports)
	}
	if replayPath == "" {
		for k, min := range merged.Floors {
			if merged.Hist[k] < min {
				inconclusive = append(inconclusive, fmt.Sprintf("monitor floor not reached: %s observed %d < %d", k, merged.Hist[k], min))
			}
		}
	}

	// classify
	known := loadKnown()
	isKnown := func(sig string) *knownFinding {
		for i := range known {
			if known[i].Property == p.ID && known[i].Signature == sig && known[i].Status == "known" {
				return &known[i]
			}
		}
		return nil
	}
	exit := 0
	newV, knownHit := 0, []string{}
	replayDir := filepath.Join(root(), "replay", p.ID)
	if d := os.Getenv("VERIF_REPLAY_DIR"); d != "" {
		replayDir = filepath.Join(d, p.ID)
	}
	for _, sig := range sigOrder {
		v := bySig[sig]
		if kf := isKnown(sig); kf != nil {
			fmt.Printf("KNOWN-FINDING: property=%s %s [%s] (seen %d×)\n", p.ID, kf.What, sig, v.Count)
			knownHit = append(knownHit, sig)
			continue
		}
		newV++
		os.MkdirAll(replayDir, 0o755)
		rp := filepath.Join(replayDir, sanitize(sig)+".json")
		rf := replayFile{Property: p.ID, Tier: tier, Seed: seed, NShards: nshards, Violation: v,
			How: fmt.Sprintf("cd %s && ./check %s --replay %s", root(), p.ID, rp)}
		b, _ := json.MarshalIndent(rf, "", " ")
		os.WriteFile(rp, b, 0o644)
		fmt.Printf("VIOLATION property=%s replay=%s\n", p.ID, rp)
		fmt.Printf("  signature: %s (seen %d×)\n  %s\n", sig, v.Count, firstLines(v.Detail, 6))
		exit = 1
	}
	if harnessErr && exit == 0 {
		exit = 2
	}
	if exit == 0 && len(inconclusive) > 0 {
		for _, s := range inconclusive {
			fmt.Printf("INCONCLUSIVE property=%s %s\n", p.ID, s)
		}
		exit = 3
	}

	// evidence (not for replays)
	if replayPath == "" && len(merged.Samples) == 0 && exit == 0 {
		fmt.Printf("HARNESS-ERROR property=%s the workload recorded no sample cases for the evidence file\n", p.ID)
		exit = 2
	}
	if merged.Samples == nil {
		merged.Samples = []any{}
	}
	if replayPath == "" && os.Getenv("VERIF_NO_EVIDENCE") == "" {
		cov := map[string]any{
			"evaluations":         merged.Evals,
			"distinct_nontrivial": len(hashes),
			"rule":                p.Rule,
			"samples":             merged.Samples,
			"observed":            sortedHist(merged.Hist),
			"shards":              nshards,
			"race_detector":       race,
			"known_findings_hit":  knownHit,
			"new_violations":      sigOrder2(bySig, knownHit),
			"inconclusive":        inconclusive,
			"notes":               dedupe(merged.Notes),
		}
		if exhaustive {
			cov["exhaustive_subspace"] = true
		}
		ev := map[string]any{
			"property_id": p.ID,
			"tier":        tier,
			"seed":        seed,
			"level":       p.Level,
			"coverage":    cov,
			"assumptions": p.Assumptions,
			"wall_s":      time.Since(start).Seconds(),
			"violations":  newV,
		}
		b, _ := json.MarshalIndent(ev, "", " ")
		os.MkdirAll(filepath.Join(root(), "evidence"), 0o755)
		os.WriteFile(filepath.Join(root(), "evidence", p.ID+".json"), b, 0o644)
	}
	verdict := "held"
	if exit == 1 {
		verdict = "violated"
	} else if exit == 3 {
		verdict = "inconclusive"
	}
	fmt.Printf("%s %s seed=%d: %s — %d cases, %d distinct non-trivial, %d known finding(s) hit, %.1fs\n",
		p.ID, tier, seed, verdict, merged.Evals, len(hashes), len(knownHit), time.Since(start).Seconds())
	if exit == 0 {
		os.RemoveAll(work)
	}
	return exit
}

func sigOrder2(bySig map[string]*mon.Violation, known []string) []string {
	k := map[string]bool{}
	for _, s := range known {
		k[s] = true
	}
	out := []string{}
	for s := range bySig {
		if !k[s] {
			out = append(out, s)
		}
	}
	sort.Strings(out)
	return out
}

func sortedHist(h map[string]int64) map[string]int64 { return h }

func dedupe(xs []string) []string {
	seen := map[string]bool{}
	out := []string{}
	for _, x := range xs {
		if !seen[x] {
			seen[x] = true
			out = append(out, x)
		}
	}
	return out
}

func sanitize(s string) string {
	s = regexp.MustCompile(`[^A-Za-z0-9._-]+`).ReplaceAllString(s, "_")
	if len(s) > 120 {
		s = s[:120]
	}
	return s
}

func firstLines(s string, n int) string {
	l := strings.Split(s, "\n")
	if len(l) > n {
		l = l[:n]
	}
	return strings.Join(l, "\n  ")
}

// fatalLine extracts the first runtime-fatal line from a child's log.
func fatalLine(path string) string {
	b, err := os.ReadFile(path)
	if err != nil {
		return ""
	}
	lines := strings.Split(string(b), "\n")
	for i, l := range lines {
		if strings.HasPrefix(l, "fatal error:") || strings.HasPrefix(l, "panic:") || strings.HasPrefix(l, "runtime: ") || strings.Contains(l, "checkptr") {
			// include the first library frame
			site := ""
			for _, m := range lines[i:] {
				if strings.Contains(m, "matrix-org/gomatrixserverlib") && !strings.HasPrefix(strings.TrimSpace(m), "/") {
					site = strings.TrimSpace(m)
					if j := strings.Index(site, "("); j > 0 {
						site = site[:j]
					}
					break
				}
			}
			return strings.TrimSpace(l) + " @ " + site
		}
	}
	return ""
}

func fatalClass(l string) string {
	l = regexp.MustCompile(`0x[0-9a-f]+|\d+`).ReplaceAllString(l, "N")
	if len(l) > 160 {
		l = l[:160]
	}
	return l
}

type raceReport struct {
	key   string
	text  string
	count int
	shard int
}

var frameRe = regexp.MustCompile(`^\s+(\S+)\(`)

// collectRaces parses GORACE log files, deduplicating by the pair of
// innermost library functions of the two accesses (line numbers stripped).
func collectRaces(dir string) []raceReport {
	files, _ := filepath.Glob(filepath.Join(dir, "race-*"))
	sort.Strings(files)
	by := map[string]*raceReport{}
	var order []string
	for _, f := range files {
		b, err := os.ReadFile(f)
		if err != nil {
			continue
		}
		blocks := strings.Split(string(b), "==================")
		for _, blk := range blocks {
			if !strings.Contains(blk, "WARNING: DATA RACE") {
				continue
			}
			// split into access stanzas
			stanzas := strings.Split(blk, "\n\n")
			var sites []string
			for _, st := range stanzas {
				t := strings.TrimSpace(st)
				if !(strings.HasPrefix(t, "WARNING: DATA RACE") || strings.HasPrefix(t, "Previous ") || strings.HasPrefix(t, "Read at") || strings.HasPrefix(t, "Write at")) {
					continue
				}
				site := ""
				for _, l := range strings.Split(st, "\n") {
					m := frameRe.FindStringSubmatch(l)
					if m != nil && strings.Contains(m[1], "matrix-org/gomatrixserverlib") {
						site = m[1]
						break
					}
				}
				if site == "" {
					for _, l := range strings.Split(st, "\n") {
						if m := frameRe.FindStringSubmatch(l); m != nil {
							site = m[1]
							break
						}
					}
				}
				site = strings.TrimPrefix(site, "github.com/matrix-org/gomatrixserverlib")
				site = regexp.MustCompile(`\.func\d+(\.\d+)*`).ReplaceAllString(site, "")
				sites = append(sites, strings.TrimLeft(site, "/."))
			}
			sort.Strings(sites)
			key := strings.Join(sites, "|")
			if r, ok := by[key]; ok {
				r.count++
				continue
			}
			txt := strings.TrimSpace(blk)
			if len(txt) > 4000 {
				txt = txt[:4000]
			}
			by[key] = &raceReport{key: key, text: txt, count: 1}
			order = append(order, key)
		}
	}
	out := []raceReport{}
	for _, k := range order {
		out = append(out, *by[k])
	}
	return out
}
