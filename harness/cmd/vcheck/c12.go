package main

import (
	"bytes"
	"context"
	"crypto/ed25519"
	"encoding/json"
	"errors"
	"fmt"
	"io"
	"net/http"
	"sort"
	"strings"
	"sync"
	"time"

	gmsl "github.com/matrix-org/gomatrixserverlib"
	"github.com/matrix-org/gomatrixserverlib/fclient"
	"github.com/matrix-org/gomatrixserverlib/spec"

	"verif/gen"
	"verif/mon"
	"verif/ref"
)

func init() {
	register(&propDef{
		ID:    "C12",
		Level: "fault_enumeration",
		Rule: "(a) single-request product, enumerated completely: database state of the signing key {absent, current, stale-but-covering-ts, stale-not-covering, expired-before-ts, expired-after-ts, wrong key, database error} x 0-2 fetchers each {error, empty, correct-current, correct-expired-before-ts, correct-expired-after-ts, wrong key, correct + unrelated extras} x timestamp {inside, at valid_until, 1 ms past} x strict / lenient rule x {signed, second key ID good, unsigned, unsupported algorithm}; (b) sampled multi-request batches over 1-3 servers and 1-2 key IDs with independent per-key source states; (c) CheckKeys on generated key responses with one fault each (name, valid_until vs now, missing / foreign / short key, no ed25519 key); (d) DirectKeyFetcher (direct, notary fallback) and PerspectiveKeyFetcher over scripted key clients serving signed / unsigned / mis-named / wrongly notarised responses. " +
			"distinct = distinct fault vector; non-trivial = at least one source holds a faulty or stale record or a fetcher is involved",
		Assumptions: []string{"sequential key-ring model in c12.go written from the property statement (database first, fetchers in order for keys the database lacks or holds past validity, fetched records supersede, store afterwards)",
			"validity boundaries placed >= 1 h from the wall clock", "abstains where the outcome depends on whether 'all keys found' is counted per request or per key, on fetcher extras colliding with other sources, and on the wall-clock freshness the fetchers apply to key responses (they pass the epoch as now)"},
		Run: runC12,
	})
}

type krec struct {
	pub        ed25519.PublicKey
	validUntil int64
	expired    int64
}

func (k krec) res() keyRes {
	return keyRes{VerifyKey: gmsl.VerifyKey{Key: spec.Base64Bytes(k.pub)}, ValidUntilTS: spec.Timestamp(k.validUntil), ExpiredTS: spec.Timestamp(k.expired)}
}

func (k krec) validAt(ts int64, strict bool, nowMs int64) bool {
	if k.expired != 0 {
		return ts < k.expired
	}
	if !strict {
		return true
	}
	if k.validUntil == 0 {
		return false
	}
	lim := k.validUntil
	if cap7 := nowMs + 7*24*3600*1000; lim > cap7 {
		lim = cap7
	}
	return ts <= lim
}

// scripted fetcher
type fetcherScript struct {
	name    string
	fail    bool
	answers map[keyReq]krec // returned only for keys that were asked
	extras  map[keyReq]krec // returned whenever the fetcher answers at all
	mu      sync.Mutex
	asked   []map[keyReq]spec.Timestamp
}

func (f *fetcherScript) FetcherName() string { return f.name }
func (f *fetcherScript) FetchKeys(ctx context.Context, reqs map[keyReq]spec.Timestamp) (map[keyReq]keyRes, error) {
	f.mu.Lock()
	defer f.mu.Unlock()
	cp := map[keyReq]spec.Timestamp{}
	for k, v := range reqs {
		cp[k] = v
	}
	f.asked = append(f.asked, cp)
	if f.fail {
		// a fetcher fails in its own ways - its own deadline among them - while the caller is still waiting
		switch (len(f.name) + len(f.asked) + len(reqs)) % 3 {
		case 0:
			return nil, fmt.Errorf("scripted fetcher failure: %w", context.DeadlineExceeded)
		case 1:
			return nil, fmt.Errorf("scripted fetcher failure: %w", context.Canceled)
		}
		return nil, errors.New("scripted fetcher failure")
	}
	out := map[keyReq]keyRes{}
	for k := range reqs {
		if r, ok := f.answers[k]; ok {
			out[k] = r.res()
		}
	}
	if len(out) > 0 || len(f.answers) == 0 && len(f.extras) > 0 {
		for k, r := range f.extras {
			out[k] = r.res()
		}
	}
	return out, nil
}

type kreq struct {
	server string
	ts     int64
	strict bool
	msg    []byte
	keyIDs []string // supported key IDs carrying a signature of server
	sigOK  map[string]ed25519.PublicKey // key ID -> the public key under which that signature verifies (harness knowledge)
	broken bool   // message is not a JSON object
}

// model is the sequential key-ring model. perKey selects how "all keys were found in the database" is counted.
func krModel(reqs []kreq, db map[keyReq]krec, dbErr bool, fetchers []*fetcherScript, nowMs int64, perKey bool) (ok []bool, callErr bool, stored map[keyReq]krec, fetched bool) {
	ok = make([]bool, len(reqs))
	needed := map[keyReq]bool{}
	for _, r := range reqs {
		for _, id := range r.keyIDs {
			needed[keyReq{ServerName: spec.ServerName(r.server), KeyID: gmsl.KeyID(id)}] = true
		}
	}
	if len(needed) == 0 {
		return ok, false, nil, false
	}
	if dbErr {
		return nil, true, nil, false
	}
	have := map[keyReq]krec{}
	toStore := map[keyReq]krec{}
	outstanding := map[keyReq]bool{}
	for k := range needed {
		outstanding[k] = true
	}
	for k := range needed {
		if rec, okk := db[k]; okk {
			have[k] = rec
			if rec.expired != 0 || nowMs < rec.validUntil {
				delete(outstanding, k)
			}
		}
	}
	check := func() bool {
		all := true
		for i, r := range reqs {
			if ok[i] {
				continue
			}
			for _, id := range r.keyIDs {
				rec, okk := have[keyReq{ServerName: spec.ServerName(r.server), KeyID: gmsl.KeyID(id)}]
				if !okk || !rec.validAt(r.ts, r.strict, nowMs) {
					continue
				}
				if pub, signed := r.sigOK[id]; signed && string(pub) == string(rec.pub) {
					ok[i] = true
					break
				}
			}
			if !ok[i] {
				all = false
			}
		}
		return all
	}
	// "It succeeds whenever the database ... supplies such a key": the database keys are tried first, whatever else
	// the batch contains; when they settle every request nothing is fetched or stored
	_ = perKey
	if check() {
		return ok, false, nil, false
	}
	for _, f := range fetchers {
		if len(outstanding) == 0 {
			break
		}
		if f.fail {
			continue
		}
		got := map[keyReq]krec{}
		for k := range outstanding {
			if r, okk := f.answers[k]; okk {
				got[k] = r
			}
		}
		if len(got) > 0 || len(f.answers) == 0 && len(f.extras) > 0 {
			for k, r := range f.extras {
				got[k] = r
			}
		}
		if len(got) == 0 {
			continue
		}
		fetched = true
		for k, r := range got {
			// what the fetcher was asked for supersedes the held record; a key it volunteers is only taken when
			// none is held (it must not displace the database's or an earlier fetcher's answer)
			if _, held := have[k]; held && !outstanding[k] {
				continue
			}
			have[k] = r
			toStore[k] = r
			delete(outstanding, k)
		}
	}
	check()
	// "stores what it fetched": the records the fetchers supplied and that were taken, not what was only read
	return ok, false, toStore, fetched
}

type keyWorld struct {
	keys map[[2]string]*gen.Identity // (server, keyID) -> true key
	bad  map[[2]string]*gen.Identity // a different key under the same ID
}

func newKeyWorld(r *gen.Rand) *keyWorld {
	w := &keyWorld{keys: map[[2]string]*gen.Identity{}, bad: map[[2]string]*gen.Identity{}}
	for _, s := range []string{"a.example", "b.example:8448", "c.example"} {
		for _, k := range []string{"ed25519:k1", "ed25519:k2"} {
			w.keys[[2]string{s, k}] = gen.NewIdentity(r, s, k)
			w.bad[[2]string{s, k}] = gen.NewIdentity(r, s, k)
		}
	}
	return w
}

const hourMs = 3600 * 1000

// srcState names the state of one source for one key.
var dbStates = []string{"absent", "current", "stale-covering", "stale-not-covering", "expired-before-ts", "expired-after-ts", "wrong-key"}
var fetchStates = []string{"absent", "current", "expired-before-ts", "expired-after-ts", "wrong-key", "stale-covering"}

func (w *keyWorld) rec(server, keyID, state string, ts, nowMs int64) (krec, bool) {
	id := w.keys[[2]string{server, keyID}]
	switch state {
	case "absent":
		return krec{}, false
	case "current":
		return krec{pub: id.Pub, validUntil: nowMs + 48*hourMs}, true
	case "stale-covering":
		return krec{pub: id.Pub, validUntil: ts + 5}, true // past (ts is days ago) but >= ts
	case "stale-not-covering":
		return krec{pub: id.Pub, validUntil: ts - 5}, true
	case "expired-before-ts":
		return krec{pub: id.Pub, expired: ts - 5}, true
	case "expired-after-ts":
		return krec{pub: id.Pub, expired: ts + 5}, true
	case "wrong-key":
		return krec{pub: w.bad[[2]string{server, keyID}].Pub, validUntil: nowMs + 48*hourMs}, true
	}
	panic(state)
}

func (w *keyWorld) message(r *gen.Rand, server string, signWith []string, kind string) kreq {
	body := ref.O("x", ref.I(int64(r.Intn(1000))), "type", ref.S("test"))
	msg := gen.Plain().Bytes(body)
	q := kreq{server: server, sigOK: map[string]ed25519.PublicKey{}}
	for _, k := range signWith {
		id := w.keys[[2]string{server, k}]
		var err error
		msg, err = gmsl.SignJSON(server, gmsl.KeyID(k), id.Priv, msg)
		if err != nil {
			panic(err)
		}
		q.keyIDs = append(q.keyIDs, k)
		q.sigOK[k] = id.Pub
	}
	switch kind {
	case "unsigned":
	case "unsupported-algorithm":
		v := ref.MustParse(msg)
		sigs := v.Get("signatures")
		if sigs == nil {
			sigs = ref.O()
			v.Set("signatures", sigs)
		}
		if sigs.Get(server) == nil {
			sigs.Set(server, ref.O())
		}
		sigs.Get(server).Set("rsa:1", ref.S("AAAA"))
		msg = gen.Plain().Bytes(v)
	case "signed-by-other-server":
		v := ref.MustParse(msg)
		v.Set("signatures", ref.O("elsewhere.example", ref.O("ed25519:k1", ref.S("AAAA"))))
		msg = gen.Plain().Bytes(v)
		q.keyIDs, q.sigOK = nil, map[string]ed25519.PublicKey{}
	case "corrupted-signature":
		v := ref.MustParse(msg)
		for _, k := range signWith {
			v.Get("signatures").Get(server).Set(k, ref.S(strings.Repeat("A", 86)))
			delete(q.sigOK, k)
		}
		msg = gen.Plain().Bytes(v)
	case "not-json":
		msg = []byte("{not json")
		q.keyIDs, q.sigOK, q.broken = nil, map[string]ed25519.PublicKey{}, true
	}
	if len(signWith) > 0 && !q.broken && kind != "signed-by-other-server" && r.Chance(0.2) {
		// something of another entity under "signatures" that is no map of signatures at all: none of the named
		// server's business
		v := ref.MustParse(msg)
		if sigs := v.Get("signatures"); sigs != nil && sigs.K == ref.Obj {
			sigs.Set("elsewhere.example", gen.Pick(r, []*ref.Value{ref.I(123), ref.S("x"), ref.A(), ref.NullV(), ref.O("ed25519:z", ref.I(5))}))
			msg = gen.Plain().Bytes(v)
		}
	}
	q.msg = msg
	return q
}

// runKeyRing executes one batch against the real KeyRing and all monitors.
func runKeyRing(c *mon.Ctx, name string, desc map[string]any, reqs []kreq, db map[keyReq]krec, dbErr bool, fetchers []*fetcherScript, nowMs int64, nontrivial bool) {
	c.Case(name, desc, func() {
		mdb := newMemKeyDB()
		for k, r := range db {
			mdb.keys[k] = r.res()
		}
		mdb.failFetch = dbErr
		ring := &gmsl.KeyRing{KeyDatabase: mdb}
		for _, f := range fetchers {
			f.asked = nil
			ring.KeyFetchers = append(ring.KeyFetchers, f)
		}
		var vr []gmsl.VerifyJSONRequest
		for _, q := range reqs {
			fn := gmsl.NoStrictValidityCheck
			if q.strict {
				fn = gmsl.StrictValiditySignatureCheck
			}
			vr = append(vr, gmsl.VerifyJSONRequest{ServerName: spec.ServerName(q.server), AtTS: spec.Timestamp(q.ts), Message: q.msg, ValidityCheckingFunc: fn})
		}
		res, err := ring.VerifyJSONs(context.Background(), vr)
		c.Count("keyring_calls")
		if nontrivial {
			b, _ := json.Marshal(desc)
			c.NontrivialBytes(b)
		}
		m1, e1, st1, f1 := krModel(reqs, db, dbErr, fetchers, nowMs, false)
		m2, e2, _, _ := krModel(reqs, db, dbErr, fetchers, nowMs, true)
		if e1 != e2 {
			c.Count("abstained_count_basis")
			return
		}
		if e1 {
			if err == nil {
				c.Failf("keyring:database-error-swallowed", "the key database failed but VerifyJSONs returned results %v", res)
			}
			return
		}
		if err != nil {
			c.Failf("keyring:unexpected-call-error", "VerifyJSONs: %v", err)
			return
		}
		if len(res) != len(reqs) {
			c.Failf("keyring:result-count", "%d results for %d requests", len(res), len(reqs))
			return
		}
		// source-independent soundness: success needs SOME consulted source holding a verifying record valid at ts
		consulted := []map[keyReq]krec{}
		if len(mdb.fetchLog) > 0 {
			consulted = append(consulted, db)
		}
		for _, f := range fetchers {
			if len(f.asked) > 0 && !f.fail {
				m := map[keyReq]krec{}
				for k, r := range f.answers {
					m[k] = r
				}
				for k, r := range f.extras {
					m[k] = r
				}
				consulted = append(consulted, m)
			}
		}
		for i, q := range reqs {
			got := res[i].Error == nil
			if got {
				sound := false
				for _, id := range q.keyIDs {
					pub, signed := q.sigOK[id]
					if !signed {
						continue
					}
					for _, src := range consulted {
						if rec, ok := src[keyReq{ServerName: spec.ServerName(q.server), KeyID: gmsl.KeyID(id)}]; ok && string(rec.pub) == string(pub) && rec.validAt(q.ts, q.strict, nowMs) {
							sound = true
						}
					}
				}
				if !sound {
					c.Failf("keyring:unsound-success", "request %d (%s at %d, strict=%v) succeeded although no consulted source holds a verifying key valid at that time\n%s", i, q.server, q.ts, q.strict, fmtDesc(desc))
				}
			}
			if m1[i] != m2[i] {
				c.Count("abstained_count_basis")
				continue
			}
			c.Count(fmt.Sprintf("model_says_%v", m1[i]))
			if got != m1[i] {
				dir := "rejects-valid"
				if got {
					dir = "accepts-invalid"
				}
				c.Failf("keyring:"+dir+":"+classOf(desc, i), "request %d (%s at %d, strict=%v): library success=%v (%v), model %v\n%s", i, q.server, q.ts, q.strict, got, res[i].Error, m1[i], fmtDesc(desc))
			}
		}
		// fetchers are asked only about keys the database lacks or holds past validity
		for _, f := range fetchers {
			for _, asked := range f.asked {
				for k := range asked {
					rec, inDB := db[k]
					if inDB && (rec.expired != 0 || nowMs < rec.validUntil) {
						c.Failf("keyring:fetches-key-the-database-holds", "fetcher %s was asked for %s/%s although the database holds it within validity\n%s", f.name, k.ServerName, k.KeyID, fmtDesc(desc))
					}
					needed := false
					for _, q := range reqs {
						for _, id := range q.keyIDs {
							if string(k.ServerName) == q.server && string(k.KeyID) == id {
								needed = true
							}
						}
					}
					if !needed {
						c.Failf("keyring:fetches-unneeded-key", "fetcher %s was asked for %s/%s which no request needs", f.name, k.ServerName, k.KeyID)
					}
				}
			}
		}
		// fetched keys are stored
		if f1 {
			if len(mdb.storeLog) == 0 {
				c.Failf("keyring:fetched-keys-not-stored", "a fetcher answered but StoreKeys was not called\n%s", fmtDesc(desc))
			} else {
				last := mdb.storeLog[len(mdb.storeLog)-1]
				for k, want := range st1 {
					got, ok := last[k]
					if !ok {
						c.Failf("keyring:fetched-keys-not-stored", "StoreKeys did not receive %s/%s\n%s", k.ServerName, k.KeyID, fmtDesc(desc))
						break
					}
					if string(got.Key) != string(want.pub) || int64(got.ValidUntilTS) != want.validUntil || int64(got.ExpiredTS) != want.expired {
						c.Failf("keyring:stored-record-differs", "StoreKeys received another record for %s/%s than the source that answered it supplied (valid_until %d vs %d, expired %d vs %d)\n%s", k.ServerName, k.KeyID, got.ValidUntilTS, want.validUntil, got.ExpiredTS, want.expired, fmtDesc(desc))
						break
					}
				}
			}
		}
		// ... and nothing else is: a record the call only read from the database is not written back (a concurrent call
		// may have stored a fresher one in the meantime; writing the old one back would lose that update)
		for _, batch := range mdb.storeLog {
			for k, got := range batch {
				supplied := false
				for _, f := range fetchers {
					for _, src := range []map[keyReq]krec{f.answers, f.extras} {
						if r, ok := src[k]; ok && string(r.pub) == string(got.Key) && r.validUntil == int64(got.ValidUntilTS) && r.expired == int64(got.ExpiredTS) {
							supplied = true
						}
					}
				}
				if !supplied {
					c.Failf("keyring:stores-a-record-no-fetcher-supplied", "StoreKeys received a record for %s/%s (valid_until %d, expired %d) that no fetcher supplied in this call\n%s", k.ServerName, k.KeyID, got.ValidUntilTS, got.ExpiredTS, fmtDesc(desc))
				}
			}
		}
		if c.WantSample() && nontrivial {
			c.Sample(desc)
		}
	})
}

func collidingExtras(fs []*fetcherScript) map[keyReq]bool {
	out := map[keyReq]bool{}
	for _, f := range fs {
		for k := range f.extras {
			out[k] = true
		}
	}
	return out
}

func fmtDesc(d map[string]any) string {
	b, _ := json.Marshal(d)
	return string(b)
}

func classOf(d map[string]any, i int) string {
	if v, ok := d["class"]; ok {
		return fmt.Sprint(v)
	}
	return "batch"
}

// c12ValidityGrid evaluates the two validity rules over the whole range of the (unsigned, 64-bit) timestamps, where a
// conversion to a signed time would wrap: at / valid_until / expired around 0, now, now+7d, 2^53, 2^63 and 2^64-1.
func c12ValidityGrid(c *mon.Ctx) {
	if c.Shard != 0 {
		return
	}
	// the seven-day cap moves with the clock: the values next to it are only used one-sidedly (a minute away)
	now := uint64(time.Now().UnixMilli())
	day := uint64(24 * 3600 * 1000)
	points := []uint64{0, 1, 1000, now - 30*day, now - 60000, now + 60000, now + 6*day, now + 7*day - 60000, now + 7*day + 60000, now + 30*day,
		1 << 53, 1<<63 - 1, 1 << 63, 1<<63 + 1, 1<<64 - 1000, 1<<64 - 1}
	for _, at := range points {
		for _, vu := range points {
			name := fmt.Sprintf("validity-grid:strict:at=%d:valid_until=%d", at, vu)
			c.Case(name, map[string]any{"at_ts": at, "valid_until_ts": vu}, func() {
				c.Nontrivial(name)
				lim := vu
				if cap7 := now + 7*day; lim > cap7 {
					lim = cap7
				}
				want := vu != 0 && at <= lim
				got := gmsl.StrictValiditySignatureCheck(spec.Timestamp(at), spec.Timestamp(vu))
				c.Count("validity_grid_points")
				if got != want {
					c.Failf("validity:strict-rule-wrong-beyond-int64", "StrictValiditySignatureCheck(at=%d, valid_until=%d) = %v; at <= min(valid_until, now+7d) is %v (now=%d)", at, vu, got, want, now)
				}
				for _, exp := range []uint64{1, now - day, 1 << 63, 1<<64 - 1} {
					r := gmsl.PublicKeyLookupResult{ExpiredTS: spec.Timestamp(exp), ValidUntilTS: spec.Timestamp(vu)}
					if g, w := r.WasValidAt(spec.Timestamp(at), gmsl.StrictValiditySignatureCheck), at < exp; g != w {
						c.Failf("validity:expired-rule-wrong-beyond-int64", "WasValidAt(at=%d) with expired_ts=%d = %v, want %v", at, exp, g, w)
					}
				}
			})
		}
	}
}

func runC12(c *mon.Ctx) {
	c12ValidityGrid(c)
	w := newKeyWorld(c.RandShared("keys"))
	nowMs := time.Now().UnixMilli()
	base := nowMs - 30*24*hourMs // event timestamps a month ago: far from the 7-day cap and from "now"
	r := c.Rand("cases")
	mkFetcher := func(name, state, server, keyID string, ts int64) *fetcherScript {
		f := &fetcherScript{name: name, answers: map[keyReq]krec{}, extras: map[keyReq]krec{}}
		switch state {
		case "error":
			f.fail = true
		case "empty":
		case "with-extras":
			rec, _ := w.rec(server, keyID, "current", ts, nowMs)
			f.answers[keyReq{ServerName: spec.ServerName(server), KeyID: gmsl.KeyID(keyID)}] = rec
			f.extras[keyReq{ServerName: "unrelated.example", KeyID: "ed25519:z"}] = krec{pub: w.bad[[2]string{"a.example", "ed25519:k1"}].Pub, validUntil: nowMs + 48*hourMs}
		default:
			if rec, ok := w.rec(server, keyID, state, ts, nowMs); ok {
				f.answers[keyReq{ServerName: spec.ServerName(server), KeyID: gmsl.KeyID(keyID)}] = rec
			}
		}
		return f
	}
	// (a) exhaustive single-request product
	fstates := []string{"none", "error", "empty", "current", "expired-before-ts", "expired-after-ts", "wrong-key", "with-extras", "stale-covering"}
	n := 0
	for _, dbs := range append(append([]string{}, dbStates...), "database-error") {
		for _, f1 := range fstates {
			for _, f2 := range []string{"none", "current", "wrong-key", "error", "expired-before-ts"} {
				if f1 == "none" && f2 != "none" {
					continue
				}
				for _, tsKind := range []string{"inside", "at-valid-until", "past-valid-until"} {
					for _, strict := range []bool{false, true} {
						for _, mk := range []string{"signed", "two-keys", "unsigned", "unsupported-algorithm", "corrupted-signature", "signed-by-other-server", "not-json"} {
							n++
							if !c.Mine(n) {
								continue
							}
							server, keyID := "a.example", "ed25519:k1"
							ts := base
							db := map[keyReq]krec{}
							dbErr := dbs == "database-error"
							if !dbErr {
								if rec, ok := w.rec(server, keyID, dbs, ts, nowMs); ok {
									// exact boundary placement for the covering state
									if dbs == "stale-covering" {
										switch tsKind {
										case "at-valid-until":
											rec.validUntil = ts
										case "past-valid-until":
											rec.validUntil = ts - 1
										}
									}
									db[keyReq{ServerName: spec.ServerName(server), KeyID: gmsl.KeyID(keyID)}] = rec
								}
							}
							if tsKind != "inside" && dbs != "stale-covering" {
								continue
							}
							var fs []*fetcherScript
							if f1 != "none" {
								fs = append(fs, mkFetcher("f1", f1, server, keyID, ts))
							}
							if f2 != "none" {
								fs = append(fs, mkFetcher("f2", f2, server, keyID, ts))
							}
							signWith := []string{keyID}
							if mk == "two-keys" {
								signWith = []string{"ed25519:k2", keyID}
								// the second key is known to nobody: success must come from k1
							}
							kind := mk
							if mk == "signed" || mk == "two-keys" {
								kind = ""
							}
							if mk == "unsigned" {
								signWith = nil
							}
							q := w.message(r, server, signWith, kind)
							q.ts, q.strict = ts, strict
							desc := map[string]any{"class": fmt.Sprintf("db=%s,f1=%s,f2=%s", dbs, f1, f2), "database": dbs, "fetcher1": f1, "fetcher2": f2, "ts": tsKind, "strict": strict, "message": mk}
							runKeyRing(c, "single:"+dbs+":"+f1+":"+f2, desc, []kreq{q}, db, dbErr, fs, nowMs, dbs != "current" || f1 != "none")
						}
					}
				}
			}
		}
	}
	c.SetExhaustive()
	// (b) sampled batches
	nB := c.Scale(2000, 1000000)
	servers := []string{"a.example", "b.example:8448", "c.example"}
	for k := 0; k < nB; k++ {
		nreq := r.Range(1, 6)
		db := map[keyReq]krec{}
		f1 := &fetcherScript{name: "f1", answers: map[keyReq]krec{}, extras: map[keyReq]krec{}, fail: r.Chance(0.15)}
		f2 := &fetcherScript{name: "f2", answers: map[keyReq]krec{}, extras: map[keyReq]krec{}, fail: r.Chance(0.15)}
		states := map[string]string{}
		ts := base + int64(r.Intn(1000))
		for _, s := range servers {
			for _, kid := range []string{"ed25519:k1", "ed25519:k2"} {
				key := keyReq{ServerName: spec.ServerName(s), KeyID: gmsl.KeyID(kid)}
				ds := gen.Pick(r, dbStates)
				if rec, ok := w.rec(s, kid, ds, ts, nowMs); ok {
					db[key] = rec
				}
				s1, s2 := gen.Pick(r, fetchStates), gen.Pick(r, fetchStates)
				if rec, ok := w.rec(s, kid, s1, ts, nowMs); ok {
					f1.answers[key] = rec
				}
				if rec, ok := w.rec(s, kid, s2, ts, nowMs); ok {
					f2.answers[key] = rec
				}
				states[s+"/"+kid] = ds + "|" + s1 + "|" + s2
			}
		}
		if r.Chance(0.2) {
			f1.extras[keyReq{ServerName: "unrelated.example", KeyID: "ed25519:z"}] = krec{pub: w.bad[[2]string{"a.example", "ed25519:k1"}].Pub, validUntil: nowMs + 48*hourMs}
		}
		if r.Chance(0.25) {
			// a fetcher volunteers, along with whatever it was asked for, a record for one of the batch's own keys:
			// stale, or another key altogether
			f := gen.Pick(r, []*fetcherScript{f1, f2})
			s, kid := gen.Pick(r, servers), gen.Pick(r, []string{"ed25519:k1", "ed25519:k2"})
			if rec, ok := w.rec(s, kid, gen.Pick(r, []string{"wrong-key", "stale-not-covering", "expired-before-ts"}), ts, nowMs); ok {
				f.extras[keyReq{ServerName: spec.ServerName(s), KeyID: gmsl.KeyID(kid)}] = rec
				states["volunteered by "+f.name] = s + "/" + kid
			}
		}
		var fs []*fetcherScript
		switch r.Intn(4) {
		case 0:
		case 1:
			fs = []*fetcherScript{f1}
		default:
			fs = []*fetcherScript{f1, f2}
		}
		var reqs []kreq
		kinds := []string{}
		for i := 0; i < nreq; i++ {
			s := gen.Pick(r, servers)
			sign := [][]string{{"ed25519:k1"}, {"ed25519:k2"}, {"ed25519:k1", "ed25519:k2"}, nil}[r.Intn(4)]
			kind := gen.Pick(r, []string{"", "", "", "", "unsupported-algorithm", "corrupted-signature", "not-json", "signed-by-other-server"})
			q := w.message(r, s, sign, kind)
			q.ts, q.strict = ts, r.Chance(0.5)
			reqs = append(reqs, q)
			kinds = append(kinds, fmt.Sprintf("%s signed %v %s strict=%v", s, sign, kind, q.strict))
		}
		desc := map[string]any{"requests": kinds, "key_states(db|f1|f2)": states, "fetchers": len(fs), "f1_fails": f1.fail, "f2_fails": f2.fail}
		runKeyRing(c, "batch", desc, reqs, db, false, fs, nowMs, true)
	}
	// directed: the database knows neither key; the first fetcher answers for server A only, the second is therefore
	// asked for B's key and, answering, also volunteers a record for A's key that does not vouch for the message (another
	// key, stale, expired): what the first fetcher supplied stays in force
	if c.Shard == 0 {
		for _, vol := range []string{"wrong-key", "wrong-key-valid-for-longer", "wrong-key-valid-for-less-long", "same-key-valid-for-longer", "stale-not-covering", "expired-before-ts"} {
			for _, order := range [][2]string{{"a.example", "b.example:8448"}, {"b.example:8448", "a.example"}} {
				for _, strict := range []bool{true, false} {
					ts := base + 500
					f1 := &fetcherScript{name: "f1", answers: map[keyReq]krec{}, extras: map[keyReq]krec{}}
					f2 := &fetcherScript{name: "f2", answers: map[keyReq]krec{}, extras: map[keyReq]krec{}}
					ka, kb := keyReq{ServerName: "a.example", KeyID: "ed25519:k1"}, keyReq{ServerName: "b.example:8448", KeyID: "ed25519:k1"}
					if rec, ok := w.rec("a.example", "ed25519:k1", "current", ts, nowMs); ok {
						f1.answers[ka] = rec
					}
					if rec, ok := w.rec("b.example:8448", "ed25519:k1", "current", ts, nowMs); ok {
						f2.answers[kb] = rec
					}
					switch vol {
					case "wrong-key-valid-for-longer", "wrong-key-valid-for-less-long", "same-key-valid-for-longer":
						// the volunteered record's validity is not the held one's: neither "the more recent of the two"
						// nor "the longer-lived of the two" takes the place of the record that was asked for and received
						rec, _ := w.rec("a.example", "ed25519:k1", map[bool]string{true: "current", false: "wrong-key"}[vol == "same-key-valid-for-longer"], ts, nowMs)
						if vol == "wrong-key-valid-for-less-long" {
							rec.validUntil -= 24 * hourMs
						} else {
							rec.validUntil += 48 * hourMs
						}
						f2.extras[ka] = rec
					default:
						if rec, ok := w.rec("a.example", "ed25519:k1", vol, ts, nowMs); ok {
							f2.extras[ka] = rec
						}
					}
					var reqs []kreq
					for _, s := range order {
						q := w.message(r, s, []string{"ed25519:k1"}, "")
						q.ts, q.strict = ts, strict
						reqs = append(reqs, q)
					}
					desc := map[string]any{"requests": order, "first_fetcher": "a.example/ed25519:k1 current", "second_fetcher": "b.example:8448/ed25519:k1 current, volunteers a.example/ed25519:k1 " + vol, "strict": strict}
					runKeyRing(c, "batch-second-fetcher-volunteers", desc, reqs, map[keyReq]krec{}, false, []*fetcherScript{f1, f2}, nowMs, true)
				}
			}
		}
	}
	c.Floor("model_says_true", 100)
	c.Floor("model_says_false", 100)
	c12KeyResponses(c, w, r)
	c12LargeBatch(c, c.Rand("large-batch"))
	c12RealClientSeveralDocuments(c, c.Rand("real-client-docs"))
	c12RealClientNameSpelling(c, c.Rand("real-client-names"))
	c12RealClient(c, c.Rand("real-client"))
}

// ---- key responses: CheckKeys, DirectKeyFetcher, PerspectiveKeyFetcher ----

type keyResp struct {
	json      []byte
	name      string
	validUtil int64
	keys      map[string]ed25519.PublicKey // verify_keys
	old       map[string]int64             // old key id -> expired_ts
	selfOK    bool                         // every ed25519 verify key is 32 bytes and self-signed
	hasEd     bool
}

func (w *keyWorld) keyResponse(r *gen.Rand, server string, validUntil int64, fault string, notary *gen.Identity, notaryFault string) keyResp {
	id1, id2 := w.keys[[2]string{server, "ed25519:k1"}], w.keys[[2]string{server, "ed25519:k2"}]
	name := server
	if fault == "wrong-name" {
		name = "impostor.example"
	}
	vk := ref.O("ed25519:k1", ref.O("key", ref.S(spec.Base64Bytes(id1.Pub).Encode())))
	kr := keyResp{name: name, validUtil: validUntil, keys: map[string]ed25519.PublicKey{"ed25519:k1": id1.Pub}, old: map[string]int64{}, selfOK: true, hasEd: true}
	switch fault {
	case "short-key":
		vk.Set("ed25519:k1", ref.O("key", ref.S(spec.Base64Bytes(id1.Pub[:31]).Encode())))
		kr.selfOK = false
	case "no-ed25519-key":
		vk = ref.O("rsa:1", ref.O("key", ref.S("AAAA")))
		kr.keys = map[string]ed25519.PublicKey{}
		kr.hasEd = false
	case "two-keys":
		vk.Set("ed25519:k2", ref.O("key", ref.S(spec.Base64Bytes(id2.Pub).Encode())))
		kr.keys["ed25519:k2"] = id2.Pub
	case "extra-unsigned-key":
		vk.Set("ed25519:k2", ref.O("key", ref.S(spec.Base64Bytes(id2.Pub).Encode())))
		kr.keys["ed25519:k2"] = id2.Pub
		kr.selfOK = false
	}
	vuValue := ref.I(validUntil)
	if c12ValidUntilLiteral != "" {
		vuValue = ref.NumLit(c12ValidUntilLiteral) // timestamps are unsigned 64-bit: the upper half does not fit an int64
	}
	obj := ref.O("server_name", ref.S(name), "valid_until_ts", vuValue, "verify_keys", vk,
		"old_verify_keys", ref.O("ed25519:old", ref.O("key", ref.S(spec.Base64Bytes(id2.Pub).Encode()), "expired_ts", ref.I(1234567))))
	kr.old["ed25519:old"] = 1234567
	msg := gen.Plain().Bytes(obj)
	sign := func(n, kid string, priv ed25519.PrivateKey) {
		var err error
		msg, err = gmsl.SignJSON(n, gmsl.KeyID(kid), priv, msg)
		if err != nil {
			panic(err)
		}
	}
	switch fault {
	case "unsigned":
		kr.selfOK = false
	case "signed-by-other-key":
		sign(name, "ed25519:k1", w.bad[[2]string{server, "ed25519:k1"}].Priv)
		kr.selfOK = false
	case "signed-under-other-name":
		sign("somebody.example", "ed25519:k1", id1.Priv)
		kr.selfOK = false
	case "no-ed25519-key", "short-key":
		if fault == "short-key" {
			sign(name, "ed25519:k1", id1.Priv)
		}
	case "two-keys":
		sign(name, "ed25519:k1", id1.Priv)
		sign(name, "ed25519:k2", id2.Priv)
	default:
		sign(name, "ed25519:k1", id1.Priv)
	}
	if notary != nil {
		switch notaryFault {
		case "":
			sign(notary.Server, notary.KeyID, notary.Priv)
		case "bad-signature":
			sign(notary.Server, notary.KeyID, w.bad[[2]string{"a.example", "ed25519:k2"}].Priv)
		case "unknown-key-id":
			sign(notary.Server, "ed25519:unknown", notary.Priv)
		case "not-notarised":
		}
	}
	kr.json = msg
	return kr
}

func parseServerKeys(b []byte) (gmsl.ServerKeys, error) {
	var sk gmsl.ServerKeys
	err := json.Unmarshal(b, &sk)
	return sk, err
}

type scriptedKeyClient struct {
	direct map[string]func() (gmsl.ServerKeys, error)
	notary map[string]func() ([]gmsl.ServerKeys, error)
	mu     sync.Mutex
	calls  []string
}

func (s *scriptedKeyClient) GetServerKeys(ctx context.Context, server spec.ServerName) (gmsl.ServerKeys, error) {
	s.mu.Lock()
	s.calls = append(s.calls, "direct:"+string(server))
	s.mu.Unlock()
	if f, ok := s.direct[string(server)]; ok {
		return f()
	}
	return gmsl.ServerKeys{}, errors.New("no route")
}

func (s *scriptedKeyClient) LookupServerKeys(ctx context.Context, server spec.ServerName, reqs map[keyReq]spec.Timestamp) ([]gmsl.ServerKeys, error) {
	s.mu.Lock()
	s.calls = append(s.calls, "notary:"+string(server))
	s.mu.Unlock()
	if f, ok := s.notary[string(server)]; ok {
		return f()
	}
	return nil, errors.New("no route")
}

// c12ValidUntilLiteral, when set, is the valid_until_ts literal keyResponse writes instead of its int64 argument.
var c12ValidUntilLiteral string

func c12KeyResponses(c *mon.Ctx, w *keyWorld, r *gen.Rand) {
	faults := []string{"", "wrong-name", "unsigned", "signed-by-other-key", "signed-under-other-name", "short-key", "no-ed25519-key", "two-keys", "extra-unsigned-key"}
	now := time.UnixMilli(1800000000000)
	// (c) CheckKeys
	for _, fault := range faults {
		for _, vu := range []int64{now.UnixMilli() + 1, now.UnixMilli(), now.UnixMilli() - 1, now.UnixMilli() + 86400000, 0} {
			if c.Shard != 0 {
				continue
			}
			kr := w.keyResponse(r, "a.example", vu, fault, nil, "")
			name := fmt.Sprintf("checkkeys:%s:valid_until%+d", fault, vu-now.UnixMilli())
			c.Case(name, map[string]any{"fault": fault, "valid_until_minus_now": vu - now.UnixMilli(), "response": string(kr.json)}, func() {
				c.Nontrivial(name)
				sk, err := parseServerKeys(kr.json)
				if err != nil {
					c.Failf("checkkeys:parse", "%v", err)
					return
				}
				checks, keys := gmsl.CheckKeys("a.example", now, sk)
				want := kr.name == "a.example" && vu > now.UnixMilli() && kr.hasEd && kr.selfOK
				c.Count("checkkeys_calls")
				if checks.AllChecksOK != want {
					dir := "accepts"
					if want {
						dir = "rejects"
					}
					c.Failf("checkkeys:"+dir+":"+faultOr(fault, vu > now.UnixMilli()), "CheckKeys AllChecksOK=%v, expected %v (fault %q, valid_until-now=%d)\n%s", checks.AllChecksOK, want, fault, vu-now.UnixMilli(), kr.json)
					return
				}
				if want {
					if len(keys) != len(kr.keys) {
						c.Failf("checkkeys:key-set", "CheckKeys returned %d keys, the response has %d verify keys", len(keys), len(kr.keys))
					}
					for id, pub := range kr.keys {
						if string(keys[gmsl.KeyID(id)]) != string(pub) {
							c.Failf("checkkeys:key-set", "CheckKeys returned a different key for %s", id)
						}
					}
				} else if keys != nil {
					c.Failf("checkkeys:keys-returned-on-failure", "CheckKeys returned keys although the checks failed")
				}
			})
		}
	}
	// valid_until_ts in the upper half of the unsigned 64-bit range: in the future, whatever "now" is
	for _, lit := range []string{"9223372036854775807", "9223372036854775808", "18446744073709551615"} {
		if c.Shard != 0 {
			continue
		}
		c12ValidUntilLiteral = lit
		kr := w.keyResponse(r, "a.example", 0, "", nil, "")
		c12ValidUntilLiteral = ""
		c.Case("checkkeys::valid_until="+lit, map[string]any{"valid_until_ts": lit, "response": string(kr.json)}, func() {
			c.Nontrivial("checkkeys|huge|" + lit)
			sk, err := parseServerKeys(kr.json)
			if err != nil {
				c.Failf("checkkeys:parse", "%v", err)
				return
			}
			for _, at := range []time.Time{now, time.Now(), time.Unix(0, 0)} {
				checks, _ := gmsl.CheckKeys("a.example", at, sk)
				c.Count("checkkeys_calls")
				if !checks.AllChecksOK || !checks.FutureValidUntilTS {
					c.Failf("checkkeys:rejects:valid-until-beyond-int64", "CheckKeys at %d says a correctly self-signed response with valid_until_ts %s is not valid in the future (FutureValidUntilTS=%v)", at.UnixMilli(), lit, checks.FutureValidUntilTS)
					return
				}
			}
		})
	}
	// (d) fetchers
	notary := gen.NewIdentity(r, "notary.example", "ed25519:n1")
	n := c.Scale(600, 100000)
	for k := 0; k < n; k++ {
		servers := []string{"a.example", "b.example:8448", "c.example"}
		nsrv := r.Range(1, 3)
		directFault := map[string]string{}
		notaryFault := map[string]string{}
		client := &scriptedKeyClient{direct: map[string]func() (gmsl.ServerKeys, error){}, notary: map[string]func() ([]gmsl.ServerKeys, error){}}
		want := map[string]bool{} // server -> keys expected in the result
		forged := map[string]bool{} // server -> some answer carries a document in its name made by another server
		reqs := map[keyReq]spec.Timestamp{}
		for _, s := range servers[:nsrv] {
			s := s
			df := gen.Pick(r, append([]string{"", "", "error"}, faults...))
			nf := gen.Pick(r, append([]string{"", "error", "absent"}, faults...))
			vu := gen.Pick(r, []int64{time.Now().UnixMilli() + 48*hourMs, 0})
			directFault[s], notaryFault[s] = df, nf
			dr := w.keyResponse(r, s, vu, df, nil, "")
			nr := w.keyResponse(r, s, vu, nf, nil, "")
			otherSrv := servers[(indexOf(servers, s)+1)%len(servers)]
			absentObj := w.keyResponse(r, otherSrv, vu, "", nil, "")
			var forgedExtra *gmsl.ServerKeys
			if r.Chance(0.3) {
				own := w.keys[[2]string{s, "ed25519:k1"}]
				obj := ref.O("server_name", ref.S(otherSrv), "valid_until_ts", ref.I(time.Now().UnixMilli()+48*hourMs),
					"verify_keys", ref.O("ed25519:k1", ref.O("key", ref.S(spec.Base64Bytes(own.Pub).Encode()))))
				if msg, err := gmsl.SignJSON(otherSrv, "ed25519:k1", own.Priv, gen.Plain().Bytes(obj)); err == nil {
					if sk, err := parseServerKeys(msg); err == nil {
						forgedExtra = &sk
						forged[otherSrv] = true
					}
				}
			}
			client.direct[s] = func() (gmsl.ServerKeys, error) {
				if df == "error" {
					return gmsl.ServerKeys{}, errors.New("scripted")
				}
				return parseServerKeys(dr.json)
			}
			client.notary[s] = func() ([]gmsl.ServerKeys, error) {
				if nf == "error" {
					return nil, errors.New("scripted")
				}
				if nf == "absent" {
					sk, _ := parseServerKeys(absentObj.json)
					return []gmsl.ServerKeys{sk}, nil
				}
				sk, err := parseServerKeys(nr.json)
				if forgedExtra != nil {
					// the answering server adds a document in another server's name, made with its own key
					return []gmsl.ServerKeys{sk, *forgedExtra}, err
				}
				return []gmsl.ServerKeys{sk}, err
			}
			ok := func(kr keyResp, fault string) bool {
				return fault != "error" && fault != "absent" && kr.name == s && kr.validUtil > 0 && kr.hasEd && kr.selfOK
			}
			want[s] = ok(dr, df) || ok(nr, nf)
			reqs[keyReq{ServerName: spec.ServerName(s), KeyID: "ed25519:k1"}] = 0
		}
		local := r.Chance(0.3)
		if local {
			reqs[keyReq{ServerName: "local.example", KeyID: "ed25519:l"}] = 0
		}
		desc := map[string]any{"servers": servers[:nsrv], "direct_fault": directFault, "notary_fault": notaryFault, "with_local_request": local}
		c.Case("direct-fetcher", desc, func() {
			b, _ := json.Marshal(desc)
			c.NontrivialBytes(b)
			f := &gmsl.DirectKeyFetcher{Client: client, IsLocalServerName: func(s spec.ServerName) bool { return s == "local.example" }, LocalPublicKey: spec.Base64Bytes(notary.Pub)}
			reqsBefore := fmt.Sprint(reqs)
			res, err := f.FetchKeys(context.Background(), reqs)
			if after := fmt.Sprint(reqs); after != reqsBefore {
				c.Failf("directfetcher:callers-request-map-modified", "DirectKeyFetcher.FetchKeys changed the request map it was given from %s to %s", reqsBefore, after)
			}
			c.Count("direct_fetches")
			if err != nil {
				c.Failf("directfetcher:error", "FetchKeys: %v", err)
				return
			}
			gotServers := map[string]bool{}
			for k2 := range res {
				gotServers[string(k2.ServerName)] = true
			}
			for _, s := range servers[:nsrv] {
				if gotServers[s] != want[s] {
					dir := "accepts-bad-response"
					if want[s] {
						dir = "drops-good-response"
					}
					c.Failf("directfetcher:"+dir+":"+directFault[s]+"|"+notaryFault[s], "server %s: keys returned=%v, expected %v (direct fault %q, notary-fallback fault %q)", s, gotServers[s], want[s], directFault[s], notaryFault[s])
				}
			}
			if local != gotServers["local.example"] {
				c.Failf("directfetcher:local-key", "local server key present=%v, requested=%v", gotServers["local.example"], local)
			}
			for s := range gotServers {
				if s != "local.example" && !contains(servers[:nsrv], s) {
					c.Failf("directfetcher:foreign-keys", "FetchKeys returned keys for %s which was not asked about", s)
				}
			}
			for k2, v := range res {
				if id, ok := w.keys[[2]string{string(k2.ServerName), string(k2.KeyID)}]; ok && string(v.Key) != string(id.Pub) {
					c.Failf("directfetcher:key-of-another-server", "FetchKeys returned for %s / %s a key that is not that server's (a document in its name made by another server was among the answers: %v)", k2.ServerName, k2.KeyID, forged[string(k2.ServerName)])
				}
			}
			if len(forged) > 0 {
				c.Count("direct_fetches_with_a_forged_document_of_another_server")
			}
		})
		// perspective fetcher: a notary answer of 1-3 objects
		nobj := r.Range(1, 3)
		var objs []gmsl.ServerKeys
		allOK := true
		objDesc := []string{}
		expectKeys := map[string]bool{}
		for i := 0; i < nobj; i++ {
			s := servers[i]
			fault := gen.Pick(r, append([]string{"", "", "", ""}, faults...))
			nfault := gen.Pick(r, []string{"", "", "", "not-notarised", "bad-signature", "unknown-key-id"})
			vu := gen.Pick(r, []int64{time.Now().UnixMilli() + 48*hourMs, time.Now().UnixMilli() + 48*hourMs, 0})
			kr := w.keyResponse(r, s, vu, fault, notary, nfault)
			sk, _ := parseServerKeys(kr.json)
			objs = append(objs, sk)
			good := nfault == "" && kr.name == s && vu > 0 && kr.hasEd && kr.selfOK
			if fault == "wrong-name" {
				// CheckKeys is called with the name the object itself claims: a consistent, self-signed object is accepted under that name
				good = nfault == "" && vu > 0
			}
			if !good {
				allOK = false
			}
			for id := range kr.keys {
				expectKeys[kr.name+"/"+id] = true
			}
			objDesc = append(objDesc, fmt.Sprintf("%s self=%q notary=%q valid_until>0=%v", s, fault, nfault, vu > 0))
		}
		pdesc := map[string]any{"objects": objDesc}
		c.Case("perspective-fetcher", pdesc, func() {
			b, _ := json.Marshal(pdesc)
			c.NontrivialBytes(b)
			pc := &scriptedKeyClient{notary: map[string]func() ([]gmsl.ServerKeys, error){"notary.example": func() ([]gmsl.ServerKeys, error) { return objs, nil }}}
			pf := &gmsl.PerspectiveKeyFetcher{PerspectiveServerName: "notary.example", PerspectiveServerKeys: map[gmsl.KeyID]ed25519.PublicKey{gmsl.KeyID(notary.KeyID): notary.Pub}, Client: pc}
			preqs := map[keyReq]spec.Timestamp{{ServerName: "a.example", KeyID: "ed25519:k1"}: 0, {ServerName: "b.example:8448", KeyID: "ed25519:k1"}: 5}
			preqsBefore := fmt.Sprint(preqs)
			res, err := pf.FetchKeys(context.Background(), preqs)
			if after := fmt.Sprint(preqs); after != preqsBefore {
				c.Failf("perspective:callers-request-map-modified", "PerspectiveKeyFetcher.FetchKeys changed the request map it was given (the key ring's list of what is still wanted) from %s to %s", preqsBefore, after)
			}
			c.Count("perspective_fetches")
			if allOK && err != nil {
				c.Failf("perspective:rejects-good-answer", "all %d objects are self-signed and notarised but FetchKeys fails: %v\n%v", nobj, err, objDesc)
				return
			}
			if !allOK && err == nil {
				c.Failf("perspective:accepts-bad-answer", "FetchKeys accepted a notary answer containing an object that is not both self-signed and notarised: %v\nkeys returned: %d", objDesc, len(res))
				return
			}
			if allOK {
				for k := range expectKeys {
					parts := strings.SplitN(k, "/", 2)
					if _, ok := res[keyReq{ServerName: spec.ServerName(parts[0]), KeyID: gmsl.KeyID(parts[1])}]; !ok {
						c.Failf("perspective:key-missing", "key %s of an accepted object is missing from the result", k)
					}
				}
			}
		})
	}
	// a key document of one server that also carries a member resembling "server_name" (another letter case, a letter
	// that case-folds to ASCII) naming another server, and a signature of its own key under that other name: self-signed,
	// notarised, and none of the victim's business
	if c.Shard == 0 {
		for _, variant := range gen.FoldVariants("server_name") {
			evil, victim := "c.example", "a.example"
			ek := w.keys[[2]string{evil, "ed25519:k1"}]
			c.Case("perspective-fetcher:lookalike-server-name", map[string]any{"member": variant, "document_of": evil, "names": victim}, func() {
				c.Nontrivial("lookalike-server-name|" + variant)
				obj := ref.O("server_name", ref.S(evil), variant, ref.S(victim), "valid_until_ts", ref.I(time.Now().UnixMilli()+48*hourMs),
					"verify_keys", ref.O("ed25519:k1", ref.O("key", ref.S(spec.Base64Bytes(ek.Pub).Encode()))))
				msg := gen.Plain().Bytes(obj)
				for _, sg := range [][2]string{{evil, "ed25519:k1"}, {victim, "ed25519:k1"}} {
					var err error
					if msg, err = gmsl.SignJSON(sg[0], gmsl.KeyID(sg[1]), ek.Priv, msg); err != nil {
						panic(err)
					}
				}
				msg, _ = gmsl.SignJSON(notary.Server, gmsl.KeyID(notary.KeyID), notary.Priv, msg)
				sk, err := parseServerKeys(msg)
				if err != nil {
					c.Count("lookalike_server_name_unparsable")
					return
				}
				pc := &scriptedKeyClient{notary: map[string]func() ([]gmsl.ServerKeys, error){"notary.example": func() ([]gmsl.ServerKeys, error) { return []gmsl.ServerKeys{sk}, nil }}}
				pf := &gmsl.PerspectiveKeyFetcher{PerspectiveServerName: "notary.example", PerspectiveServerKeys: map[gmsl.KeyID]ed25519.PublicKey{gmsl.KeyID(notary.KeyID): notary.Pub}, Client: pc}
				res, _ := pf.FetchKeys(context.Background(), map[keyReq]spec.Timestamp{{ServerName: spec.ServerName(evil), KeyID: "ed25519:k1"}: 0})
				c.Count("perspective_fetches")
				for k, v := range res {
					if string(k.ServerName) == victim && string(v.Key) == string(ek.Pub) {
						c.Failf("perspective:key-filed-under-another-servers-name", "a key document of %s carrying the extra member %q: %q yields %s's key as the key %s of %s", evil, variant, victim, evil, k.KeyID, victim)
					}
				}
			})
		}
	}
	c.Floor("direct_fetches", 50)
	c.Floor("direct_fetches_with_a_forged_document_of_another_server", 10)
	c.Floor("perspective_fetches", 50)
}

// c12LargeBatch: one FetchKeys call of a DirectKeyFetcher for many servers of which many cannot be reached (more than
// the fetcher has workers): what is returned for a server does not depend on the other servers of the batch - every
// server that answers with a correctly self-signed, valid document has its key in the result.
func c12LargeBatch(c *mon.Ctx, r *gen.Rand) {
	for round := 0; round < c.Scale(16, 160); round++ {
		nsrv := gen.Pick(r, []int{70, 130, 200, 300})
		pUnreachable := gen.Pick(r, []float64{0.5, 0.7, 0.9})
		client := &scriptedKeyClient{direct: map[string]func() (gmsl.ServerKeys, error){}, notary: map[string]func() ([]gmsl.ServerKeys, error){}}
		reqs := map[keyReq]spec.Timestamp{}
		reachable := map[string]bool{}
		nUnreachable := 0
		for i := 0; i < nsrv; i++ {
			s := fmt.Sprintf("s%03d.batch.example", i)
			reqs[keyReq{ServerName: spec.ServerName(s), KeyID: "ed25519:k1"}] = 0
			if r.Chance(pUnreachable) {
				nUnreachable++
				continue // no route: GetServerKeys and LookupServerKeys both fail
			}
			id := gen.NewIdentity(r, s, "ed25519:k1")
			doc := gen.Plain().Bytes(ref.O("server_name", ref.S(s), "valid_until_ts", ref.I(time.Now().UnixMilli()+48*hourMs),
				"verify_keys", ref.O("ed25519:k1", ref.O("key", ref.S(spec.Base64Bytes(id.Pub).Encode()))), "old_verify_keys", ref.O()))
			doc, err := gmsl.SignJSON(s, "ed25519:k1", id.Priv, doc)
			if err != nil {
				panic(err)
			}
			reachable[s] = true
			client.direct[s] = func() (gmsl.ServerKeys, error) { return parseServerKeys(doc) }
		}
		desc := map[string]any{"servers": nsrv, "unreachable": nUnreachable}
		c.Case("direct-fetcher:large-batch", desc, func() {
			c.Nontrivial(fmt.Sprintf("large-batch|%d|%d", nsrv, nUnreachable))
			f := &gmsl.DirectKeyFetcher{Client: client, IsLocalServerName: func(s spec.ServerName) bool { return false }}
			res, err := f.FetchKeys(context.Background(), reqs)
			c.Count("direct_fetches_large_batch")
			if err != nil {
				c.Failf("directfetcher:error", "FetchKeys: %v", err)
				return
			}
			got := map[string]bool{}
			for k := range res {
				got[string(k.ServerName)] = true
			}
			missing, extra := 0, 0
			for s := range reachable {
				if !got[s] {
					missing++
				}
			}
			for s := range got {
				if !reachable[s] {
					extra++
				}
			}
			if missing > 0 {
				c.Failf("directfetcher:drops-good-response:large-batch", "one batch for %d servers of which %d cannot be reached: %d of the %d servers that answer with a valid, self-signed document have no key in the result", nsrv, nUnreachable, missing, len(reachable))
			}
			if extra > 0 {
				c.Failf("directfetcher:foreign-keys", "one batch for %d servers: keys returned for %d servers that never answered", nsrv, extra)
			}
		})
	}
}

type c12RoundTripper func(*http.Request) (*http.Response, error)

func (f c12RoundTripper) RoundTrip(r *http.Request) (*http.Response, error) { return f(r) }

// c12RealClient: the fetchers over the library's own HTTP client (a scripted transport underneath) rather than a
// scripted KeyClient: key documents travel as bytes, so what the client's decoding makes of member names that only
// look like server_name / valid_until_ts / verify_keys is part of what is checked. A document that names evil.example
// never yields a key of victim.example, directly or through a notary.
func c12RealClient(c *mon.Ctx, r *gen.Rand) {
	if c.Shard != 0 {
		return
	}
	notary := gen.NewIdentity(r, "notary.example", "ed25519:n1")
	evil := gen.NewIdentity(r, "evil.example", "ed25519:v1")
	future := time.Now().UnixMilli() + 48*hourMs
	type variant struct {
		name    string
		members []any // inserted into the document
		victim  bool  // the forged document claims the victim's name by a look-alike member
		expired bool  // the document's real valid_until_ts is in the past
	}
	var variants []variant
	for _, la := range []string{"\u017ferver_name", "Server_name", "SERVER_NAME", "server_Name", "\u017fERVER_NAME"} {
		variants = append(variants, variant{name: "lookalike-server-name:" + la, members: []any{la, ref.S("victim.example")}, victim: true})
	}
	for _, la := range []string{"Valid_until_ts", "VALID_UNTIL_TS", "valid_until_t\u017f"} {
		variants = append(variants, variant{name: "lookalike-valid-until:" + la, members: []any{la, ref.I(future)}, expired: true})
	}
	variants = append(variants, variant{name: "plain"})
	for _, v := range variants {
		for _, path := range []string{"perspective", "direct", "direct-notary-fallback"} {
			for _, late := range []bool{true, false} {
				v, path, late := v, path, late
				vu := future
				if v.expired {
					vu = 0 // the fetchers judge freshness against the epoch (see the assumptions), so "past" is 0
				}
				base := []any{"server_name", ref.S("evil.example"), "valid_until_ts", ref.I(vu),
					"verify_keys", ref.O("ed25519:v1", ref.O("key", ref.S(spec.Base64Bytes(evil.Pub).Encode()))), "old_verify_keys", ref.O()}
				var members []any
				if late {
					members = append(append(members, base...), v.members...)
				} else {
					members = append(append(members, v.members...), base...)
				}
				doc := gen.Plain().Bytes(ref.O(members...))
				var err error
				for _, sg := range []struct {
					n, k string
					p    ed25519.PrivateKey
				}{{"evil.example", "ed25519:v1", evil.Priv}, {"victim.example", "ed25519:v1", evil.Priv}, {"notary.example", notary.KeyID, notary.Priv}} {
					if doc, err = gmsl.SignJSON(sg.n, gmsl.KeyID(sg.k), sg.p, doc); err != nil {
						panic(err)
					}
				}
				name := fmt.Sprintf("real-client:%s:%s:late=%v", path, v.name, late)
				c.Case(name, map[string]any{"document": string(doc), "path": path}, func() {
					c.Nontrivial(name)
					rt := c12RoundTripper(func(req *http.Request) (*http.Response, error) {
						body := []byte(`{"errcode":"M_NOT_FOUND"}`)
						status := 404
						switch {
						case strings.HasSuffix(req.URL.Path, "/key/v2/query"):
							status, body = 200, []byte(`{"server_keys":[`+string(doc)+`]}`)
						case strings.HasSuffix(req.URL.Path, "/key/v2/server") && path == "direct":
							status, body = 200, doc
						}
						return &http.Response{StatusCode: status, Header: http.Header{"Content-Type": []string{"application/json"}}, Body: io.NopCloser(bytes.NewReader(body)), Request: req}, nil
					})
					client := fclient.NewClient(fclient.WithTransport(rt))
					reqs := map[keyReq]spec.Timestamp{{ServerName: "victim.example", KeyID: "ed25519:v1"}: 0, {ServerName: "evil.example", KeyID: "ed25519:v1"}: 0}
					var res map[keyReq]keyRes
					var ferr error
					if path == "perspective" {
						pf := &gmsl.PerspectiveKeyFetcher{PerspectiveServerName: "notary.example", PerspectiveServerKeys: map[gmsl.KeyID]ed25519.PublicKey{gmsl.KeyID(notary.KeyID): notary.Pub}, Client: client}
						res, ferr = pf.FetchKeys(context.Background(), reqs)
					} else {
						df := &gmsl.DirectKeyFetcher{Client: client, IsLocalServerName: func(spec.ServerName) bool { return false }}
						res, ferr = df.FetchKeys(context.Background(), reqs)
					}
					c.Count("real_client_fetches")
					for k := range res {
						if k.ServerName == "victim.example" {
							c.Failf("realclient:key-under-a-name-the-document-does-not-carry:"+path, "a key document whose server_name is evil.example, with a member %v beside it, yielded a key for victim.example (%s path, error %v)", v.members, path, ferr)
							return
						}
						if v.expired {
							c.Failf("realclient:expired-document-accepted:"+path, "a key document whose valid_until_ts is in the past, with a member %v beside it, yielded a key for %s (%s path)", v.members, k.ServerName, path)
							return
						}
					}
					if !v.expired && path != "direct-notary-fallback" {
						// what is demanded: the document is evil.example's own, correctly signed and current
						if _, ok := res[keyReq{ServerName: "evil.example", KeyID: "ed25519:v1"}]; !ok && !v.victim {
							c.Failf("realclient:drops-good-response:"+path, "a correct, current key document of evil.example yielded no key (%s path, error %v)", path, ferr)
						}
					}
				})
			}
		}
	}
}

// c12RealClientSeveralDocuments: a notary answer with several genuine documents, of servers whose key IDs differ (and
// one with an old key), decoded by the library's own client: every document yields its own keys and nobody else's,
// in whichever order the documents come.
func c12RealClientSeveralDocuments(c *mon.Ctx, r *gen.Rand) {
	if c.Shard != 0 {
		return
	}
	notary := gen.NewIdentity(r, "notary.example", "ed25519:n1")
	future := time.Now().UnixMilli() + 48*hourMs
	type srv struct {
		id  *gen.Identity
		old *gen.Identity
	}
	servers := []srv{{id: gen.NewIdentity(r, "one.example", "ed25519:a1"), old: gen.NewIdentity(r, "one.example", "ed25519:a0")}, {id: gen.NewIdentity(r, "two.example", "ed25519:b7")}, {id: gen.NewIdentity(r, "three.example", "ed25519:c3")}}
	docs := make([][]byte, len(servers))
	want := map[keyReq][]byte{}
	for i, sv := range servers {
		o := ref.O("server_name", ref.S(sv.id.Server), "valid_until_ts", ref.I(future), "verify_keys", ref.O(sv.id.KeyID, ref.O("key", ref.S(spec.Base64Bytes(sv.id.Pub).Encode()))))
		want[keyReq{ServerName: spec.ServerName(sv.id.Server), KeyID: gmsl.KeyID(sv.id.KeyID)}] = sv.id.Pub
		if sv.old != nil {
			o.Set("old_verify_keys", ref.O(sv.old.KeyID, ref.O("key", ref.S(spec.Base64Bytes(sv.old.Pub).Encode()), "expired_ts", ref.I(1234567))))
			want[keyReq{ServerName: spec.ServerName(sv.id.Server), KeyID: gmsl.KeyID(sv.old.KeyID)}] = sv.old.Pub
		}
		doc := gen.Plain().Bytes(o)
		var err error
		if doc, err = gmsl.SignJSON(sv.id.Server, gmsl.KeyID(sv.id.KeyID), sv.id.Priv, doc); err != nil {
			panic(err)
		}
		if doc, err = gmsl.SignJSON(notary.Server, gmsl.KeyID(notary.KeyID), notary.Priv, doc); err != nil {
			panic(err)
		}
		docs[i] = doc
	}
	for _, order := range [][]int{{0, 1, 2}, {2, 1, 0}, {1, 0, 2}, {1, 2, 0}, {0, 1}, {1, 0}} {
		name := fmt.Sprintf("real-client:perspective:several-genuine-documents:%v", order)
		c.Case(name, map[string]any{"order": order}, func() {
			c.Nontrivial(name)
			var parts []string
			expect := map[keyReq][]byte{}
			reqs := map[keyReq]spec.Timestamp{}
			for _, i := range order {
				parts = append(parts, string(docs[i]))
				for k, v := range want {
					if string(k.ServerName) == servers[i].id.Server {
						expect[k] = v
					}
				}
				reqs[keyReq{ServerName: spec.ServerName(servers[i].id.Server), KeyID: gmsl.KeyID(servers[i].id.KeyID)}] = 0
			}
			rt := c12RoundTripper(func(req *http.Request) (*http.Response, error) {
				body, status := []byte(`{"errcode":"M_NOT_FOUND"}`), 404
				if strings.HasSuffix(req.URL.Path, "/key/v2/query") {
					status, body = 200, []byte(`{"server_keys":[`+strings.Join(parts, ",")+`]}`)
				}
				return &http.Response{StatusCode: status, Header: http.Header{"Content-Type": []string{"application/json"}}, Body: io.NopCloser(bytes.NewReader(body)), Request: req}, nil
			})
			pf := &gmsl.PerspectiveKeyFetcher{PerspectiveServerName: "notary.example", PerspectiveServerKeys: map[gmsl.KeyID]ed25519.PublicKey{gmsl.KeyID(notary.KeyID): notary.Pub}, Client: fclient.NewClient(fclient.WithTransport(rt))}
			res, err := pf.FetchKeys(context.Background(), reqs)
			c.Count("real_client_fetches")
			if err != nil {
				c.Failf("realclient:drops-good-response:perspective:several-documents", "a notary answer of %d genuine, notarised documents is refused: %v", len(order), err)
				return
			}
			for k, pub := range expect {
				got, ok := res[k]
				if !ok || string(got.Key) != string(pub) {
					c.Failf("realclient:drops-good-response:perspective:several-documents", "the key %s/%s of a genuine document is missing from (or wrong in) the result", k.ServerName, k.KeyID)
					continue
				}
				// a retired key arrives with the instant it was retired at, as the document gives it (ninth seeding round,
				// C06-S: the decoding of old_verify_keys entries lost expired_ts) - valid before that instant, never after
				if k.KeyID == "ed25519:a0" {
					c.Count("real_client_old_keys_looked_at")
					if got.ExpiredTS != 1234567 || !got.WasValidAt(1234566, gmsl.StrictValiditySignatureCheck) || got.WasValidAt(1234568, gmsl.StrictValiditySignatureCheck) || got.WasValidAt(1234568, gmsl.NoStrictValidityCheck) {
						c.Failf("realclient:old-key-expiry-lost:perspective", "the old key %s/%s, listed with expired_ts 1234567, arrives with ExpiredTS %d ValidUntilTS %d (valid at 1234566 strict: %v, at 1234568 strict: %v, lenient: %v)", k.ServerName, k.KeyID,
							got.ExpiredTS, got.ValidUntilTS, got.WasValidAt(1234566, gmsl.StrictValiditySignatureCheck), got.WasValidAt(1234568, gmsl.StrictValiditySignatureCheck), got.WasValidAt(1234568, gmsl.NoStrictValidityCheck))
					}
				}
			}
			for k := range res {
				if _, ok := expect[k]; !ok {
					c.Failf("realclient:key-under-a-name-the-document-does-not-carry:perspective:several-documents", "the result holds %s/%s, which no document of that server lists (another document's key has leaked into it)", k.ServerName, k.KeyID)
				}
			}
		})
	}
}

// c12RealClientNameSpelling: a server asked for the keys of "hs1.test" hands out the genuine, self-signed document of
// "HS1.test" (another server name: names are compared byte by byte everywhere in the library and in the signatures
// of events). Directly or through a notary, that document yields no key of hs1.test (ninth seeding round, C06-R). The
// direct path also serves a document with a retired key: it arrives retired.
func c12RealClientNameSpelling(c *mon.Ctx, r *gen.Rand) {
	if c.Shard != 0 {
		return
	}
	notary := gen.NewIdentity(r, "notary.example", "ed25519:n1")
	upper := gen.NewIdentity(r, "HS1.test", "ed25519:v1")
	oldKey := gen.NewIdentity(r, "hs2.test", "ed25519:old")
	cur := gen.NewIdentity(r, "hs2.test", "ed25519:v2")
	future := time.Now().UnixMilli() + 48*hourMs
	sign := func(doc []byte, ids ...*gen.Identity) []byte {
		var err error
		for _, id := range ids {
			if doc, err = gmsl.SignJSON(id.Server, gmsl.KeyID(id.KeyID), id.Priv, doc); err != nil {
				panic(err)
			}
		}
		return doc
	}
	upperDoc := sign(gen.Plain().Bytes(ref.O("server_name", ref.S("HS1.test"), "valid_until_ts", ref.I(future),
		"verify_keys", ref.O("ed25519:v1", ref.O("key", ref.S(spec.Base64Bytes(upper.Pub).Encode()))), "old_verify_keys", ref.O())), upper, notary)
	const retiredAt = 1600000000000
	hs2Doc := sign(gen.Plain().Bytes(ref.O("server_name", ref.S("hs2.test"), "valid_until_ts", ref.I(future),
		"verify_keys", ref.O("ed25519:v2", ref.O("key", ref.S(spec.Base64Bytes(cur.Pub).Encode()))),
		"old_verify_keys", ref.O("ed25519:old", ref.O("key", ref.S(spec.Base64Bytes(oldKey.Pub).Encode()), "expired_ts", ref.I(retiredAt))))), cur, notary)
	for _, path := range []string{"direct", "perspective"} {
		name := "real-client:" + path + ":document-of-a-name-spelt-otherwise"
		c.Case(name, map[string]any{"asked": "hs1.test", "document": string(upperDoc), "path": path}, func() {
			c.Nontrivial(name)
			rt := c12RoundTripper(func(req *http.Request) (*http.Response, error) {
				body, status := []byte(`{"errcode":"M_NOT_FOUND"}`), 404
				switch {
				case strings.HasSuffix(req.URL.Path, "/key/v2/query") && path == "perspective":
					status, body = 200, []byte(`{"server_keys":[`+string(upperDoc)+`]}`)
				case strings.HasSuffix(req.URL.Path, "/key/v2/server") && path == "direct":
					status, body = 200, upperDoc
				}
				return &http.Response{StatusCode: status, Header: http.Header{"Content-Type": []string{"application/json"}}, Body: io.NopCloser(bytes.NewReader(body)), Request: req}, nil
			})
			client := fclient.NewClient(fclient.WithTransport(rt))
			reqs := map[keyReq]spec.Timestamp{{ServerName: "hs1.test", KeyID: "ed25519:v1"}: 0}
			var res map[keyReq]keyRes
			var ferr error
			if path == "perspective" {
				pf := &gmsl.PerspectiveKeyFetcher{PerspectiveServerName: "notary.example", PerspectiveServerKeys: map[gmsl.KeyID]ed25519.PublicKey{gmsl.KeyID(notary.KeyID): notary.Pub}, Client: client}
				res, ferr = pf.FetchKeys(context.Background(), reqs)
			} else {
				df := &gmsl.DirectKeyFetcher{Client: client, IsLocalServerName: func(spec.ServerName) bool { return false }}
				res, ferr = df.FetchKeys(context.Background(), reqs)
			}
			c.Count("real_client_fetches")
			for k := range res {
				if k.ServerName == "hs1.test" {
					c.Failf("realclient:key-under-a-name-the-document-does-not-carry:"+path+":name-spelt-otherwise", "the key document of HS1.test, served for a request about hs1.test, yielded a key for hs1.test (%s path, error %v)", path, ferr)
				}
			}
			// ... and a message signed by HS1.test's key under the name hs1.test does not verify through a key ring over that fetcher
			msg, err := gmsl.SignJSON("hs1.test", "ed25519:v1", upper.Priv, []byte(`{"a":1}`))
			if err != nil {
				return
			}
			var fetcher gmsl.KeyFetcher = &gmsl.DirectKeyFetcher{Client: client, IsLocalServerName: func(spec.ServerName) bool { return false }}
			if path == "perspective" {
				fetcher = &gmsl.PerspectiveKeyFetcher{PerspectiveServerName: "notary.example", PerspectiveServerKeys: map[gmsl.KeyID]ed25519.PublicKey{gmsl.KeyID(notary.KeyID): notary.Pub}, Client: client}
			}
			ring := &gmsl.KeyRing{KeyFetchers: []gmsl.KeyFetcher{fetcher}, KeyDatabase: newMemKeyDB()}
			out, verr := ring.VerifyJSONs(context.Background(), []gmsl.VerifyJSONRequest{{ServerName: "hs1.test", Message: msg, AtTS: spec.AsTimestamp(time.Now()), ValidityCheckingFunc: gmsl.StrictValiditySignatureCheck}})
			c.Count("real_client_verifications")
			if verr == nil && len(out) == 1 && out[0].Error == nil {
				c.Failf("realclient:verifies-with-the-key-of-a-name-spelt-otherwise:"+path, "a message signed as hs1.test with the key of HS1.test verifies: the key ring took HS1.test's document for hs1.test's (%s path)", path)
			}
		})
	}
	// a genuine document that lists, next to the key in use, old keys whose IDs hold characters that JSON writes as
	// escapes (DEL, a control character, a quote, a non-BMP character): the document is as good as any, the key in use
	// arrives (tenth seeding round, C12-U: member names re-quoted the Go way made the filtered text invalid JSON)
	odd := gen.NewIdentity(r, "hs3.test", "ed25519:cur")
	oddOld := gen.NewIdentity(r, "hs3.test", "ed25519:o")
	oddDoc := sign(gen.Plain().Bytes(ref.O("server_name", ref.S("hs3.test"), "valid_until_ts", ref.I(future),
		"verify_keys", ref.O("ed25519:cur", ref.O("key", ref.S(spec.Base64Bytes(odd.Pub).Encode()))),
		"old_verify_keys", ref.O("ed25519:a\u007f", ref.O("key", ref.S(spec.Base64Bytes(oddOld.Pub).Encode()), "expired_ts", ref.I(retiredAt)),
			"ed25519:b\u0001", ref.O("key", ref.S(spec.Base64Bytes(oddOld.Pub).Encode()), "expired_ts", ref.I(retiredAt)),
			"ed25519:c\"q", ref.O("key", ref.S(spec.Base64Bytes(oddOld.Pub).Encode()), "expired_ts", ref.I(retiredAt)),
			"ed25519:d\U0001F600", ref.O("key", ref.S(spec.Base64Bytes(oddOld.Pub).Encode()), "expired_ts", ref.I(retiredAt))))), odd, notary)
	for _, path := range []string{"direct", "perspective"} {
		name := "real-client:" + path + ":old-key-ids-that-need-escapes"
		c.Case(name, map[string]any{"document": string(oddDoc), "path": path}, func() {
			c.Nontrivial(name)
			rt := c12RoundTripper(func(req *http.Request) (*http.Response, error) {
				body, status := []byte(`{"errcode":"M_NOT_FOUND"}`), 404
				switch {
				case strings.HasSuffix(req.URL.Path, "/key/v2/query") && path == "perspective":
					status, body = 200, []byte(`{"server_keys":[`+string(oddDoc)+`]}`)
				case strings.HasSuffix(req.URL.Path, "/key/v2/server") && path == "direct":
					status, body = 200, oddDoc
				}
				return &http.Response{StatusCode: status, Header: http.Header{"Content-Type": []string{"application/json"}}, Body: io.NopCloser(bytes.NewReader(body)), Request: req}, nil
			})
			client := fclient.NewClient(fclient.WithTransport(rt))
			var fetcher gmsl.KeyFetcher = &gmsl.DirectKeyFetcher{Client: client, IsLocalServerName: func(spec.ServerName) bool { return false }}
			if path == "perspective" {
				fetcher = &gmsl.PerspectiveKeyFetcher{PerspectiveServerName: "notary.example", PerspectiveServerKeys: map[gmsl.KeyID]ed25519.PublicKey{gmsl.KeyID(notary.KeyID): notary.Pub}, Client: client}
			}
			res, ferr := fetcher.FetchKeys(context.Background(), map[keyReq]spec.Timestamp{{ServerName: "hs3.test", KeyID: "ed25519:cur"}: 0})
			c.Count("real_client_fetches")
			if got, ok := res[keyReq{ServerName: "hs3.test", KeyID: "ed25519:cur"}]; !ok || string(got.Key) != string(odd.Pub) {
				c.Failf("realclient:drops-good-response:"+path+":old-key-ids-that-need-escapes", "a genuine, current key document whose old_verify_keys have IDs with DEL / a control character / a quote / a non-BMP character yielded no key for the ID in use (%s path, error %v)", path, ferr)
			}
		})
	}
	name := "real-client:direct:retired-key"
	c.Case(name, map[string]any{"document": string(hs2Doc)}, func() {
		c.Nontrivial(name)
		rt := c12RoundTripper(func(req *http.Request) (*http.Response, error) {
			body, status := []byte(`{"errcode":"M_NOT_FOUND"}`), 404
			if strings.HasSuffix(req.URL.Path, "/key/v2/server") {
				status, body = 200, hs2Doc
			}
			return &http.Response{StatusCode: status, Header: http.Header{"Content-Type": []string{"application/json"}}, Body: io.NopCloser(bytes.NewReader(body)), Request: req}, nil
		})
		df := &gmsl.DirectKeyFetcher{Client: fclient.NewClient(fclient.WithTransport(rt)), IsLocalServerName: func(spec.ServerName) bool { return false }}
		for _, strict := range []bool{true, false} {
			for _, after := range []bool{false, true} {
				at := spec.Timestamp(retiredAt - 1000)
				if after {
					at = spec.Timestamp(retiredAt + 1000)
				}
				check := gmsl.NoStrictValidityCheck
				if strict {
					check = gmsl.StrictValiditySignatureCheck
				}
				msg, err := gmsl.SignJSON("hs2.test", "ed25519:old", oldKey.Priv, []byte(`{"a":1}`))
				if err != nil {
					return
				}
				ring := &gmsl.KeyRing{KeyFetchers: []gmsl.KeyFetcher{df}, KeyDatabase: newMemKeyDB()}
				out, verr := ring.VerifyJSONs(context.Background(), []gmsl.VerifyJSONRequest{{ServerName: "hs2.test", Message: msg, AtTS: at, ValidityCheckingFunc: check}})
				c.Count("real_client_verifications")
				if verr != nil || len(out) != 1 {
					c.Failf("realclient:drops-good-response:direct:retired-key", "VerifyJSONs over a direct fetcher and a genuine document with a retired key: %v (%d results)", verr, len(out))
					return
				}
				// a retired key is good for what was signed before it was retired - under either rule - and for nothing after
				if ok := out[0].Error == nil; ok == after {
					dir := "rejects-valid"
					if ok {
						dir = "accepts-invalid"
					}
					c.Failf("realclient:"+dir+":retired-key", "a message signed with a key retired at %d, dated %d (strict rule %v): verifies=%v (%v)", int64(retiredAt), int64(at), strict, ok, out[0].Error)
				}
			}
		}
	})
	c.Floor("real_client_verifications", 4)
}

func faultOr(f string, future bool) string {
	if f == "" {
		if future {
			return "good-response"
		}
		return "valid-until-not-in-future"
	}
	return f
}

func indexOf(xs []string, x string) int {
	for i, y := range xs {
		if y == x {
			return i
		}
	}
	return 0
}

func contains(xs []string, x string) bool {
	for _, y := range xs {
		if y == x {
			return true
		}
	}
	return false
}

var _ = sort.Strings
