package main

import (
	"context"
	"encoding/base64"
	"fmt"
	"sort"
	"strings"
	"time"

	gmsl "github.com/matrix-org/gomatrixserverlib"
	"github.com/matrix-org/gomatrixserverlib/spec"

	"verif/gen"
	"verif/mon"
	"verif/ref"
)

func init() {
	register(&propDef{
		ID:    "C06",
		Level: "exploration",
		Rule: "a case is (room version, event kind, assignment of servers to the roles sender / event-ID server / invitee / authoriser, per-required-signer state, extra signatures): member events of every membership (joins with and without join_authorised_via_users_server), create, power-levels and message events x all 16 versions x {all good, every single fault on every required signer (absent, corrupted, other key, second key ID good, expired before ts, expired after ts, valid_until before ts, valid_until == ts, expired before ts with a valid_until still recorded)} + random multi-fault combinations x 0-2 unrelated extra signatures; " +
			"distinct = distinct (version, kind, roles, fault vector, extras); non-trivial = at least two distinct required servers or a fault present",
		Assumptions: []string{"real KeyRing over an in-memory key database (no fetchers) behind a recording verifier", "crypto/ed25519", "event timestamps far enough in the past that the 7-day cap cannot interfere"},
		Run:         runC06,
	})
}

const farFuture = 4102444800000 // 2100-01-01 in ms

type signerState int

const (
	sGood signerState = iota
	sAbsent
	sCorrupted
	sOtherKey
	sTwoKeysOneGood
	sExpiredBefore
	sExpiredAfter
	sValidUntilBefore
	sValidUntilEqual
	sExpiredBeforeStillListed
	nSignerStates
)

var stateNames = []string{"good", "absent", "corrupted", "other-key", "two-keys-one-good", "expired-before-ts", "expired-after-ts", "valid-until-before-ts", "valid-until-equals-ts", "expired-before-ts-with-valid-until"}

func (s signerState) okFor(strict bool) bool {
	switch s {
	case sGood, sTwoKeysOneGood, sExpiredAfter, sValidUntilEqual:
		return true
	case sValidUntilBefore:
		return !strict
	}
	return false
}

type c06kind struct {
	name       string
	typ        string
	membership string
	invitee    bool // state key is another user (invite)
	authorised bool // carries join_authorised_via_users_server
}

var c06kinds = []c06kind{
	{"message", "m.room.message", "", false, false},
	{"create", "m.room.create", "", false, false},
	{"power_levels", "m.room.power_levels", "", false, false},
	{"join", "m.room.member", "join", false, false},
	{"join-authorised", "m.room.member", "join", false, true},
	{"invite", "m.room.member", "invite", true, false},
	{"leave", "m.room.member", "leave", false, false},
	{"kick", "m.room.member", "leave", true, false},
	{"ban", "m.room.member", "ban", true, false},
	{"knock", "m.room.member", "knock", false, false},
}

var c06servers = []string{"s1.example", "s2.example:8448", "s3.example", "[2001:db8::1]:443"}

// c06NoAuthoriserNamed: a join whose join_authorised_via_users_server is null or the empty string names no user, so
// there is no authorising user's server to require a signature from: the sender's server's signature is all it takes
// (the auth rules and HandleSendJoin read the member the same way).
func c06NoAuthoriserNamed(c *mon.Ctx, ids map[string]*gen.Identity) {
	for _, ver := range sortedVersions() {
		t := ref.Traits(string(ver))
		if t == nil || ver == gmsl.RoomVersionPseudoIDs {
			continue
		}
		for _, via := range []string{"null", `""`} {
			c.Case("verify:no-authoriser-named:"+string(ver), map[string]any{"version": ver, "join_authorised_via_users_server": via}, func() {
				c.Nontrivial(fmt.Sprintf("no-authoriser|%s|%s", ver, via))
				srv := c06servers[0]
				sender := "@joiner:" + srv
				ps := protoSpec{Type: "m.room.member", StateKey: strp(sender), Sender: sender, RoomID: "!room:" + srv, Depth: 5,
					Content: []byte(`{"membership":"join","join_authorised_via_users_server":` + via + `}`), Prev: []string{"$prev:" + srv}, Auth: []string{"$create:" + srv}}
				if t.Domainless {
					ps.RoomID = "!" + strings.Repeat("A", 43)
					ps.Prev, ps.Auth = []string{"$" + strings.Repeat("B", 43)}, []string{}
				} else if t.EventIDFormat >= 2 {
					ps.Prev, ps.Auth = []string{"$" + strings.Repeat("B", 43)}, []string{"$" + strings.Repeat("C", 43)}
				}
				ev, err := buildEvent(ver, ps, ids[srv], baseTime)
				if err != nil {
					c.Count("no_authoriser_named_unbuildable")
					return
				}
				u, err := gmsl.MustGetRoomVersion(ver).NewEventFromUntrustedJSON(ev.JSON())
				if err != nil {
					c.Count("no_authoriser_named_unparsable")
					return
				}
				db := newMemKeyDB()
				db.set(srv, "ed25519:main", ids[srv].Pub, farFuture, 0)
				c.Count("verifications_without_a_named_authoriser")
				if verr := gmsl.VerifyEventSignatures(context.Background(), u, &gmsl.KeyRing{KeyDatabase: db}, userIDForSender); verr != nil {
					c.Failf("verify:rejects-valid:authoriser-member-names-nobody", "v%s: a join with join_authorised_via_users_server = %s, validly signed by its sender's server, fails verification: %v", ver, via, verr)
				}
			})
		}
	}
}

func runC06(c *mon.Ctx) {
	kr := c.RandShared("keys")
	ids := map[string]*gen.Identity{}
	wrong := map[string]*gen.Identity{}
	second := map[string]*gen.Identity{}
	for _, s := range c06servers {
		ids[s] = gen.NewIdentity(kr, s, "ed25519:main")
		wrong[s] = gen.NewIdentity(kr, s, "ed25519:main")
		second[s] = gen.NewIdentity(kr, s, "ed25519:aux")
	}
	unknown := gen.NewIdentity(kr, "unrelated.example", "ed25519:u")
	// events of OTHER room versions for mixed batches (ninth seeding round, C05-S): of types whose redacted form differs
	// from version to version, each validly signed by a server of its own
	partner := gen.NewIdentity(kr, "partner.example", "ed25519:p")
	partners := map[gmsl.RoomVersion][]gmsl.PDU{}
	partnerVersions := []gmsl.RoomVersion{}
	for _, pv := range sortedVersions() {
		pt := ref.Traits(string(pv))
		if pt == nil || pv == gmsl.RoomVersionPseudoIDs {
			continue
		}
		psender := "@p:partner.example"
		for _, k := range []struct{ typ, content string }{
			{"m.room.power_levels", `{"users":{"@p:partner.example":100},"invite":50,"ban":50}`},
			{"m.room.join_rules", `{"join_rule":"restricted","allow":[{"type":"m.room_membership","room_id":"!other:partner.example"}]}`},
			{"m.room.aliases", `{"aliases":["#a:partner.example"]}`},
			{"m.room.member", `{"membership":"leave","join_authorised_via_users_server":"@q:partner.example","third_party_invite":{"signed":{"mxid":"@p:partner.example","token":"t","signatures":{}}}}`},
		} {
			sk := ""
			if k.typ == "m.room.aliases" {
				sk = "partner.example"
			} else if k.typ == "m.room.member" {
				sk = psender
			}
			ps := protoSpec{Type: k.typ, StateKey: strp(sk), Sender: psender, RoomID: "!room:partner.example", Content: []byte(k.content), Depth: 7,
				Prev: []string{"$prev:partner.example"}, Auth: []string{"$create:partner.example"}}
			if pt.Domainless {
				ps.RoomID = "!" + strings.Repeat("P", 43)
			}
			if pt.EventIDFormat >= 2 {
				ps.Prev, ps.Auth = []string{"$" + strings.Repeat("B", 43)}, []string{"$" + strings.Repeat("C", 43)}
			}
			pe, err := buildEvent(pv, ps, partner, baseTime)
			if err != nil {
				continue
			}
			partners[pv] = append(partners[pv], pe)
		}
		if len(partners[pv]) > 0 {
			partnerVersions = append(partnerVersions, pv)
		}
	}
	if c.Shard == 0 {
		c06NoAuthoriserNamed(c, ids)
		c06SmuggledAuthoriser(c, ids)
		c06EventsAhead(c, ids)
	}
	r := c.RandShared("cases")
	versions := sortedVersions()
	ts := baseTime.UnixMilli()
	reps := 24 // identical in every shard; cases are dealt to shards by c.Mine
	if c.Thorough() {
		reps = 4000
	}
	caseNo := 0
	for _, ver := range versions {
		t := ref.Traits(string(ver))
		if t == nil || ver == gmsl.RoomVersionPseudoIDs {
			continue
		}
		impl := gmsl.MustGetRoomVersion(ver)
		for _, kind := range c06kinds {
			for rep := 0; rep < reps; rep++ {
				// roles
				sSender := gen.Pick(r, c06servers)
				sEvent := sSender
				if t.EventIDFormat == 1 && r.Chance(0.5) {
					sEvent = gen.Pick(r, c06servers)
				}
				sInvitee := gen.Pick(r, c06servers)
				sAuth := gen.Pick(r, c06servers)
				required := map[string]bool{sSender: true}
				if t.EventIDFormat == 1 {
					required[sEvent] = true
				}
				if kind.membership == "invite" {
					required[sInvitee] = true
				}
				if kind.authorised && t.Restricted {
					required[sAuth] = true
				}
				reqList := []string{}
				for s := range required {
					reqList = append(reqList, s)
				}
				sort.Strings(reqList)
				// fault vector: rep 0 all good; then single faults round robin; later random
				states := map[string]signerState{}
				for _, s := range reqList {
					states[s] = sGood
				}
				switch {
				case rep == 0:
				case rep <= int(nSignerStates):
					states[reqList[(rep+caseNo)%len(reqList)]] = signerState(rep % int(nSignerStates))
				default:
					for _, s := range reqList {
						if r.Chance(0.4) {
							states[s] = signerState(r.Intn(int(nSignerStates)))
						}
					}
				}
				nExtra := r.Intn(3)
				caseNo++
				if !c.Mine(caseNo) {
					continue
				}
				sender := "@alice:" + sSender
				content := ref.O()
				var sk *string
				switch kind.typ {
				case "m.room.member":
					content.Set("membership", ref.S(kind.membership))
					if kind.invitee {
						sk = strp("@bob:" + sInvitee)
					} else {
						sk = strp(sender)
					}
					if kind.authorised {
						content.Set("join_authorised_via_users_server", ref.S("@admin:"+sAuth))
					}
					content.Set("displayname", ref.S("x"))
					if caseNo%3 == 1 {
						// members whose names only look like membership / join_authorised_via_users_server (U+017F for 's'; they
						// sort after the real ones, so a reader that folds names would go by them): they name nobody and change
						// no membership (tenth seeding round, C06-T: Membership() read through encoding/json's folding again)
						content.Set("member\u017fhip", ref.S("leave"))
						content.Set("join_authori\u017fed_via_users_server", ref.S("@admin:unrelated.example"))
					}
				case "m.room.message":
					content.Set("body", ref.S("hello"))
				case "m.room.create":
					sk = strp("")
					content.Set("creator", ref.S(sender))
				default:
					sk = strp("")
					content.Set("users", ref.O(sender, ref.I(100)))
				}
				ps := protoSpec{Type: kind.typ, StateKey: sk, Sender: sender, RoomID: "!room:" + sSender, Content: gen.Plain().Bytes(content),
					Prev: []string{fakeEventID(r, t)}, Auth: []string{fakeEventID(r, t)}, Depth: 5}
				if t.Domainless {
					ps.RoomID = "!" + base64.RawURLEncoding.EncodeToString(r.Bytes(32))
					if kind.typ == "m.room.create" {
						ps.RoomID = ""
						ps.Prev = nil
						ps.Auth = nil
					}
				}
				desc := map[string]any{"version": ver, "kind": kind.name, "sender_server": sSender, "event_id_server": sEvent, "invitee_server": sInvitee,
					"authoriser_server": sAuth, "required": reqList, "states": stateDesc(states), "extra_signatures": nExtra}
				strict := t.StrictValidity
				expectOK := true
				faulty := false
				for _, s := range reqList {
					if !states[s].okFor(strict) {
						expectOK = false
					}
					if states[s] != sGood {
						faulty = true
					}
				}
				c.Case("verify:"+string(ver)+":"+kind.name, desc, func() {
					ev, err := buildEvent(ver, ps, ids[sEvent], baseTime)
					if err != nil {
						c.Failf("build:refuses-valid-proto", "Build(v%s): %v", ver, err)
						return
					}
					jv := ref.MustParse(ev.JSON())
					jv.Set("signatures", ref.O())
					p, err := impl.NewEventFromTrustedJSON(gen.Plain().Bytes(jv), false)
					if err != nil {
						c.Failf("harness:reparse", "%v", err)
						return
					}
					db := newMemKeyDB()
					// publish keys and add signatures
					var corrupt [][2]string
					for _, s := range c06servers {
						db.set(s, "ed25519:main", ids[s].Pub, farFuture, 0)
						db.set(s, "ed25519:aux", second[s].Pub, farFuture, 0)
					}
					db.set(partner.Server, partner.KeyID, partner.Pub, farFuture, 0)
					for _, s := range reqList {
						switch states[s] {
						case sGood:
							p = p.Sign(s, "ed25519:main", ids[s].Priv)
						case sAbsent:
						case sCorrupted:
							p = p.Sign(s, "ed25519:main", ids[s].Priv)
							corrupt = append(corrupt, [2]string{s, "ed25519:main"})
						case sOtherKey:
							p = p.Sign(s, "ed25519:main", wrong[s].Priv)
						case sTwoKeysOneGood:
							p = p.Sign(s, "ed25519:main", wrong[s].Priv)
							p = p.Sign(s, "ed25519:aux", second[s].Priv)
						case sExpiredBefore:
							p = p.Sign(s, "ed25519:main", ids[s].Priv)
							db.set(s, "ed25519:main", ids[s].Pub, 0, ts-1)
						case sExpiredAfter:
							p = p.Sign(s, "ed25519:main", ids[s].Priv)
							db.set(s, "ed25519:main", ids[s].Pub, 0, ts+1)
						case sValidUntilBefore:
							p = p.Sign(s, "ed25519:main", ids[s].Priv)
							db.set(s, "ed25519:main", ids[s].Pub, ts-1, 0)
						case sValidUntilEqual:
							p = p.Sign(s, "ed25519:main", ids[s].Priv)
							db.set(s, "ed25519:main", ids[s].Pub, ts, 0)
						case sExpiredBeforeStillListed:
							// a record a key database may well hold: the key was withdrawn, the valid_until_ts it was last
							// published with is still there. An expired key is judged by its expiry alone.
							p = p.Sign(s, "ed25519:main", ids[s].Priv)
							db.set(s, "ed25519:main", ids[s].Pub, farFuture, ts-1)
						}
					}
					for i := 0; i < nExtra; i++ {
						switch (caseNo + i) % 3 {
						case 0:
							p = p.Sign(unknown.Server, gmsl.KeyID(unknown.KeyID), unknown.Priv)
						case 1:
							// a non-required known server with a bad signature
							for _, s := range c06servers {
								if !required[s] {
									p = p.Sign(s, "ed25519:main", wrong[s].Priv)
									break
								}
							}
						default:
							for _, s := range c06servers {
								if !required[s] {
									p = p.Sign(s, "ed25519:main", ids[s].Priv)
									break
								}
							}
						}
					}
					fv := ref.MustParse(p.JSON())
					for _, cs := range corrupt {
						sig, _ := fv.Get("signatures").Get(cs[0]).Get(cs[1]).Str()
						b, _ := base64.RawStdEncoding.DecodeString(sig)
						b[7] ^= 0x10
						fv.Get("signatures").Get(cs[0]).Set(cs[1], ref.S(base64.RawStdEncoding.EncodeToString(b)))
					}
					if nExtra > 0 && caseNo%3 == 0 {
						// entries that are no ed25519 signatures at all - of a server nobody asked about, and under another
						// key ID of a required one: not this verification's business either
						fv.Get("signatures").Set("exotic.example", gen.Pick(r, []*ref.Value{ref.O("x-dilithium:1", ref.O("a", ref.I(1))), ref.O("ed25519:zz", ref.I(12345)), ref.O("ed25519:1", ref.NullV())}))
						if own := fv.Get("signatures").Get(sSender); own != nil && own.K == ref.Obj && caseNo%2 == 0 {
							own.Set("x-future:1", ref.O("sig", ref.S("AAAA")))
						}
					}
					final, err := impl.NewEventFromTrustedJSON(gen.Plain().Bytes(fv), false)
					if err != nil {
						c.Failf("harness:reparse", "%v", err)
						return
					}
					// independent expectation per required signer (sanity of the harness itself)
					for _, s := range reqList {
						good := refEventSigValid(fv, t, s, "ed25519:main", ids[s].Pub) || refEventSigValid(fv, t, s, "ed25519:aux", second[s].Pub)
						wantGood := states[s] != sAbsent && states[s] != sCorrupted && states[s] != sOtherKey
						if good != wantGood {
							panic(fmt.Sprintf("harness bug: signer %s state %s but independent signature check says %v", s, stateNames[states[s]], good))
						}
					}
					rec := &recVerifier{inner: &gmsl.KeyRing{KeyDatabase: db}}
					verr := gmsl.VerifyEventSignatures(context.Background(), final, rec, userIDForSender)
					c.Count("verifications")
					if expectOK {
						c.Count("expected_accept")
					} else {
						c.Count("expected_reject")
					}
					key := fmt.Sprintf("%s|%s|%v|%v|%d", ver, kind.name, reqList, stateDesc(states), nExtra)
					if len(reqList) >= 2 || faulty {
						c.Nontrivial(key)
					}
					// asked set
					asked := map[string]bool{}
					for _, q := range rec.reqs {
						asked[string(q.ServerName)] = true
						if int64(q.AtTS) != ts {
							c.Failf("verify:wrong-timestamp", "verifier asked about %s at %d, event origin_server_ts is %d", q.ServerName, q.AtTS, ts)
						}
					}
					askedList := []string{}
					for s := range asked {
						askedList = append(askedList, s)
					}
					sort.Strings(askedList)
					if fmt.Sprint(askedList) != fmt.Sprint(reqList) {
						missing, extra := []string{}, []string{}
						for _, s := range reqList {
							if !asked[s] {
								missing = append(missing, roleOf(s, sSender, sEvent, sInvitee, sAuth, kind, t))
							}
						}
						for _, s := range askedList {
							if !required[s] {
								extra = append(extra, s)
							}
						}
						sig := "verify:required-set"
						if len(missing) > 0 {
							sig += ":missing-" + strings.Join(uniq(missing), "+")
						}
						if len(extra) > 0 {
							sig += ":extra"
						}
						c.Failf(sig, "v%s %s: servers checked %v, required %v", ver, kind.name, askedList, reqList)
					}
					if expectOK && verr != nil {
						c.Failf("verify:rejects-valid:"+faultClass(states, reqList), "v%s %s with states %v: VerifyEventSignatures = %v\n%s", ver, kind.name, stateDesc(states), verr, final.JSON())
					}
					if !expectOK && verr == nil {
						c.Failf("verify:accepts-invalid:"+faultClass(states, reqList), "v%s %s with states %v (strict=%v): VerifyEventSignatures accepted\n%s", ver, kind.name, stateDesc(states), strict, final.JSON())
					}
					if ver != gmsl.RoomVersionPseudoIDs && caseNo%4 == 0 {
						// the sender's server is required in all cases: a sender lookup that cannot name the sender's user (it
						// answers nil without an error) must not make that requirement vanish
						sv := ref.MustParse(final.JSON())
						sv.Get("signatures").Del(sSender)
						if stripped, err := impl.NewEventFromTrustedJSON(gen.Plain().Bytes(sv), false); err == nil {
							nobody := func(spec.RoomID, spec.SenderID) (*spec.UserID, error) { return nil, nil }
							var uerr error
							site, msg, pan := mon.Guard(func() {
								uerr = gmsl.VerifyEventSignatures(context.Background(), stripped, &gmsl.KeyRing{KeyDatabase: db}, nobody)
							})
							c.Count("verifications_with_unknown_sender")
							if pan {
								c.Failf("verify:panic:"+site, "VerifyEventSignatures panics when the sender lookup knows nobody: %s", msg)
							} else if uerr == nil {
								c.Failf("verify:accepts-invalid:sender-unknown-to-the-lookup", "v%s %s: an event without any signature of its sender's server %s verifies when the sender lookup answers nil\n%s", ver, kind.name, sSender, stripped.JSON())
							}
						}
					}
					if ver != gmsl.RoomVersionPseudoIDs && caseNo%3 == 0 {
						// the batch entry point: every event of the batch gets the verdict it gets on its own - also two copies of
						// one event (same ID from version 3 on) that differ in their signatures, in either order
						sv := ref.MustParse(final.JSON())
						sv.Get("signatures").Del(sSender)
						if stripped, err := impl.NewEventFromTrustedJSON(gen.Plain().Bytes(sv), false); err == nil {
							for _, order := range [][]gmsl.PDU{{final, stripped}, {stripped, final}, {final, stripped, final}} {
								var errs []error
								site, msg, pan := mon.Guard(func() {
									errs = gmsl.VerifyAllEventSignatures(context.Background(), order, &gmsl.KeyRing{KeyDatabase: db}, userIDForSender)
								})
								c.Count("batch_verifications")
								if pan {
									c.Failf("verify:panic:"+site, "VerifyAllEventSignatures panics: %s", msg)
									break
								}
								if len(errs) != len(order) {
									c.Failf("verify:batch:result-count", "VerifyAllEventSignatures returns %d results for %d events", len(errs), len(order))
									break
								}
								bad := false
								for i, p := range order {
									wantOK := p == final && verr == nil
									if (errs[i] == nil) != wantOK {
										dir := "rejects-valid"
										if errs[i] == nil {
											dir = "accepts-invalid"
										}
										c.Failf("verify:batch:"+dir+":copy-of-an-event-with-other-signatures", "v%s %s: in a batch of %d (copies of one event, one without the signature of %s) entry %d gets %v, on its own it gets ok=%v", ver, kind.name, len(order), sSender, i, errs[i], wantOK)
										bad = true
										break
									}
								}
								if bad {
									break
								}
							}
						}
					}
					if ver != gmsl.RoomVersionPseudoIDs {
						// the redacted form of the event: the signatures are made over it, so it verifies exactly when the event
						// does - provided the redaction of this version keeps what names the required servers (it always keeps
						// sender, event ID, membership and state key; join_authorised_via_users_server only from version 9 on)
						keep, _ := ref.ContentKeep(t.Redaction, kind.typ)
						keepsAuthoriser := false
						for _, k := range keep {
							if k == "join_authorised_via_users_server" {
								keepsAuthoriser = true
							}
						}
						if !(kind.authorised && t.Restricted) || keepsAuthoriser {
							if fresh, err := impl.NewEventFromTrustedJSON(final.JSON(), false); err == nil {
								var rerr error
								site, msg, pan := mon.Guard(func() {
									fresh.Redact()
									rerr = gmsl.VerifyEventSignatures(context.Background(), fresh, &gmsl.KeyRing{KeyDatabase: db}, userIDForSender)
								})
								c.Count("verifications_of_the_redacted_form")
								if pan {
									c.Failf("verify:panic:"+site, "VerifyEventSignatures on the redacted form panics: %s", msg)
								} else if (rerr == nil) != (verr == nil) {
									dir := "rejects-valid"
									if rerr == nil {
										dir = "accepts-invalid"
									}
									c.Failf("verify:"+dir+":redacted-form:"+faultClass(states, reqList), "v%s %s with states %v: the event gets %v, its redacted form gets %v\n%s", ver, kind.name, stateDesc(states), verr, rerr, fresh.JSON())
								}
							}
						}
						// a batch of events of different room versions: every event is judged by its own version
						if len(partnerVersions) > 1 {
							pv := partnerVersions[caseNo%len(partnerVersions)]
							if pv == ver {
								pv = partnerVersions[(caseNo+1)%len(partnerVersions)]
							}
							pe := partners[pv][(caseNo/len(partnerVersions))%len(partners[pv])]
							for _, order := range [][]gmsl.PDU{{pe, final}, {final, pe}} {
								var errs []error
								site, msg, pan := mon.Guard(func() {
									errs = gmsl.VerifyAllEventSignatures(context.Background(), order, &gmsl.KeyRing{KeyDatabase: db}, userIDForSender)
								})
								c.Count("mixed_version_batch_verifications")
								if pan {
									c.Failf("verify:panic:"+site, "VerifyAllEventSignatures panics on a batch of two room versions: %s", msg)
									break
								}
								if len(errs) != len(order) {
									c.Failf("verify:batch:result-count", "VerifyAllEventSignatures returns %d results for %d events", len(errs), len(order))
									break
								}
								bad := false
								for i, q := range order {
									wantOK := q == pe || verr == nil
									if (errs[i] == nil) != wantOK {
										dir := "rejects-valid"
										if errs[i] == nil {
											dir = "accepts-invalid"
										}
										c.Failf("verify:batch:"+dir+":events-of-two-room-versions", "a batch of a v%s %s and a v%s %s: entry %d gets %v, on its own it gets ok=%v", order[0].Version(), order[0].Type(), order[1].Version(), order[1].Type(), i, errs[i], wantOK)
										bad = true
										break
									}
								}
								if bad {
									break
								}
							}
						}
					}
					if c.WantSample() && faulty {
						c.Sample(desc)
					}
				})
			}
		}
	}
	c.Floor("expected_accept", 50)
	c.Floor("expected_reject", 50)
	c.Floor("verifications_of_the_redacted_form", 50)
	c.Floor("mixed_version_batch_verifications", 50)
}

func uniq(xs []string) []string {
	sort.Strings(xs)
	out := []string{}
	for i, x := range xs {
		if i == 0 || x != xs[i-1] {
			out = append(out, x)
		}
	}
	return out
}

func roleOf(s, sSender, sEvent, sInvitee, sAuth string, k c06kind, t *ref.VersionTraits) string {
	roles := []string{}
	if s == sSender {
		roles = append(roles, "sender")
	}
	if t.EventIDFormat == 1 && s == sEvent {
		roles = append(roles, "event-id-server")
	}
	if k.membership == "invite" && s == sInvitee {
		roles = append(roles, "invitee")
	}
	if k.authorised && t.Restricted && s == sAuth {
		roles = append(roles, "authoriser")
	}
	return strings.Join(roles, "/")
}

func stateDesc(m map[string]signerState) map[string]string {
	out := map[string]string{}
	for k, v := range m {
		out[k] = stateNames[v]
	}
	return out
}

func faultClass(states map[string]signerState, req []string) string {
	cl := []string{}
	for _, s := range req {
		if states[s] != sGood {
			cl = append(cl, stateNames[states[s]])
		}
	}
	if len(cl) == 0 {
		return "all-good"
	}
	return strings.Join(uniq(cl), "+")
}

var _ = spec.ServerName("")

// c06SmuggledAuthoriser: a restricted join names its authorising user twice. If the event is accepted at all, the server
// of every user so named may be the one the auth rules go by, so each must have signed: a signature of the sender's
// server alone must not do.
func c06SmuggledAuthoriser(c *mon.Ctx, ids map[string]*gen.Identity) {
	r := c.Rand("smuggled")
	for _, ver := range sortedVersions() {
		t := ref.Traits(string(ver))
		if t == nil || !t.Restricted || ver == gmsl.RoomVersionPseudoIDs {
			continue
		}
		impl := gmsl.MustGetRoomVersion(ver)
		for _, order := range []string{"own-server-first", "own-server-last"} {
			sSender, sVictim := c06servers[0], c06servers[1]
			a, b := "@mallory:"+sSender, "@admin:"+sVictim
			if order == "own-server-last" {
				a, b = b, a
			}
			content := fmt.Sprintf(`{"membership":"join","join_authorised_via_users_server":%q,"join_authorised_via_users_server":%q}`, a, b)
			ps := protoSpec{Type: "m.room.member", StateKey: strp("@alice:" + sSender), Sender: "@alice:" + sSender, RoomID: "!room:" + sSender, Content: []byte(content),
				Prev: []string{fakeEventID(r, t)}, Auth: []string{fakeEventID(r, t)}, Depth: 5}
			if t.Domainless {
				ps.RoomID = "!" + base64.RawURLEncoding.EncodeToString(r.Bytes(32))
			}
			c.Case("verify:smuggled-authoriser:"+string(ver)+":"+order, map[string]any{"version": ver, "content": content}, func() {
				c.Nontrivial("smuggled|" + string(ver) + "|" + order)
				c.Count("smuggled_authoriser_cases")
				ev, err := buildEvent(ver, ps, ids[sSender], baseTime)
				if err != nil {
					c.Count("smuggled_authoriser_unbuildable")
					return
				}
				p, err := impl.NewEventFromUntrustedJSON(ev.JSON())
				if err != nil {
					c.Count("smuggled_authoriser_refused_at_parse")
					return
				}
				db := newMemKeyDB()
				for _, s := range c06servers {
					db.set(s, "ed25519:main", ids[s].Pub, farFuture, 0)
				}
				if err := gmsl.VerifyEventSignatures(context.Background(), p, &gmsl.KeyRing{KeyDatabase: db}, userIDForSender); err == nil {
					c.Failf("verify:required-set:second-authoriser-member-ignored", "v%s: a join naming its authorising user twice (%s) verifies with the signature of %s alone; the auth rules may go by the other member, whose server %s did not sign", ver, content, sSender, sVictim)
				}
			})
		}
	}
}

// c06EventsAhead: events dated an hour and nine days ahead of the clock, signed by a key whose record says it is valid
// for another month, until 2^63 ms or until 2^64-1 ms (timestamps are unsigned): under the strict rule a key speaks for
// at most seven days from now however far its own limit lies, under the lenient rule until that limit.
func c06EventsAhead(c *mon.Ctx, ids map[string]*gen.Identity) {
	s := c06servers[0]
	now := time.Now()
	for _, ver := range sortedVersions() {
		t := ref.Traits(string(ver))
		if t == nil || ver == gmsl.RoomVersionPseudoIDs {
			continue
		}
		impl := gmsl.MustGetRoomVersion(ver)
		for _, ahead := range []time.Duration{time.Hour, 9 * 24 * time.Hour} {
			for _, vu := range []uint64{uint64(now.Add(30 * 24 * time.Hour).UnixMilli()), 1 << 63, 1<<64 - 1} {
				ps := protoSpec{Type: "m.room.message", Sender: "@u:" + s, RoomID: "!r:" + s, Content: []byte(`{"body":"x"}`), Depth: 3}
				if t.Domainless {
					ps.RoomID = "!" + strings.Repeat("A", 43)
				}
				name := fmt.Sprintf("verify:event-ahead-of-the-clock:%s:+%s:valid-until=%d", ver, ahead, vu)
				c.Case(name, map[string]any{"version": ver, "ahead": ahead.String(), "valid_until_ts": vu}, func() {
					c.Nontrivial(name)
					ev, err := buildEvent(ver, ps, ids[s], now.Add(ahead))
					if err != nil {
						c.Failf("build:refuses-valid-proto", "Build(v%s): %v", ver, err)
						return
					}
					p, err := impl.NewEventFromTrustedJSON(ev.JSON(), false)
					if err != nil {
						c.Failf("harness:reparse", "%v", err)
						return
					}
					db := newMemKeyDB()
					db.keys[keyReq{ServerName: spec.ServerName(s), KeyID: "ed25519:main"}] = keyRes{VerifyKey: gmsl.VerifyKey{Key: spec.Base64Bytes(ids[s].Pub)}, ValidUntilTS: spec.Timestamp(vu)}
					verr := gmsl.VerifyEventSignatures(context.Background(), p, &gmsl.KeyRing{KeyDatabase: db}, userIDForSender)
					c.Count("events_ahead_of_the_clock")
					// (and with a key ring that cannot answer at all: never verified)
					nfail := 0
					if ferr := gmsl.VerifyEventSignatures(context.Background(), p, failingVerifier{&nfail}, userIDForSender); ferr == nil {
						c.Failf("verify:accepts-invalid:verifier-failed", "v%s: VerifyEventSignatures succeeds although the key ring answered with an error (asked %d times)", ver, nfail)
					}
					want := !(t.StrictValidity && ahead > 7*24*time.Hour)
					if want != (verr == nil) {
						dir := "rejects-valid"
						if verr == nil {
							dir = "accepts-invalid"
						}
						c.Failf("verify:"+dir+":event-ahead-of-the-clock", "v%s (strict rule: %v): an event dated %s ahead, signed by a key with valid_until_ts %d: VerifyEventSignatures = %v", ver, t.StrictValidity, ahead, vu, verr)
					}
				})
			}
		}
	}
}
