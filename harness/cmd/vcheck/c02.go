package main

import (
	"strconv"
	"bytes"
	"crypto/ed25519"
	"encoding/base64"
	"fmt"
	"strings"
	"sort"

	gmsl "github.com/matrix-org/gomatrixserverlib"

	"verif/gen"
	"verif/mon"
	"verif/ref"
)

func init() {
	register(&propDef{
		ID:    "C02",
		Level: "exploration",
		Rule: "a case is one generated JSON object (with or without pre-existing signatures/unsigned, keys needing escapes, non-ASCII signer names) signed by 1-3 successive signers, then checked under 3 re-serialisations, unsigned edits, ~14 tree mutations and 5 identity changes; " +
			"distinct = distinct signed bytes; non-trivial = the object has >=2 signed members and at least one nested container",
		Assumptions: []string{"crypto/ed25519", "reference canonical JSON (harness/ref) for the independent signature check",
			"abstains on malformed pre-existing signatures members (SignJSON may refuse them)"},
		Run: runC02,
	})
}

type signer struct {
	name string
	kid  gmsl.KeyID
	pub  ed25519.PublicKey
	priv ed25519.PrivateKey
}

var signerNames = []string{"example.org", "localhost:8448", "[::1]:443", "sérveur.example", "a\"b", "k", "matrix.org", "x.y.z:1"}
var keyIDs = []string{"ed25519:1", "ed25519:auto", "ed25519:a_b", "ed25519:Abc123", "ed25519:é"}

func newSigner(r *gen.Rand) signer {
	priv := ed25519.NewKeyFromSeed(r.Bytes(32))
	return signer{name: gen.Pick(r, signerNames), kid: gmsl.KeyID(gen.Pick(r, keyIDs)), pub: priv.Public().(ed25519.PublicKey), priv: priv}
}

// stripSig returns the object without signatures and unsigned.
func stripSig(v *ref.Value) *ref.Value {
	c := v.Clone()
	c.Del("signatures")
	c.Del("unsigned")
	return c
}

// sigOf returns the decoded signature bytes for (name, kid) or nil.
func sigOf(v *ref.Value, name string, kid string) []byte {
	s, ok := v.Get("signatures").Get(name).Get(kid).Str()
	if !ok {
		return nil
	}
	b, err := base64.RawStdEncoding.DecodeString(s)
	if err != nil {
		b, err = base64.RawURLEncoding.DecodeString(s)
		if err != nil {
			return nil
		}
	}
	return b
}

// refVerify is the independent signature check.
func refVerify(v *ref.Value, s signer) bool {
	sig := sigOf(v, s.name, string(s.kid))
	if len(sig) != ed25519.SignatureSize {
		return false
	}
	return ed25519.Verify(s.pub, ref.Canon(stripSig(v)), sig)
}

// mutations returns value-changing edits of the signed part of an object.
func mutations(r *gen.Rand, v *ref.Value) map[string]*ref.Value {
	out := map[string]*ref.Value{}
	signedKeys := []string{}
	for _, m := range v.O {
		if m.Key != "signatures" && m.Key != "unsigned" {
			signedKeys = append(signedKeys, m.Key)
		}
	}
	add := func(name string, f func(c *ref.Value) bool) {
		c := v.Clone()
		if f(c) && !ref.Equal(stripSig(c), stripSig(v)) {
			out[name] = c
		}
	}
	add("insert-member", func(c *ref.Value) bool {
		k := "zz_new"
		if c.Get(k) != nil {
			return false
		}
		c.Set(k, ref.I(1))
		return true
	})
	add("insert-empty-key", func(c *ref.Value) bool {
		if c.Get("") != nil {
			return false
		}
		c.Set("", ref.NullV())
		return true
	})
	if len(signedKeys) == 0 {
		return out
	}
	k := gen.Pick(r, signedKeys)
	add("delete-member", func(c *ref.Value) bool { c.Del(k); return true })
	add("rename-member", func(c *ref.Value) bool {
		nk := k + "x"
		if c.Get(nk) != nil {
			return false
		}
		val := c.Get(k)
		c.Del(k)
		c.Set(nk, val)
		return true
	})
	add("value-to-null", func(c *ref.Value) bool { c.Set(k, ref.NullV()); return true })
	add("value-to-string", func(c *ref.Value) bool { c.Set(k, ref.S("tampered")); return true })
	add("value-type-wrap", func(c *ref.Value) bool { c.Set(k, ref.A(c.Get(k))); return true })
	// leaf edits at depth
	type slot struct {
		set func(*ref.Value)
		get *ref.Value
	}
	var leaves []slot
	var walk func(x *ref.Value)
	walk = func(x *ref.Value) {
		for i := range x.A {
			i := i
			leaves = append(leaves, slot{func(n *ref.Value) { x.A[i] = n }, x.A[i]})
			walk(x.A[i])
		}
		for i := range x.O {
			i := i
			leaves = append(leaves, slot{func(n *ref.Value) { x.O[i].Val = n }, x.O[i].Val})
			walk(x.O[i].Val)
		}
	}
	for name, edit := range map[string]func(old *ref.Value) *ref.Value{
		"nested-number-sign": func(old *ref.Value) *ref.Value {
			if old.K != ref.Num {
				return nil
			}
			if old.N[0] == '-' {
				return ref.NumLit(old.N[1:])
			}
			return ref.NumLit("-" + old.N)
		},
		"nested-number-plus1": func(old *ref.Value) *ref.Value {
			if n, ok := old.Int(); ok && n < 1<<52 {
				return ref.I(n + 1)
			}
			return nil
		},
		"nested-string-append": func(old *ref.Value) *ref.Value {
			if old.K != ref.Str {
				return nil
			}
			return ref.S(old.S + "​")
		},
		"nested-string-case": func(old *ref.Value) *ref.Value {
			if old.K != ref.Str || old.S == "" {
				return nil
			}
			return ref.S("A" + old.S[1:])
		},
		"nested-bool-flip": func(old *ref.Value) *ref.Value {
			if old.K != ref.Bool {
				return nil
			}
			return ref.B(!old.B)
		},
		"nested-array-reorder": func(old *ref.Value) *ref.Value {
			if old.K != ref.Arr || len(old.A) < 2 {
				return nil
			}
			n := old.Clone()
			n.A[0], n.A[len(n.A)-1] = n.A[len(n.A)-1], n.A[0]
			return n
		},
		"nested-array-drop": func(old *ref.Value) *ref.Value {
			if old.K != ref.Arr || len(old.A) < 1 {
				return nil
			}
			n := old.Clone()
			n.A = n.A[1:]
			return n
		},
		"nested-object-insert": func(old *ref.Value) *ref.Value {
			if old.K != ref.Obj || old.Get("injected") != nil {
				return nil
			}
			n := old.Clone()
			n.Set("injected", ref.B(true))
			return n
		},
	} {
		name, edit := name, edit
		add(name, func(c *ref.Value) bool {
			leaves = leaves[:0]
			for i := range c.O {
				if c.O[i].Key == "signatures" || c.O[i].Key == "unsigned" {
					continue
				}
				i := i
				leaves = append(leaves, slot{func(n *ref.Value) { c.O[i].Val = n }, c.O[i].Val})
				walk(c.O[i].Val)
			}
			cands := []int{}
			for i, l := range leaves {
				if edit(l.get) != nil {
					cands = append(cands, i)
				}
			}
			if len(cands) == 0 {
				return false
			}
			l := leaves[cands[r.Intn(len(cands))]]
			l.set(edit(l.get))
			return true
		})
	}
	return out
}

// c02NonObjects: whatever SignJSON returns without an error verifies - also for a text that is no JSON object, where
// the only answer that can verify is an error.
func c02NonObjects(c *mon.Ctx) {
	if c.Shard != 0 {
		return
	}
	id := gen.NewIdentity(c.RandShared("non-object-signer"), "signer.example", "ed25519:1")
	for _, text := range []string{"null", " null\n", "[]", "[1]", "1", "-0", `"x"`, "true", "false", ""} {
		c.Case("sign:non-object", map[string]any{"text": text}, func() {
			c.Nontrivial("non-object|" + text)
			var out []byte
			var err error
			site, msg, pan := mon.Guard(func() { out, err = gmsl.SignJSON(id.Server, gmsl.KeyID(id.KeyID), id.Priv, []byte(text)) })
			c.Count("non_object_sign_calls")
			if pan {
				c.Failf("sign:panic:"+site, "SignJSON(%q) panics: %s", text, msg)
				return
			}
			if err != nil {
				return
			}
			if verr := gmsl.VerifyJSON(id.Server, gmsl.KeyID(id.KeyID), id.Pub, out); verr != nil {
				c.Failf("sign:non-object:output-does-not-verify", "SignJSON(%q) returns %s without an error, and VerifyJSON refuses that: %v", text, out, verr)
			}
		})
	}
}

// c02InvalidUTF8Names: a signed, well-formed object one of whose member names contains U+FFFD, and copies of it in which
// a member with the invalid byte 0xFF in that place was inserted or substituted. A reader that turns invalid bytes into
// U+FFFD takes the two names for one; the copy is another object than the one that was signed. (SignJSON given such
// bytes itself: an error, or something that verifies.)
// c02UnpairedSurrogates: the escape of half a surrogate pair inserted into a value or a member name of a signed object
// is a change to that member (every decoder reads U+FFFD there): the signature no longer verifies. And what SignJSON
// signs verifies, so an object that already holds such an escape is refused or signed so that it does.
func c02UnpairedSurrogates(c *mon.Ctx) {
	if c.Shard != 0 {
		return
	}
	id := gen.NewIdentity(c.RandShared("surrogate-signer"), "origin.example", "ed25519:1")
	signed, err := gmsl.SignJSON(id.Server, gmsl.KeyID(id.KeyID), id.Priv, []byte(`{"amount":"pay 1","nested":{"k":["v"]},"note":"x"}`))
	if err != nil {
		panic(err)
	}
	canon := string(signed)
	for _, esc := range []string{`\udead`, `\ud800`, `\uDBFF`, `\udc00`, `\uDFFF`, `\ud800\u0041`, `\udc00\ud800`} {
		for kind, text := range map[string]string{
			"unpaired-surrogate-appended-to-value":  strings.Replace(canon, `"pay 1"`, `"pay 1`+esc+`"`, 1),
			"unpaired-surrogate-inside-value":       strings.Replace(canon, `"pay 1"`, `"pay`+esc+` 1"`, 1),
			"unpaired-surrogate-in-nested-value":    strings.Replace(canon, `["v"]`, `["`+esc+`v"]`, 1),
			"unpaired-surrogate-in-member-name":     strings.Replace(canon, `"note":`, `"note`+esc+`":`, 1),
			"unpaired-surrogate-in-nested-name":     strings.Replace(canon, `"k":`, `"`+esc+`k":`, 1),
			"member-with-unpaired-surrogate-added":  `{"amount`+esc+`":"pay 1000",` + canon[1:],
		} {
			c.Case("verify:"+kind, map[string]any{"escape": esc, "text": text}, func() {
				c.Nontrivial("surrogate|" + kind + "|" + esc)
				c.Count("unpaired_surrogate_verifications")
				if text == canon {
					c.Failf("harness:surrogate-mutation-did-not-apply", "%s", kind)
					return
				}
				if err := gmsl.VerifyJSON(id.Server, gmsl.KeyID(id.KeyID), id.Pub, []byte(text)); err == nil {
					c.Failf("verify:accepts-mutation:"+kind, "VerifyJSON accepts %s, a copy of the signed %s with the escape %s put in", text, canon, esc)
				}
			})
		}
		c.Case("sign:unpaired-surrogate", map[string]any{"escape": esc}, func() {
			for _, obj := range []string{`{"a":"x` + esc + `"}`, `{"a` + esc + `":1}`, `{"a":{"b":["` + esc + `"]}}`} {
				out, err := gmsl.SignJSON(id.Server, gmsl.KeyID(id.KeyID), id.Priv, []byte(obj))
				c.Count("unpaired_surrogate_signings")
				if err != nil {
					continue
				}
				if verr := gmsl.VerifyJSON(id.Server, gmsl.KeyID(id.KeyID), id.Pub, out); verr != nil {
					c.Failf("sign:unpaired-surrogate:output-does-not-verify", "SignJSON signs %s and VerifyJSON refuses the result %s: %v", obj, out, verr)
					continue
				}
				// signed it is: then the signature covers the escape, i.e. does not verify with it taken out
				without := strings.Replace(string(out), esc, "", 1)
				if verr := gmsl.VerifyJSON(id.Server, gmsl.KeyID(id.KeyID), id.Pub, []byte(without)); verr == nil {
					c.Failf("verify:accepts-mutation:unpaired-surrogate-removed", "SignJSON signed %s; the result verifies with the escape %s removed as well", obj, esc)
				}
			}
		})
	}
}

// c02ReplacementCharRespelled: a signed object that holds U+FFFD (the replacement character, as any text that once went
// through a lossy decoder does). A canonicaliser that folds two escapes into one character whenever the first is half a
// surrogate pair turns "\ud800\ud800", "\ud800\u0041", "\udc00\ud800" ... into that one character, while every decoder
// reads two: the copy is another object and must not verify.
func c02ReplacementCharRespelled(c *mon.Ctx) {
	if c.Shard != 0 {
		return
	}
	id := gen.NewIdentity(c.RandShared("surrogate-signer"), "origin.example", "ed25519:1")
	signed, err := gmsl.SignJSON(id.Server, gmsl.KeyID(id.KeyID), id.Priv, []byte("{\"amount\":\"pay \uFFFD1\",\"nested\":{\"k\uFFFD\":[\"v\"]},\"note\":\"x\"}"))
	if err != nil {
		c.Case("sign:replacement-char", nil, func() {
			c.Failf("sign:refuses-valid-object:replacement-char", "SignJSON refuses an object holding U+FFFD in a value and a member name: %v", err)
		})
		return
	}
	canon := string(signed)
	for _, esc := range []string{`\ud800\ud800`, `\ud800\udbff`, `\uD83D\uD83D`, `\udc00\ud800`, `\udc00\udc00`, `\ud800\u0041`, `\udbff\ufffd`, `\ud800\ufffd`, `\udfff\u0020`} {
		for kind, text := range map[string]string{
			"replacement-char-in-value-respelled-as-two-escapes": strings.Replace(canon, "pay \uFFFD1", "pay "+esc+"1", 1),
			"replacement-char-in-name-respelled-as-two-escapes":  strings.Replace(canon, "\"k\uFFFD\"", "\"k"+esc+"\"", 1),
		} {
			c.Case("verify:"+kind, map[string]any{"escape": esc, "text": text}, func() {
				c.Nontrivial("respelled|" + kind + "|" + esc)
				c.Count("replacement_char_respellings")
				if text == canon {
					c.Failf("harness:surrogate-mutation-did-not-apply", "%s", kind)
					return
				}
				if err := gmsl.VerifyJSON(id.Server, gmsl.KeyID(id.KeyID), id.Pub, []byte(text)); err == nil {
					c.Failf("verify:accepts-mutation:"+kind, "VerifyJSON accepts %s, a copy of the signed %s in which U+FFFD was replaced by the two escapes %s (two characters to every decoder)", text, canon, esc)
				}
			})
		}
	}
	// the well-formed spellings of the same character still verify
	for _, esc := range []string{`\ufffd`, `\uFFFD`} {
		text := strings.Replace(canon, "pay \uFFFD1", "pay "+esc+"1", 1)
		c.Case("verify:replacement-char-escaped", map[string]any{"text": text}, func() {
			c.Count("replacement_char_respellings")
			if err := gmsl.VerifyJSON(id.Server, gmsl.KeyID(id.KeyID), id.Pub, []byte(text)); err != nil {
				c.Failf("verify:fails-on-reserialisation:replacement-char-escaped", "VerifyJSON refuses %s, the signed object with U+FFFD written as %s: %v", text, esc, err)
			}
		})
	}
}

func c02InvalidUTF8Names(c *mon.Ctx) {
	if c.Shard != 0 {
		return
	}
	id := gen.NewIdentity(c.RandShared("utf8-signer"), "origin.example", "ed25519:1")
	for _, name := range []string{"amount\uFFFD", "\uFFFD", "a\uFFFDb\uFFFD"} {
		c.Case("sign-verify:invalid-utf8-lookalike-name", map[string]any{"name": name}, func() {
			c.Nontrivial("utf8-lookalike|" + name)
			signed, err := gmsl.SignJSON(id.Server, gmsl.KeyID(id.KeyID), id.Priv, []byte(`{"`+name+`":1,"other":true}`))
			if err != nil {
				c.Failf("sign:refuses-valid-object", "SignJSON refuses an object with the member name %s: %v", name, err)
				return
			}
			if err := gmsl.VerifyJSON(id.Server, gmsl.KeyID(id.KeyID), id.Pub, signed); err != nil {
				c.Failf("verify:rejects-own-signature", "%v", err)
				return
			}
			raw := func(n string) string { // the Go-escaped spelling above as the bytes it denotes
				s, _ := strconv.Unquote(`"` + strings.ReplaceAll(n, "\uFFFD", "\ufffd") + `"`)
				return s
			}
			canon := string(signed)
			badName := strings.ReplaceAll(raw(name), "\ufffd", "\xff")
			inserted := `{"` + badName + `":1000000,` + canon[1:]
			renamed := strings.Replace(canon, `"`+raw(name)+`"`, `"`+badName+`"`, 1)
			for kind, text := range map[string]string{"member-with-invalid-byte-inserted": inserted, "member-renamed-to-invalid-byte": renamed} {
				c.Count("invalid_utf8_lookalike_verifications")
				if text == canon {
					continue
				}
				if err := gmsl.VerifyJSON(id.Server, gmsl.KeyID(id.KeyID), id.Pub, []byte(text)); err == nil {
					c.Failf("verify:accepts-mutation:"+kind, "VerifyJSON accepts %q, a copy of the signed %q in which a member name carries the byte 0xFF where the signed name has U+FFFD", text, canon)
				}
			}
			if out, err := gmsl.SignJSON(id.Server, gmsl.KeyID(id.KeyID), id.Priv, []byte(`{"`+badName+`":1}`)); err == nil {
				if verr := gmsl.VerifyJSON(id.Server, gmsl.KeyID(id.KeyID), id.Pub, out); verr != nil {
					c.Failf("sign:invalid-utf8:output-does-not-verify", "SignJSON signs an object whose member name is not UTF-8 (%q) and VerifyJSON refuses the result: %v", out, verr)
				}
			}
		})
	}
}

// c02InvalidUTF8Signers: a signer name or key ID that is not UTF-8. SignJSON refuses, or what it returns verifies
// under that very name and key ID and under no other.
func c02InvalidUTF8Signers(c *mon.Ctx) {
	if c.Shard != 0 {
		return
	}
	id := gen.NewIdentity(c.RandShared("utf8-signer-2"), "unused.example", "ed25519:1")
	for _, nk := range [][2]string{{"srv\xff", "ed25519:1"}, {"srv.example", "ed25519:\xff"}, {"\xc3(", "ed25519:a"},
		// halves that are only valid when read together: a name ending inside a character, a key ID starting with the rest
		{"a.example\xc3", "\xa9d25519:k1"}, {"srv\xe2\x82", "\xaced25519:1"}, {"a.example\xf0\x9f", "\x98\x80:1"}} {
		c.Case("sign-verify:signer-not-utf8", map[string]any{"name": fmt.Sprintf("%q", nk[0]), "key_id": fmt.Sprintf("%q", nk[1])}, func() {
			c.Nontrivial(fmt.Sprintf("signer-not-utf8|%q|%q", nk[0], nk[1]))
			out, err := gmsl.SignJSON(nk[0], gmsl.KeyID(nk[1]), id.Priv, []byte(`{"content":{"body":"x"},"unsigned":{"age":1}}`))
			c.Count("non_utf8_signer_calls")
			if err != nil {
				return
			}
			if verr := gmsl.VerifyJSON(nk[0], gmsl.KeyID(nk[1]), id.Pub, out); verr != nil {
				c.Failf("sign:signer-not-utf8:output-does-not-verify", "SignJSON(%q, %q) returns %q without an error, and VerifyJSON under the same name and key ID refuses it: %v", nk[0], nk[1], out, verr)
				return
			}
			alias := [2]string{strings.ToValidUTF8(nk[0], "\uFFFD"), strings.ToValidUTF8(nk[1], "\uFFFD")}
			if verr := gmsl.VerifyJSON(alias[0], gmsl.KeyID(alias[1]), id.Pub, out); verr == nil {
				c.Failf("verify:accepts-under-another-name", "a signature made as %q / %q verifies as %q / %q", nk[0], nk[1], alias[0], alias[1])
			}
		})
	}
}

func runC02(c *mon.Ctx) {
	c02NonObjects(c)
	c02InvalidUTF8Names(c)
	c02UnpairedSurrogates(c)
	c02ReplacementCharRespelled(c)
	c02InvalidUTF8Signers(c)
	r := c.Rand("objects")
	sc := gen.Scramble(c.Rand("scramble"))
	n := c.Scale(1500, 400000)
	for k := 0; k < n; k++ {
		obj := gen.RandObject(r, gen.JSONOpts{Depth: r.Range(1, 4), Width: r.Range(1, 6)})
		// optionally a pre-existing unsigned / signatures member
		obj.Del("signatures")
		obj.Del("unsigned")
		preSigs := map[[2]string][]byte{}
		if r.Chance(0.4) {
			sigs := ref.O()
			for i := r.Range(1, 2); i > 0; i-- {
				nm := gen.Pick(r, signerNames)
				inner := sigs.Get(nm)
				if inner == nil {
					inner = ref.O()
					sigs.Set(nm, inner)
				}
				kid := gen.Pick(r, keyIDs)
				b := r.Bytes(64)
				enc := base64.RawStdEncoding.EncodeToString(b)
				if r.Chance(0.3) {
					enc = base64.RawURLEncoding.EncodeToString(b)
				}
				inner.Set(kid, ref.S(enc))
				preSigs[[2]string{nm, kid}] = b
			}
			obj.Set("signatures", sigs)
		} else if r.Chance(0.15) {
			obj.Set("signatures", ref.NullV()) // present, and holding nothing yet
		}
		if r.Chance(0.5) {
			obj.Set("unsigned", gen.RandValue(r, gen.JSONOpts{Depth: 2, Width: 3}))
		}
		// members that merely resemble the two special ones (other case, a letter that case-folds to ASCII) are ordinary
		// signed members
		if r.Chance(0.2) {
			for i := r.Range(1, 2); i > 0; i-- {
				k := gen.Pick(r, append(gen.FoldVariants("unsigned"), gen.FoldVariants("signatures")...))
				obj.Set(k, gen.RandValue(r, gen.JSONOpts{Depth: 2, Width: 2}))
			}
		}
		// entries under signatures that other entities put there and that are not decodable signatures: none of the
		// signer's business
		var foreign *ref.Value
		if r.Chance(0.15) {
			sigs := obj.Get("signatures")
			if sigs == nil || sigs.K != ref.Obj {
				sigs = ref.O()
				obj.Set("signatures", sigs)
			}
			foreign = gen.Pick(r, []*ref.Value{ref.O("ed25519:1", ref.S("c2ln==")), ref.O("ed25519:1", ref.S("not base64!")), ref.O("ed25519:1", ref.I(123)), ref.O("rsa:1", ref.O()), ref.O(),
				// ... or no map of signatures at all
				ref.S("not a map"), ref.I(5), ref.A(ref.S("ed25519:1")), ref.B(true), ref.NullV()})
			sigs.Set("foreign.example", foreign)
		}
		nsign := r.Range(1, 3)
		signers := make([]signer, nsign)
		for i := range signers {
			signers[i] = newSigner(r)
		}
		mr := r.Fork("mut")
		c.Case("sign-verify", map[string]any{"object": string(gen.Plain().Bytes(obj)), "signers": signerDesc(signers)}, func() {
			cur := obj
			var signedBytes []byte
			for i, s := range signers {
				text, intact := mon.Guarded(sc.Bytes(cur))
				out, err := gmsl.SignJSON(s.name, s.kid, s.priv, text)
				if d := intact(); d != "" {
					c.Failf("sign:callers-buffer-written", "SignJSON: %s", d)
				}
				if err == nil {
					c.Retain("sign", "the result of SignJSON", out)
				}
				if err != nil {
					c.Failf("sign:refuses-valid-object", "SignJSON(%q,%q) on %q: %v", s.name, s.kid, text, err)
					return
				}
				c.Count("sign_calls")
				sv, _, perr := ref.Parse(out)
				if perr != nil || sv.K != ref.Obj {
					c.Failf("sign:output-invalid-json", "SignJSON output %q: %v", out, perr)
					return
				}
				if !ref.Equal(stripSig(sv), stripSig(cur)) {
					c.Failf("sign:modifies-signed-members", "SignJSON changed the object: in %q out %q", text, out)
					return
				}
				if u := cur.Get("unsigned"); u != nil {
					if su := sv.Get("unsigned"); su == nil || !ref.Equal(u, su) {
						c.Failf("sign:unsigned-not-preserved", "unsigned lost or changed: in %q out %q", text, out)
					}
				} else if sv.Get("unsigned") != nil {
					c.Failf("sign:unsigned-invented", "unsigned appeared: in %q out %q", text, out)
				}
				for nk, b := range preSigs {
					if nk[0] == s.name && nk[1] == string(s.kid) {
						delete(preSigs, nk)
						continue
					}
					if got := sigOf(sv, nk[0], nk[1]); string(got) != string(b) {
						c.Failf("sign:earlier-signature-lost", "signature of %q/%q lost or altered after signing as %q/%q: out %q", nk[0], nk[1], s.name, s.kid, out)
					}
				}
				if foreign != nil {
					if got := sv.Get("signatures").Get("foreign.example"); got == nil || !ref.Equal(got, foreign) {
						c.Failf("sign:foreign-entry-altered", "the signatures entry of another entity was changed by signing: in %q out %q", text, out)
					}
					if err := gmsl.VerifyJSON(s.name, s.kid, s.pub, out); err != nil {
						c.Failf("verify:fails-because-of-foreign-entry", "VerifyJSON(%q,%q) fails because of another entity's undecodable entry %s: %v", s.name, s.kid, gen.Plain().Bytes(foreign), err)
						return
					}
				}
				vin, vintact := mon.Guarded(out)
				if err := gmsl.VerifyJSON(s.name, s.kid, s.pub, vin); err != nil {
					c.Failf("verify:rejects-own-signature", "VerifyJSON(%q,%q) on fresh SignJSON output %q: %v", s.name, s.kid, out, err)
					return
				}
				if d := vintact(); d != "" {
					c.Failf("verify:callers-buffer-written", "VerifyJSON: %s", d)
				}
				if !refVerify(sv, s) {
					c.Failf("sign:signature-not-over-canonical-projection", "independent ed25519 check over the canonical object without signatures/unsigned fails for %q", out)
					return
				}
				preSigs[[2]string{s.name, string(s.kid)}] = sigOf(sv, s.name, string(s.kid))
				// earlier signers of this run still verify
				for pi, p := range signers[:i] {
					overwritten := false
					for _, q := range signers[pi+1 : i+1] {
						if q.name == p.name && q.kid == p.kid {
							overwritten = true
						}
					}
					if overwritten {
						continue
					}
					if err := gmsl.VerifyJSON(p.name, p.kid, p.pub, out); err != nil {
						c.Failf("verify:fails-after-further-signer", "signature of %q/%q no longer verifies after %q/%q signed: %v", p.name, p.kid, s.name, s.kid, err)
					}
				}
				// ListKeyIDs
				want := sv.Get("signatures").Get(s.name).Keys()
				ids, err := gmsl.ListKeyIDs(s.name, out)
				got := []string{}
				for _, id := range ids {
					got = append(got, string(id))
				}
				sort.Strings(got)
				if err != nil || fmt.Sprint(got) != fmt.Sprint(want) {
					c.Failf("listkeyids:wrong", "ListKeyIDs(%q) = %v, %v; want %v on %q", s.name, got, err, want, out)
				}
				cur, signedBytes = sv, out
			}
			final := cur
			nt := 0
			for _, m := range final.O {
				if m.Key != "signatures" && m.Key != "unsigned" {
					nt++
				}
			}
			nested := false
			ref.Walk(stripSig(final), func(x *ref.Value) {
				if x != nil && (x.K == ref.Arr || x.K == ref.Obj) {
					nested = true
				}
			})
			_ = nested
			hasNested := false
			for _, m := range stripSig(final).O {
				if m.Val.K == ref.Arr || m.Val.K == ref.Obj {
					hasNested = true
				}
			}
			if nt >= 2 && hasNested {
				c.NontrivialBytes(signedBytes)
			}
			last := signers[len(signers)-1]
			live := []signer{}
			seen := map[[2]string]bool{}
			for i := len(signers) - 1; i >= 0; i-- {
				s := signers[i]
				if !seen[[2]string{s.name, string(s.kid)}] {
					seen[[2]string{s.name, string(s.kid)}] = true
					live = append(live, s)
				}
			}
			// completeness under re-serialisation and unsigned edits
			for p := 0; p < 4; p++ {
				t := sc.Bytes(final)
				if p == 3 {
					// every "/" written "\/" and nothing else touched, as some encoders do by default: base64 signatures
					// are full of them
					t = (&gen.Render{Solidus: true}).Bytes(final)
				}
				for _, s := range live {
					c.Count("verify_reserialised")
					if err := gmsl.VerifyJSON(s.name, s.kid, s.pub, t); err != nil {
						c.Failf("verify:fails-on-reserialisation", "VerifyJSON(%q,%q) on a re-serialisation %q of %q: %v", s.name, s.kid, t, signedBytes, err)
					}
				}
			}
			for _, ed := range []func(*ref.Value){
				func(x *ref.Value) { x.Set("unsigned", ref.O("age", ref.I(5), "x", ref.A(ref.S("y")))) },
				func(x *ref.Value) { x.Del("unsigned") },
				func(x *ref.Value) { x.Set("unsigned", ref.NullV()) },
			} {
				x := final.Clone()
				ed(x)
				t := sc.Bytes(x)
				for _, s := range live {
					c.Count("verify_unsigned_edit")
					if err := gmsl.VerifyJSON(s.name, s.kid, s.pub, t); err != nil {
						c.Failf("verify:fails-after-unsigned-edit", "VerifyJSON(%q,%q) after editing unsigned: %q: %v", s.name, s.kid, t, err)
					}
				}
			}
			// soundness: mutations
			for mname, m := range mutations(mr, final) {
				t := sc.Bytes(m)
				for _, s := range live {
					c.Count("verify_mutated")
					if refVerify(m, s) {
						panic("harness bug: reference verifies a mutated object: " + mname)
					}
					if err := gmsl.VerifyJSON(s.name, s.kid, s.pub, t); err == nil {
						c.Failf("verify:accepts-mutation:"+mname, "VerifyJSON(%q,%q) accepts %q, a %s mutation of signed %q", s.name, s.kid, t, mname, signedBytes)
					}
				}
			}
			// soundness: identity changes
			other := newSigner(mr)
			t := gen.Plain().Bytes(final)
			chk := func(kind string, name string, kid gmsl.KeyID, pub ed25519.PublicKey, text []byte) {
				c.Count("verify_identity")
				if err := gmsl.VerifyJSON(name, kid, pub, text); err == nil {
					c.Failf("verify:accepts-identity:"+kind, "VerifyJSON(%q,%q) accepts %q (%s)", name, kid, text, kind)
				}
			}
			// "every other name": not only unrelated names but names a lenient comparison would equate
			for kind, nm := range map[string]string{"other-name": last.name + "x", "name-upper-case": strings.ToUpper(last.name), "name-lower-case": strings.ToLower(last.name),
				"name-title-case": strings.ToUpper(last.name[:1]) + last.name[1:], "name-trailing-dot": last.name + ".", "name-prefix": last.name[:len(last.name)-1],
				"name-trailing-space": last.name + " ", "name-leading-space": " " + last.name, "name-empty": "", "name-nul-suffix": last.name + "\x00"} {
				if nm != last.name && final.Get("signatures").Get(nm) == nil {
					chk(kind, nm, last.kid, last.pub, t)
				}
			}
			for kind, kid := range map[string]string{"other-key-id": string(last.kid) + "x", "key-id-upper-case": strings.ToUpper(string(last.kid)), "key-id-lower-case": strings.ToLower(string(last.kid)),
				"key-id-prefix": string(last.kid)[:len(last.kid)-1], "key-id-trailing-space": string(last.kid) + " ", "key-id-empty": ""} {
				if kid != string(last.kid) && final.Get("signatures").Get(last.name).Get(kid) == nil {
					chk(kind, last.name, gmsl.KeyID(kid), last.pub, t)
				}
			}
			chk("other-public-key", last.name, last.kid, other.pub, t)
			// signature bit flip / truncation
			sig := sigOf(final, last.name, string(last.kid))
			for kind, nb := range map[string][]byte{
				"sig-bit-flip":  flipBit(sig, mr.Intn(len(sig)*8)),
				"sig-truncated": sig[:63],
				"sig-extended":  append(append([]byte{}, sig...), 0),
				"sig-empty":     {},
			} {
				x := final.Clone()
				x.Get("signatures").Get(last.name).Set(string(last.kid), ref.S(base64.RawStdEncoding.EncodeToString(nb)))
				chk(kind, last.name, last.kid, last.pub, gen.Plain().Bytes(x))
			}
			// a signature by one signer presented under another signer's name
			if len(live) >= 2 && (live[0].name != live[1].name) {
				x := final.Clone()
				a, b := live[0], live[1]
				sa := x.Get("signatures").Get(a.name).Get(string(a.kid))
				x.Get("signatures").Get(b.name).Set(string(b.kid), sa)
				chk("swapped-signature", b.name, b.kid, b.pub, gen.Plain().Bytes(x))
			}
			if c.WantSample() && len(signedBytes) < 600 {
				c.Sample(map[string]any{"signed": string(signedBytes), "signers": signerDesc(signers)})
			}
		})
	}
	c02DuplicateMembers(c)
	c.Floor("sign_calls", 50)
	c.Floor("verify_mutated", 200)
}

func flipBit(b []byte, i int) []byte {
	o := append([]byte{}, b...)
	o[i/8] ^= 1 << uint(i%8)
	return o
}

func signerDesc(ss []signer) []string {
	out := []string{}
	for _, s := range ss {
		out = append(out, s.name+"/"+string(s.kid))
	}
	return out
}

// c02DuplicateMembers: a member inserted into a signed object under a name the object already has. The signed text has
// changed, readers that take the first copy (or the last) see another value: the signature must not verify. An object
// that repeats a name to begin with is either refused by SignJSON or signed in a way that verifies.
func c02DuplicateMembers(c *mon.Ctx) {
	if c.Shard != 0 {
		return
	}
	r := c.Rand("duplicates")
	n := c.Scale(40, 4000)
	for k := 0; k < n; k++ {
		s := newSigner(r)
		obj := gen.RandObject(r, gen.JSONOpts{Depth: 2, Width: r.Range(1, 14), PlainKey: true})
		obj.Del("signatures")
		obj.Del("unsigned")
		if len(obj.O) == 0 {
			obj.Set("amount", ref.I(1))
		}
		c.Case("duplicate-member", map[string]any{"object": string(gen.Plain().Bytes(obj)), "signer": s.name}, func() {
			signed, err := gmsl.SignJSON(s.name, s.kid, s.priv, gen.Plain().Bytes(obj))
			if err != nil {
				return
			}
			c.Nontrivial("dup|" + string(signed))
			sv := ref.MustParse(signed)
			victim := gen.Pick(r, obj.O)
			forged := ref.Member{Key: victim.Key, Val: ref.S("substituted")}
			for _, where := range []string{"first", "last"} {
				tv := sv.Clone()
				if where == "first" {
					tv.O = append([]ref.Member{forged}, tv.O...)
				} else {
					tv.O = append(tv.O, forged)
				}
				text := gen.Plain().Bytes(tv)
				c.Count("duplicate_member_verifications")
				if err := gmsl.VerifyJSON(s.name, s.kid, s.pub, text); err == nil {
					c.Failf("verify:accepts-mutation:duplicate-member-inserted", "VerifyJSON(%q,%q) accepts %q: a second member %q was inserted (%s) into the signed %q", s.name, s.kid, text, victim.Key, where, signed)
				}
			}
			// the inserted copy spelled with an escape: the same name to every JSON reader
			{
				name := []rune(victim.Key)
				if len(name) > 0 && name[0] < 0x10000 {
					esc := fmt.Sprintf(`"\u%04x%s":"substituted",`, name[0], strings.ReplaceAll(strings.ReplaceAll(string(name[1:]), `\`, `\\`), `"`, `\"`))
					if i := bytes.IndexByte(signed, '{'); i >= 0 {
						text := append(append(append([]byte{}, signed[:i+1]...), esc...), signed[i+1:]...)
						if _, _, perr := ref.Parse(text); perr == nil {
							c.Count("duplicate_member_verifications")
							if err := gmsl.VerifyJSON(s.name, s.kid, s.pub, text); err == nil {
								c.Failf("verify:accepts-mutation:duplicate-member-inserted:escaped-name", "VerifyJSON(%q,%q) accepts %q: a second member %q, spelled with an escape, was inserted in front of the signed one", s.name, s.kid, text, victim.Key)
							}
						}
					}
				}
			}
			// signing an object that repeats a name
			dv := ref.MustParse(gen.Plain().Bytes(obj))
			dv.O = append(dv.O, ref.Member{Key: victim.Key, Val: ref.I(2)})
			dtext := gen.Plain().Bytes(dv)
			if out, err := gmsl.SignJSON(s.name, s.kid, s.priv, dtext); err == nil {
				c.Count("duplicate_member_objects_signed")
				if err := gmsl.VerifyJSON(s.name, s.kid, s.pub, out); err != nil {
					c.Failf("verify:rejects-own-signature:duplicate-member", "SignJSON signs %q without complaint but its output %q does not verify: %v", dtext, out, err)
				}
			} else {
				c.Count("duplicate_member_objects_refused")
			}
		})
	}
}
